(* Property C23 "Logon acceptance and CompID identity are enforced consistently".
   Theorems about the session model coq/Sess/Session.v (Session::process -> handle_logon, tied to the real code
   by the correspondence run) and about coq/C23/SessionID.v (the comparison members of FIX8::SessionID, tied by
   calling the real operators).  They hold for every schema with schema_ok (checked by the driver on the
   metadata of the generated code), every decoder, all CompID strings, flags, client lists and persisters.
   Notation: for a decoded Logon m, lg_sci m / lg_tci m are its Sender/TargetCompID, lg_hbi m its HeartBtInt,
   lg_reset m its ResetSeqNumFlag;  acc_idok s m = (enforcement off) || own CompID = lg_tci m;
   acc_listed s m = (no client list) || lg_sci m listed;  acc_numbers = the reset / recovery of the two numbers. *)
From Coq Require Import NArith ZArith List Bool.
From F8 Require Import Sess.Bytes Sess.Msg Sess.Persist Sess.Session Sess.Wire
  C22.Hyp C22.Spec_C22 C22.SendLemmas C22.HbProofs C22.Demo
  C23.SessionID C23.Spec_C23 C23.SidProofs C23.LogonProofs C23.Demo23.
Import ListNotations.
Local Open Scope N_scope.

(* An acceptor that is not yet logged on refuses a Logon failing either test: process returns false, nothing is
   sent, the session is stopped and terminated. *)
Theorem c23_acceptor_refuses : forall sc decode fl now raw s rest q m,
  find_after pat_34 raw = Some rest -> fast_atoi_u rest SOH 0 = Some q -> decode raw = DecOk m ->
  m_type m = mt_logon -> s_role s = Acceptor -> s_state s <> st_continuous ->
  acc_idok s m && acc_listed s m = false ->
  exists s', process sc decode fl now raw s = (false, s', []) /\
             s_state s' = st_session_terminated /\ is_shutdown s' = true /\ s_hb s' = s_hb s.
Proof. exact acceptor_refuses. Qed.
Print Assumptions c23_acceptor_refuses.

(* Hence the logon completes ONLY when TargetCompID is the acceptor's own CompID (under enforcement) and the
   sender is listed (when a list is configured). *)
Theorem c23_acceptor_only : forall sc decode fl now raw s rest q m b s' e,
  find_after pat_34 raw = Some rest -> fast_atoi_u rest SOH 0 = Some q -> decode raw = DecOk m ->
  m_type m = mt_logon -> s_role s = Acceptor -> s_state s <> st_continuous ->
  process sc decode fl now raw s = (b, s', e) -> s_state s' = st_continuous ->
  acc_idok s m && acc_listed s m = true.
Proof. exact acceptor_only. Qed.
Print Assumptions c23_acceptor_only.

(* A Logon passing both tests, carrying the expected sequence number, completes: exactly one message goes out,
   a Logon echoing HeartBtInt; the session is continuous, has adopted the interval and the identity
   (sender := TargetCompID, target := SenderCompID of the Logon); both numbers are those of acc_numbers plus
   one -- i.e. 2 and 2 when ResetSeqNumFlag=Y (c23_acceptor_reset). *)
Theorem c23_acceptor_accepts : forall sc, schema_ok sc = true -> forall decode fl now raw s rest q m,
  find_after pat_34 raw = Some rest -> fast_atoi_u rest SOH 0 = Some q -> decode raw = DecOk m ->
  m_type m = mt_logon -> s_role s = Acceptor -> s_state s <> st_continuous ->
  s_closed s = false -> s_batch s = [] -> no_soh (lg_sci m) = true -> no_soh (lg_tci m) = true ->
  acc_idok s m && acc_listed s m = true ->
  let s1 := acc_numbers (lg_reset m) (w_state st_logon_received s) in
  q = s_next_recv s1 ->
  exists s' out,
    process sc decode fl now raw s = (true, s', [EOut out]) /\
    kind_of out = KLogon (Some (dec (lg_hbi m))) /\
    s_state s' = st_continuous /\ s_hb s' = lg_hbi m /\
    s_snd s' = lg_tci m /\ s_tgt s' = lg_sci m /\
    s_next_send s' = s_next_send s1 + 1 /\ s_next_recv s' = s_next_recv s1 + 1 /\ s_shutdown s' = s_shutdown s.
Proof. exact acceptor_accepts. Qed.
Print Assumptions c23_acceptor_accepts.

(* ResetSeqNumFlag=Y resets both sequence numbers to 1 (whatever the persister holds and whatever numbers were
   requested at start). *)
Theorem c23_acceptor_reset : forall s,
  s_next_send (acc_numbers true s) = 1 /\ s_next_recv (acc_numbers true s) = 1.
Proof. intro s. split; reflexivity. Qed.
Print Assumptions c23_acceptor_reset.

(* operator== is equality of identities. *)
Theorem c23_eq_char : forall a b, sid_eq a b = true <-> a = b.
Proof. exact sid_eq_char. Qed.
Print Assumptions c23_eq_char.

(* Identity is the PAIR of CompIDs -- no rendering of it takes part in the comparison. *)
Theorem c23_identity_is_pair : forall a b, sid_eq a b = true <-> sid_snd a = sid_snd b /\ sid_tgt a = sid_tgt b.
Proof. exact sid_eq_pair. Qed.
Print Assumptions c23_identity_is_pair.

(* In particular not the printable id "<Begin>:<sender>-><target>" (SessionID::make_id / get_id), which is not
   injective because "->" may occur inside a CompID: (A->B, C) and (A, B->C) print identically for every
   BeginString, yet they are different identities (== false, != true).  And the session model agrees: the
   initiator (A->B, C) treats the Logon response 49=B->C 56=A as a mismatch (state 2), 49=C 56=A->B completes. *)
Theorem c23_printable_id_not_injective :
  (forall begin, amb1 <> amb2 /\ sid_print begin amb1 = sid_print begin amb2 /\
                 sid_eq amb1 amb2 = false /\ sid_ne amb1 amb2 = true) /\
  (let ops := demo_amb_ops id_BC [65] in
   sid_print begin_42 (mkSid id_AB [67]) = sid_print begin_42 (mkSid [65] id_BC) /\
   c23_hist_ok ops (run_history demo_schema ops) = true /\
   map (fun st => match st_snap st with Some sn => sn_state sn | None => 99 end) (run_history demo_schema ops) = [5; 2]) /\
  (let ops := demo_amb_ops [67] id_AB in
   c23_hist_ok ops (run_history demo_schema ops) = true /\
   map (fun st => match st_snap st with Some sn => sn_state sn | None => 99 end) (run_history demo_schema ops) = [5; 1]).
Proof. split; [exact sid_print_not_injective|vm_compute; repeat split]. Qed.
Print Assumptions c23_printable_id_not_injective.

(* Session identities compare unequal exactly when they are not equal (since the repair ab2c959). *)
Theorem c23_neq : forall a b, sid_ne a b = negb (sid_eq a b).
Proof. exact sid_ne_negb_eq. Qed.
Print Assumptions c23_neq.

Theorem c23_neq_char : forall a b, sid_ne a b = true <-> a <> b.
Proof. exact sid_ne_char. Qed.
Print Assumptions c23_neq_char.

(* Before ab2c959 (DESIGN F28) operator!= was the CONJUNCTION of the component inequalities (sid_ne_orig, not part
   of the tied model any more): A->B != A->C was false while A->B == A->C was false too. *)
Theorem c23_neq_orig_refuted :
  (forall a b, sid_ne_orig a b = true <-> (sid_snd a <> sid_snd b /\ sid_tgt a <> sid_tgt b)) /\
  (exists a b, a <> b /\ sid_eq a b = false /\ sid_ne_orig a b = false /\ sid_ne a b = true).
Proof. exact (conj sid_ne_orig_char sid_ne_orig_refuted). Qed.
Print Assumptions c23_neq_orig_refuted.

(* The initiator clause at full strength: under enforcement a Logon response whose CompIDs do not mirror the
   initiator's identity -- TargetCompID or SenderCompID wrong, either one suffices -- is a mismatch: process
   returns false, nothing is sent, the session is stopped and terminated (for every sequence number). *)
Theorem c23_initiator : forall sc decode fl now raw s rest q m,
  find_after pat_34 raw = Some rest -> fast_atoi_u rest SOH 0 = Some q -> decode raw = DecOk m ->
  m_type m = mt_logon -> s_role s = Initiator -> s_state s <> st_continuous ->
  pr_ec (s_par s) = true -> (lg_tci m <> s_snd s \/ lg_sci m <> s_tgt s) ->
  exists s', process sc decode fl now raw s = (false, s', []) /\
             s_state s' = st_session_terminated /\ is_shutdown s' = true.
Proof. exact initiator_not_mirrored. Qed.
Print Assumptions c23_initiator.

(* Hence, under enforcement, the logon completes ONLY for a mirrored response ... *)
Theorem c23_initiator_only : forall sc decode fl now raw s rest q m b s' e,
  find_after pat_34 raw = Some rest -> fast_atoi_u rest SOH 0 = Some q -> decode raw = DecOk m ->
  m_type m = mt_logon -> s_role s = Initiator -> s_state s <> st_continuous -> pr_ec (s_par s) = true ->
  process sc decode fl now raw s = (b, s', e) -> s_state s' = st_continuous ->
  lg_tci m = s_snd s /\ lg_sci m = s_tgt s.
Proof. exact initiator_only. Qed.
Print Assumptions c23_initiator_only.

(* ... and a mirrored response (or any response when enforcement is off) with the expected number does complete it. *)
Theorem c23_initiator_accepts : forall sc decode fl now raw s rest q m,
  find_after pat_34 raw = Some rest -> fast_atoi_u rest SOH 0 = Some q -> decode raw = DecOk m ->
  m_type m = mt_logon -> s_role s = Initiator -> s_state s <> st_continuous ->
  sid_ne (own_sid s) (logon_sid m) && pr_ec (s_par s) = false ->
  q = s_next_recv s ->
  exists s', process sc decode fl now raw s = (true, s', []) /\
             s_state s' = st_continuous /\ s_next_recv s' = s_next_recv s + 1 /\
             s_snd s' = s_snd s /\ s_tgt s' = s_tgt s /\ s_shutdown s' = s_shutdown s.
Proof. exact initiator_accepts. Qed.
Print Assumptions c23_initiator_accepts.

(* On whole histories with the oracle (model of "START I none sid=CLI:SRV | IN <Logon 49=.. 56=..>"): the
   mirrored response completes the logon; the response SRV->XXX (exactly one wrong CompID: the input that F28 let
   through) and the response XXX->XXX end in session_terminated; c23_hist_ok holds for all three. *)
Theorem c23_initiator_witness :
  schema_ok demo_schema = true /\
  (let ops := demo_initiator_ops id_SRV id_CLI in
   c23_hist_ok ops (run_history demo_schema ops) = true /\
   map (fun st => match st_snap st with Some sn => sn_state sn | None => 99 end) (run_history demo_schema ops) = [5; 1]) /\
  (let ops := demo_initiator_ops id_SRV id_XXX in
   c23_hist_ok ops (run_history demo_schema ops) = true /\
   map (fun st => match st_snap st with Some sn => sn_state sn | None => 99 end) (run_history demo_schema ops) = [5; 2]) /\
  (let ops := demo_initiator_ops id_XXX id_XXX in
   c23_hist_ok ops (run_history demo_schema ops) = true /\
   map (fun st => match st_snap st with Some sn => sn_state sn | None => 99 end) (run_history demo_schema ops) = [5; 2]).
Proof. vm_compute. repeat split. Qed.
Print Assumptions c23_initiator_witness.

(* The hypotheses are met by non-trivial inputs: the demo schema is admissible; an acceptor SRV (enforcement on,
   client list [CLI]) and the Logon CLI->SRV satisfy both tests, the Logon CLI->XXX fails the first, XXX->SRV the
   second; the model accepts / refuses accordingly and the oracle agrees. *)
Theorem c23_nonvacuous :
  schema_ok demo_schema = true /\
  (let ops := demo_acceptor_ops true [id_CLI] id_CLI id_SRV in
   c23_hist_ok ops (run_history demo_schema ops) = true /\
   map (fun st => match st_snap st with Some sn => sn_state sn | None => 99 end) (run_history demo_schema ops) = [3; 1]) /\
  (let ops := demo_acceptor_ops true [id_CLI] id_CLI id_XXX in
   c23_hist_ok ops (run_history demo_schema ops) = true /\
   map (fun st => match st_snap st with Some sn => sn_state sn | None => 99 end) (run_history demo_schema ops) = [3; 2]) /\
  (let ops := demo_acceptor_ops true [id_CLI] id_XXX id_SRV in
   map (fun st => match st_snap st with Some sn => sn_state sn | None => 99 end) (run_history demo_schema ops) = [3; 2]).
Proof. vm_compute. repeat split. Qed.
Print Assumptions c23_nonvacuous.
