(* Property C06 -- "Length-prefixed data fields carry arbitrary bytes".
   Only theorem statements; each is closed by [exact] of a lemma of C06/TokenLemmas.v,
   C06/PairProofs.v or C06/Witness6.v and followed by Print Assumptions.
     extract_element_fixed_width, dec_loop, factory = the model of include/fix8/message.hpp and
                  runtime/message.cpp (coq/Codec/Extract.v, Decode.v)
     field_tok f v = the wire token  itoa(f) '=' v SOH
     c06_ok       = the property on observations (C06/Spec_C06.v)
   The property holds for pairs with data tag = length tag + 1 at message level (header, body,
   trailer tables) and content without NUL; it is FALSE (finding F14) for
   SignatureLength(93)/Signature(89), inside repeating groups, and for content with NUL. *)
From Coq Require Import NArith ZArith List Bool String.
From F8 Require Import Codec.Bytes Codec.Meta Codec.Extract Codec.Decode Codec.Encode Codec.Render Codec.Example
                       C05.Spec_C05 C05.Obs C06.Spec_C06 C06.Pairs C06.TokenLemmas C06.PairProofs C06.Witness6.
Import ListNotations.
Local Open Scope N_scope.

(* The primitive: on  tag '=' content <anything>  with the announced size = the length of the
   content, extract_element_fixed_width returns the tag, the content UNCHANGED -- for arbitrary
   content bytes: SOH, '=', NUL, >= 0x80 -- and the number of bytes up to and including the
   separator position.  (Induction on the tag digits and on the content.)  The bounds are those
   of the bounded extractor: lenN tag < tcap (room for the terminating NUL) and lenN content <
   vcap = val[FIX8_MAX_FLD_LENGTH], i.e. contents of at most 2047 bytes. *)
Theorem c06_fixed_width_exact :
  forall (tag content rest : list N) (sz tcap vcap : N),
    all_digits tag -> lenN tag < tcap -> lenN content < vcap ->
    lenN tag + 1 + lenN content <= sz ->
    extract_element_fixed_width (tag ++ EQC :: content ++ rest) sz (lenN content) tcap vcap
    = XOk tag content (lenN tag + 1 + lenN content + 1).
Proof. exact xfw_exact. Qed.
Print Assumptions c06_fixed_width_exact.

(* One turn of MessageBase::decode's loop (strict or permissive, any schema, any object state,
   any position in the string) standing at a pair  L=<n>|L+1=<content>|  with n = the decimal
   length of the content <= 2047, L a Length field not yet present, L+1 a data field of the same
   table: both fields are stored
   -- the data field with value [cstr content], i.e. the content up to its first NUL -- and the
   loop continues with the rest of the string exactly behind the pair ("the fields after it
   decode correctly"), whatever bytes the content consists of. *)
Theorem c06_header_body_step :
  forall (c : ctx) (cp : caps) (from : list N) (fsize : N) (permissive : bool) (gfuel : nat),
  cap_tag cp = MAX_FLD_LENGTH -> cap_val cp = MAX_FLD_LENGTH ->
  forall fuel m off pos lvp lvo tb L content rest trL trD tyL tyD,
  let n := lenN content in
  let tok1 := field_tok L (itoa_N n) in
  let tok2 := field_tok (L + 1) content in
  skipN off from = tok1 ++ tok2 ++ rest ->
  off + lenN tok1 + lenN tok2 <= fsize ->
  n <= MAX_FLD_LENGTH - 1 ->
  L + 1 < 65536 -> L <> Common_BodyLength ->
  find_trait (mb_fp m) L = Some trL -> t_present trL = false -> t_ftype trL = ft_Length -> t_group trL = false ->
  find_trait (mb_fp m) (L + 1) = Some trD -> t_ftype trD = ft_data -> t_group trD = false ->
  find_be (c_fields c) L = Some tyL -> find_be (c_fields c) (L + 1) = Some tyD ->
  let pos1 := (pos + 1) mod 4294967296 in
  let pos2 := (pos1 + 1) mod 4294967296 in
  let m1 := mark_present (add_field_decoder m L pos1 (itoa_N n)) L in
  let m3 := mark_present (add_field_decoder m1 (L + 1) pos2 (cstr content)) (L + 1) in
  skipN (off + lenN tok1 + lenN tok2) from = rest /\
  exists tb2,
    dec_loop c cp from fsize permissive gfuel (S fuel) m off pos lvp lvo tb =
    dec_loop c cp from fsize permissive gfuel fuel m3 (off + lenN tok1 + lenN tok2) pos2 lvp lvo tb2.
Proof. exact dec_pair_step. Qed.
Print Assumptions c06_header_body_step.

(* c06_header_body_partial: the same with the exact boolean side conditions of the property:
   content without NUL, neither tag decoded before.  Then the _fields map of the object the loop
   continues with holds the Length text and the content itself.
   (Since /repo ce1e2cc extract_element_fixed_width NUL-terminates tag[]: the former side condition
   "both tags have the same number of digits" -- stale digits of the previous tag -- is gone.) *)
Theorem c06_header_body_partial :
  forall (c : ctx) (cp : caps) (from : list N) (fsize : N) (permissive : bool) (gfuel : nat),
  cap_tag cp = MAX_FLD_LENGTH -> cap_val cp = MAX_FLD_LENGTH ->
  forall fuel m off pos lvp lvo tb L content rest trL trD tyL tyD,
  let n := lenN content in
  let tok1 := field_tok L (itoa_N n) in
  let tok2 := field_tok (L + 1) content in
  no_nul content ->
  skipN off from = tok1 ++ tok2 ++ rest ->
  off + lenN tok1 + lenN tok2 <= fsize ->
  n <= MAX_FLD_LENGTH - 1 ->
  L + 1 < 65536 -> L <> Common_BodyLength ->
  find_trait (mb_fp m) L = Some trL -> t_present trL = false -> t_ftype trL = ft_Length -> t_group trL = false ->
  find_trait (mb_fp m) (L + 1) = Some trD -> t_ftype trD = ft_data -> t_group trD = false ->
  find_be (c_fields c) L = Some tyL -> find_be (c_fields c) (L + 1) = Some tyD ->
  map_find L (mb_fields m) = None -> map_find (L + 1) (mb_fields m) = None ->
  exists m3 pos2 tb2,
    dec_loop c cp from fsize permissive gfuel (S fuel) m off pos lvp lvo tb =
    dec_loop c cp from fsize permissive gfuel fuel m3 (off + lenN tok1 + lenN tok2) pos2 lvp lvo tb2 /\
    skipN (off + lenN tok1 + lenN tok2) from = rest /\
    map_find L (mb_fields m3) = Some (itoa_N n) /\
    map_find (L + 1) (mb_fields m3) = Some content.
Proof. exact dec_pair_step_no_nul. Qed.
Print Assumptions c06_header_body_partial.

(* Refutations (finding F14), each with in_domain = true, the decoder ACCEPTING the message and
   c06_ok = false on the model's result:
   (a) SignatureLength(93)/Signature(89): the test "lasttv + 1 != tv" rejects the pair, decoding
       falls back to SOH-delimited extraction: 93=3|89=a|b| gives Signature = "a";
   (b) inside a repeating group (354/355 in group 73) decode_group has no Length handling:
       355=a|9999=b gives EncodedText = "a";
   (c) a NUL in the content (95=3|96=a\0b|): the value is handed to the field constructor as a
       C string: RawData = "a" (the field after the pair is still decoded). *)
Theorem c06_refuted :
  (in_domain (pairs_of_ctx ex6_ctx) x_trl = true /\ c06_run ex6_ctx x_trl w_trl = false /\
   trl_fields ex6_ctx w_trl = Some [(10, bs "014"); (89, bs "a"); (93, bs "3")]) /\
  (in_domain (pairs_of_ctx ex6_ctx) x_grp = true /\ c06_run ex6_ctx x_grp w_grp = false /\
   match factory ex6_ctx real_caps w_grp false false with
   | Ok m => match mb_groups (m_body m) with
             | [(73, [e])] => mb_fields e = [(11, bs "id"); (354, bs "8"); (355, bs "a")]
             | _ => False end
   | _ => False end) /\
  (in_domain (pairs_of_ctx ex6_ctx) x_nul = true /\ c06_run ex6_ctx x_nul w_nul = false /\
   body_fields ex6_ctx w_nul = Some [(58, bs "after"); (95, bs "3"); (96, bs "a")]).
Proof. exact c06_refuted_lemma. Qed.
Print Assumptions c06_refuted.

(* Non-vacuity: on the example schema the body pair 95/96 with content a|=|b followed by
   58=after, and the header pair 90/91 with content ||| are in the property's domain and decode
   with c06_ok = true; and the hypotheses of c06_header_body_partial are met by the body decoder
   standing at offset 35 of that message. *)
Theorem c06_nonvacuous :
  pairs_of_ctx ex6_ctx = [(90, 91); (93, 89); (95, 96); (354, 355)] /\
  in_domain (pairs_of_ctx ex6_ctx) x_body = true /\ c06_run ex6_ctx x_body w_body = true /\
  in_domain (pairs_of_ctx ex6_ctx) x_hdr = true /\ c06_run ex6_ctx x_hdr w_hdr = true /\
  body_fields ex6_ctx w_body = Some [(58, bs "after"); (95, bs "5"); (96, bs "a|=|b")].
Proof. exact c06_nonvacuous_lemma. Qed.
Print Assumptions c06_nonvacuous.

Theorem c06_step_nonvacuous :
  exists m3 pos2 tb2,
    dec_loop ex6_ctx real_caps inst_from (lenN inst_from) false (dec_fuel inst_from) 3 inst_m 35 0 None 0 [] =
    dec_loop ex6_ctx real_caps inst_from (lenN inst_from) false (dec_fuel inst_from) 2 m3 49 pos2 None 0 tb2 /\
    skipN 49 inst_from = bs "58=after|10=229|" /\
    map_find 95 (mb_fields m3) = Some (bs "5") /\
    map_find 96 (mb_fields m3) = Some inst_content.
Proof. exact c06_step_instance_lemma. Qed.
Print Assumptions c06_step_nonvacuous.
