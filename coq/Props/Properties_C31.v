(* Property C31 — "Timer events fire no earlier than scheduled and in due order".
   Only theorem statements: each is closed by [exact] of a lemma proved in C31/TimerProofs.v and
   followed by Print Assumptions.

   Vocabulary.  [run res ops init] executes an ARBITRARY sequence [ops] of operations on the
   model of Timer<T> (C31/Timer.v): schedule(ev, ms), clear(), or one pass of the loop body of
   the timer thread, each paired with the clock value it reads; the oracle [k] of a loop pass
   says which of several queue elements of equal minimal due time is the top (so every statement
   holds for every tie-breaking, see c31_tiebreak_complete); [res cb n] is the return value of
   the n-th run of callback cb (arbitrary).  [hist] is the observable history of the run and
   [c31_mon] the monitor of C31/Spec_C31.v, which checks the four clauses of the property (and
   one extra clause) on a history.  [op_wf]: the clock is not before the epoch and the delay
   fits an unsigned.  The clock values need NOT be monotone: every comparison the code makes is
   against the clock value of the same loop pass. *)
From Coq Require Import ZArith List Bool.
From F8 Require Import C31.Spec_C31 C31.Timer C31.TimerProofs.
From F8 Require C31.TimerUnlocked.
Import ListNotations.
Local Open Scope Z_scope.

(* Clause 1: a callback never runs before its due time (monitor form: the run of an event armed
   by a schedule call at t0 with delay ms happens at a clock value >= t0 + ms*10^6; a run of an
   event that was never scheduled also counts against this clause). *)
Theorem c31_not_early : forall res ops, forallb op_wf ops = true ->
  ok_ne (verd (c31_mon (hist (run res ops init)))) = true.
Proof. exact c31_not_early_lemma. Qed.
Print Assumptions c31_not_early.

(* Clause 1 once more without the monitor: every callback run recorded in the history is
   preceded by a schedule call of that event whose due time had passed. *)
Theorem c31_not_early_direct : forall res ops, forallb op_wf ops = true ->
  forall id cb t r, In (HFire id cb t r) (hist (run res ops init)) ->
  exists rep ms t0, In (HSched id cb rep ms t0) (hist (run res ops init)) /\ 1 <= ms /\ t0 + ms * MILLION <= t.
Proof. exact c31_not_early_direct_lemma. Qed.
Print Assumptions c31_not_early_direct.

(* Clause 2: whenever a callback runs, no other pending event has an earlier due time (hence
   two pending events with due1 < due2 run in that order). *)
Theorem c31_due_order : forall res ops, forallb op_wf ops = true ->
  ok_ord (verd (c31_mon (hist (run res ops init)))) = true.
Proof. exact c31_due_order_lemma. Qed.
Print Assumptions c31_due_order.

(* Clause 3: a repeating event runs again no sooner than its interval after the previous run,
   only if that run returned true; a non-repeating event runs at most once. *)
Theorem c31_repeat : forall res ops, forallb op_wf ops = true ->
  ok_rep (verd (c31_mon (hist (run res ops init)))) = true.
Proof. exact c31_repeat_lemma. Qed.
Print Assumptions c31_repeat.

(* Clause 4: an event that was pending when clear() was called never runs afterwards.  clear()
   is a step of ANY thread, placed anywhere between two other steps of [ops]; a pass of the timer
   loop over a due event (pop, callback, push-back of a repeating event) is one step because the
   loop holds _spin_lock across all of it and clear() takes the same lock: "at arbitrary moments"
   therefore means between two such steps - a clear() issued while a callback runs takes effect
   after the push-back and removes the re-queued event (see c31_clear_unlocked_refuted for the
   loop without that). *)
Theorem c31_clear : forall res ops, forallb op_wf ops = true ->
  ok_clr (verd (c31_mon (hist (run res ops init)))) = true.
Proof. exact c31_clear_lemma. Qed.
Print Assumptions c31_clear.

(* Clause 4 once more without the monitor: in the history after a clear() no event that was
   scheduled before that clear() runs (whatever is executed before and after it). *)
Theorem c31_clear_direct : forall res ops1 now ops2,
  let s1 := run res ops1 init in
  let s2 := run res ops2 (clear now s1) in
  exists h', hist s2 = hist s1 ++ [HClear now (length (q s1))] ++ h' /\
    forall id cb rep ms t0, In (HSched id cb rep ms t0) (hist s1) ->
    forall cb' t r, ~ In (HFire id cb' t r) h'.
Proof. exact c31_clear_direct2_lemma. Qed.
Print Assumptions c31_clear_direct.

(* What the lock is for: in the VARIANT loop of C31/TimerUnlocked.v, which releases the lock
   before the callback and re-acquires it only for the push-back, a clear() that falls between the
   two halves misses the running event; it is re-queued and runs again: clause 4 fails. *)
Theorem c31_clear_unlocked_refuted :
  exists res ops,
    forallb op_wf ops = true /\
    hist (TimerUnlocked.base (TimerUnlocked.urun res ops TimerUnlocked.uinit)) =
      [HSched 0 7 true 5 0; HFire 0 7 5000000 true; HClear 5000000 0; HFire 0 7 10000000 true] /\
    ok_clr (verd (c31_mon (hist (TimerUnlocked.base (TimerUnlocked.urun res ops TimerUnlocked.uinit))))) = false.
Proof. exact TimerUnlocked.c31_clear_unlocked_refuted_lemma. Qed.
Print Assumptions c31_clear_unlocked_refuted.

(* Extra clause (not in the property text, but needed for the first four to mean anything):
   whenever the timer thread decides to sleep, no pending event is due. *)
Theorem c31_prompt : forall res ops, forallb op_wf ops = true ->
  ok_prompt (verd (c31_mon (hist (run res ops init)))) = true.
Proof. exact c31_prompt_lemma. Qed.
Print Assumptions c31_prompt.

(* All clauses at once, in the form of the oracle that is applied to the real trace. *)
Theorem c31_all : forall res ops, forallb op_wf ops = true ->
  c31_ok (hist (run res ops init)) = true.
Proof. exact c31_all_lemma. Qed.
Print Assumptions c31_all.

(* The tie-breaking oracle is complete: every queue element of minimal due time is the top for
   some k, so "for all ops" above includes every behaviour of std::priority_queue. *)
Theorem c31_tiebreak_complete : forall l1 e l2,
  (forall x, In x (l1 ++ e :: l2) -> e_due e <= e_due x) ->
  exists k, top k (l1 ++ e :: l2) = Some (e, l1 ++ l2).
Proof. exact top_complete_lemma. Qed.
Print Assumptions c31_tiebreak_complete.

(* The runs used by the correspondence check (one harness action - schedule, clock advance,
   clear, or "SPark": clear() from a second thread while a callback is kept from returning - then
   the thread runs until it sleeps; [pref] steers the tie-breaking; callback cb takes [dur cb] >= 0
   of clock time, and every pass of the loop reads the clock afresh, as the code does): the
   history satisfies the oracle ... *)
Theorem c31_script : forall res dur, (forall cb, 0 <= dur cb) ->
  forall extra t0 pref sc, 0 <= t0 -> forallb sop_wf sc = true ->
  match run_script res dur extra t0 pref sc with
  | (s, _, _, _) => c31_ok (hist s) = true
  end.
Proof. exact c31_script_lemma. Qed.
Print Assumptions c31_script.

(* ... and with instantaneous callbacks the fuel given to the wait loop always suffices. *)
Theorem c31_script_fuel : forall res extra t0 pref sc, 0 <= t0 -> forallb sop_wf sc = true ->
  snd (run_script res dur0 extra t0 pref sc) = true.
Proof. exact c31_script_fuel_lemma. Qed.
Print Assumptions c31_script_fuel.

(* The monitor rejects a history violating any one clause (and accepts a correct one). *)
Theorem c31_monitor_rejects :
  c31_ok [HSched 0 7 false 5 1000; HFire 0 7 4999999 false] = false /\
  c31_ok [HSched 0 7 false 5 1000; HSched 1 8 false 6 1000; HFire 1 8 7000000 false] = false /\
  c31_ok [HSched 0 7 true 5 0; HFire 0 7 5000000 true; HFire 0 7 9999999 true] = false /\
  c31_ok [HSched 0 7 true 5 0; HFire 0 7 5000000 false; HFire 0 7 10000000 true] = false /\
  c31_ok [HSched 0 7 false 5 0; HFire 0 7 5000000 true; HFire 0 7 10000000 true] = false /\
  c31_ok [HSched 0 7 false 5 0; HClear 1 1; HFire 0 7 5000000 true] = false /\
  c31_ok [HSched 0 7 false 5 0; HQuiet 5000000] = false /\
  c31_ok [HSched 0 7 true 5 0; HSched 1 8 false 6 0; HQuiet 4999999; HFire 0 7 5000000 true;
          HQuiet 5000000; HFire 1 8 6000000 true; HFire 0 7 10000000 false; HQuiet 20000000] = true.
Proof. exact c31_monitor_rejects_lemma. Qed.
Print Assumptions c31_monitor_rejects.

(* Non-vacuity: a well-formed script in which three events come due together (two of them
   tied), one repeats once and stops on false, and a pending event is cleared. *)
Theorem c31_nonvacuous :
  forallb sop_wf nv_script = true /\
  match run_script nv_res dur0 0 1000000000 [2; 1; 0] nv_script with
  | (s, _, _, fin) =>
      fin = true /\
      filter (fun h => match h with HFire _ _ _ _ => true | HClear _ _ => true | _ => false end) (hist s) =
        [HFire 2 2 1005000000 false; HFire 1 1 1005000000 false; HFire 0 0 1005000000 true;
         HFire 0 0 1010000000 false; HClear 1010000000 1]
  end.
Proof. exact c31_nonvacuous_lemma. Qed.
Print Assumptions c31_nonvacuous.

(* Non-vacuity for slow callbacks: two events due in the same wake-up; the first one's callback
   takes 5 ms of clock time, so the second (repeating, 10 ms) runs at t + 5 ms and, the clock
   being read per pass, is re-armed from that moment: next run at t + 15 ms, not t + 10 ms. *)
Theorem c31_nonvacuous_slow :
  match run_script (fun _ _ => true) nv_slow_dur 4 0 [0; 1]
          [SSched false 10; SSched true 10; SAdv 10000000; SAdv 5000000; SAdv 4999999; SAdv 1] with
  | (s, now, _, fin) =>
      fin = true /\ now = 25000000 /\
      filter (fun h => match h with HFire _ _ _ _ => true | _ => false end) (hist s) =
        [HFire 0 0 10000000 true; HFire 1 1 15000000 true; HFire 1 1 25000000 true]
  end.
Proof. exact c31_nonvacuous_slow_lemma. Qed.
Print Assumptions c31_nonvacuous_slow.
