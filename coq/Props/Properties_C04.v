(* Property C04 -- "Strict decoding accepts exactly schema-conforming messages".
   Only theorem statements; each is closed by [exact] of a lemma of coq/C04/*Proofs.v and
   followed by Print Assumptions.  strict_factory = the model of Message::factory (coq/Codec/Decode.v)
   with permissive_mode = false; conforms / retains / c04_ok = the independent oracle of C04/Spec_C04.v. *)
From Coq Require Import NArith ZArith List Bool.
From F8 Require Import Codec.Bytes Codec.Meta Codec.Extract Codec.Decode Codec.Example
                       C04.Spec_C04 C04.Strict C04.Tokens C04.Example04 C04.Sound C04.Exact C04.WitnessProofs C04.SoundProofs
                       C04.ExactProofs C04.RetainProofs.
Import ListNotations.
Local Open Scope N_scope.

(* Soundness of acceptance, for EVERY byte string (no hypothesis on the input beyond "bytes are
   bytes" and the size of an unsigned int): whenever the strict decoder returns a message,
     - the checksum is right: the input ends in 10=ccc| and ccc, as fast_atoi reads it, is the sum
       of all bytes before "10=" modulo 256 (chk_as_read; through C07's theorem on calc_chksum);
     - msg_sound: header, body and trailer objects were decoded against the header table, the table
       of the message type named by 35 and the trailer table; in each of them no tag occurs twice
       -- except data-typed tags, which the Length/data pairing adds without the duplicate test
       (finding C04-length-field-pairing) --, a tag is in the object iff its present bit is set and
       no mandatory trait lacks the bit; every element of every repeating group at every depth
       has no repeated tag, all its mandatory fields, and holds at arrival index 1 a field of
       schema position 1 (it began with the group's first field).
   What is NOT claimed, because it is false (c04_retains_refuted): that the object accounts for
   every token of the input. *)
Theorem c04_accept_sound_partial : forall c bytes m,
  wf_ctx c = true -> bytes_small bytes = true -> lenN bytes < 2147483648 ->
  strict_factory c bytes = Ok m ->
  chk_as_read bytes /\ msg_sound c m.
Proof. exact c04_accept_sound_lemma. Qed.
Print Assumptions c04_accept_sound_partial.

(* Retention fails, three independent witnesses on the schema ex4_ctx (each accepted by the model
   with a correct checksum, each losing or renaming a token; re-confirmed on the real decoder by
   the known-finding witnesses of known_findings.d/C04.json):
   (a) F10  ...|9998=x|112=TESTID|10=..|   an unknown tag after the last mandatory field ends header,
            body and trailer decoding in turn; factory ignores decode's consumed length;
   (b) F11  ...|65648=zz|10=..|            tags are read with fast_atoi<unsigned short>: 65648 is 112;
   (c) F12  ...|112=a|50=sub|10=..|        a header-only tag in the body is dropped. *)
Theorem c04_retains_refuted :
  (wf_ctx ex4_ctx = true /\ tokenize (ser toks_a) = Some toks_a /\ tags_small toks_a = true /\
   chk_ok (ser toks_a) = true /\ accepted ex4_ctx (ser toks_a) = true /\ retained ex4_ctx toks_a = false /\
   conforms ex4_ctx (ser toks_a) = false) /\
  (tokenize (ser toks_b) = Some toks_b /\ tags_small toks_b = false /\
   chk_ok (ser toks_b) = true /\ accepted ex4_ctx (ser toks_b) = true /\ retained ex4_ctx toks_b = false /\
   conforms ex4_ctx (ser toks_b) = false) /\
  (tokenize (ser toks_c) = Some toks_c /\ tags_small toks_c = true /\ tags_known ex4_ctx toks_c = true /\
   chk_ok (ser toks_c) = true /\ accepted ex4_ctx (ser toks_c) = true /\ retained ex4_ctx toks_c = false /\
   conforms ex4_ctx (ser toks_c) = false).
Proof. exact c04_retains_refuted_lemma. Qed.
Print Assumptions c04_retains_refuted.

(* Exactness on token sequences, under explicit boolean hypotheses (C04/Exact.v: exact_hyps = the list is
   framed 8, 9, 35 ... 10=ddd; every tag < 65536; values without SOH / NUL and within the buffers;
   int-typed texts are plain digits; no Length-typed field other than BodyLength; 8 / 9 / 35 / 10 do
   not occur again) and provided every tag is legal AT ITS POSITION (struct_verdict <> VIllegal):
   the model of Message::factory accepts ser toks if and only if ser toks conforms, it never ends in
   a memory error or a hang, it rejects by throwing, and the model's recursion fuel (two units per
   input byte) is never exhausted. *)
Theorem c04_exact_partial : forall c toks,
  wf_ctx c = true -> exact_hyps c toks = true -> struct_verdict c toks <> VIllegal ->
  match strict_factory c (ser toks) with
  | Ok m => conforms c (ser toks) = true
  | Exc _ => conforms c (ser toks) = false
  | _ => False
  end.
Proof. exact exact_accept_lemma. Qed.
Print Assumptions c04_exact_partial.

(* The whole property on the same token sequences: if moreover every value survives its type's
   rendering (rendered: printing the field object built from the text gives the text back, for
   int types the same integer; the BeginString is the schema's own), then the oracle c04_ok
   holds on the model's result:
     accepted  -> the input conforms AND every token of the input is matched by a distinct
                  (tag, value) entry of the accepted object (retains: nothing discarded, renamed or
                  given another value);
     otherwise -> the model throws and the input does not conform.
   c04_ok is the function the check applies to the real decoder's result on every case. *)
Theorem c04_exact_retains_partial : forall c toks,
  wf_ctx c = true -> exact_hyps c toks = true -> rendered c toks = true ->
  struct_verdict c toks <> VIllegal ->
  c04_ok c (ser toks) (outcome_of c (strict_factory c (ser toks))) = true.
Proof. exact c04_ok_lemma. Qed.
Print Assumptions c04_exact_retains_partial.

(* Non-vacuity: a NewOrderList with two orders, the second carrying two nested allocations, meets
   every hypothesis of c04_exact_partial / c04_exact_retains_partial, conforms, is accepted by the
   model, and every token is retained. *)
Theorem c04_nonvacuous :
  wf_ctx ex4_ctx = true /\ exact_hyps ex4_ctx toks_list = true /\ rendered ex4_ctx toks_list = true /\
  struct_verdict ex4_ctx toks_list = VConf /\ tokenize (ser toks_list) = Some toks_list /\
  conforms ex4_ctx (ser toks_list) = true /\ accepted ex4_ctx (ser toks_list) = true /\
  retained ex4_ctx toks_list = true /\ model_ok ex4_ctx (ser toks_list) = true.
Proof. exact c04_nonvacuous_lemma. Qed.
Print Assumptions c04_nonvacuous.
