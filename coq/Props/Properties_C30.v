(* Property C30 — "The inter-thread queue never loses, duplicates or reorders".
   Only theorem statements: each is closed by [exact] of a lemma proved in C30/MpmcProofs.v
   (invariant of the interleaving model) / C30/TraceProofs.v (what acceptance by the monitor
   means for a trace) and followed by Print Assumptions.

   [run mask sched s] executes the interleaving model of uMPMC_Ptr_Queue (C30/Mpmc.v): one list
   element of [sched] = one shared-memory action (atomic read / set / CAS / slot-buffer push or
   pop) of that thread.  Number of threads, their programs [progs] (thread t runs [nth t progs []])
   and the schedule are arbitrary and unbounded; the queue has 2^k slots, k >= 1 — what init()
   computes for any request (norm_nq).  The trace [snd (run ..)] lists, per action, the value
   read/written and the events  EWinP t j v (thread t reserved push ticket j for payload v),
   EDoneP t j v (that push returned), EWinC t j (pop ticket j reserved), EDoneC t j d (that pop
   returned d), EEmptyC t j (a pop returned false having looked at ticket j).
   Modelled, not proved: sequentially consistent interleaving, atomic primitives, the per-slot
   uSWSR_Ptr_Buffer as a FIFO list, no wrap of unsigned long. *)
From Coq Require Import Arith List Bool Permutation.
From F8 Require Import C30.Mpmc C30.Spec_C30 C30.TraceProofs C30.MpmcProofs.
Import ListNotations.

(* For every size, all programs and every schedule the property monitor c30_ok accepts the
   complete trace (the monitor is the oracle that is also applied to the real code's traces). *)
Theorem c30_all_schedules : forall k progs sched, 1 <= k ->
  c30_ok progs (snd (run (Nat.ones k) sched (init progs))) = true.
Proof. exact c30_all_schedules_lemma. Qed.
Print Assumptions c30_all_schedules.

(* The executable experiment that is compared with the real code (any requested size; schedule,
   round-robin drain, then the draining thread) is an instance. *)
Theorem c30_exec : forall nq progs sched fuel,
  c30_ok (all_progs progs) (exec nq progs sched fuel) = true.
Proof. exact c30_exec_lemma. Qed.
Print Assumptions c30_exec.

(* init() always ends up with a power of two >= 2, so the theorems cover every request. *)
Theorem c30_size_is_power_of_two : forall nq, exists k, 1 <= k /\ norm_nq nq - 1 = Nat.ones k.
Proof. exact norm_nq_pow2. Qed.
Print Assumptions c30_size_is_power_of_two.

(* Tickets: on both sides the reservations are numbered 0,1,2,... in trace order (each ticket is
   handed out exactly once, in the order the CASes succeed). *)
Theorem c30_tickets_consecutive : forall k progs sched, 1 <= k ->
  let tr := snd (run (Nat.ones k) sched (init progs)) in
  ticketsP tr = seq 0 (length (ticketsP tr)) /\ ticketsC tr = seq 0 (length (ticketsC tr)).
Proof. exact c30_tickets_consecutive_lemma. Qed.
Print Assumptions c30_tickets_consecutive.

(* Order: the pop that holds ticket j returns exactly the payload that was reserved under push
   ticket j, and only after that push had returned.  With c30_tickets_consecutive: elements leave
   in the order their pushes reserved their slot. *)
Theorem c30_ticket_order : forall k progs sched, 1 <= k ->
  forall tr1 t j d tr2, snd (run (Nat.ones k) sched (init progs)) = tr1 ++ EDoneC t j d :: tr2 ->
  exists tp, In (EWinP tp j d) tr1 /\ In (EDoneP tp j d) tr1 /\ In (EWinC t j) tr1.
Proof. exact c30_ticket_order_lemma. Qed.
Print Assumptions c30_ticket_order.

(* Later reservation = larger ticket; in particular the elements of one producer (whose pushes
   follow each other, c30_program_order) carry increasing tickets: per-producer order is kept. *)
Theorem c30_reservation_order : forall k progs sched, 1 <= k ->
  forall a t1 k1 v1 b t2 k2 v2 c,
  snd (run (Nat.ones k) sched (init progs)) = a ++ EWinP t1 k1 v1 :: b ++ EWinP t2 k2 v2 :: c -> k1 < k2.
Proof. exact c30_reservation_order_lemma. Qed.
Print Assumptions c30_reservation_order.

(* What a thread has completed is a prefix of its program, in program order. *)
Theorem c30_program_order : forall k progs sched, 1 <= k -> forall t,
  exists rest, nth t progs [] = ops_of t (snd (run (Nat.ones k) sched (init progs))) ++ rest.
Proof. exact c30_program_order_lemma. Qed.
Print Assumptions c30_program_order.

(* At most once: no pop ticket (hence, by c30_ticket_order, no push ticket's element) is returned
   twice, and no push returns twice. *)
Theorem c30_at_most_once : forall k progs sched, 1 <= k ->
  let tr := snd (run (Nat.ones k) sched (init progs)) in NoDup (donesC tr) /\ NoDup (donesP tr).
Proof. exact c30_at_most_once_lemma. Qed.
Print Assumptions c30_at_most_once.

(* Exactly once, on complete traces — of the model or of the real code: if the monitor accepts
   the trace, every operation has returned and as many pop as push tickets were handed out
   (c30_final_ok, evaluated on every compared trace), then the pops that returned are exactly the
   push reservations. *)
Theorem c30_exactly_once : forall progs tr,
  c30_final_ok progs tr = true -> Permutation (donesC tr) (ticketsP tr).
Proof. exact final_exactly_once_lemma. Qed.
Print Assumptions c30_exactly_once.

(* Nothing is lost: whenever no thread is between its winning CAS and its final store, every
   reserved push has returned, and if pushes are ahead of pops (preadC < preadP) then a pop
   started now and run alone (its six shared actions) returns the payload reserved under ticket
   preadC — it cannot report empty and it cannot skip an element. *)
Theorem c30_no_loss : forall k progs sched, 1 <= k ->
  let s := fst (run (Nat.ones k) sched (init progs)) in
  let tr := snd (run (Nat.ones k) sched (init progs)) in
  (forall u, holds_ticket (tpc (th s u)) = false) ->
  (forall j, j < pP s -> In j (donesP tr)) /\
  (forall t, pC s < pP s -> tpc (th s t) = C1 ->
     exists d tp evs, snd (run (Nat.ones k) [t; t; t; t; t; t] s) = evs ++ [EDoneC t (pC s) d] /\
                      In (EWinP tp (pC s) d) tr).
Proof. exact c30_no_loss_lemma. Qed.
Print Assumptions c30_no_loss.

(* Empty: a pop reports empty at ticket j only if j is the next pop ticket (all earlier ones have
   been reserved, j has not) and the push holding ticket j has not returned. *)
Theorem c30_empty_only_if : forall k progs sched, 1 <= k ->
  forall tr1 t j tr2, snd (run (Nat.ones k) sched (init progs)) = tr1 ++ EEmptyC t j :: tr2 ->
  j = length (ticketsC tr1) /\ forall tp v, ~ In (EDoneP tp j v) tr1.
Proof. exact c30_empty_only_if_lemma. Qed.
Print Assumptions c30_empty_only_if.

(* Non-vacuity: an experiment on a 2-slot queue in which six elements go round (tickets wrap
   twice), with a failed CAS, an empty pop and a producer stalled after its CAS; the monitor
   accepts it, every operation returns and all six elements are returned. *)
Theorem c30_nonvacuous :
  let tr := exec 2 nv_progs nv_sched 50 in
  c30_ok (all_progs nv_progs) tr = true /\ c30_final_ok (all_progs nv_progs) tr = true /\
  length (donesC tr) = 6 /\
  existsb (fun e => match e with EEmptyC _ _ => true | _ => false end) tr = true /\
  existsb (fun e => match e with ECas _ _ false => true | _ => false end) tr = true /\
  existsb (fun e => match e with EWinP _ 5 _ => true | _ => false end) tr = true.
Proof. exact c30_nonvacuous_lemma. Qed.
Print Assumptions c30_nonvacuous.
