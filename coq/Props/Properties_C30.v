(* Property C30 — "The inter-thread queue never loses, duplicates or reorders".
   Only theorem statements: each is closed by [exact] of a lemma proved in C30/MpmcProofs.v
   (C30/TraceProofs.v for the consequences on traces) and followed by Print Assumptions.

   [run mask sched s] executes the interleaving model of uMPMC_Ptr_Queue (C30/Mpmc.v): one list
   element of [sched] = one shared-memory action of that thread.  Threads, programs and the
   schedule are arbitrary; the queue has 2^k slots (what init() computes for any request). *)
From Coq Require Import Arith List Bool.
From F8 Require Import C30.Mpmc C30.Spec_C30 C30.MpmcProofs.
Import ListNotations.

(* For every size 2^k >= 2, all programs and every schedule — of any length, over any number of
   threads — the property monitor c30_ok accepts the complete trace. *)
Theorem c30_all_schedules : forall k progs sched, 1 <= k ->
  c30_ok progs (snd (run (Nat.ones k) sched (init progs))) = true.
Proof. exact c30_all_schedules_lemma. Qed.
Print Assumptions c30_all_schedules.

(* The executable experiment compared with the real code (any requested size; schedule, then the
   round-robin drain, then the draining thread) is an instance. *)
Theorem c30_exec : forall nq progs sched fuel,
  c30_ok (all_progs progs) (exec nq progs sched fuel) = true.
Proof. exact c30_exec_lemma. Qed.
Print Assumptions c30_exec.
