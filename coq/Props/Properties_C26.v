(* Property C26 -- "Persisters honour the store contract".
   Only theorem statements: each is closed by [exact] of a lemma proved under C26/ and followed
   by Print Assumptions.

   Vocabulary: [op] = one API call (put / get / control put / control get / last / nearest /
   range get with a callback that refuses its abort-th record / close+reopen), [out] = its
   result; [file_outputs ops], [mem_outputs ops] = results of the FilePersister / MemoryPersister
   model (None: a call overran its buffer or did not return); [spec_outputs ops] = results of
   the store contract: a map seq -> bytes plus one control record, where put to an occupied
   number or to 0 is refused (what both persisters do, and what the property text says). *)
From Coq Require Import NArith List Bool.
From F8 Require Import C26.SMap C26.PersistSpec C26.Spec_C26 C26.MemPersist C26.MemProofs
  C26.FilePersist C26.FileProofs C26.SpecProofs.
Import ListNotations.
Local Open Scope N_scope.

(* File persister: for EVERY operation sequence with numbers below 2^31 and records of at most
   MaxMsgLen = 8192 bytes (ops_wf), searches/ranges starting at >= 1 (zero_free), and no reopen
   after a control record was written over a message's index entry (reopen_safe: negation =
   finding F31), every result is the contract's -- including across close+reopen. *)
Theorem c26_file_refines : forall ops,
  ops_wf ops = true -> zero_free ops = true -> reopen_safe ops = true ->
  file_outputs ops = Some (spec_outputs ops).
Proof. exact c26_file_refines_lemma. Qed.
Print Assumptions c26_file_refines.

(* ... in particular for every sequence without reopen, whatever the order of control and
   message stores *)
Theorem c26_file_noreopen : forall ops,
  ops_wf ops = true -> zero_free ops = true -> no_reopen ops = true ->
  file_outputs ops = Some (spec_outputs ops).
Proof. exact c26_file_noreopen_lemma. Qed.
Print Assumptions c26_file_noreopen.

(* the same as the oracle sees it *)
Theorem c26_oracle_exact : forall ops r, c26_ok ops r = true <-> r = Some (spec_outputs ops).
Proof. exact c26_ok_iff. Qed.
Print Assumptions c26_oracle_exact.

(* Memory persister (code since commit 760121b), at full strength: for EVERY operation sequence
   with numbers below 2^31 and searches/ranges starting at >= 1 every result is the contract's,
   the control record included (the last one stored is returned; every control put succeeds).
   No bound on the record length is needed, and reopen is not an operation of this persister.
   The hypotheses are implied by ops_wf / zero_free of the file persister's theorem. *)
Theorem c26_mem_refines : forall ops,
  forallb op_bounded ops = true -> zero_free ops = true ->
  mem_outputs ops = Some (spec_outputs ops).
Proof. exact c26_mem_refines_lemma. Qed.
Print Assumptions c26_mem_refines.

(* The code BEFORE 760121b (F30, repaired): reading the control record back yielded values
   unrelated to what was stored (the oracle rejects them) and a second control put was refused;
   the repaired code on the same inputs returns (5,7), accepts the second put, returns (6,8). *)
Theorem c26_mem_orig_refuted :
  c26_ok [OCtlPut 5 7; OCtlGet] (mem_outputs_orig [OCtlPut 5 7; OCtlGet]) = false /\
  mem_outputs_orig [OCtlPut 5 7; OCtlPut 6 8] = Some [RBool true; RBool false] /\
  spec_outputs [OCtlPut 5 7; OCtlPut 6 8] = [RBool true; RBool true] /\
  mem_outputs [OCtlPut 5 7; OCtlGet; OCtlPut 6 8; OCtlGet] =
    Some [RBool true; RCtl (Some (5, 7)); RBool true; RCtl (Some (6, 8))].
Proof. exact c26_mem_orig_refuted_lemma. Qed.
Print Assumptions c26_mem_orig_refuted.

(* Range retrieval after any admissible history: the callback is handed exactly the stored
   records with from <= seq <= finish in ascending order (or the first [abort] of them when it
   refuses the abort-th), each with the no-more-records flag clear, then exactly one completion
   call (0, "", flag set); the return value is the number of records handed over. *)
Theorem c26_range_file : forall ops from to abort, file_hyp (ops ++ [ORange from to abort]) ->
  exists vis, file_outputs (ops ++ [ORange from to abort]) =
              Some (spec_outputs ops ++
                    [RRange (N.of_nat (length vis))
                            (map (fun kb => (fst kb, snd kb, false)) vis ++ [completion])]) /\
              range_facts (spec_state ops) from to abort vis.
Proof. exact c26_range_file_lemma. Qed.
Print Assumptions c26_range_file.

Theorem c26_range_mem : forall ops from to abort, mem_hyp (ops ++ [ORange from to abort]) ->
  exists vis, mem_outputs (ops ++ [ORange from to abort]) =
              Some (spec_outputs ops ++
                    [RRange (N.of_nat (length vis))
                            (map (fun kb => (fst kb, snd kb, false)) vis ++ [completion])]) /\
              range_facts (spec_state ops) from to abort vis.
Proof. exact c26_range_mem_lemma. Qed.
Print Assumptions c26_range_mem.

(* nearest-highest: the smallest stored number in [requested, last], 0 if there is none *)
Theorem c26_nearest_file : forall ops req last, file_hyp (ops ++ [ONearest req last]) ->
  exists r, file_outputs (ops ++ [ONearest req last]) = Some (spec_outputs ops ++ [RNum r]) /\
            nearest_facts (spec_state ops) req last r.
Proof. exact c26_nearest_file_lemma. Qed.
Print Assumptions c26_nearest_file.

Theorem c26_nearest_mem : forall ops req last, mem_hyp (ops ++ [ONearest req last]) ->
  exists r, mem_outputs (ops ++ [ONearest req last]) = Some (spec_outputs ops ++ [RNum r]) /\
            nearest_facts (spec_state ops) req last r.
Proof. exact c26_nearest_mem_lemma. Qed.
Print Assumptions c26_nearest_mem.

(* last sequence number: the largest stored number, 0 when nothing is stored (the control
   record does not count) *)
Theorem c26_last_file : forall ops, file_hyp (ops ++ [OLast]) ->
  exists l, file_outputs (ops ++ [OLast]) = Some (spec_outputs ops ++ [RNum l]) /\
            last_facts (spec_state ops) l.
Proof. exact c26_last_file_lemma. Qed.
Print Assumptions c26_last_file.

Theorem c26_last_mem : forall ops, mem_hyp (ops ++ [OLast]) ->
  exists l, mem_outputs (ops ++ [OLast]) = Some (spec_outputs ops ++ [RNum l]) /\
            last_facts (spec_state ops) l.
Proof. exact c26_last_mem_lemma. Qed.
Print Assumptions c26_last_mem.

(* Where the hypotheses fail, the code departs from the contract: *)

(* not reopen_safe (F31): put(1); control put; reopen  =>  get(1) fails *)
Theorem c26_file_reopen_refuted :
  ops_wf f31_ops = true /\ zero_free f31_ops = true /\ reopen_safe f31_ops = false /\
  file_outputs f31_ops =
    Some [RBool true; RBool true; RBool true; RBytes (Some [77; 83; 71]); RBool true; RBytes None] /\
  c26_ok f31_ops (file_outputs f31_ops) = false.
Proof. exact c26_file_reopen_refuted_lemma. Qed.
Print Assumptions c26_file_reopen_refuted.

(* not zero_free: with a control record present, a search or range starting at 0 finds key 0
   and answers "nothing stored" (the session layer rejects BeginSeqNo = 0 before calling) *)
Theorem c26_zero_request_refuted :
  ops_wf zero_ops = true /\ reopen_safe zero_ops = true /\
  zero_free zero_ops = false /\
  file_outputs zero_ops = Some [RBool true; RBool true; RNum 0; RRange 0 [completion]] /\
  mem_outputs zero_ops = Some [RBool true; RBool true; RNum 0; RRange 0 [completion]] /\
  spec_outputs zero_ops = [RBool true; RBool true; RNum 3; RRange 1 [(3, [65], false); completion]].
Proof. exact c26_zero_request_refuted_lemma. Qed.
Print Assumptions c26_zero_request_refuted.

(* Records of ANY length (no ops_wf): since a3cf082 a put longer than MaxMsgLen = 8192 is a refused
   put -- the file persister's results are the contract's results on [clip ops], the sequence in
   which every such put is replaced by a refused one; in particular no call overruns a buffer. *)
Theorem c26_file_refines_anylen : forall ops,
  forallb op_bounded ops = true -> N.of_nat (length ops) < LIM ->
  zero_free ops = true -> reopen_safe ops = true ->
  file_outputs ops = Some (spec_outputs (clip ops)).
Proof. exact c26_file_refines_anylen_lemma. Qed.
Print Assumptions c26_file_refines_anylen.

(* The code BEFORE a3cf082 (repaired): put accepted a record of MaxMsgLen + 1 bytes and get read
   it into char buff[8192] (None = overrun); now the put is refused, a later put of the same number
   is accepted; the memory persister has no limit. *)
Theorem c26_overlong_orig_refuted :
  zero_free overlong_ops = true /\ reopen_safe overlong_ops = true /\ ops_wf overlong_ops = false /\
  file_outputs_orig overlong_ops = None /\
  file_outputs overlong_ops = Some [RBool false; RBytes None; RBool true; RBytes (Some [66])] /\
  c26_ok_file overlong_ops (file_outputs overlong_ops) = true /\
  mem_outputs overlong_ops = Some (spec_outputs overlong_ops).
Proof. exact c26_overlong_orig_refuted_lemma. Qed.
Print Assumptions c26_overlong_orig_refuted.

(* Non-vacuity: an 18-operation history (accepted, duplicate and zero puts, a reopen, a search, an
   aborted and two complete ranges, the control record read, replaced and read again) meets the
   hypotheses of both refinement theorems. *)
Theorem c26_nonvacuous :
  file_hyp nv_ops /\ mem_hyp nv_ops /\
  spec_outputs nv_ops =
    [RBool true; RBool true; RBool true; RBool false; RBool false; RBool true; RBool true;
     RBytes (Some [1; 2]); RBytes None; RNum 9; RNum 5;
     RRange 2 [(2, [1; 2], false); (5, [], false); completion];
     RRange 3 [(2, [1; 2], false); (5, [], false); (9, [5; 6; 7], false); completion];
     RBool true; RRange 2 [(7, [8], false); (9, [5; 6; 7], false); completion];
     RCtl (Some (4, 9)); RBool true; RCtl (Some (6, 1))].
Proof. exact c26_nonvacuous_lemma. Qed.
Print Assumptions c26_nonvacuous.
