(* Property C21 "Two fix8 sessions deliver every application message across failures".
   Vocabulary (coq/C21): TwoParty.run_schedule = an initiator and an acceptor, each the session model of coq/Sess
   with its own FilePersister model, joined by two in-flight buffers and driven by a schedule of application sends
   (SI/SA), deliveries (DA/DI/D), connection drops (DROP) and process restarts (RI/RA); Spec_C21.c21_ok = the property
   on the schedule and the trace of both sides; Loss.c21_class = 1 iff some reconnect lost a message in flight;
   Example21.run21 l = run_schedule mini (simple_decode mini []) [] l, the model on the small concrete schema
   C20/Example.mini with Sess.SimpleCodec as the decoder. *)
From Coq Require Import NArith ZArith List Bool.
From F8 Require Import Sess.Bytes Sess.Msg Sess.Persist Sess.Session Sess.SimpleCodec Sess.Wire
  C20.Peer C20.Example C21.TwoParty C21.Spec_C21 C21.Loss C21.Example21 C21.WitnessProofs21.
Import ListNotations.
Local Open Scope N_scope.

(* The property is FALSE of two fix8 endpoints; one drop suffices.  Logon exchange, the acceptor's application sends
   message 2, the connection drops while it is in flight, both sides reconnect from their persister files: the
   acceptor accepts the initiator's Logon and answers with its own Logon numbered 3; the initiator expects 2 --
   C20's "Logon above expected": InvalidMsgSequence in logon_received, the initiator writes a Logout and stops.
   Message 2 is never delivered, the sessions do not re-establish. *)
Theorem c21_refuted :
  exists sched, let tr := run21 sched in
    c21_ok sched tr = false /\ c21_class sched tr = 1 /\
    states21 tr = [(5, 3); (1, 1); (1, 1); (5, 3); (7, 1)] /\
    recvs21 tr = [(1, 1); (2, 2); (2, 2); (2, 1); (2, 4)] /\
    writes_logout (st_events (fst (nth 4 tr (mkStep [] None, mkStep [] None)))) = true /\
    deliveries_at false tr 0 = [].
Proof. exists w_one_drop. exact one_drop_fails. Qed.
Print Assumptions c21_refuted.

(* Not only application messages: if the initiator's first Logon is lost, its next Logon carries 2, the acceptor
   expects 1 and terminates (states logon_sent / logoff_sent). *)
Theorem c21_logon_lost_refuted :
  exists sched, let tr := run21 sched in
    c21_ok sched tr = false /\ c21_class sched tr = 1 /\ states21 tr = [(5, 3); (5, 3); (5, 7)].
Proof. exists w_logon_lost. exact logon_lost_fails. Qed.
Print Assumptions c21_logon_lost_refuted.

(* Examples on which the property holds: a fault-free schedule (every message exactly once, never PossDup), and a
   drop on a quiet connection (nothing in flight): harmless. *)
Theorem c21_examples :
  (let tr := run21 w_no_fault in
   c21_ok w_no_fault tr = true /\ c21_exact w_no_fault tr = true /\ c21_class w_no_fault tr = 0) /\
  (let tr := run21 w_quiet_drop in
   c21_ok w_quiet_drop tr = true /\ c21_exact w_quiet_drop tr = true /\ c21_class w_quiet_drop tr = 0 /\
   has_fault w_quiet_drop = true).
Proof. split; [exact no_fault_exact|exact quiet_drop_harmless]. Qed.
Print Assumptions c21_examples.
