(* Property C21 "Two fix8 sessions deliver every application message across failures".
   Vocabulary (coq/C21): TwoParty.run_schedule = an initiator and an acceptor, each the session model of coq/Sess
   with its own FilePersister model, joined by two in-flight buffers and driven by a schedule of application sends
   (SI/SA), deliveries (DA/DI/D), connection drops (DROP) and process restarts (RI/RA); Spec_C21.c21_ok = the property
   on the schedule and the trace of both sides; Loss.c21_class = 1 iff some reconnect lost a message in flight;
   Example21.run21 l = run_schedule mini (simple_decode mini []) [] l, the model on the small concrete schema
   C20/Example.mini with Sess.SimpleCodec as the decoder. *)
From Coq Require Import NArith ZArith List Bool.
From F8 Require Import Sess.Bytes Sess.Msg Sess.Persist Sess.Session Sess.SimpleCodec Sess.Wire
  Sess.SendLemmas C20.Peer C20.Classify C20.SessFacts C20.BurstProofs C20.Example
  C21.TwoParty C21.Pair C21.Spec_C21 C21.Loss C21.Example21 C21.WitnessProofs21 C21.NoFaultProofs C21.SimProofs C21.TwoPartyProofs.
Import ListNotations.
Local Open Scope N_scope.

(* The property is FALSE of two fix8 endpoints; one drop suffices.  Logon exchange, the acceptor's application sends
   message 2, the connection drops while it is in flight, both sides reconnect from their persister files: the
   acceptor accepts the initiator's Logon and answers with its own Logon numbered 3; the initiator expects 2 --
   C20's "Logon above expected": InvalidMsgSequence in logon_received, the initiator writes a Logout and stops.
   Message 2 is never delivered, the sessions do not re-establish. *)
Theorem c21_refuted :
  exists sched, let tr := run21 sched in
    c21_ok sched tr = false /\ c21_class sched tr = 1 /\
    states21 tr = [(5, 3); (1, 1); (1, 1); (5, 3); (7, 1)] /\
    recvs21 tr = [(1, 1); (2, 2); (2, 2); (2, 1); (2, 4)] /\
    writes_logout (st_events (fst (nth 4 tr (mkStep [] None, mkStep [] None)))) = true /\
    deliveries_at false tr 0 = [].
Proof. exists w_one_drop. exact one_drop_fails. Qed.
Print Assumptions c21_refuted.

(* Not only application messages: if the initiator's first Logon is lost, its next Logon carries 2, the acceptor
   expects 1 and terminates (states logon_sent / logoff_sent). *)
Theorem c21_logon_lost_refuted :
  exists sched, let tr := run21 sched in
    c21_ok sched tr = false /\ c21_class sched tr = 1 /\ states21 tr = [(5, 3); (5, 3); (5, 7)].
Proof. exists w_logon_lost. exact logon_lost_fails. Qed.
Print Assumptions c21_logon_lost_refuted.

(* Examples on which the property holds: a fault-free schedule (every message exactly once, never PossDup), and a
   drop on a quiet connection (nothing in flight): harmless. *)
Theorem c21_examples :
  (let tr := run21 w_no_fault in
   c21_ok w_no_fault tr = true /\ c21_exact w_no_fault tr = true /\ c21_class w_no_fault tr = 0) /\
  (let tr := run21 w_quiet_drop in
   c21_ok w_quiet_drop tr = true /\ c21_exact w_quiet_drop tr = true /\ c21_class w_quiet_drop tr = 0 /\
   has_fault w_quiet_drop = true).
Proof. exact examples21. Qed.
Print Assumptions c21_examples.

(* c21_nofault_partial.  Vocabulary: Pair.pair = the two session states and the two in-flight byte lists; Pair.fstep /
   frun = the fault-free operations on them (FSendI m / FSendA m = Session::send, FDeliverA / FDeliverI = the bytes in
   flight reach FIXReader's loop); synced p = both sessions logged on (state continuous, reader running, socket open,
   nothing batched), facing each other, nothing in flight, each side's expected number = the other side's next
   outbound number; valid_run p ops = every message of the schedule is a simple application message (known
   application type, body fields only) AND is read back by the receiving side's decoder, in the state in which it is
   sent, as "new application message with the sender's next number" (an executable condition about the codec alone);
   sent_list b ops n = the (type, number, PossDup=false) triples of the initiator's (b = true) / acceptor's sends,
   numbered consecutively from n; dels = the DELIVER events of an event list.
   For EVERY schema (wf_schema: the header fields the session adds are known), decoder, session configuration and
   persister, and EVERY schedule of sends and deliveries in ANY interleaving, followed by one delivery per direction:
   the acceptor's application is handed exactly the initiator's messages -- each once, in send order, never PossDup --
   and vice versa, and the pair is synced again (no one terminates, numbers match). *)
Theorem c21_nofault_partial :
  forall sc decode fl now, wf_schema sc = true ->
  forall ops p, synced p -> valid_run sc decode fl now p ops ->
  exists p' ei ea,
    frun sc decode fl now p (ops ++ [FDeliverA; FDeliverI]) = (p', ei, ea) /\
    synced p' /\
    dels ea = sent_list true ops (s_next_send (pa_i p)) /\
    dels ei = sent_list false ops (s_next_send (pa_a p)).
Proof. exact nofault_delivery. Qed.
Print Assumptions c21_nofault_partial.

(* ... and for the two-party model itself: when the two Sess.Wire worlds of TwoParty hold a synced pair (sim), the
   events of run_sops on a schedule of SI/SA/DA/DI operations (corr: each SEND builds the message of the session-level
   schedule) followed by DA, DI show exactly these deliveries. *)
Theorem c21_nofault_twoparty :
  forall sc decode fl now, wf_schema sc = true ->
  forall sops fops t p,
  sim now t p -> synced p -> Forall2 (corr sc) sops fops -> valid_run sc decode fl now p fops ->
  let evs := map step_events (run_sops sc decode fl t (sops ++ [SDeliverA; SDeliverI])) in
  dels (concat (map snd evs)) = sent_list true fops (s_next_send (pa_i p)) /\
  dels (concat (map fst evs)) = sent_list false fops (s_next_send (pa_a p)).
Proof. exact twoparty_nofault. Qed.
Print Assumptions c21_nofault_twoparty.

(* The hypotheses are met: on the small schema, with Sess.SimpleCodec as the decoder, the two-party model after
   creation and the Logon exchange (t_logged) holds a synced pair, and the schedule SI SA DA SI SA DI SI of
   NewOrderSingle messages is valid for it (every message is read back by the codec as required). *)
Theorem c21_nofault_nonvacuous :
  wf_schema mini = true /\
  exists p, proj_pair t_logged = Some p /\ sim T0 t_logged p /\ synced p /\
            Forall2 (corr mini) sops_w fops_w /\ valid_run mini dec_mini [] T0 p fops_w.
Proof. exact nofault_instance. Qed.
Print Assumptions c21_nofault_nonvacuous.
