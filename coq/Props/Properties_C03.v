(* Property C03 -- "Codec is memory-safe and total on arbitrary input".
   Only theorem statements; each is closed by [exact] of a lemma of coq/C03/*Proofs.v and followed
   by Print Assumptions.  factory / msg_encode_str are the instrumented models of Message::factory
   and Message::encode(f8String&) in coq/Codec (every write into a stack buffer is checked against
   the buffer's capacity, real_caps = the capacities of the pinned source).

   State of the code (/repo 408434c; factory refuses the pseudo rows header/trailer of the message table): extract_element (d48d8ce) and extract_element_fixed_width
   (ce1e2cc) are bounded, decode_group leaves its loop on an empty element (a0d41df), fast_atoi
   honours '-' (a8219b1) and accumulates in the unsigned type (1965750), calc_chksum loads with memcpy (9d9ce26), the date/time
   parsers do not shift and clamp the month (da4ab8c).  Decoding is therefore proved safe for ALL
   byte strings.  NOT repaired and stated as refutations / partial theorems: output[] of
   encode(f8String&) (F07) and the 64-bit tick product of the
   date/time constructors.  The pre-repair definitions (suffix _orig) carry the witnesses of the repaired
   defects. *)
From Coq Require Import NArith ZArith List Bool String.
From F8 Require Import Codec.Bytes Codec.Meta Codec.Extract Codec.Decode Codec.Encode Codec.Example
                       C03.Bounds C03.ExtractProofs C03.FactoryProofs C03.EncodeProofs.
Import ListNotations.
Local Open Scope N_scope.

(* The tokeniser never leaves the caller's buffers, whatever the memory it is given contains and
   whatever the (non-empty) buffers' sizes are: it fails the extraction instead. *)
Theorem c03_extract_element_safe : forall tcap vcap from sz,
  0 < tcap -> 0 < vcap -> sz <= lenN from -> forall s, extract_element from sz tcap vcap <> XOOB s.
Proof. exact extract_element_safe. Qed.
Print Assumptions c03_extract_element_safe.

(* Decoding: for every schema with closed group tables (c03_wf, checked on the dumped metadata at
   every run) and EVERY byte string shorter than 2^32 -- Length/data pairs included, any MsgType text
   --, strict or permissive, with or without checksum test, Message::factory returns a message or
   throws a library exception: no overrun of the tag/val/len/mtype buffers, no read past the input or
   of bytes never written, no Diverge, no Fuel.  (UB inside the value constructors is the subject of
   the fast_atoi / date-time theorems below; memory safety of encode of c03_encode_*.) *)
Theorem c03_decode_safe : forall c bytes no_chksum permissive,
  c03_wf c = true -> is_bytes bytes = true -> lenN bytes < 4294967296 ->
  safe (c03_factory c real_caps bytes no_chksum permissive).
Proof. exact c03_decode_safe_lemma. Qed.
Print Assumptions c03_decode_safe.

(* Totality: on EVERY list of numbers the fuel dec_fuel suffices (each turn of each loop of decode /
   decode_group consumes at least two bytes) and the repaired decode_group never stalls. *)
Theorem c03_decode_total : forall c bytes no_chksum permissive,
  c03_wf c = true ->
  c03_factory c real_caps bytes no_chksum permissive <> Fuel /\ c03_factory c real_caps bytes no_chksum permissive <> Diverge.
Proof. exact c03_decode_total_lemma. Qed.
Print Assumptions c03_decode_total.

(* Finding C03-pseudo-msgtype, repaired by 408434c: with the OLD table lookup (c03_factory_orig)
   35=header / 35=trailer selected a row whose creator is reinterpret_cast<Message *>(new header /
   trailer) and factory decoded into that object (type confusion); now both texts are unknown types.
   Outside these two texts the old lookup was safe as well. *)
Theorem c03_pseudo_msgtype_orig_refuted :
  is_bytes (pseudo_msg "header") = true /\
  c03_factory_orig ex_ctx real_caps (pseudo_msg "header") false false = OOB site_pseudo_entry /\
  c03_factory_orig ex_ctx real_caps (pseudo_msg "trailer") true true = OOB site_pseudo_entry /\
  c03_factory ex_ctx real_caps (pseudo_msg "header") false false = Exc EInvalidMessage /\
  c03_factory ex_ctx real_caps (pseudo_msg "trailer") true true = Exc EInvalidMessage /\
  c03_pseudo real_caps (pseudo_msg "Header") = false /\ c03_pseudo real_caps (pseudo_msg "header1") = false /\
  c03_pseudo real_caps (pseudo_msg "heade") = false /\ c03_pseudo real_caps (pseudo_msg "trailer ") = false.
Proof. exact c03_pseudo_msgtype_orig_refuted_lemma. Qed.
Print Assumptions c03_pseudo_msgtype_orig_refuted.

Theorem c03_decode_orig_safe_partial : forall c bytes no_chksum permissive,
  c03_wf c = true -> is_bytes bytes = true -> lenN bytes < 4294967296 -> c03_pseudo real_caps bytes = false ->
  safe (c03_factory_orig c real_caps bytes no_chksum permissive).
Proof. exact c03_factory_orig_safe_lemma. Qed.
Print Assumptions c03_decode_orig_safe_partial.

(* The fixed-width extractor never leaves its buffers either (repaired by ce1e2cc). *)
Theorem c03_extract_fixed_width_safe : forall tcap vcap from sz val_sz,
  0 < tcap -> 0 < vcap -> sz <= lenN from ->
  forall s, extract_element_fixed_width from sz val_sz tcap vcap <> XOOB s.
Proof. exact extract_fw_safe. Qed.
Print Assumptions c03_extract_fixed_width_safe.

(* F06 residue, repaired by ce1e2cc: the ORIGINAL fixed-width extractor writes the 2049th digit past
   tag[2048] and leaves the tag unterminated (decode read tag[] beyond the bytes written). *)
Theorem c03_fixed_width_orig_refuted :
  extract_element_fixed_width_orig (digits_tok 2049) (lenN (digits_tok 2049)) 1 MAX_FLD_LENGTH MAX_FLD_LENGTH = XOOB site_tag_write /\
  extract_element_fixed_width (digits_tok 2049) (lenN (digits_tok 2049)) 1 MAX_FLD_LENGTH MAX_FLD_LENGTH = XFail [] [] /\
  (exists t v r, extract_element_fixed_width (digits_tok 2047) (lenN (digits_tok 2047)) 1 MAX_FLD_LENGTH MAX_FLD_LENGTH = XOk t v r) /\
  cstr_known (tagbuf_after_fw_orig [56; 57; 56; 57] (tagbuf_after [57; 51] [])) = None /\
  cstr_known (tagbuf_after_fw [56; 57; 56; 57] (tagbuf_after [57; 51] [])) = Some [56; 57; 56; 57] /\
  safe (factory ex_ctx real_caps (fw_digits 2049) false false) /\ safe (factory ex_ctx real_caps fw_uninit false false).
Proof. exact c03_fixed_width_orig_refuted_lemma. Qed.
Print Assumptions c03_fixed_width_orig_refuted.

(* F06, repaired by d48d8ce: the ORIGINAL extract_element writes a value of 2048 bytes through
   val[2048]; the repaired one fails the extraction and factory answers with an exception. *)
Theorem c03_val_overflow_orig_refuted :
  extract_element_orig (val_token 2048) (lenN (val_token 2048)) MAX_FLD_LENGTH MAX_FLD_LENGTH = XOOB site_val_write /\
  (exists t v r, extract_element_orig (val_token 2047) (lenN (val_token 2047)) MAX_FLD_LENGTH MAX_FLD_LENGTH = XOk t v r) /\
  (exists t v, extract_element (val_token 2048) (lenN (val_token 2048)) MAX_FLD_LENGTH MAX_FLD_LENGTH = XFail t v) /\
  (exists t v r, extract_element (val_token 2047) (lenN (val_token 2047)) MAX_FLD_LENGTH MAX_FLD_LENGTH = XOk t v r) /\
  safe (factory ex_ctx real_caps (hb_val 2048) false false) /\ safe (factory ex_ctx real_caps (hb_val 3000) false false).
Proof. exact c03_val_overflow_orig_refuted_lemma. Qed.
Print Assumptions c03_val_overflow_orig_refuted.

(* F06 (header), repaired by d48d8ce: a MsgType of 32 bytes through mtype[32], 32 digits through tag[32]. *)
Theorem c03_header_overflow_orig_refuted :
  extract_element_orig (mtype_token 32) (lenN (mtype_token 32)) MAX_MSGTYPE_FIELD_LEN MAX_MSGTYPE_FIELD_LEN = XOOB site_val_write /\
  extract_element_orig (tag_token 32) (lenN (tag_token 32)) MAX_MSGTYPE_FIELD_LEN MAX_FLD_LENGTH = XOOB site_tag_write /\
  (exists t v, extract_element (mtype_token 32) (lenN (mtype_token 32)) MAX_MSGTYPE_FIELD_LEN MAX_MSGTYPE_FIELD_LEN = XFail t v) /\
  (exists t v, extract_element (tag_token 32) (lenN (tag_token 32)) MAX_MSGTYPE_FIELD_LEN MAX_FLD_LENGTH = XFail t v) /\
  (exists t v r, extract_element (mtype_token 31) (lenN (mtype_token 31)) MAX_MSGTYPE_FIELD_LEN MAX_MSGTYPE_FIELD_LEN = XOk t v r) /\
  safe (factory ex_ctx real_caps (long_mtype 100) false false).
Proof. exact c03_header_overflow_orig_refuted_lemma. Qed.
Print Assumptions c03_header_overflow_orig_refuted.

(* F08, repaired by a0d41df: on "A=1|" right after the count of a group whose class has no
   mandatory member the ORIGINAL decode_group appends empty elements for ever (Diverge); the
   repaired one returns at once and factory accepts or rejects the message. *)
Theorem c03_group_hang_orig_refuted :
  c03_wf ex_ctx = true /\
  decode_group_orig ex_ctx real_caps hang_tail (lenN hang_tail) 10 (create_group ex_orders true) 78 0 = Diverge /\
  (exists m, decode_group ex_ctx real_caps hang_tail (lenN hang_tail) 10 (create_group ex_orders true) 78 0 = Ok (m, 0)) /\
  safe (factory ex_ctx real_caps hang_msg false false).
Proof. exact c03_group_hang_orig_refuted_lemma. Qed.
Print Assumptions c03_group_hang_orig_refuted.

(* Encoding: a message whose encoding is no longer than FIX8_MAX_MSG_LENGTH is written inside
   output[] and returned unchanged ... *)
Theorem c03_encode_safe_partial : forall c m bytes m',
  msg_encode c m = Ok (bytes, m') -> lenN bytes <= MAX_MSG_LENGTH ->
  msg_encode_str c real_caps m = Ok (bytes, m').
Proof. exact c03_encode_safe_partial_lemma. Qed.
Print Assumptions c03_encode_safe_partial.

(* ... F07 (NOT repaired): a 9000-byte string field is written through the end of output[8224]. *)
Theorem c03_encode_overflow_refuted :
  exists c m, (exists b m', msg_encode c m = Ok (b, m') /\ MAX_MSG_LENGTH + HEADER_CALC_OFFSET <= lenN b) /\
              msg_encode_str c real_caps m = OOB site_encode_buf.
Proof. exact c03_encode_overflow_refuted_lemma. Qed.
Print Assumptions c03_encode_overflow_refuted.

(* fast_atoi<int> (F09), repaired by 1965750 (accumulation in the unsigned type): no text triggers
   UB any more (atoi_ub is the model's UB flag for the routine: unsigned arithmetic has none) ... *)
Theorem c03_fast_atoi_safe : forall s, atoi_ub s = false.
Proof. exact c03_fast_atoi_safe_lemma. Qed.
Print Assumptions c03_fast_atoi_safe.

(* ... and the repair changes no result: wherever the previous int accumulation was defined, the
   wrapped unsigned accumulation (Codec.Bytes.fast_atoi_i32) returns the same value. *)
Theorem c03_fast_atoi_agrees_with_orig : forall s, atoi_ub_orig s = false -> atoi_val s = atoi_val_orig s.
Proof. exact c03_fast_atoi_agree_lemma. Qed.
Print Assumptions c03_fast_atoi_agrees_with_orig.

(* The previous routine (a8219b1): an optional '-' and at most 9 digits never overflowed ... *)
Theorem c03_fast_atoi_orig_safe_partial : forall s, small_int_text s = true -> atoi_ub_orig s = false.
Proof. exact c03_fast_atoi_orig_safe_partial_lemma. Qed.
Print Assumptions c03_fast_atoi_orig_safe_partial.

(* ... the edges of the int range parsed without UB, one step beyond them was signed overflow; the
   repaired routine wraps there ("2147483648" = -2147483648) and still accepts non-digits ("1e3" = 633). *)
Theorem c03_fast_atoi_ub_orig_refuted :
  atoi_ub_orig (bytes_of_string "2147483647"%string) = false /\ atoi_ub_orig (bytes_of_string "-2147483648"%string) = false /\
  atoi_ub_orig (bytes_of_string "2147483648"%string) = true /\ atoi_ub_orig (bytes_of_string "-2147483649"%string) = true /\
  atoi_ub_orig (bytes_of_string "99999999999"%string) = true /\ atoi_ub_orig (bytes_of_string "1e3"%string) = false /\
  atoi_val (bytes_of_string "-5"%string) = (-5)%Z /\ atoi_val (bytes_of_string "1e3"%string) = 633%Z /\
  atoi_val (bytes_of_string "2147483648"%string) = (-2147483648)%Z /\ atoi_val (bytes_of_string "99999999999"%string) = 1215752191%Z.
Proof. exact c03_atoi_ub_orig_lemma. Qed.
Print Assumptions c03_fast_atoi_ub_orig_refuted.

(* The date/time field constructors (field.hpp), repaired by da4ab8c: a month outside 01..13
   indexed mon_days out of bounds and a char below '0' led to a shift of a negative value
   (dt_ub_orig); the repaired parsers have no UB on these texts (dt_ub). *)
Theorem c03_datetime_ub_orig_refuted :
  dt_ub_orig ft_UTCTimestamp (bytes_of_string "20231401-00:00:00"%string) = Some true /\
  dt_ub ft_UTCTimestamp (bytes_of_string "20231401-00:00:00"%string) = Some false /\
  dt_ub_orig ft_UTCTimestamp (bytes_of_string "2023-101-00:00:00.000"%string) = Some true /\
  dt_ub ft_UTCTimestamp (bytes_of_string "2023-101-00:00:00.000"%string) = Some false /\
  dt_ub_orig ft_LocalMktDate (bytes_of_string "20230001"%string) = Some true /\
  dt_ub ft_LocalMktDate (bytes_of_string "20230001"%string) = Some false.
Proof. exact c03_datetime_ub_orig_lemma. Qed.
Print Assumptions c03_datetime_ub_orig_refuted.

(* NOT repaired: time_to_epoch(..) * Tickval::billion is a signed 64-bit product -- a year before
   1678 or after 2262 overflows it (UB); inside that range there is none.  None = the parser reads
   beyond the text (stale bytes of val[]). *)
Theorem c03_datetime_ticks_refuted :
  dt_ub ft_LocalMktDate (bytes_of_string "99990101"%string) = Some true /\
  dt_ub ft_UTCTimestamp (bytes_of_string "00000101-00:00:00"%string) = Some true /\
  dt_ub ft_UTCTimestamp (bytes_of_string "22620101-00:00:00"%string) = Some false /\
  dt_ub ft_UTCTimestamp (bytes_of_string "16780101-00:00:00"%string) = Some false /\
  dt_ub ft_UTCTimestamp (bytes_of_string "20230101-00:00:00.000"%string) = Some false /\
  dt_ub ft_UTCTimestamp (bytes_of_string "2023"%string) = None.
Proof. exact c03_datetime_ticks_lemma. Qed.
Print Assumptions c03_datetime_ticks_refuted.

(* calc_chksum (D4), repaired by 9d9ce26: the uint32 loads were misaligned for a buffer that is not
   4-aligned (chksum_ub_orig); with memcpy there is no alignment requirement. *)
Theorem c03_chksum_align_orig_refuted :
  chksum_ub_orig 1 8 = true /\ chksum_ub_orig 4 64 = false /\ forall m l, chksum_ub m l = false.
Proof. exact c03_chksum_align_orig_lemma. Qed.
Print Assumptions c03_chksum_align_orig_refuted.

(* Non-vacuity: the example schema (with a Length/data pair and groups without mandatory member) is
   well-formed, an encoded message with nested groups is a byte string and decodes. *)
Theorem c03_nonvacuous :
  c03_wf ex_ctx = true /\ is_bytes ex_list_bytes = true /\ lenN ex_list_bytes < 4294967296 /\
  (exists m, factory ex_ctx real_caps ex_list_bytes false false = Ok m).
Proof. exact c03_nonvacuous_lemma. Qed.
Print Assumptions c03_nonvacuous.
