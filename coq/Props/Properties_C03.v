(* Property C03 -- "Codec is memory-safe and total on arbitrary input".
   Only theorem statements; each is closed by [exact] of a lemma of coq/C03/*Proofs.v and followed
   by Print Assumptions.  factory / msg_encode_str are the instrumented models of Message::factory
   and Message::encode(f8String&) in coq/Codec (every write into a stack buffer is checked against
   the buffer's capacity, real_caps = the capacities of the pinned source); the predicates
   tokens_bounded, c03_wf, c03_nohang, c03_nodata are the boolean hypotheses of coq/C03/Bounds.v.

   The property as stated is FALSE of the pinned code (three refutations below: F06, F07, F08);
   what is true is stated as ..._partial with the exact boolean hypotheses. *)
From Coq Require Import NArith ZArith List Bool String.
From F8 Require Import Codec.Bytes Codec.Meta Codec.Extract Codec.Decode Codec.Encode
                       C03.Bounds C03.ExtractProofs C03.FactoryProofs C03.EncodeProofs.
Import ListNotations.
Local Open Scope N_scope.

(* The tokeniser never leaves the caller's buffers when, in the memory it is given, every run of
   digits is shorter than the tag buffer and fewer bytes than the value buffer holds follow any
   '=' before the next SOH -- from whatever offset it is started (the lemma every decoding loop
   rests on). *)
Theorem c03_extract_element_safe : forall tc vc tcap vcap from sz,
  tc <= tcap -> vc <= vcap -> 0 < tc -> 0 < vc -> run_ok tc vc 0 None from = true -> sz <= lenN from ->
  forall s, extract_element from sz tcap vcap <> XOOB s.
Proof. exact extract_element_safe. Qed.
Print Assumptions c03_extract_element_safe.

(* Decoding, memory safety: for every schema whose group tables are closed (c03_wf, checked on the
   dumped metadata at every run), every byte string with bounded tokens, strict or permissive,
   with or without checksum test, Message::factory overruns no buffer and does not run out of
   fuel: it returns a message, throws a library exception, or ends in one of two NAMED residual
   classes -- Diverge (finding F08, refuted below) or the read of the tag buffer the fixed-width
   extractor left unterminated (OOB site_uninit_tag: the Length/data defect that belongs to C06). *)
Theorem c03_decode_safe_partial : forall c bytes no_chksum permissive,
  c03_wf c = true -> tokens_bounded bytes = true ->
  classified (factory c real_caps bytes no_chksum permissive).
Proof. exact c03_decode_safe_partial_lemma. Qed.
Print Assumptions c03_decode_safe_partial.

(* ... and with the two residual classes excluded by schema conditions (no group class without a
   mandatory member, no Length/data pair) the property holds as stated: Ok or library exception. *)
Theorem c03_decode_safe_strong_partial : forall c bytes no_chksum permissive,
  c03_nohang c = true -> c03_nodata c = true -> tokens_bounded bytes = true ->
  safe (factory c real_caps bytes no_chksum permissive).
Proof. exact c03_decode_safe_strong_lemma. Qed.
Print Assumptions c03_decode_safe_strong_partial.

(* Totality of the model: on EVERY byte string (bounded or not) the fuel dec_fuel suffices -- each
   turn of each loop of decode / decode_group consumes at least two bytes -- so a run of the model
   ends in Ok, Exc, OOB or Diverge, and Diverge is returned exactly where the C++ makes no progress. *)
Theorem c03_decode_total : forall c bytes no_chksum permissive,
  c03_wf c = true -> factory c real_caps bytes no_chksum permissive <> Fuel.
Proof. exact c03_decode_total_lemma. Qed.
Print Assumptions c03_decode_total.

(* F08: the termination lemma is FALSE of decode_group: "...|78=1|A=1|..." -- a token that
   extract_element rejects directly after the count of a group whose class has no mandatory member
   -- makes it append empty elements for ever.  The input is bounded, the schema well-formed. *)
Theorem c03_group_hang_refuted :
  exists c bytes, c03_wf c = true /\ tokens_bounded bytes = true /\
                  factory c real_caps bytes false false = Diverge.
Proof. exact c03_group_hang_refuted_lemma. Qed.
Print Assumptions c03_group_hang_refuted.

(* F06: a value of 2048 bytes overruns val[2048] in MessageBase::decode, a MsgType of 100 bytes
   overruns mtype[32] through extract_header; a value of 2047 bytes is safe (and bounded). *)
Theorem c03_val_overflow_refuted :
  exists c b1 b2 b3,
    c03_wf c = true /\
    factory c real_caps b1 false false = OOB site_val_write /\ dec_class c b1 false false = DDec /\
    factory c real_caps b2 false false = OOB site_val_write /\ dec_class c b2 false false = DHdr /\
    safe (factory c real_caps b3 false false) /\ tokens_bounded b3 = true /\
    tokens_bounded b1 = false /\ tokens_bounded b2 = false.
Proof. exact c03_val_overflow_refuted_lemma. Qed.
Print Assumptions c03_val_overflow_refuted.

(* Encoding: a message whose encoding is no longer than FIX8_MAX_MSG_LENGTH is written inside
   output[] and returned unchanged ... *)
Theorem c03_encode_safe_partial : forall c m bytes m',
  msg_encode c m = Ok (bytes, m') -> lenN bytes <= MAX_MSG_LENGTH ->
  msg_encode_str c real_caps m = Ok (bytes, m').
Proof. exact c03_encode_safe_partial_lemma. Qed.
Print Assumptions c03_encode_safe_partial.

(* ... F07: a 9000-byte string field is written through the end of output[8224]. *)
Theorem c03_encode_overflow_refuted :
  exists c m, (exists b m', msg_encode c m = Ok (b, m') /\ MAX_MSG_LENGTH + HEADER_CALC_OFFSET <= lenN b) /\
              msg_encode_str c real_caps m = OOB site_encode_buf.
Proof. exact c03_encode_overflow_refuted_lemma. Qed.
Print Assumptions c03_encode_overflow_refuted.

(* F09 (standing UB): the UB predicate for fast_atoi<int> at its edges. *)
Theorem c03_fast_atoi_ub_refuted :
  atoi_ub (bytes_of_string "2147483647"%string) = true /\ atoi_ub (bytes_of_string "-"%string) = false /\
  atoi_ub (bytes_of_string "-5"%string) = true /\ atoi_ub (bytes_of_string "2147483599"%string) = false /\
  atoi_ub (bytes_of_string "99999999999"%string) = true /\ atoi_ub (bytes_of_string "0"%string) = false.
Proof. exact c03_atoi_ub_lemma. Qed.
Print Assumptions c03_fast_atoi_ub_refuted.

(* New finding: the date/time field constructors (parse_decimal / time_to_epoch, field.hpp) have UB
   on received texts: month 14 indexes mon_days[13] + 1, a char below '0' leads to a shift of a
   negative value, year 9999 overflows the 64-bit tick count; None = the parser reads beyond the text. *)
Theorem c03_datetime_ub_refuted :
  dt_ub ft_UTCTimestamp (bytes_of_string "20231401-00:00:00"%string) = Some true /\
  dt_ub ft_UTCTimestamp (bytes_of_string "2023-101-00:00:00.000"%string) = Some true /\
  dt_ub ft_LocalMktDate (bytes_of_string "99990101"%string) = Some true /\
  dt_ub ft_UTCTimestamp (bytes_of_string "20230101-00:00:00.000"%string) = Some false /\
  dt_ub ft_UTCTimestamp (bytes_of_string "20391301-00:00:00"%string) = Some false /\
  dt_ub ft_UTCTimestamp (bytes_of_string "2023"%string) = None.
Proof. exact c03_datetime_ub_lemma. Qed.
Print Assumptions c03_datetime_ub_refuted.

(* Non-vacuity: the example schema is well-formed, an encoded message with nested groups is
   bounded and decodes; a schema exists that meets the hypotheses of the strong theorem, decodes
   the same message and rejects the hang input with an exception. *)
Theorem c03_nonvacuous :
  c03_wf Codec.Example.ex_ctx = true /\ tokens_bounded ex_list_bytes = true /\
  (exists m, factory Codec.Example.ex_ctx real_caps ex_list_bytes false false = Ok m) /\
  c03_nohang safe_ctx = true /\ c03_nodata safe_ctx = true /\
  (exists m, factory safe_ctx real_caps ex_list_bytes false false = Ok m) /\
  (exists e, factory safe_ctx real_caps hang_msg false false = Exc e).
Proof. exact c03_nonvacuous_lemma. Qed.
Print Assumptions c03_nonvacuous.
