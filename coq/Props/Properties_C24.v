(* Property C24 -- "Session activation follows the configured schedule".
   Only theorem statements: each is closed by [exact] of a lemma proved in C24/SchedProofs.v,
   C24/SchedWitness.v or C24/ConfigProofs.v and followed by Print Assumptions.

   Model (C24/Sched.v): decode_dow, get_time_field/time_parse, Configuration::create_schedule,
   Schedule::test as [test_o cfg prev clock] (None = signed overflow, undefined behaviour), and
   [run_o cfg prev0 instants]: the polling loop of Session::activation_service feeding each result
   back as [prev].  Spec (C24/Spec_C24.v): [active] (window membership written from the property
   text), [c24_ok_run] (oracle on a polling trace), [spec_dow], [c24_ok_cfg]. *)
From Coq Require Import ZArith List Bool.
From F8 Require Import C24.Sched C24.Spec_C24 C24.SchedProofs C24.SchedWitness C24.ConfigProofs.
Import ListNotations.
Local Open Scope Z_scope.

(* ---------------------------------------------------------------- weekday names *)

(* For EVERY string: the code decodes exactly what the property allows -- a single digit 0..6,
   or a name whose case-folded text begins with su / m / tu / w / th / f / sa -- and -1 otherwise. *)
Theorem c24_dow_exact : forall s : list Z, decode_dow s = spec_dow s.
Proof. exact decode_dow_spec. Qed.
Print Assumptions c24_dow_exact.

(* What "decoded by the prefix" means for longer input: everything after the distinguishing
   prefix is ignored ("monday", "Tues", "sunday1", "mx" all decode). *)
Theorem c24_dow_trailing_ignored : forall p d t, In (p, d) dow_prefixes -> decode_dow (p ++ t) = d.
Proof. exact decode_dow_prefix. Qed.
Print Assumptions c24_dow_trailing_ignored.

Theorem c24_dow_range : forall s, -1 <= decode_dow s <= 6.
Proof. exact decode_dow_range. Qed.
Print Assumptions c24_dow_range.

(* ---------------------------------------------------------------- daily schedules *)

(* A daily schedule (no weekdays configured): for EVERY previous flag and EVERY instant (local
   time after 1970 and before 2^62 ns) one call of Schedule::test returns exactly "local time of
   day within [start, end]". *)
Theorem c24_daily_exact : forall c prev t,
  ranges_okb c = true -> instants_okb c [t] = true -> s_sd c < 0 ->
  test_o c prev t = Some (daily_active (s_start c) (Some (s_end c)) (local (s_utc c) t)).
Proof. exact daily_exact_b. Qed.
Print Assumptions c24_daily_exact.

(* ... hence every polling trace of a daily schedule, whatever the gaps and the initial flag,
   passes the oracle. *)
Theorem c24_daily_run : forall c prev ts,
  ranges_okb c = true -> instants_okb c ts = true -> s_sd c < 0 ->
  c24_ok_run (s_utc c) (s_sd c) (s_ed c) (s_start c) (Some (s_end c)) ts (run_o c prev ts) = true.
Proof. exact daily_run_ok. Qed.
Print Assumptions c24_daily_run.

(* ---------------------------------------------------------------- weekly schedules *)

(* Partial: start day < end day, start + 1 min <= end, end + 1 min < 24 h  ([weekly_hyp]), an
   ARBITRARY polling sequence whose gaps are within [0, 1 min], and an initial flag that is right
   at the first instant (in particular: flag off and polling begins outside a window).  Then the
   flag returned at every instant is exactly the window membership at that instant. *)
Theorem c24_weekly_partial : forall c t0 ts prev0,
  ranges_okb c = true ->
  weekly_hyp (s_sd c) (s_ed c) (s_start c) (s_end c) = true ->
  instants_okb c (t0 :: ts) = true -> gaps_ok (t0 :: ts) = true ->
  prev0 = active (s_sd c) (s_ed c) (s_start c) (Some (s_end c)) (local (s_utc c) t0) ->
  run_o c prev0 (t0 :: ts)
  = Some (map (fun u => active (s_sd c) (s_ed c) (s_start c) (Some (s_end c)) (local (s_utc c) u))
              (t0 :: ts)).
Proof. exact run_o_weekly. Qed.
Print Assumptions c24_weekly_partial.

Theorem c24_weekly_partial_ok : forall c t0 ts prev0,
  ranges_okb c = true ->
  weekly_hyp (s_sd c) (s_ed c) (s_start c) (s_end c) = true ->
  instants_okb c (t0 :: ts) = true -> gaps_ok (t0 :: ts) = true ->
  start_consistent c prev0 (t0 :: ts) = true ->
  c24_ok_run (s_utc c) (s_sd c) (s_ed c) (s_start c) (Some (s_end c)) (t0 :: ts)
             (run_o c prev0 (t0 :: ts)) = true.
Proof. exact weekly_run_ok. Qed.
Print Assumptions c24_weekly_partial_ok.

(* Refuted, one witness per dropped hypothesis.  [refutes c prev0 ts]: well-formed configuration,
   polling gaps of a minute, and the run fails the oracle c24_ok_run. *)

(* start day = end day (Monday 09:00-17:00): never activates *)
Theorem c24_weekly_refuted_same_day :
  refutes w_sameday_c false w_sameday_ts /\ start_consistent w_sameday_c false w_sameday_ts = true /\
  run_o w_sameday_c false w_sameday_ts = Some [false; false; false].
Proof. exact refuted_sameday. Qed.
Print Assumptions c24_weekly_refuted_same_day.

(* wrapping week (Friday 09:00 -> Monday 17:00) polled every minute from Monday 16:59 (inside the
   window, flag on): still active on Tuesday noon -- the deactivation branch wants wday strictly above the end day *)
Theorem c24_weekly_refuted_wrapping :
  refutes w_wrap_c true w_wrap_ts /\ start_consistent w_wrap_c true w_wrap_ts = true /\
  exists bits i, run_o w_wrap_c true w_wrap_ts = Some bits /\
    nth_error w_wrap_ts i = Some (at_ 9 12 0 0) /\ nth_error bits i = Some true /\
    active 5 1 (hms_ns 9 0 0) (Some (hms_ns 17 0 0)) (at_ 9 12 0 0) = false.
Proof. exact refuted_wrapping. Qed.
Print Assumptions c24_weekly_refuted_wrapping.

(* first check inside the window but outside [start,end] time of day (Tuesday 20:00, Mon-Fri) *)
Theorem c24_weekly_refuted_start_inside :
  refutes mon_fri false w_inside_ts /\ start_consistent mon_fri false w_inside_ts = false /\
  run_o mon_fri false w_inside_ts = Some [false; false; false].
Proof. exact refuted_start_inside. Qed.
Print Assumptions c24_weekly_refuted_start_inside.

(* the flag a Session starts with (_active = true), first check outside the window (Sunday) *)
Theorem c24_weekly_refuted_initial_active :
  refutes mon_fri true w_initial_ts /\ start_consistent mon_fri true w_initial_ts = false /\
  run_o mon_fri true w_initial_ts = Some [true; true; true].
Proof. exact refuted_initial_active. Qed.
Print Assumptions c24_weekly_refuted_initial_active.

(* [start,end] shorter than the polling gap: the opening is missed *)
Theorem c24_weekly_refuted_short_window :
  refutes w_short_c false w_short_ts /\ start_consistent w_short_c false w_short_ts = true /\
  weekly_hyp 1 3 (hms_ns 9 0 0) (hms_ns 9 0 30) = false /\
  run_o w_short_c false w_short_ts = Some [false; false; false].
Proof. exact refuted_short_window. Qed.
Print Assumptions c24_weekly_refuted_short_window.

(* end time within the last minute of the day: the closing is missed for a whole day *)
Theorem c24_weekly_refuted_late_end :
  refutes w_late_c true w_late_ts /\ start_consistent w_late_c true w_late_ts = true /\
  weekly_hyp 1 2 (hms_ns 9 0 0) (hms_ns 23 59 30) = false /\
  run_o w_late_c true w_late_ts = Some [true; true; true].
Proof. exact refuted_late_end. Qed.
Print Assumptions c24_weekly_refuted_late_end.

(* ---------------------------------------------------------------- no end configured *)

(* A schedule with a start but neither end_time nor duration keeps Tickval::errorticks as its
   end; on every day after 1970-01-01 "today + _end" overflows int64 (undefined behaviour; in
   practice the sum wraps negative and the schedule is never active). *)
Theorem c24_open_end_overflow : forall c prev t,
  fits64 (toffset c) = true -> instants_okb c [t] = true -> s_sd c < 0 -> s_end c = errorticks ->
  ns_day <= local (s_utc c) t ->
  test_o c prev t = None.
Proof. exact open_end_b. Qed.
Print Assumptions c24_open_end_overflow.

(* ---------------------------------------------------------------- configuration *)

(* For every attribute set, create_schedule meets the configuration oracle: start required, end =
   end_time | start + duration min | none, end <= start rejected, days decoded by spec_dow, an
   absent end_day defaults to the start day, no days = daily. *)
Theorem c24_config : forall x,
  c24_ok_cfg (x_start x) (x_end x) (x_utc x) (x_dur x) (x_sd x) (x_ed x) (observe (create_schedule x)) = true.
Proof. exact create_schedule_ok. Qed.
Print Assumptions c24_config.

(* Whenever the attributes are well formed ("HH:MM:SS" times, duration 0..10^8) the schedule
   create_schedule builds IS the one the element denotes ([denote], written from the property
   text): same start, end, offset and days; a missing start gives the invalid schedule; an end
   not after the start is rejected.  [denotes D_unjudged _] is True: ill-formed text is not judged. *)
Theorem c24_config_denotes : forall x,
  denotes (denote (x_start x) (x_end x) (x_utc x) (x_dur x) (x_sd x) (x_ed x)) (observe (create_schedule x)).
Proof. exact create_schedule_denotes. Qed.
Print Assumptions c24_config_denotes.

(* The configured path end to end for daily schedules: element -> create_schedule -> polling,
   any initial flag, arbitrary instants: the activity is that of the denoted schedule. *)
Theorem c24_configured_daily : forall x prev ts st e utc sd ed,
  denote (x_start x) (x_end x) (x_utc x) (x_dur x) (x_sd x) (x_ed x) = D_sched st (Some e) utc sd ed ->
  sd < 0 -> e < T62 -> fits64 (utc * minute) = true ->
  forallb (fun t => (0 <=? local utc t) && (local utc t <? T62)) ts = true ->
  c24_ok_cfgrun (x_start x) (x_end x) (x_utc x) (x_dur x) (x_sd x) (x_ed x) ts
                (observe_run (configured_run x prev ts)) = true.
Proof. exact configured_daily_ok. Qed.
Print Assumptions c24_configured_daily.

(* Non-vacuity at midnight: start_time="00:00:00" (0 ticks) is well formed, denotes and yields a
   valid schedule that is active when polled; likewise mo 00:00:00 .. fr 18:00:00, which opens at
   Monday 00:00. *)
Theorem c24_config_midnight_nonvacuous :
  denote (x_start midnight_x) (x_end midnight_x) (x_utc midnight_x) (x_dur midnight_x) (x_sd midnight_x)
         (x_ed midnight_x) = D_sched 0 (Some (hms_ns 23 59 59)) 0 (-1) (-1) /\
  create_schedule midnight_x = CS_ok (mkSched 0 (hms_ns 23 59 59) 0 0 (-1) (-1)) /\
  configured_run midnight_x false (poll sunday ns_minute 3) = CR_bits [true; true; true] /\
  create_schedule midnight_week_x = CS_ok (mkSched 0 (hms_ns 18 0 0) 0 0 1 5) /\
  configured_run midnight_week_x false (poll (at_ 0 23 59 0) ns_minute 3) = CR_bits [false; true; true].
Proof. exact midnight_nonvacuous. Qed.
Print Assumptions c24_config_midnight_nonvacuous.

(* ---------------------------------------------------------------- non-vacuity *)

(* Monday-Friday 09:00-17:00 at UTC+60 polled every minute for eight days from a Sunday: all
   hypotheses of c24_weekly_partial hold and the flag is on for 6241 of the 11520 polls. *)
Theorem c24_nonvacuous :
  ranges_okb nv_c = true /\ weekly_hyp 1 5 (hms_ns 9 0 0) (hms_ns 17 0 0) = true /\
  instants_okb nv_c nv_ts = true /\ gaps_ok nv_ts = true /\ start_consistent nv_c false nv_ts = true /\
  exists bits, run_o nv_c false nv_ts = Some bits /\
    Z.of_nat (length (filter (fun b => b) bits)) = 6241 /\ Z.of_nat (length bits) = 11520.
Proof. exact nonvacuous_weekly. Qed.
Print Assumptions c24_nonvacuous.
