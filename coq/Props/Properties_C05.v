(* Property C05 -- "Permissive decoding passes unknown fields through unchanged".
   Only theorem statements; each is closed by [exact] of a lemma of C05/PermProofs.v or
   C05/Witness.v and followed by Print Assumptions.
     factory      = the model of Message::factory (coq/Codec/Decode.v); last argument = permissive
     c05_ok       = the property on observations (C05/Spec_C05.v): accepted /\ known fields as in
                    strict mode /\ unknown tokens retained /\ re-encoding = known tokens + unknown
                    tokens, byte for byte, correctly framed
     c05_hyp      = (C05/Perm.v) for header, body and trailer in turn: where the strict decoder
                    stops, the rest of the byte string holds only tags unknown to that part; true
                    of a conforming message with unknown tokens inserted when every inserted token
                    sits after the last known token and no inserted tag is congruent mod 65536 to a
                    known one (checked against c05_hyp on every such case of the suite)
     msg_known    = a message object without its three _unknown strings
   The property is FALSE of the code (finding F13): see the three refutations. *)
From Coq Require Import NArith ZArith List Bool String.
From F8 Require Import Codec.Bytes Codec.Meta Codec.Extract Codec.Decode Codec.Encode Codec.Render Codec.Example
                       C05.Spec_C05 C05.Obs C05.Perm C05.PermProofs C05.Witness.
Import ListNotations.
Local Open Scope N_scope.

(* What does hold, for every schema, every byte string, with or without checksum test: if the
   tail condition c05_hyp holds and strict decoding accepts the string, then permissive decoding
   accepts it too and yields exactly the same known content -- same fields, values, positions,
   groups, presence bits -- in header, body and trailer ("no known field is lost").
   (The alternative Fuel is the model's recursion-fuel artefact.)  Proved by a simulation between
   the two runs of MessageBase::decode's loop: they are in lock step up to the point where the
   strict one breaks; from there the permissive one only appends to _unknown and finally returns
   last_valid_offset, i.e. the same offset, so that the next part starts at the same place. *)
Theorem c05_values_partial :
  forall (c : ctx) (cp : caps) (from : list N) (no_chksum : bool) (ms : message),
    c05_hyp c cp from = true ->
    factory c cp from no_chksum false = Ok ms ->
    factory c cp from no_chksum true = Fuel \/
    exists mp, factory c cp from no_chksum true = Ok mp /\ msg_known mp = msg_known ms.
Proof. exact c05_values_partial_lemma. Qed.
Print Assumptions c05_values_partial.

(* The same in terms of the property's oracle: the observations of the two results satisfy the
   "values" clause of c05_ok. *)
Theorem c05_values_partial_spec :
  forall (c : ctx) (from : list N) (no_chksum : bool) (ms mp : message),
    c05_hyp c real_caps from = true ->
    factory c real_caps from no_chksum false = Ok ms ->
    factory c real_caps from no_chksum true = Ok mp ->
    c05_values_ok (obs_of_res c (Ok mp)) (obs_of_res c (Ok ms)) = true.
Proof. exact c05_values_spec_lemma. Qed.
Print Assumptions c05_values_partial_spec.

(* The step lemma behind it, for one MessageBase::decode call (any table, any offset): *)
Theorem c05_decode_simulation :
  forall (c : ctx) (cp : caps) (from : list N) (m : mbase) (off ignore o' : N),
    part_hyp c cp from m off ignore = Some o' ->
    exists m', mbase_decode c cp from m off ignore false = Ok (m', o') /\
      (mbase_decode c cp from m off ignore true = Fuel \/
       exists u, mbase_decode c cp from m off ignore true = Ok (with_unknown m' u, o')).
Proof. exact part_perm. Qed.
Print Assumptions c05_decode_simulation.

(* Refutation 1 (re-encoding): Message::decode runs the header decoder first with ignore = 0;
   in permissive mode it treats every token after the header -- the whole body, the trailer and
   10=ddd -- as unknown and appends them to the header's _unknown (the body decoder does the
   same with everything after the body), and MessageBase::encode re-emits those strings.  A
   Heartbeat WITHOUT any unknown token re-encodes to
   8=..|9=..|35=0|..|112=TEST|10=156|112=TEST|10=156|10=...|; so does a message with one. *)
Theorem c05_reenc_refuted :
  is_ok (factory ex_ctx real_caps hb_clean false false) = true /\
  is_ok (factory ex_ctx real_caps hb_clean false true) = true /\
  c05_reenc_ok hb_clean [] (reenc_of ex_ctx hb_clean true) = false /\
  c05_reenc_ok e_clean [bs "9999=x"] (reenc_of ex_ctx e_body true) = false.
Proof. exact c05_reenc_refuted_lemma. Qed.
Print Assumptions c05_reenc_refuted.

(* Refutation 2: an unknown token in the body before a known body field (35=E ... 66=L1 9999=x
   55=IBM 93=1 89=z): the body decoder sees a known field after the first unknown one, returns
   the end of the message instead of last_valid_offset, and the trailer decoder starts there:
   the known trailer fields 93 and 89 are lost. *)
Theorem c05_body_refuted :
  is_ok (factory ex_ctx real_caps e_clean false false) = true /\
  is_ok (factory ex_ctx real_caps e_body false true) = true /\
  values_run ex_ctx e_clean e_body = false /\
  match factory ex_ctx real_caps e_body false true with
  | Ok m => mb_fields (m_trl m) = [(10, bs "222")] | _ => False end.
Proof. exact c05_body_refuted_lemma. Qed.
Print Assumptions c05_body_refuted.

(* Refutation 3: an unknown token in the header before a known header field (35=E 49=A 9999=x
   56=B ...): the header decoder returns the end of the message, the body decoder finds
   nothing, and a message that strict mode accepts (without the token) is rejected with
   MissingMandatoryField(66). *)
Theorem c05_header_refuted :
  is_ok (factory ex_ctx real_caps e_clean false false) = true /\
  factory ex_ctx real_caps e_hdr false true = Exc (EMissingMandatory 66).
Proof. exact c05_header_refuted_lemma. Qed.
Print Assumptions c05_header_refuted.

(* Hence the property as stated does not hold. *)
Theorem c05_refuted :
  exists c clean toks dirty,
    is_ok (factory c real_caps clean false false) = true /\ c05_run c clean toks dirty = false.
Proof. exact c05_refuted_lemma. Qed.
Print Assumptions c05_refuted.

(* Non-vacuity of c05_values_partial: the hypothesis is met by a Heartbeat followed by two
   unknown tokens (a tag >= 65536, a value containing '='); both decoders accept; the known
   fields equal those of the clean message and both tokens are retained. *)
Theorem c05_nonvacuous :
  c05_hyp ex_ctx real_caps hb_end = true /\
  is_ok (factory ex_ctx real_caps hb_end false false) = true /\
  is_ok (factory ex_ctx real_caps hb_end false true) = true /\
  values_run ex_ctx hb_clean hb_end = true /\
  c05_retained_ok [bs "9999=x"; bs "70000=y=z"] (obs_of_res ex_ctx (factory ex_ctx real_caps hb_end false true)) = true.
Proof. exact c05_nonvacuous_lemma. Qed.
Print Assumptions c05_nonvacuous.
