(* C19 "Inbound messages reach the application only when in sequence".

   Model: Sess.Session.process (+ enforce, compid_check, sequence_check, dispatch, the handlers), the shared
   session core tied byte for byte to runtime/session.cpp.  The general theorems are for EVERY schema `sc`,
   EVERY decode function `decode` (Message::factory), EVERY text `fl`, EVERY time `now`, EVERY session
   state `s` and EVERY inbound byte string `raw`.
     raw_seq raw     = the number Session::process scans from the raw bytes (first SOH "34=" since /repo 57dfe06,
                       up to the next SOH; before: first "34=" anywhere = raw_seq_with pat_34_orig)
     field_seq m     = the MsgSeqNum field of the decoded message
     delivered evs   = the events contain a DELIVER (handle_application passed the message to the router)
     checked m       = the message type is not Reject (3: handle_reject does not call enforce at all),
                       not SequenceReset (4) and not Logon (A): every other handler starts with enforce
     catch19 ..      = the catch (f8Exception&) block of process; `fatal_branch` says what it does for
                       force_logoff exceptions
   The ..._refuted theorems evaluate the model (decoder = Sess.SimpleCodec on the small schema
   Witness19.sc0, `proc raw s` = process sc0 dec0 fl0 T0 raw s, `run0 ops` = the history interpreter) and the
   oracle c19_ok; the same histories are replayed on the real code by the suite. *)
From Coq Require Import NArith ZArith List Bool String.
From F8 Require Import Sess.Bytes Sess.Msg Sess.Persist Sess.Session Sess.Wire
  Sess.SessLemmas Sess.SendLemmas Sess.SimpleCodec C19.Run19 C19.Spec_C19 C19.CodecDecode C19.Witness19 C19.DeliverProofs C19.ResendWire
  C19.GateProofs C19.WitnessProofs.
Import ListNotations.
Local Open Scope string_scope.
Local Open Scope list_scope.
Local Open Scope N_scope.

(* When the number scanned from the raw bytes is the decoded MsgSeqNum: a delivery happens only if the session
   is established, the CompIDs pass (they are not looked at in state logon_received) and the MsgSeqNum equals
   the expected number, or is lower with PossDupFlag set and OrigSendingTime not after SendingTime. *)
Theorem c19_delivery_partial :
  forall sc decode fl now raw s m r s' e,
  decode raw = DecOk m -> raw_seq raw = Some (field_seq m) ->
  process sc decode fl now raw s = (r, s', e) -> delivered e = true ->
  is_established (s_state s) = true /\
  (s_state s = st_logon_received \/ compid_pass s m = true) /\
  (field_seq m = s_next_recv s \/
   (field_seq m < s_next_recv s /\ possdup_of m = true /\ orig_after m = false)).
Proof. exact delivery_partial. Qed.
Print Assumptions c19_delivery_partial.

(* The same without the hypothesis, on the number process really uses. *)
Theorem c19_delivery_rawseq :
  forall sc decode fl now raw s q m r s' e,
  raw_seq raw = Some q -> decode raw = DecOk m ->
  process sc decode fl now raw s = (r, s', e) -> delivered e = true ->
  is_established (s_state s) = true /\
  (s_state s = st_logon_received \/ compid_pass s m = true) /\
  beq (m_type m) mt_sequence_reset = false /\ inseq s q m.
Proof. exact process_delivered. Qed.
Print Assumptions c19_delivery_rawseq.

(* THE SCAN LEMMA (after the repair of F24): in a stream of tag=value tokens whose values contain no SOH the first
   SOH "34=" is the first token after the leading one whose tag is 34, and the number read is its value. *)
Theorem c19_scan_is_token :
  forall t0 toks, forallb tok_ok (t0 :: toks) = true ->
  raw_seq (enc_toks (t0 :: toks)) =
  match tok_get (dec T_MsgSeqNum) toks with Some v => Some (atoi_u v 0) | None => None end.
Proof. exact raw_seq_tokens. Qed.
Print Assumptions c19_scan_is_token.

(* c19_delivery_partial AT FULL STRENGTH, without the raw = field hypothesis: for every message that is a stream of
   tokens (values without SOH, tags canonical decimals: tok_ok19) and every decoder that takes the header's
   MsgSeqNum from the first token with tag 34 (seq_from_token; Sess.SimpleCodec is one: next theorem), the number
   process gates on IS the decoded MsgSeqNum, hence a delivery happens only in sequence.  What escapes is exactly
   a value containing SOH, i.e. the content of a data field: c19_34_data_refuted. *)
Theorem c19_delivery_tokens :
  forall sc decode fl now t0 toks s m r s' e,
  seq_from_token decode -> forallb tok_ok19 (t0 :: toks) = true ->
  decode (enc_toks (t0 :: toks)) = DecOk m ->
  process sc decode fl now (enc_toks (t0 :: toks)) s = (r, s', e) -> delivered e = true ->
  is_established (s_state s) = true /\
  (s_state s = st_logon_received \/ compid_pass s m = true) /\
  (field_seq m = s_next_recv s \/
   (field_seq m < s_next_recv s /\ possdup_of m = true /\ orig_after m = false)).
Proof. exact delivery_tokens. Qed.
Print Assumptions c19_delivery_tokens.

Theorem c19_gate_is_msgseqnum :
  forall decode t0 toks m,
  seq_from_token decode -> forallb tok_ok19 (t0 :: toks) = true -> decode (enc_toks (t0 :: toks)) = DecOk m ->
  (raw_seq (enc_toks (t0 :: toks)) = Some (field_seq m) /\ get_field T_MsgSeqNum (m_hdr m) <> None) \/
  (raw_seq (enc_toks (t0 :: toks)) = None /\ get_field T_MsgSeqNum (m_hdr m) = None).
Proof. exact gate_is_msgseqnum. Qed.
Print Assumptions c19_gate_is_msgseqnum.

Theorem c19_simple_decode_seq_from_token :
  forall sc fl, In T_MsgSeqNum (sc_hdr_mand sc) -> seq_from_token (simple_decode sc fl).
Proof. exact simple_decode_seq_from_token. Qed.
Print Assumptions c19_simple_decode_seq_from_token.

(* A higher number (established session, CompIDs pass, checked type): never delivered; in state `continuous` the
   first thing put on the wire is send(generate_resend_request(expected, 0)); in every other state process
   takes the force_logoff branch on the untouched session: no ResendRequest, the message is not held. *)
Theorem c19_high_partial :
  forall sc decode fl now raw s m q,
  decode raw = DecOk m -> raw_seq raw = Some q -> checked m = true -> s_active s = true ->
  is_established (s_state s) = true -> compid_pass s m = true -> s_next_recv s < q ->
  (forall r s' e, process sc decode fl now raw s = (r, s', e) -> quiet e) /\
  (s_state s = st_continuous ->
   forall ok s1 e1, send sc now s (generate_resend_request sc (s_next_recv s) 0) 0 false = (ok, s1, e1) ->
   forall r s' e, process sc decode fl now raw s = (r, s', e) -> exists e2, e = (e1 ++ e2)%list) /\
  (s_state s <> st_continuous ->
   exists text, process sc decode fl now raw s = catch19 sc now q (Some (m_type m)) (inr (Exc text true), s, [])).
Proof. exact high_partial. Qed.
Print Assumptions c19_high_partial.

(* The same clause for state `continuous` in the oracle's own terms: with a schema that knows the header fields the
   session fills in and the ResendRequest (wf_schema, knows_rr), CompIDs without SOH (wf_sess), an open socket
   and no batch pending, the events of process start with ONE message on the wire, a ResendRequest (35=2) whose
   BeginSeqNo is the expected number, and contain no DELIVER. *)
Theorem c19_high_continuous_wire :
  forall sc decode fl now raw s m q,
  decode raw = DecOk m -> raw_seq raw = Some q -> checked m = true -> s_active s = true ->
  is_established (s_state s) = true -> compid_pass s m = true -> s_next_recv s < q ->
  s_state s = st_continuous ->
  wf_schema sc = true -> knows_rr sc -> wf_sess s = true -> s_closed s = false -> s_batch s = [] ->
  forall r s' e, process sc decode fl now raw s = (r, s', e) ->
  has_deliver e = false /\ exists w rest, e = EOut w :: rest /\ resend_from (s_next_recv s) [EOut w] = true.
Proof. exact high_continuous_wire. Qed.
Print Assumptions c19_high_continuous_wire.

(* A lower number without PossDupFlag, a duplicate whose OrigSendingTime is after its SendingTime, or wrong
   CompIDs under enforcement (established session, checked type): process takes the force_logoff branch on
   the untouched session (hence no delivery: see c19_fatal_branch). *)
Theorem c19_stop_partial :
  forall sc decode fl now raw s m q,
  decode raw = DecOk m -> raw_seq raw = Some q -> checked m = true -> s_active s = true ->
  is_established (s_state s) = true -> violation s q m ->
  exists text, process sc decode fl now raw s = catch19 sc now q (Some (m_type m)) (inr (Exc text true), s, []).
Proof. exact stop_partial. Qed.
Print Assumptions c19_stop_partial.

(* The force_logoff branch: process returns false and the session is shut down; in every state other than
   logon_received NOTHING is put on the wire (no Logout); in logon_received (and without silent_disconnect)
   exactly send(generate_logout(text)) is. *)
Theorem c19_fatal_branch :
  forall sc now q mt text s,
  (s_state s <> st_logon_received ->
   catch19 sc now q mt (inr (Exc text true), s, []) = (false, stop s, [])) /\
  (s_state s = st_logon_received -> pr_sd (s_par s) = false ->
   catch19 sc now q mt (inr (Exc text true), s, []) =
   (let '(_, sb, eb) := send sc now (w_state st_session_terminated s) (generate_logout sc (Some text)) 0 true in
    (false, stop (w_state st_logoff_sent sb), eb))) /\
  (forall r s' e, catch19 sc now q mt (inr (Exc text true), s, []) = (r, s', e) -> r = false /\ s_shutdown s' = true).
Proof. exact fatal_branch. Qed.
Print Assumptions c19_fatal_branch.

(* A message that fails decoding is never delivered; unless the exception forces logoff it is answered with
   send(generate_reject(raw number, text)), process returns true, the expected number is incremented and (since
   /repo beb4ce7) the control record is updated. *)
Theorem c19_decode_failure :
  forall sc decode fl now raw s q text force,
  decode raw = DecExc text force -> raw_seq raw = Some q ->
  (forall r s' e, process sc decode fl now raw s = (r, s', e) -> quiet e) /\
  (force = false ->
   process sc decode fl now raw s =
   (let '(_, s2, e2) := send sc now s (generate_reject sc q (Some text) None) 0 false in
    (true, update_persist_seqnums (w_next_recv (s_next_recv s + 1) s2), e2))) /\
  (force = true -> process sc decode fl now raw s = catch19 sc now q None (inr (Exc text true), s, [])).
Proof. exact decode_failure. Qed.
Print Assumptions c19_decode_failure.

(* Whatever the bytes are: without a successfully decoded message there is no delivery. *)
Theorem c19_undecoded_never_delivered :
  forall sc decode fl now raw s r s' e,
  (forall m, decode raw <> DecOk m) -> process sc decode fl now raw s = (r, s', e) -> quiet e.
Proof. exact process_undecoded_quiet. Qed.
Print Assumptions c19_undecoded_never_delivered.

(* Note: a message without any "34=" is answered with Reject(RefSeqNum = 0) AND the expected number is incremented. *)
Theorem c19_no34_note :
  forall sc decode fl now raw s,
  find_after pat_34 raw = None ->
  process sc decode fl now raw s =
  (let '(_, s2, e2) := send sc now s (generate_reject sc 0 (Some (fmt2 txt_invmsg raw txt_at fl)) None) 0 false in
   (true, update_persist_seqnums (w_next_recv (s_next_recv s + 1) s2), e2)).
Proof. exact no34_note. Qed.
Print Assumptions c19_no34_note.

(* The converse for application messages: a decoded message of any type process sends to handle_application
   (app_type: everything but the seven one-character administrative types, in particular EVERY type of two or more
   characters whatever its first character) that is in sequence, on an established active session with passing
   CompIDs, IS delivered: the events of process are exactly one DELIVER of that type and number. *)
Theorem c19_in_sequence_delivered :
  forall sc decode fl now raw s m,
  decode raw = DecOk m -> raw_seq raw = Some (field_seq m) -> app_type (m_type m) = true -> s_active s = true ->
  is_established (s_state s) = true -> (s_state s = st_logon_received \/ compid_pass s m = true) ->
  (field_seq m = s_next_recv s \/
   (field_seq m < s_next_recv s /\ possdup_of m = true /\ orig_after m = false)) ->
  exists s', process sc decode fl now raw s =
             (mem_bytes (m_type m) (sc_routed sc), s', [EDeliver (m_type m) (field_seq m) (possdup_of m)]).
Proof. exact in_sequence_delivered. Qed.
Print Assumptions c19_in_sequence_delivered.

(* ... on a two-character application type that starts with the Heartbeat's character: delivered as "0X", the
   oracle accepts; the same trace without the DELIVER (the message swallowed by an admin handler) is rejected. *)
Theorem c19_twochar_witness :
  app_type (b "0X") = true /\ is_app sc0 (b "0X") = true /\
  decoded_seq raw_0x = Some 2 /\ raw_seq raw_0x = Some 2 /\ s_next_recv s_cont = 2 /\
  delivers_of (p_evs (proc raw_0x s_cont)) = [b "0X"] /\
  c19_ok sc0 lens0 ops_0x (run0 ops_0x) = true /\
  c19_ok sc0 lens0 ops_0x (run0c ops_0x) = true /\
  c19_ok sc0 lens0 ops_0x (drop_delivers (run0 ops_0x)) = false.
Proof. exact w0x. Qed.
Print Assumptions c19_twochar_witness.

(* Zero-padded VALUES are inside the domain of c19_gate_is_msgseqnum / c19_delivery_tokens (tok_ok19 constrains the
   TAGS to canonical decimals and the values to be SOH-free): `34=010` is a token stream with tok_ok19, the gating
   number and the decoded MsgSeqNum are both 10 (the same decimal reading, atoi_u, of the same text); at expected 10
   it is delivered, at expected 8 it is NOT delivered and answered with ResendRequest(8..). *)
Theorem c19_padded_seqnum_witness :
  forallb tok_ok19 toks_pad = true /\ enc_toks toks_pad = raw_pad /\
  decoded_seq raw_pad = Some 10 /\ raw_seq raw_pad = Some 10 /\
  s_next_recv s_exp10 = 10 /\ delivers_of (p_evs (proc raw_pad s_exp10)) = [b "D"] /\
  s_next_recv s_exp8 = 8 /\ delivered (p_evs (proc raw_pad s_exp8)) = false /\
  resend_from 8 (p_evs (proc raw_pad s_exp8)) = true.
Proof. exact wpad. Qed.
Print Assumptions c19_padded_seqnum_witness.

(* Once the session is shut down the reader loop hands nothing more to process (no delivery after the end). *)
Theorem c19_after_stop_nothing :
  forall sc decode fl now l s evs,
  is_shutdown s = true -> snd (reader_loop sc decode fl now l s evs) = evs.
Proof. exact after_stop_nothing. Qed.
Print Assumptions c19_after_stop_nothing.

(* F24 as it was before /repo 57dfe06 (search for "34=" anywhere, process_with .. pat_34_orig): `35=D|49=SRV|56=CLI|
   115=X34=2|34=7|...` in state continuous with expected number 2 was DELIVERED although its MsgSeqNum is 7; with the
   repaired search the same message is gated on 7: not delivered, ResendRequest(2..). *)
Theorem c19_34_orig_refuted :
  exists (s : sess) (raw : list N) (m : msg),
    dec0 raw = DecOk m /\ field_seq m = 7 /\ raw_seq_with pat_34_orig raw = Some 2 /\
    s_state s = st_continuous /\ s_next_recv s = 2 /\
    delivered (p_evs (proc_orig raw s)) = true /\
    raw_seq raw = Some 7 /\ delivered (p_evs (proc raw s)) = false /\ resend_from 2 (p_evs (proc raw s)) = true.
Proof. exact refuted_34_orig. Qed.
Print Assumptions c19_34_orig_refuted.

(* F24, what is left: SOH "34=2" inside the content of a data field in front of the MsgSeqNum field
   (`...|90=6|91=X<SOH>34=2|34=7|...`, decoder = the Codec group's model of Message::factory, `proc_c`, `run0c`): the
   message is decoded (MsgSeqNum 7), gated on 2 and DELIVERED at expected 2; the oracle rejects the history. *)
Theorem c19_34_data_refuted :
  exists (s : sess) (raw : list N) (m : msg),
    dec0c raw = DecOk m /\ field_seq m = 7 /\ raw_seq raw = Some 2 /\
    s_state s = st_continuous /\ s_next_recv s = 2 /\
    delivered (p_evs (proc_c raw s)) = true /\
    exists ops, c19_ok sc0 lens0 ops (run0c ops) = false.
Proof. exact refuted_34_data. Qed.
Print Assumptions c19_34_data_refuted.

(* F26.  A second message above the expected number while the resend is pending (state resend_request_sent): the
   session is stopped with nothing on the wire instead of the message being held. *)
Theorem c19_second_gap_refuted :
  exists (s : sess) (raw : list N) (m : msg),
    dec0 raw = DecOk m /\ raw_seq raw = Some (field_seq m) /\
    s_state s = st_resend_request_sent /\ s_next_recv s < field_seq m /\
    proc raw s = (false, stop s, []) /\
    exists ops, c19_ok sc0 lens0 ops (run0 ops) = false.
Proof. exact refuted_second_gap. Qed.
Print Assumptions c19_second_gap_refuted.

(* F25.  Once the session is continuous a too-low number, or a CompID violation under enforcement, stops the
   session WITHOUT any Logout on the wire. *)
Theorem c19_no_logout_refuted :
  (exists (s : sess) (raw : list N) (m : msg),
     dec0 raw = DecOk m /\ raw_seq raw = Some (field_seq m) /\
     s_state s = st_continuous /\ field_seq m < s_next_recv s /\ possdup_of m = false /\
     proc raw s = (false, stop s, []) /\
     exists ops, c19_ok sc0 lens0 ops (run0 ops) = false) /\
  (exists (s : sess) (raw : list N) (m : msg),
     dec0 raw = DecOk m /\ s_state s = st_continuous /\ pr_ec (s_par s) = true /\ compid_pass s m = false /\
     proc raw s = (false, stop s, []) /\
     exists ops, c19_ok sc0 lens0 ops (run0 ops) = false).
Proof. exact refuted_no_logout. Qed.
Print Assumptions c19_no_logout_refuted.

(* The no-"34=" note on a concrete message: Reject with RefSeqNum 0, expected number 2 -> 3 (the oracle accepts). *)
Theorem c19_no34_witness :
  raw_seq raw_no34 = None /\ s_next_recv s_cont = 2 /\
  p_ret (proc raw_no34 s_cont) = true /\ s_next_recv (p_sess (proc raw_no34 s_cont)) = 3 /\
  existsb (fun e => match e with
                    | EOut o => beq (val (fld T_MsgType (tokens o))) [51] && beq (val (fld T_RefSeqNum (tokens o))) [48]
                    | _ => false end) (p_evs (proc raw_no34 s_cont)) = true /\
  c19_ok sc0 lens0 ops_no34 (run0 ops_no34) = true.
Proof. exact wno34. Qed.
Print Assumptions c19_no34_witness.

(* Non-vacuity: ordinary traffic meets the hypotheses of c19_delivery_partial and IS delivered (number 2 at
   expected 2; duplicate 2 with PossDupFlag and an earlier OrigSendingTime at expected 3); a gap is answered
   with ResendRequest(5..); a too-low Logon in state logon_received is answered with a Logout; the oracle
   accepts these histories; the side conditions of c19_high_continuous_wire hold for the witness schema/session; the hypotheses of
   c19_delivery_tokens (MsgSeqNum mandatory, a token stream with canonical tags) are met by the same ordinary message. *)
Theorem c19_delivery_nonvacuous :
  (decoded_seq (order_msg "2" []) = Some 2 /\ raw_seq (order_msg "2" []) = Some 2 /\ s_next_recv s_cont = 2 /\
   delivered (p_evs (proc (order_msg "2" []) s_cont)) = true /\
   decoded_seq (order_msg "2" dup_hdr) = Some 2 /\ raw_seq (order_msg "2" dup_hdr) = Some 2 /\ s_next_recv s_cont3 = 3 /\
   delivered (p_evs (proc (order_msg "2" dup_hdr) s_cont3)) = true) /\
  (c19_ok sc0 lens0 ops_good (run0 ops_good) = true /\
   has_deliver (nth_events 2 (run0 ops_good)) = true /\
   has_deliver (nth_events 3 (run0 ops_good)) = true /\
   has_deliver (nth_events 5 (run0 ops_good)) = false /\
   resend_from 5 (nth_events 5 (run0 ops_good)) = true /\
   c19_ok sc0 lens0 ops_logon_low (run0 ops_logon_low) = true /\
   has_out [53] (last_events (run0 ops_logon_low)) = true) /\
  (wf_schema sc0 = true /\ knows_rr sc0 /\ wf_sess s_cont = true /\ s_closed s_cont = false /\ s_batch s_cont = []) /\
  (In T_MsgSeqNum (sc_hdr_mand sc0) /\
   forallb tok_ok19 toks_order2 = true /\ enc_toks toks_order2 = order_msg "2" [] /\
   decoded_seq (enc_toks toks_order2) = Some 2 /\
   delivered (p_evs (proc (enc_toks toks_order2) s_cont)) = true).
Proof. exact (conj wdeliver (conj wgood (conj sc0_wire_ok wtokens))). Qed.
Print Assumptions c19_delivery_nonvacuous.
