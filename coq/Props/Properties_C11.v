(* Property C11 -- "Cloning and field transfer preserve message content".
   Only theorem statements; each is closed by [exact] of a lemma of coq/C11/*Proofs.v and followed
   by Print Assumptions.  copy_legal / move_legal / clone are the models of coq/C11/Copy.v
   (MessageBase::copy_legal, MessageBase::move_legal, Message::clone), msg_encode / mb_encode the
   models of Message::encode / MessageBase::encode (coq/Codec/Encode.v); clone_ok / src_ok are the
   decidable hypotheses of coq/C11/Hyp.v; same_content / count_fields the oracle's notions
   (coq/C11/Spec_C11.v) applied to obj_of, the observed object of a model object. *)
From Coq Require Import NArith ZArith List Bool.
From F8 Require Import Codec.Bytes Codec.Meta Codec.Extract Codec.Decode Codec.Encode Codec.Render Codec.Example
                       C11.Copy C11.Spec_C11 C11.Hyp C11.Examples C11.WitnessProofs.
Import ListNotations.
Local Open Scope N_scope.

(* A message decoded from valid input whose tokens are not in schema order re-encodes in ARRIVAL
   order (the decoder keys _pos by arrival index) whereas its clone encodes in SCHEMA order
   (copy_legal files every field under the target's getPos): the clone's bytes differ. *)
Theorem c11_clone_arrival_order_refuted :
  exists c bytes m,
    decoded c bytes = Some m /\ enc_of c m = bytes /\ clone_enc c m <> [] /\ clone_enc c m <> enc_of c m.
Proof. exact c11_clone_arrival_order_refuted_lemma. Qed.
Print Assumptions c11_clone_arrival_order_refuted.

(* Two fields without the position trait bit (getPos() = 0, FIX42UTEST's 9991 / 9999) inserted in
   descending tag order: the original emits them in insertion order, the clone in table order. *)
Theorem c11_clone_equal_positions_refuted :
  exists c m, enc_of c m <> [] /\ clone_enc c m <> [] /\ clone_enc c m <> enc_of c m.
Proof. exact c11_clone_equal_positions_refuted_lemma. Qed.
Print Assumptions c11_clone_equal_positions_refuted.

(* Pass-through bytes of a permissive decode (_unknown) are not transferred by copy_legal. *)
Theorem c11_clone_unknown_refuted :
  exists c m, enc_of c m <> [] /\ clone_enc c m <> [] /\ clone_enc c m <> enc_of c m.
Proof. exact c11_clone_unknown_refuted_lemma. Qed.
Print Assumptions c11_clone_unknown_refuted.

(* move_legal reads and writes through _groups.find(fnum) without testing for end(): a decoded
   (shallow) message that holds a group count field with value 0 has no such entry, although it
   satisfies every hypothesis of the clone theorem. *)
Theorem c11_move_missing_group_refuted :
  exists c bytes m md, decoded_nock c bytes = Some m /\ find_msg (c_msgs c) (m_type m) = Some md /\
                       clone_ok c md m = true /\ move_msg c m = OOB site_groups_end.
Proof. exact c11_move_missing_group_refuted_lemma. Qed.
Print Assumptions c11_move_missing_group_refuted.

(* Non-vacuity: clone_ok holds of an API-built message with nested groups filled out of order and
   of a message decoded from in-order bytes; their clones encode to the originals' bytes. *)
Theorem c11_nonvacuous :
  clone_ok ex_ctx md_list ex_list = true /\ clone_enc ex_ctx ex_list = enc_of ex_ctx ex_list /\
  enc_of ex_ctx ex_list <> [] /\
  exists m, decoded ex_ctx hb_inorder_bytes = Some m /\ clone_ok ex_ctx md_hb m = true /\
            clone_enc ex_ctx m = hb_inorder_bytes.
Proof. exact c11_nonvacuous_lemma. Qed.
Print Assumptions c11_nonvacuous.
