(* Property C11 -- "Cloning and field transfer preserve message content".
   Only theorem statements; each is closed by [exact] of a lemma of coq/C11/*Proofs.v and followed
   by Print Assumptions.  copy_legal / move_legal / clone are the models of coq/C11/Copy.v
   (MessageBase::copy_legal, MessageBase::move_legal, Message::clone), msg_encode / mb_encode the
   models of Message::encode / MessageBase::encode (coq/Codec/Encode.v); clone_ok / src_ok are the
   decidable hypotheses of coq/C11/Hyp.v; same_content / count_fields the oracle's notions
   (coq/C11/Spec_C11.v) applied to obj_of, the observed object of a model object. *)
From Coq Require Import NArith ZArith List Bool.
From F8 Require Import Codec.Bytes Codec.Meta Codec.Extract Codec.Decode Codec.Encode Codec.Render Codec.Example
                       C11.Copy C11.CopyOrig C11.Spec_C11 C11.Hyp C11.Examples C11.WitnessProofs
                       C11.CopyProofs C11.CountProofs C11.CloneProofs C11.MoveProofs
                       C11.Precision C11.PrecisionProofs.
Import ListNotations.
Local Open Scope N_scope.

(* "For every message, a clone encodes to the same bytes as the original" -- for every message that
   satisfies clone_ok (coq/C11/Hyp.v): each part's _pos is in strictly increasing schema order
   (API-built messages; messages decoded from in-order input), every _pos entry is backed by _fields
   and a present bit and vice versa, no pass-through bytes, the constructor-owned fields 8, 9, 10 are
   still suppressed (never encoded) and BeginString is the constructor's, the target's class knows the
   nested class of each group (the group object itself need not be pre-created); recursively for
   every group element, to any nesting depth.
   Whenever the original encodes, the clone exists and encodes to exactly the same bytes. *)
Theorem c11_clone_partial : forall c m md,
  find_msg (c_msgs c) (m_type m) = Some md -> clone_ok c md m = true ->
  forall b m1, msg_encode c m = Ok (b, m1) ->
  exists t m2, clone c m = Ok t /\ msg_encode c t = Ok (b, m2).
Proof. exact c11_clone_lemma. Qed.
Print Assumptions c11_clone_partial.

(* "copying legal fields into an empty message of the same type transfers every field and group
   element": copy_legal of a source satisfying src_ok into a fresh deep object t0 of the same class
   (nothing present, empty pre-created groups) succeeds, returns the number of fields of the source
   at every level (the oracle's count_fields), and yields an object with the same content (the
   oracle's same_content: every field, every element of every group, recursively) that encodes like
   the source.  By induction over the group tree: unbounded in the number of elements and in depth. *)
Theorem c11_copy_legal_partial : forall s t0, src_ok s t0 = true ->
  exists t, copy_legal false s t0 = Ok (count_fields (obj_of s), t) /\
            same_content (obj_of s) (obj_of t) = true /\
            (forall c b, mb_encode c s = Ok b -> mb_encode c t = Ok b).
Proof. exact c11_copy_legal_lemma. Qed.
Print Assumptions c11_copy_legal_partial.

(* Per-field output state.  A field value of the model is the state of the C++ field object: its
   text and, for the floating point classes, its output precision (coq/C11/Precision.v: an API-built
   Field<fp_type>(value, p) is the text "~p~<decimal>", rendered by modp_dtoa at precision p; a field
   made by the string constructor has the default precision 2).  Every field object of the copy_legal
   target, at every nesting level, has the (precision, value) state of the corresponding source field:
   Field::copy() must carry _precision.  (c11_clone_partial and c11_copy_legal_partial hold for every
   rendering function of the ctx, in particular for render_c11, which depends on that state;
   move_legal moves the objects themselves.) *)
Theorem c11_copy_field_state_partial : forall s t0, src_ok s t0 = true ->
  exists n t, copy_legal false s t0 = Ok (n, t) /\ field_states (obj_of s) = field_states (obj_of t).
Proof. exact c11_copy_field_state_lemma. Qed.
Print Assumptions c11_copy_field_state_partial.

(* Non-vacuity for the precision-carrying values: a message with Field<fp_type>(1.23456, 5) in a
   group element and Field<fp_type>(400.5, 0) in a nested element satisfies clone_ok, its clone encodes
   to the same bytes under the real float rendering, and those bytes differ from the encoding of the
   same values at the default precision (a copy that dropped _precision would be seen). *)
Theorem c11_precision_nonvacuous :
  clone_ok ex_ctx_p md_list ex_list_p = true /\
  clone_enc ex_ctx_p ex_list_p = enc_of ex_ctx_p ex_list_p /\ enc_of ex_ctx_p ex_list_p <> [] /\
  enc_of ex_ctx_p ex_list_p <> enc_of ex_ctx_p ex_list_d.
Proof. exact c11_precision_nonvacuous_lemma. Qed.
Print Assumptions c11_precision_nonvacuous.

(* "moving them leaves the target equal to the original source": move_legal of a source satisfying
   move_ok (local_ok + fresh target as above; every non-empty group belongs to a present group field;
   no recursion: the elements are handed over as they are) into a fresh deep object succeeds, returns
   the number of fields of the object itself (top_fields), the target has the same content and
   encodes like the original source; the source keeps its trait table (present bits still set), each
   of its _fields entries holds a null pointer, so does each _groups entry of a present group field,
   and its _pos is empty (the husk has no _pos component).
   Target shapes covered (target_ok): ANY fresh object of the class whose existing group objects are
   empty -- deep-constructed (every group pre-created: move_legal REPLACES the group object),
   shallow-constructed (no group object: move_legal ADDS the source's group object) and mixed (FIX44
   header, NoHops not pre-created); the two branches of move_legal are distinct in the model
   (map_set / map_insert on _groups) and both are covered by this theorem. *)
Theorem c11_move_legal_partial : forall s t0, move_ok s t0 = true ->
  exists t k, move_legal false s t0 = Ok (top_fields (obj_of s), t, k) /\
    same_content (obj_of s) (obj_of t) = true /\
    (forall c b, mb_encode c s = Ok b -> mb_encode c t = Ok b) /\
    hk_fp k = mb_fp s /\
    map fst (hk_fields k) = map fst (mb_fields s) /\
    (forall f, In f (map fst (mb_fields s)) -> map_find f (hk_fields k) = Some None) /\
    map fst (hk_groups k) = map fst (mb_groups s) /\
    (forall f els, map_find f (mb_groups s) = Some els ->
                   map_find f (hk_groups k) = Some (if group_owned (mb_fp s) f then None else Some els)).
Proof. exact c11_move_legal_lemma. Qed.
Print Assumptions c11_move_legal_partial.

(* A message decoded from valid input whose tokens are not in schema order re-encodes in ARRIVAL
   order (the decoder keys _pos by arrival index) whereas its clone encodes in SCHEMA order
   (copy_legal files every field under the target's getPos): the clone's bytes differ. *)
Theorem c11_clone_arrival_order_refuted :
  exists c bytes m,
    decoded c bytes = Some m /\ enc_of c m = bytes /\ clone_enc c m <> [] /\ clone_enc c m <> enc_of c m.
Proof. exact c11_clone_arrival_order_refuted_lemma. Qed.
Print Assumptions c11_clone_arrival_order_refuted.

(* Two fields without the position trait bit (getPos() = 0, FIX42UTEST's 9991 / 9999) inserted in
   descending tag order: the original emits them in insertion order, the clone in table order. *)
Theorem c11_clone_equal_positions_refuted :
  exists c m, enc_of c m <> [] /\ clone_enc c m <> [] /\ clone_enc c m <> enc_of c m.
Proof. exact c11_clone_equal_positions_refuted_lemma. Qed.
Print Assumptions c11_clone_equal_positions_refuted.

(* Pass-through bytes of a permissive decode (_unknown) are not transferred by copy_legal. *)
Theorem c11_clone_unknown_refuted :
  exists c m, enc_of c m <> [] /\ clone_enc c m <> [] /\ clone_enc c m <> enc_of c m.
Proof. exact c11_clone_unknown_refuted_lemma. Qed.
Print Assumptions c11_clone_unknown_refuted.

(* Two defects found by this check have been repaired in /repo and the model follows the repaired
   code; the former refutations are now positive witnesses.
   (1) /repo 1eb9e00: move_legal dereferenced _groups.find(fnum) == end() for a decoded message holding
   a group count field with value 0 (no group object).  Such a message satisfies clone_ok; moving it
   succeeds and the target encodes like the source. *)
Theorem c11_move_zero_count_repaired :
  exists c bytes m md, decoded_nock c bytes = Some m /\ find_msg (c_msgs c) (m_type m) = Some md /\
                       clone_ok c md m = true /\ map_find 73 (mb_groups (m_body m)) = None /\
                       exists nb nh nt t k, move_msg c m = Ok (nb, nh, nt, t, k) /\
                                            enc_of c t = enc_of c m /\ enc_of c m <> [].
Proof. exact c11_move_zero_count_repaired_lemma. Qed.
Print Assumptions c11_move_zero_count_repaired.

(* (2) /repo 198b3ea: copy_legal dereferenced to->find_group(fnum) == nullptr when the deep constructor
   of the target does not pre-create the group (FIX44 header, NoHops 627); it now uses find_add_group.
   A message with a Hops element in such a header satisfies clone_ok (no group object is required in
   the target) and its clone encodes to the original's bytes. *)
Theorem c11_clone_missing_target_group :
  clone_ok ex_ctx_h md_hb hb_hops = true /\
  mb_groups (m_hdr (mk_message ex_ctx_h md_hb true)) = [] /\
  clone_enc ex_ctx_h hb_hops = enc_of ex_ctx_h hb_hops /\ enc_of ex_ctx_h hb_hops <> [].
Proof. exact c11_clone_missing_target_group_lemma. Qed.
Print Assumptions c11_clone_missing_target_group.

(* The same two inputs on the code as it was BEFORE the repairs (coq/C11/CopyOrig.v): the memory errors
   this check found.  move_legal read and wrote through _groups.end(); copy_legal called
   create_group on a null GroupBase. *)
Theorem c11_move_missing_group_orig_refuted :
  exists c bytes m md, decoded_nock c bytes = Some m /\ find_msg (c_msgs c) (m_type m) = Some md /\
                       clone_ok c md m = true /\ move_msg_orig c m = OOB site_groups_end.
Proof. exact c11_move_missing_group_orig_refuted_lemma. Qed.
Print Assumptions c11_move_missing_group_orig_refuted.

Theorem c11_clone_target_group_orig_refuted :
  exists c m, enc_of c m <> [] /\ clone_orig c m = OOB site_target_group.
Proof. exact c11_clone_target_group_orig_refuted_lemma. Qed.
Print Assumptions c11_clone_target_group_orig_refuted.

(* Non-vacuity: clone_ok holds of an API-built message with nested groups filled out of order and
   of a message decoded from in-order bytes; their clones encode to the originals' bytes. *)
Theorem c11_nonvacuous :
  clone_ok ex_ctx md_list ex_list = true /\ clone_enc ex_ctx ex_list = enc_of ex_ctx ex_list /\
  enc_of ex_ctx ex_list <> [] /\
  exists m, decoded ex_ctx hb_inorder_bytes = Some m /\ clone_ok ex_ctx md_hb m = true /\
            clone_enc ex_ctx m = hb_inorder_bytes.
Proof. exact c11_nonvacuous_lemma. Qed.
Print Assumptions c11_nonvacuous.

(* Non-vacuity of the copy_legal / move_legal theorems: the body of that message (11 fields over
   three levels) satisfies src_ok and move_ok against a fresh deep object of its class. *)
Theorem c11_nonvacuous_parts :
  src_ok (m_body ex_list) (create_group ex_body true) = true /\
  move_ok (m_body ex_list) (create_group ex_body true) = true /\
  count_fields (obj_of (m_body ex_list)) = 11.
Proof. exact c11_nonvacuous_parts_lemma. Qed.
Print Assumptions c11_nonvacuous_parts.

(* Non-vacuity of c11_move_legal_partial for a SHALLOW-constructed target: move_ok holds, the target
   has no group object, move_legal returns the 3 top-level fields, the target holds the source's two
   order elements under 73 (added, not replaced) and encodes like the source. *)
Theorem c11_move_shallow_nonvacuous :
  move_ok (m_body ex_list) (create_group ex_body false) = true /\
  mb_groups (create_group ex_body false) = [] /\
  exists t k, move_legal false (m_body ex_list) (create_group ex_body false) = Ok (3, t, k) /\
              map_find 73 (mb_groups t) = map_find 73 (mb_groups (m_body ex_list)) /\
              map_find 73 (mb_groups (m_body ex_list)) = Some [ex_order1; ex_order2] /\
              mb_encode ex_ctx t = mb_encode ex_ctx (m_body ex_list).
Proof. exact c11_move_shallow_nonvacuous_lemma. Qed.
Print Assumptions c11_move_shallow_nonvacuous.
