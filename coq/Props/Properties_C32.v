(* Property C32 -- "XML configuration parser preserves element trees".
   Only theorem statements: each is closed by [exact] of a lemma proved in C32/XmlProofs.v or
   C32/XmlTreeProofs.v and followed by Print Assumptions.
   Model: C32/Xml.v (XmlElement's constructor = loop/step/finish/parse_doc, ParseAttrs = parse_attrs,
   InplaceXlate = xlate, find = find_all/find_first); printer, reach and the tree classes: C32/Spec_C32.v. *)
From Coq Require Import String.
From Coq Require Import NArith List Bool.
From F8 Require Import C32.XmlBase C32.Xml C32.Spec_C32 C32.XmlProofs C32.XmlTreeProofs C32.XmlTotal C32.XmlNumProofs.
Import ListNotations.
Local Open Scope N_scope.

(* ParseAttrs inverts the attribute printer: for every attribute list with pairwise different keys,
   keys over the name alphabet [A-Za-z0-9_.:-]+ other than "docpath", and values over ALL bytes except
   NUL in which no '&' is followed by something reference-shaped (name; #digits; #xhex;), parsing
   ` k1="escaped v1" k2="escaped v2" ...' returns exactly that list (same keys, same order, references
   decoded back to the values), whatever the current line number. *)
Theorem c32_attrs_partial : forall (line : N) (m : list (str * str)),
  attrs_ok m = true -> parse_attrs line (print_attrs m) = Ok m.
Proof. exact c32_attrs_partial_lemma. Qed.
Print Assumptions c32_attrs_partial.

(* F35, the property is violated: InplaceXlate searches again from the start after every replacement,
   so decoded text is decoded again.  The 4-character value  &lt;  is printed  &amp;lt;  and comes back
   as the single character  <  -- in the decoder alone and through the whole parser (text and attribute). *)
Theorem c32_entity_refuted :
  let v := bs "&lt;" in
  escape v = bs "&amp;lt;" /\ xlate (escape v) = bs "<" /\
  parse_doc (print_el (El (bs "a") None (Some v) [(bs "k", v)] [])) =
    Ok (El (bs "a") None (Some (bs "<")) [(bs "k", bs "<")] []).
Proof. exact c32_entity_refuted_lemma. Qed.
Print Assumptions c32_entity_refuted.

(* ... and holds exactly outside that region: every text without NUL whose '&'s are not followed by
   something reference-shaped survives escaping + decoding (all of & < > and both quotes included). *)
Theorem c32_entity_single_partial : forall v : str,
  value_ok v = true -> xlate (escape v) = v.
Proof. exact c32_entity_single_partial_lemma. Qed.
Print Assumptions c32_entity_single_partial.

(* The same for numeric references ("markup characters written as entity or numeric references"):
   & < > and both quotes written as decimal (&#38; ...) or hexadecimal (&#x26; ...) references are decoded
   back to the text under the same hypothesis. *)
Theorem c32_entity_numeric_partial : forall v : str,
  value_ok v = true -> xlate (escape_dec v) = v /\ xlate (escape_hex v) = v.
Proof. exact c32_entity_numeric_partial_lemma. Qed.
Print Assumptions c32_entity_numeric_partial.

(* find (both overloads, every delimiter, attribute filter pointers atag/aval each possibly null): for every
   tree whose tags are non-empty, free of the delimiter and not beginning with "//" (all trees of
   c32_tree_partial for the default delimiter, see c32_tree_find_tags), every start element and EVERY path
   string, the all-matches form returns exactly the elements reachable by the path -- its components name
   the start element (or the root after a leading "//") and then one child per component -- that pass the
   filter, in document order, and the first-match form returns the first of them. *)
Theorem c32_find_exact : forall (root cur : el) (a : addr) (path : str) (d : byte) (q : filt),
  find_tags_ok d root = true -> find_tags_ok d cur = true ->
  find_all (find_fuel path) root cur a path d q = reach_path root cur a path d q /\
  find_first (find_fuel path) root cur a path d q = hd_error (reach_path root cur a path d q).
Proof. exact c32_find_exact_lemma. Qed.
Print Assumptions c32_find_exact.

(* The attribute filter is exact: with `matched' the path-matched elements (= the unfiltered find-all),
   the filtered find-all is `matched' filtered by "has attribute atag with a value EQUAL to aval" (attr_ok;
   no filter unless both are given), in the same order, and the filtered find-first is its head. *)
Theorem c32_find_filter : forall (root cur : el) (a : addr) (path : str) (d : byte) (q : filt),
  find_tags_ok d root = true -> find_tags_ok d cur = true ->
  let matched := reach_path_el root cur a path d in
  find_all (find_fuel path) root cur a path d (None, None) = map fst matched /\
  find_all (find_fuel path) root cur a path d q = map fst (filter (fun p => attr_ok q (snd p)) matched) /\
  find_first (find_fuel path) root cur a path d q =
    hd_error (map fst (filter (fun p => attr_ok q (snd p)) matched)).
Proof. exact c32_find_filter_lemma. Qed.
Print Assumptions c32_find_filter.

(* For ALL trees, paths, delimiters and filters (no hypothesis): find-first is the head of find-all. *)
Theorem c32_find_first_head : forall (root : el) (d : byte) (q : filt) (fuel : nat) (what : str) (cur : el) (a : addr),
  find_first fuel root cur a what d q = hd_error (find_all fuel root cur a what d q).
Proof. exact find_first_hd. Qed.
Print Assumptions c32_find_first_head.

Theorem c32_tree_find_tags : forall (t : el) (d : nat), tree_ok d t = true -> find_tags_ok 47 t = true.
Proof. exact tree_ok_find_tags. Qed.
Print Assumptions c32_tree_find_tags.

(* The tree round trip (stretch goal, fully proved): for EVERY element tree t of any width and any
   depth up to MaxDepth = 128 whose tags are names [A-Za-z0-9_.:-]+ other than "xi:include", whose
   attribute keys are pairwise different names other than "docpath", whose attribute values and text are
   over all bytes except NUL, LF, CR with no '&' followed by something reference-shaped, and whose text,
   if present, has a character other than blank/tab (tree_ok, a boolean predicate of Spec_C32.v), the
   modelled parser applied to the printed document returns exactly t: same tags, same attribute lists
   with references decoded, same text, same children in the same order (and never runs out of fuel). *)
Theorem c32_tree_partial : forall t : el, tree_ok 0 t = true -> parse_doc (print_el t) = Ok t.
Proof. exact c32_tree_partial_lemma. Qed.
Print Assumptions c32_tree_partial.

(* The two remaining hypotheses of tree_ok are needed: blank-only text is dropped, an attribute named
   docpath is dropped. *)
Theorem c32_blank_text_refuted :
  parse_doc (print_el (El (bs "a") None (Some (bs "  ")) [] [])) = Ok (El (bs "a") None None [] []).
Proof. exact c32_blank_text_refuted_lemma. Qed.
Print Assumptions c32_blank_text_refuted.

Theorem c32_docpath_refuted :
  parse_doc (print_el (El (bs "a") None None [(bs "docpath", bs "x"); (bs "e", bs "1")] [])) =
  Ok (El (bs "a") None None [(bs "e", bs "1")] []).
Proof. exact c32_docpath_refuted_lemma. Qed.
Print Assumptions c32_docpath_refuted.

(* Non-vacuity: a three-level tree with repeated sibling tags, all five markup characters and
   near-references in values and text meets every hypothesis above; its printed form, its parse and
   three path lookups are as stated. *)
Theorem c32_nonvacuous :
  tree_ok 0 sample_tree = true /\
  attrs_ok (el_attrs sample_tree) = true /\
  find_tags_ok 47 sample_tree = true /\
  print_el sample_tree =
    bs "<cfg name=""x&quot;y&apos;z&gt;&amp;"" v.1=""&amp;l; &amp;#; &amp;lt""> a&lt;b &amp; c&gt; <item id=""1""/><ns:other>&apos;</ns:other><item id=""2"">t<leaf-1/><item/></item></cfg>" /\
  parse_doc (print_el sample_tree) = Ok sample_tree /\
  find_all (find_fuel (bs "cfg/item")) sample_tree sample_tree [] (bs "cfg/item") 47 (None, None) = [[0%nat]; [2%nat]] /\
  find_all (find_fuel (bs "//cfg/item/item")) sample_tree sample_tree [] (bs "//cfg/item/item") 47 (None, None) = [[2%nat; 1%nat]] /\
  find_first (find_fuel (bs "cfg/item")) sample_tree sample_tree [] (bs "cfg/item") 47 (Some (bs "id"), Some (bs "2")) = Some [2%nat] /\
  find_all (find_fuel (bs "cfg/item")) sample_tree sample_tree [] (bs "cfg/item") 47 (Some (bs "id"), Some (bs "")) = [].
Proof. exact c32_nonvacuous_lemma. Qed.
Print Assumptions c32_nonvacuous.

(* Arbitrary input bytes: the model is total -- for EVERY byte string the fuel of parse_doc
   (2 * length + 4 loop iterations over all nesting levels) is never exhausted, so the modelled parser
   always answers with a tree or a parse error.  (That the real parser does the same without memory
   errors is what the correspondence run checks under ASan/UBSan.) *)
Theorem c32_total : forall bytes : str, parse_doc bytes <> OutOfFuel.
Proof. exact c32_total_lemma. Qed.
Print Assumptions c32_total.

(* ... and the two replacement loops of InplaceXlate always reach their fixed point: any fuel above
   length + 1 gives the same result as the fuel used by the model. *)
Theorem c32_xlate_fuel : forall (s : str) (fuel1 fuel2 : nat),
  (length s < fuel1)%nat -> (length (xlate_named fuel1 s) < fuel2)%nat ->
  xlate_num fuel2 (xlate_named fuel1 s) = xlate s.
Proof. exact c32_xlate_fuel_lemma. Qed.
Print Assumptions c32_xlate_fuel.
