From Coq Require Import NArith List Bool String.
From F8 Require Import C32.XmlBase C32.Xml C32.Spec_C32 C32.XmlProofs.
Import ListNotations.
Local Open Scope N_scope.

Theorem c32_entity_refuted :
  let v := bs "&lt;" in
  escape v = bs "&amp;lt;" /\ xlate (escape v) = bs "<" /\
  parse_doc (print_el (El (bs "a") None (Some v) [(bs "k", v)] [])) =
    Ok (El (bs "a") None (Some (bs "<")) [(bs "k", bs "<")] []).
Proof. exact c32_entity_refuted_lemma. Qed.
Print Assumptions c32_entity_refuted.
