(* Property C08 -- "Numeric field text conversions are exact inverses".
   Only theorem statements: each is closed by [exact] of a lemma proved in C08/NumIntProofs.v or
   C08/NumFloatProofs.v and followed by Print Assumptions.
   Models: itoa_int / itoa_uint / fast_atoi (NumInt.v; fast_atoi as of /repo commits a8219b1 + 1965750), modp_dtoa / fast_atof (NumFloat.v);
   specification: canon_dec, c08_int_ok, c08_atoi_ok, c08_float_ok ... (Spec_C08.v). *)
From Coq Require Import ZArith List Bool Reals.
From Flocq Require Import IEEE754.BinarySingleNaN.
From F8 Require Import C08.NumInt C08.NumFloat C08.Spec_C08 C08.NumIntProofs C08.NumFloatProofs
  C08.NumFloatShapeProofs C08.NumFloatRoundProofs C08.NumFloatOracleProofs
  C08.NumFloatTextProofs.
Import ListNotations.
Local Open Scope Z_scope.

(* ================================================================================ integers *)

(* Every int32 (INT_MIN included) is rendered by itoa<int> as its canonical decimal text. *)
Theorem c08_itoa_canonical : forall v,
  -2147483648 <= v < 2147483648 -> itoa_int v 10 = Some (canon_dec v).
Proof. exact itoa_int_canonical_lemma. Qed.
Print Assumptions c08_itoa_canonical.

(* Every uint32 is rendered by itoa<unsigned> as its canonical decimal text. *)
Theorem c08_utoa_canonical : forall v,
  0 <= v < 4294967296 -> itoa_uint v 10 = Some (canon_dec v).
Proof. exact itoa_uint_canonical_lemma. Qed.
Print Assumptions c08_utoa_canonical.

(* The specification's text really denotes the value (sanity of canon_dec: Horner evaluation of
   its digits, with the sign, gives v back and the text is recognised as canonical). *)
Theorem c08_canon_dec_denotes : forall v, Z.abs v < 10 ^ 25 -> canon_value (canon_dec v) = Some v.
Proof. exact canon_dec_denotes_lemma. Qed.
Print Assumptions c08_canon_dec_denotes.

(* THE INTEGER HALF OF THE PROPERTY, at full strength (fast_atoi as of 1965750: leading '-' honoured
   for signed T, value accumulated in the unsigned type and negated at the end): every int32 v --
   INT_MIN and INT_MAX included -- is rendered by itoa<int> as its canonical decimal text and
   fast_atoi<int> parses that text back to v; the property's oracle accepts the round trip.  (No
   "no overflow" side condition is left: the routine has no undefined operation on any text, see
   c08_atoi_total.) *)
Theorem c08_atoi_itoa : forall v, -2147483648 <= v < 2147483648 ->
  int_roundtrip v = Some (canon_dec v, AR_ok v) /\
  c08_int_strict_ok v (canon_dec v) (Some v) = true.
Proof. exact int_roundtrip_lemma. Qed.
Print Assumptions c08_atoi_itoa.

(* Every uint32 round-trips through itoa<unsigned> / fast_atoi<unsigned>. *)
Theorem c08_atoi_utoa : forall v, 0 <= v < 4294967296 -> uint_roundtrip v = Some (canon_dec v, AR_ok v).
Proof. exact uint_roundtrip_lemma. Qed.
Print Assumptions c08_atoi_utoa.

(* Parser clause on ARBITRARY text, for the three instantiations used by fix8 (Field<int>; tags,
   lengths, sequence numbers): whenever the text is the canonical decimal of a value of the type,
   that value is returned.  (For other texts only totality is claimed, c08_atoi_total: there is
   still no digit test.) *)
Theorem c08_atoi_any_text : forall text,
  c08_atoi_ok (-2147483648) 2147483647 text (ar_opt (fast_atoi T_int 0 text)) = true /\
  c08_atoi_ok 0 4294967295 text (ar_opt (fast_atoi T_uint 0 text)) = true /\
  c08_atoi_ok 0 65535 text (ar_opt (fast_atoi T_ushort 0 text)) = true.
Proof. exact atoi_any_text_lemma. Qed.
Print Assumptions c08_atoi_any_text.

(* fast_atoi is TOTAL and free of undefined operations on EVERY text (digits or not, any length):
   the unsigned accumulator wraps mod 2^32 / 2^16 and the result is a value of the target type. *)
Theorem c08_atoi_total : forall text,
  (exists v, fast_atoi T_int 0 text = AR_ok v /\ -2147483648 <= v <= 2147483647) /\
  (exists v, fast_atoi T_uint 0 text = AR_ok v /\ 0 <= v <= 4294967295) /\
  (exists v, fast_atoi T_ushort 0 text = AR_ok v /\ 0 <= v <= 65535).
Proof. exact atoi_total_lemma. Qed.
Print Assumptions c08_atoi_total.

(* The routine as it was BEFORE the repairs (a8219b1^) violated the property (witnesses; the repaired routine
   is right on the same inputs): no sign handling, "-5" -> -25 and a shift of a negative value ... *)
Theorem c08_atoi_neg_orig_refuted :
  itoa_int (-5) 10 = Some [45; 53] /\ fast_atoi_orig [45; 53] = -25 /\
  fast_atoi_checked_orig [45; 53] = AC_shift_negative /\
  fast_atoi T_int 0 [45; 53] = AR_ok (-5).
Proof. exact atoi_neg_orig_refuted_lemma. Qed.
Print Assumptions c08_atoi_neg_orig_refuted.

(* ... and the digit's character code was added before '0' was subtracted: signed overflow on the
   text of INT_MAX (of every int from 2147483600 on). *)
Theorem c08_atoi_top_overflow_orig_refuted :
  itoa_int 2147483647 10 = Some [50; 49; 52; 55; 52; 56; 51; 54; 52; 55] /\
  fast_atoi_checked_orig [50; 49; 52; 55; 52; 56; 51; 54; 52; 55] = AC_overflow /\
  fast_atoi T_int 0 [50; 49; 52; 55; 52; 56; 51; 54; 52; 55] = AR_ok 2147483647.
Proof. exact atoi_top_overflow_orig_refuted_lemma. Qed.
Print Assumptions c08_atoi_top_overflow_orig_refuted.

(* ================================================================================== doubles *)

(* The general law is FALSE for the faithful model; independent counterexamples, each inside
   the property's domain (finite, |v| < 2^31, precision 0..9) and rejected by the oracle. *)

(* BEFORE a6c4c45 (dtoa_stage_orig / modp_dtoa_orig): 0.95 at precision 1 left the rounding stage
   with frac = 10 = 10^p and was printed as "0.1"; the repaired stage rolls over (whole 1, frac 0)
   and prints "1.0". *)
Theorem c08_dtoa_rollover_orig_refuted :
  let v := f64_of_bits 0x3FEE666666666666 in
  c08_in_domain v 1 = true /\
  option_map (fun st => (ds_whole st, ds_frac st)) (dtoa_stage_orig v 1) = Some (0, 10) /\
  modp_dtoa_orig v 1 = DT_text [48; 46; 49] /\
  option_map (fun st => (ds_whole st, ds_frac st)) (dtoa_stage v 1) = Some (1, 0) /\
  modp_dtoa v 1 = DT_text [49; 46; 48].
Proof. exact dtoa_rollover_orig_refuted_lemma. Qed.
Print Assumptions c08_dtoa_rollover_orig_refuted.

(* ... "1.0" is still not the correctly rounded decimal of the double 0.94999999999999995559
   ("0.9"): 0.95 * 10 rounds to 9.5 exactly, a spurious tie -- the double-rounding defect, now off by
   one unit in the last place instead of printing a different number. *)
Theorem c08_dtoa_inexact_half_nines_refuted :
  let v := f64_of_bits 0x3FEE666666666666 in
  c08_in_domain v 1 = true /\ fst (float_roundtrip v 1) = DT_text [49; 46; 48] /\
  c08_render_ok v 1 [49; 46; 48] = false /\ c08_render_ok v 1 [48; 46; 57] = true /\
  roundtrip_ok v 1 = false.
Proof. exact dtoa_inexact_half_nines_refuted_lemma. Qed.
Print Assumptions c08_dtoa_inexact_half_nines_refuted.

(* 0.45 at precision 1 -> "0.4" although "0.5" is the correct rounding (double rounding) *)
Theorem c08_dtoa_inexact_half_refuted :
  let v := f64_of_bits 0x3FDCCCCCCCCCCCCD in
  c08_in_domain v 1 = true /\ fst (float_roundtrip v 1) = DT_text [48; 46; 52] /\
  c08_render_ok v 1 [48; 46; 52] = false /\ c08_render_ok v 1 [48; 46; 53] = true /\
  roundtrip_ok v 1 = false.
Proof. exact dtoa_inexact_half_refuted_lemma. Qed.
Print Assumptions c08_dtoa_inexact_half_refuted.

(* 2147483647.5 -> sprintf("%e") *)
Theorem c08_dtoa_sliver_refuted :
  let v := f64_of_bits 0x41DFFFFFFFE00000 in
  c08_in_domain v 2 = true /\ float_roundtrip v 2 = (DT_sprintf, None) /\ roundtrip_ok v 2 = false.
Proof. exact dtoa_sliver_refuted_lemma. Qed.
Print Assumptions c08_dtoa_sliver_refuted.

(* the largest double below 2^31, precision 0: ++whole overflows int *)
Theorem c08_dtoa_overflow_refuted :
  let v := f64_of_bits 0x41DFFFFFFFFFFFFF in
  c08_in_domain v 0 = true /\ float_roundtrip v 0 = (DT_overflow, None) /\ roundtrip_ok v 0 = false.
Proof. exact dtoa_overflow_refuted_lemma. Qed.
Print Assumptions c08_dtoa_overflow_refuted.

(* "38.85" is rendered correctly but parsed one ulp low *)
Theorem c08_atof_inexact_refuted :
  let v := f64_of_bits 0x40436CCCCCCCCCCD in
  let t := [51; 56; 46; 56; 53] in
  c08_in_domain v 2 = true /\ fst (float_roundtrip v 2) = DT_text t /\
  c08_render_ok v 2 t = true /\
  bits_of_f64 (fast_atof t) = 0x40436CCCCCCCCCCC /\ c08_parse_ok t (fast_atof t) = false /\
  c08_parse_ok t v = true /\ roundtrip_ok v 2 = false.
Proof. exact atof_inexact_refuted_lemma. Qed.
Print Assumptions c08_atof_inexact_refuted.

(* What IS true: every integral double of magnitude below 2^31 (the double nearest to -- here:
   equal to -- the integer n) renders, at every precision 0..9, as the canonical decimal of n
   (followed by ".0" when the precision is not 0), and fast_atof returns exactly the same double. *)
Theorem c08_dtoa_int_partial : forall n p, Z.abs n < 2147483648 -> 0 <= p <= 9 ->
  float_roundtrip (f_of_Z n) p =
  (DT_text (canon_dec n ++ (if p =? 0 then [] else [46; 48])), Some (f_of_Z n)).
Proof. exact float_roundtrip_int_lemma. Qed.
Print Assumptions c08_dtoa_int_partial.

(* ... in the property's own terms: the oracle c08_float_ok (value in the domain, text = correctly
   rounded decimal with <= p fraction digits, parse within half an ulp) accepts that round trip. *)
Theorem c08_dtoa_int_oracle : forall n p, Z.abs n < 2147483648 -> 0 <= p <= 9 ->
  roundtrip_ok (f_of_Z n) p = true.
Proof. exact roundtrip_ok_int_lemma. Qed.
Print Assumptions c08_dtoa_int_oracle.

(* Shape, for EVERY finite double and every precision argument (clamped to 0..9 as the code does):
   whenever modp_dtoa writes a decimal text it is [-]digits without redundant leading zero, with
   no point at precision 0 and otherwise a point followed by 1..p digits (c08_shape_ok); the digit
   loops never run out of fuel.  (Needed by C02: a rendered float never contains SOH or '='.) *)
Theorem c08_dtoa_digits_partial : forall v p0, is_finite v = true ->
  match modp_dtoa v p0 with
  | DT_text t => c08_shape_ok (clamp_prec p0) t = true
  | DT_fuel => False
  | DT_sprintf | DT_overflow => True
  end.
Proof. exact dtoa_shape_lemma. Qed.
Print Assumptions c08_dtoa_digits_partial.

(* ... and inside the threshold (|v| <= 2^31-1, the test the code itself makes) the outcome IS a
   text: the sprintf and ++whole-overflow outcomes only occur for |v| > 2^31-1. *)
Theorem c08_dtoa_text_within_threshold : forall v p0, is_finite v = true ->
  flt thres_max (if flt v fzero then fneg v else v) = false ->
  exists t, modp_dtoa v p0 = DT_text t /\ c08_shape_ok (clamp_prec p0) t = true.
Proof. exact dtoa_total_lemma. Qed.
Print Assumptions c08_dtoa_text_within_threshold.

(* When is the rounding right?  Precision 1..9: whenever the tie test of the rounding stage is false
   (the computed diff = tmp - frac is not exactly 0.5), whole * 10^p + frac -- the number the digit
   loops then print -- is THE integer nearest to |v| * 10^p (distance < 1/2): the rendering is
   correctly rounded.  The rendering defect that remains (double rounding onto an exact half) needs
   diff == 0.5; its classifier is the negation of this hypothesis plus narrower sub-conditions. *)
Theorem c08_dtoa_nearest_partial : forall v p, is_finite v = true -> 1 <= p <= 9 ->
  match dtoa_stage v p with
  | None => True
  | Some st => ds_whole0 st <= 2147483647 -> feq (ds_diff st) fhalf = false ->
               (Rabs (B2R (ds_value st) * IZR (10 ^ p) - IZR (ds_whole st * 10 ^ p + ds_frac st)) < / 2)%R
  end.
Proof. exact stage_nearest_lemma. Qed.
Print Assumptions c08_dtoa_nearest_partial.

(* Since a6c4c45 the stage's frac is always below 10^p, so the TEXT denotes the stage's number,
   unconditionally (before the repair this needed "no roll-over in the tie branch"): inside the
   threshold, at (clamped) precision p >= 1, the text is  [-] digits(whole) . fd  with 1..p fraction
   digits fd whose value, padded to p places, is exactly frac. *)
Theorem c08_dtoa_text_value : forall v p0, is_finite v = true ->
  flt thres_max (if flt v fzero then fneg v else v) = false -> 1 <= clamp_prec p0 ->
  exists st fd,
    dtoa_stage v (clamp_prec p0) = Some st /\
    ds_value st = (if flt v fzero then fneg v else v) /\
    ds_whole0 st <= 2147483647 /\ 0 <= ds_whole st /\
    modp_dtoa v p0 = DT_text ((if ds_neg st then [45] else []) ++ dec_digits dec_fuel (ds_whole st) ++ 46 :: fd) /\
    Forall (fun c => 48 <= c <= 57) fd /\ 1 <= Z.of_nat (length fd) <= clamp_prec p0 /\
    digits_value fd * 10 ^ (clamp_prec p0 - Z.of_nat (length fd)) = ds_frac st.
Proof. exact dtoa_text_value_lemma. Qed.
Print Assumptions c08_dtoa_text_value.

(* THE RENDERING CLAUSE, partial: precision 1..9, |v| <= 2^31-1; whenever the tie test of the rounding
   stage is false (computed diff <> 0.5) the text is the correctly rounded decimal: the number it
   denotes, times 10^p, is the integer nearest to |v| * 10^p.  The one remaining rendering defect
   (C08-dtoa-inexact-half) lives entirely in the negation of that hypothesis. *)
Theorem c08_dtoa_correct_partial : forall v p, is_finite v = true -> 1 <= p <= 9 ->
  flt thres_max (if flt v fzero then fneg v else v) = false ->
  match dtoa_stage v p with
  | None => False
  | Some st =>
    feq (ds_diff st) fhalf = false ->
    exists fd, modp_dtoa v p = DT_text ((if ds_neg st then [45] else []) ++ dec_digits dec_fuel (ds_whole st) ++ 46 :: fd) /\
               Forall (fun c => 48 <= c <= 57) fd /\ 1 <= Z.of_nat (length fd) <= p /\
               (Rabs (B2R (if flt v fzero then fneg v else v) * IZR (10 ^ p) -
                      IZR (ds_whole st * 10 ^ p + digits_value fd * 10 ^ (p - Z.of_nat (length fd)))) < / 2)%R
  end.
Proof. exact dtoa_correct_partial_lemma. Qed.
Print Assumptions c08_dtoa_correct_partial.

(* Precision 0 is ALWAYS right inside the threshold: the text is [-]N where N is the integer
   nearest to |v|, and in case of a tie the even one (round half to even, like printf). *)
Theorem c08_dtoa_prec0_correct : forall v, is_finite v = true ->
  flt thres_max (if flt v fzero then fneg v else v) = false ->
  exists N, modp_dtoa v 0 = DT_text ((if flt v fzero then [45] else []) ++ dec_digits dec_fuel N) /\
            0 <= N /\
            (Rabs (B2R (if flt v fzero then fneg v else v) - IZR N) <= / 2)%R /\
            ((Rabs (B2R (if flt v fzero then fneg v else v) - IZR N) = / 2)%R -> Z.even N = true).
Proof. exact dtoa_p0_lemma. Qed.
Print Assumptions c08_dtoa_prec0_correct.

(* Non-vacuity: INT_MIN meets the hypotheses of the integer theorems and of the integral-double
   theorem (as -2147483647 - 1 is outside the latter, its neighbour is used there). *)
Theorem c08_nonvacuous :
  itoa_int (-2147483648) 10 = Some [45; 50; 49; 52; 55; 52; 56; 51; 54; 52; 56] /\
  int_roundtrip (-2147483648) = Some ([45; 50; 49; 52; 55; 52; 56; 51; 54; 52; 56], AR_ok (-2147483648)) /\
  fst (float_roundtrip (f_of_Z (-2147483647)) 9) =
    DT_text [45; 50; 49; 52; 55; 52; 56; 51; 54; 52; 55; 46; 48].
Proof. exact c08_nonvacuous_lemma. Qed.
Print Assumptions c08_nonvacuous.
