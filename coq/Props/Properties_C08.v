(* placeholder while the pipeline is brought up *)
From Coq Require Import ZArith List Bool.
From F8 Require Import C08.NumInt C08.Spec_C08.
Import ListNotations.
Local Open Scope Z_scope.
Theorem c08_atoi_neg_refuted : exists v, -2147483648 <= v < 0 /\ int_roundtrip v = Some (canon_dec v, -25).
Proof. exists (-5). vm_compute. repeat split; congruence. Qed.
Print Assumptions c08_atoi_neg_refuted.
