(* Property C07 — "Checksum function computes the byte sum mod 256 within bounds".
   Only theorem statements: each is closed by [exact] of a lemma proved in
   C07/ChksumProofs.v and followed by Print Assumptions. *)
From Coq Require Import ZArith List Bool.
From F8 Require Import C07.Chksum C07.Spec_C07 C07.ChksumProofs.
Import ListNotations.
Local Open Scope Z_scope.

(* With a length: for every buffer content, offset and length inside the buffer the routine
   returns the sum of exactly those bytes mod 256, and every index it reads lies in
   [offset, offset+len)  (c07_ok checks both the value and the read hull). *)
Theorem c07_len : forall (mem : list Z) (sz off len : Z),
  bytes_ok mem = true -> 0 <= off -> 0 <= len < 2147483648 ->
  off + len <= Z.of_nat (length mem) ->
  c07_ok mem sz off len (calc_chksum mem sz off len) = true.
Proof. exact c07_len_lemma. Qed.
Print Assumptions c07_len.

(* Without a length: the remainder [offset, sz) of the buffer. *)
Theorem c07_nolen : forall (mem : list Z) (sz off : Z),
  bytes_ok mem = true -> 0 <= off <= sz -> sz <= Z.of_nat (length mem) -> sz < W64 ->
  c07_ok mem sz off (-1) (calc_chksum mem sz off (-1)) = true.
Proof. exact c07_nolen_lemma. Qed.
Print Assumptions c07_nolen.

(* The routine as it was before the repair (elen = sz) violates the no-length clause. *)
Theorem c07_nolen_orig_refuted :
  exists mem sz off, bytes_ok mem = true /\ 0 <= off <= sz /\ sz <= Z.of_nat (length mem) /\
                     c07_ok mem sz off (-1) (calc_chksum_orig mem sz off (-1)) = false.
Proof. exact c07_nolen_orig_refuted_lemma. Qed.
Print Assumptions c07_nolen_orig_refuted.

(* Non-vacuity: 590 bytes of 0xff at offset 3 meet c07_len's hypotheses (byte lanes carry on
   every addition and the 256-byte flush is taken twice). *)
Theorem c07_nonvacuous :
  let mem := repeat 255 600 in
  bytes_ok mem = true /\ 0 <= 3 /\ 0 <= 590 < 2147483648 /\
  (3 + 590 <=? Z.of_nat (length mem)) = true /\
  calc_chksum mem 600 3 590 = Some ((590 * 255) mod 256, Some (3, 592)).
Proof. exact c07_nonvacuous_lemma. Qed.
Print Assumptions c07_nonvacuous.
