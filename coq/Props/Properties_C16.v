(* Property C16 -- "Outbound sequence numbers are consecutive and persisted".
   Only theorem statements; each is closed by [exact] of a lemma proved in C16/C16Proofs.v.
   The oracle c16_ok (C16/Spec_C16.v) reads the wire as the receiver does: PossDup messages are skipped,
   a gap fill moves the expected number up to its NewSeqNo, every other message must carry exactly the
   expected number (canonical decimal) which then advances by one; after every operation that sent
   or processed something the file persister's control record must equal (next_send, next_recv). *)
From Coq Require Import NArith ZArith List Bool.
From F8 Require Import Sess.Bytes Sess.Msg Sess.Persist Sess.Session Sess.SimpleCodec Sess.Wire
  Sess.SessLemmas Sess.SendLemmas Sess.Demo C16.Spec_C16 C16.C16Proofs C16.C16Restart C16.C16Control.
Import ListNotations.
Local Open Scope N_scope.

(* c16_consecutive + c16_control_partial, for ALL histories of this shape (any length, any schema that
   knows the header fields the session adds, both roles, every persister, any start numbers):
   a START followed by plain operations -- SEND / BATCH of messages of any type but SequenceReset, with
   arbitrary SOH-free field contents, without custom sequence number, no_increment, preset MsgSeqNum or
   PossDupFlag; CLOCK -- satisfies the whole oracle: the new messages on the wire carry
   start, start+1, ... across single and batched sends, and after every send the control record is
   (next_send, next_recv). *)
Theorem c16_consecutive : forall (sc : schema) (p : startp) (t : option Z) (ops : list op),
  wf_schema sc = true -> wf_start p = true -> forallb plain_op ops = true ->
  c16_ok (OStart p t :: ops) (run_history sc (OStart p t :: ops)) = true.
Proof. exact c16_consecutive_lemma. Qed.
Print Assumptions c16_consecutive.

(* c16_restart: the same with RESTART anywhere in the history (a new session object on the same persister:
   the file persister is re-opened on its files, a memory persister is replaced by an empty one): the
   initiator continues with the sender number of the recovered control record (or the configured start
   number, or 1), the acceptor starts at 1, and every send keeps the control record current. *)
Theorem c16_restart : forall (sc : schema) (p : startp) (t : option Z) (ops : list op),
  wf_schema sc = true -> wf_start p = true -> forallb plain_or_restart ops = true ->
  c16_ok (OStart p t :: ops) (run_history sc (OStart p t :: ops)) = true.
Proof. exact c16_restart_lemma. Qed.
Print Assumptions c16_restart.

(* non-vacuity of c16_restart: two restarts on a file persister; the Logons of the second and third session
   instance carry 4 and 6, the numbers on the wire are 1..8, the control record ends at (9, 1). *)
Theorem c16_restart_nonvacuous :
  forallb plain_or_restart h_restart = true /\
  all_new_seqs (run_history demo_schema (OStart (demo_init PFile) None :: h_restart)) = map dec [1; 2; 3; 4; 5; 6; 7; 8] /\
  ctrl_and_seq (run_history demo_schema (OStart (demo_init PFile) None :: h_restart)) = Some (Some (9, 1), 9, 1).
Proof. exact c16_restart_nonvacuous_lemma. Qed.
Print Assumptions c16_restart_nonvacuous.

(* c16_unique: what acceptance by the numbering automaton means, for ANY list of wire events (of either
   side): the MsgSeqNums of the new (non-PossDup, non-gap-fill) messages are pairwise different. *)
Theorem c16_unique : forall (evs : list event) (e e' : N),
  num_events [] e evs = Some e' -> NoDup (new_seqs evs).
Proof. exact c16_unique_lemma. Qed.
Print Assumptions c16_unique.

(* ... and more precisely they are the canonical decimals of a strictly increasing sequence in [e, e'). *)
Theorem c16_increasing : forall (evs : list event) (e e' : N),
  num_events [] e evs = Some e' -> exists ns, new_seqs evs = map dec ns /\ increasing e ns e'.
Proof. exact num_events_increasing. Qed.
Print Assumptions c16_increasing.

(* c16_control_partial, inbound side: whenever Session::process returns through its normal path (no
   exception), for every decoder, message and state, the control record of a file persister equals
   (next_send, next_recv). *)
Theorem c16_control_inbound_partial :
  forall sc decode now seqnum m s b s1 e1,
  process_body sc decode now seqnum m s = (inl b, s1, e1) ->
  p_kind (s_per s1) = PFile ->
  p_get_ctrl (s_per s1) = Some (s_next_send s1, s_next_recv s1).
Proof. exact c16_process_control_lemma. Qed.
Print Assumptions c16_control_inbound_partial.

(* c16_control: the control clause at FULL strength for send-side histories, for every schema, role,
   persister and start parameters, with NO well-formedness hypothesis: a START followed by SEND / BATCH of ANY
   messages -- custom sequence number, no_increment, SequenceReset included; only MsgSeqNum and PossDupFlag
   must not be preset in the header (that is a retransmission, which persists nothing) -- TICK (the heartbeat
   supervisor with its own no_increment Logout), CLOCK and STOP: after every operation that put something on
   the wire the file persister's control record equals (next_send, next_recv). *)
Theorem c16_control : forall (sc : schema) (p : startp) (t : option Z) (ops : list op),
  forallb ctl_op ops = true ->
  c16_ctrl_ok (OStart p t :: ops) (run_history sc (OStart p t :: ops)) = true.
Proof. exact c16_control_lemma. Qed.
Print Assumptions c16_control.

(* c16_ctrl_ok is literally the control clause of the oracle. *)
Theorem c16_ok_implies_control : forall ops tr, c16_ok ops tr = true -> c16_ctrl_ok ops tr = true.
Proof. exact c16_ok_ctrl. Qed.
Print Assumptions c16_ok_implies_control.

(* c16_control_orig_refuted (F20, repaired by 8a992cc): the ORIGINAL send_process persisted
   (next_send + 1, next_recv) even when it then did not increment: control (3, 1) against the session's
   (2, 1) after a send with a custom sequence number, with no_increment, or of a SequenceReset; the code as
   it is writes (2, 1) in all three cases. *)
Theorem c16_control_orig_refuted :
  ctrl_vs_seq (send_process_orig demo_schema T0 st0 m_custom7) = (Some (3, 1), 2, 1) /\
  ctrl_vs_seq (send_process_orig demo_schema T0 st0 m_noinc1) = (Some (3, 1), 2, 1) /\
  ctrl_vs_seq (send_process_orig demo_schema T0 st0 m_seqreset) = (Some (3, 1), 2, 1) /\
  ctrl_vs_seq (send_process demo_schema T0 st0 m_custom7) = (Some (2, 1), 2, 1) /\
  ctrl_vs_seq (send_process demo_schema T0 st0 m_noinc1) = (Some (2, 1), 2, 1) /\
  ctrl_vs_seq (send_process demo_schema T0 st0 m_seqreset) = (Some (2, 1), 2, 1).
Proof. exact c16_control_orig_refuted_lemma. Qed.
Print Assumptions c16_control_orig_refuted.

(* what remains true by design of the API: a NEW message sent with a custom sequence number carries that
   number (7 after the Logon's 1): the numbering clause fails although the control record (2, 1) is right. *)
Theorem c16_custom_refuted :
  all_new_seqs_of (run_history demo_schema h_custom) = map dec [1; 7] /\
  ctrl_and_seq (run_history demo_schema h_custom) = Some (Some (2, 1), 2, 1) /\
  c16_ok h_custom (run_history demo_schema h_custom) = false.
Proof. exact c16_custom_refuted_lemma. Qed.
Print Assumptions c16_custom_refuted.

(* the session's own Logout (no_increment, heartbeat supervisor): since the repair the control record is
   (4, 2) = the session's numbers and the whole oracle accepts the history. *)
Theorem c16_own_logout_ok :
  ctrl_and_seq (run_history demo_schema h_supervisor) = Some (Some (4, 2), 4, 2) /\
  c16_ok h_supervisor (run_history demo_schema h_supervisor) = true.
Proof. exact c16_logout_ok_lemma. Qed.
Print Assumptions c16_own_logout_ok.

(* c16_control_inbound: every way out of Session::process except the force_logoff path -- the normal return
   and, since /repo beb4ce7, the Reject path (an f8Exception without force_logoff thrown by the decoder or a
   handler) -- leaves the control record of a file persister equal to (next_send, next_recv).  The force_logoff
   path (sequence / CompID violation) is NOT repaired: known finding C16-force-logoff-control-stale. *)
Theorem c16_control_inbound : forall sc decode now seqnum mt m s,
  let r := process_body sc decode now seqnum m s in
  (match fst (fst r) with inr (Exc _ true) => False | _ => True end) ->
  let r' := process_catch sc now seqnum mt r in
  p_kind (s_per (snd (fst r'))) = PFile ->
  p_get_ctrl (s_per (snd (fst r'))) = Some (s_next_send (snd (fst r')), s_next_recv (snd (fst r'))).
Proof. exact c16_inbound_control_lemma. Qed.
Print Assumptions c16_control_inbound.

(* the same for a Reject caused before or outside process_body (the decoder's exception, a message without 34=). *)
Theorem c16_control_reject : forall sc now seqnum mt text s1 e1,
  let r := process_catch sc now seqnum mt (inr (Exc text false), s1, e1) in
  p_kind (s_per (snd (fst r))) = PFile ->
  p_get_ctrl (s_per (snd (fst r))) = Some (s_next_send (snd (fst r)), s_next_recv (snd (fst r))).
Proof. exact c16_reject_control_lemma. Qed.
Print Assumptions c16_control_reject.

(* c16_reject_orig_refuted (repaired by beb4ce7): the ORIGINAL catch block incremented next_recv without updating
   the control record: control (3, 1) against the session's (3, 2); the code as it is writes (3, 2). *)
Theorem c16_reject_orig_refuted :
  ctrl_vs_seq (process_catch_orig demo_schema T0 2 None (inr (Exc txt_x false), st0, [])) = (Some (3, 1), 3, 2) /\
  ctrl_vs_seq (process_catch demo_schema T0 2 None (inr (Exc txt_x false), st0, [])) = (Some (3, 2), 3, 2).
Proof. exact c16_reject_orig_refuted_lemma. Qed.
Print Assumptions c16_reject_orig_refuted.

(* a history with a rejected inbound message (missing mandatory field) now satisfies the whole oracle. *)
Theorem c16_reject_ok :
  ctrl_and_seq (run_history demo_schema h_reject) = Some (Some (3, 3), 3, 3) /\
  c16_ok h_reject (run_history demo_schema h_reject) = true.
Proof. exact c16_reject_ok_lemma. Qed.
Print Assumptions c16_reject_ok.

(* non-vacuity of c16_consecutive: singles, a batch of three and admin sends meet its hypotheses; the
   seven new messages carry 1..7 and the control record ends at (8, 1). *)
Theorem c16_nonvacuous :
  wf_schema demo_schema = true /\ wf_start (demo_init PFile) = true /\ forallb plain_op h_plain = true /\
  all_new_seqs (run_history demo_schema (OStart (demo_init PFile) None :: h_plain)) = map dec [1; 2; 3; 4; 5; 6; 7] /\
  ctrl_and_seq (run_history demo_schema (OStart (demo_init PFile) None :: h_plain)) = Some (Some (8, 1), 8, 1).
Proof. exact c16_nonvacuous_lemma. Qed.
Print Assumptions c16_nonvacuous.
