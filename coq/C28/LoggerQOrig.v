(* THE CODE AS IT WAS BEFORE THE REPAIRS c53d854 (enqueue's return value) and 4b85524 (consumer
   loop).  Kept only for the witness theorems c28_lost_lines_orig_refuted and
   c28_return_orig_refuted (C28/OrigWitness.v); the model of the current code is C28/LoggerQ.v.

   Model of the asynchronous logger: Logger::send / enqueue / stop (include/fix8/logger.hpp:
   296-312), the consumer loop Logger::operator()() and the "sequence" field of
   process_logline (runtime/logger.cpp:60-134), FIX8_MPMC_SYSTEM == FIX8_MPMC_FF branch,
   as an interleaving model in the convention of DESIGN.md section 4 "Concurrency group":
   [step c t] executes the next atomic action of thread t, a schedule is a list of thread ids,
   [run sched c = fold_left step sched c].  No proofs in this file.

   The queue (ff_unbounded_queue<LogElement> over ff::uMPMC_Ptr_Queue) is abstracted as a FIFO
   list with atomic push and pop; that the real multi-producer queue is linearizable to this
   is the subject of property C30 (coq/C30, c30_ticket_order / c30_exactly_once), cited here as
   the licence for the abstraction, not re-proved.  try_push on the unbounded queue always
   succeeds (allocation failure is not modelled).

   Ghost state: [q_src] of a queue element (which submit call it stems from; None for the
   empty string pushed by stop()), [pushed] (all pushes in order), [wrote] (the elements
   written), [dropped] (the element whose
   empty text made the consumer leave its loop). *)
From Coq Require Import ZArith List Bool Arith.
From F8 Require Import C28.Spec_C28.
Import ListNotations.

Record qelem := { q_src : option (nat * nat); q_text : text }.

Inductive tid := P (i : nat) | Cons | Stop.

(* a producer thread: the submit calls still to make, the number already made, their results *)
Record pstate := { todo : prog; pidx : nat; rets : list bool }.

(* consumer: at the loop test, at try_pop, holding a popped element to write, or exited *)
Inductive cpc := CTest | CPop | CWrite (x : qelem) | CExit.
(* the thread calling stop(): before, after _stopping.request_stop(), after enqueue(""), after join *)
Inductive spc := SIdle | SReq | SPushed | SDone.

Record config := {
  mask : Z;                      (* _levels *)
  prods : list pstate;
  queue : list qelem;            (* _msg_queue *)
  stopping : bool;               (* _stopping *)
  cons : cpc;
  seqno : nat;                   (* _sequence *)
  file : list (nat * text);      (* the log file: sequence field and text of each line *)
  stopper : spc;
  pushed : list qelem;           (* ghost *)
  wrote : list qelem;            (* ghost: the elements written, in order *)
  dropped : list qelem }.        (* ghost *)

Definition init (m : Z) (ps : list prog) : config :=
  {| mask := m; prods := map (fun p => {| todo := p; pidx := O; rets := [] |}) ps;
     queue := []; stopping := false; cons := CTest; seqno := O; file := []; stopper := SIdle;
     pushed := []; wrote := []; dropped := [] |}.

(* _msg_queue.try_push(le): always succeeds *)
Definition try_push (q : list qelem) (x : qelem) : list qelem * bool := (q ++ [x], true).

(* bool enqueue(what, ...) { const LogElement le(...); return _msg_queue.try_push(le) == 0; } *)
Definition enqueue (q : list qelem) (x : qelem) : list qelem * bool :=
  let (q', r) := try_push q x in (q', negb r).          (* "== 0" on a bool *)

Fixpoint upd {A} (l : list A) (i : nat) (x : A) : list A :=
  match l, i with
  | [], _ => []
  | _ :: t, O => x :: t
  | a :: t, S j => a :: upd t j x
  end.

(* producer i makes its next call: send(what, lev) { return is_loggable(lev) ? enqueue(what, lev) : true; } *)
Definition step_prod (c : config) (i : nat) : config :=
  match nth_error (prods c) i with
  | None => c
  | Some ps =>
      match todo ps with
      | [] => c
      | (lev, txt) :: rest =>
          if enabled (mask c) lev then
            let x := {| q_src := Some (i, pidx ps); q_text := txt |} in
            let (q', r) := enqueue (queue c) x in
            {| mask := mask c; prods := upd (prods c) i {| todo := rest; pidx := S (pidx ps); rets := rets ps ++ [r] |};
               queue := q'; stopping := stopping c; cons := cons c; seqno := seqno c; file := file c;
               stopper := stopper c; pushed := pushed c ++ [x]; wrote := wrote c; dropped := dropped c |}
          else
            {| mask := mask c; prods := upd (prods c) i {| todo := rest; pidx := S (pidx ps); rets := rets ps ++ [true] |};
               queue := queue c; stopping := stopping c; cons := cons c; seqno := seqno c; file := file c;
               stopper := stopper c; pushed := pushed c; wrote := wrote c; dropped := dropped c |}
      end
  end.

Definition set_cons (c : config) (k : cpc) : config :=
  {| mask := mask c; prods := prods c; queue := queue c; stopping := stopping c; cons := k; seqno := seqno c;
     file := file c; stopper := stopper c; pushed := pushed c; wrote := wrote c; dropped := dropped c |}.

(* the consumer thread:
     while (!_stopping) {                                  CTest
        if (!_msg_queue.try_pop(msg_ptr)) { hypersleep<h_microseconds>(200); continue; }     CPop
        if (msg_ptr->_str.empty()) break;                  (still CPop: thread-local)
        process_logline(msg_ptr);   // "sequence": ++_sequence, then the text, then endl       CWrite
     }                                                                                          *)
Definition step_cons (c : config) : config :=
  match cons c with
  | CTest => if stopping c then set_cons c CExit else set_cons c CPop
  | CPop =>
      match queue c with
      | [] => set_cons c CTest
      | x :: q' =>
          match q_text x with
          | [] => {| mask := mask c; prods := prods c; queue := q'; stopping := stopping c; cons := CExit;
                     seqno := seqno c; file := file c; stopper := stopper c; pushed := pushed c; wrote := wrote c;
                     dropped := dropped c ++ [x] |}
          | _ :: _ => {| mask := mask c; prods := prods c; queue := q'; stopping := stopping c; cons := CWrite x;
                         seqno := seqno c; file := file c; stopper := stopper c; pushed := pushed c; wrote := wrote c;
                         dropped := dropped c |}
          end
      end
  | CWrite x =>
      {| mask := mask c; prods := prods c; queue := queue c; stopping := stopping c; cons := CTest;
         seqno := S (seqno c); file := file c ++ [(S (seqno c), q_text x)]; stopper := stopper c;
         pushed := pushed c; wrote := wrote c ++ [x]; dropped := dropped c |}
  | CExit => c
  end.

(* void stop() { _stopping.request_stop(); enqueue(std::string()); _thread.join(); } *)
Definition step_stop (c : config) : config :=
  match stopper c with
  | SIdle => {| mask := mask c; prods := prods c; queue := queue c; stopping := true; cons := cons c;
                seqno := seqno c; file := file c; stopper := SReq; pushed := pushed c; wrote := wrote c; dropped := dropped c |}
  | SReq => let x := {| q_src := None; q_text := [] |} in
            let (q', _) := enqueue (queue c) x in
            {| mask := mask c; prods := prods c; queue := q'; stopping := stopping c; cons := cons c;
               seqno := seqno c; file := file c; stopper := SPushed; pushed := pushed c ++ [x]; wrote := wrote c; dropped := dropped c |}
  | SPushed => match cons c with
               | CExit => {| mask := mask c; prods := prods c; queue := queue c; stopping := stopping c; cons := cons c;
                             seqno := seqno c; file := file c; stopper := SDone; pushed := pushed c; wrote := wrote c; dropped := dropped c |}
               | _ => c                                   (* join blocks *)
               end
  | SDone => c
  end.

Definition step (c : config) (t : tid) : config :=
  match t with
  | P i => step_prod c i
  | Cons => step_cons c
  | Stop => step_stop c
  end.

Definition run (sched : list tid) (c : config) : config := fold_left step sched c.

(* what a run shows to the outside (Spec_C28.obs) *)
Definition observe (c : config) : obs :=
  {| o_rets := map rets (prods c); o_file := file c;
     o_stopped := match stopper c with SDone => true | _ => false end |}.

(* ---- schedules used by the correspondence check ------------------------------------------
   The harness lets all producers finish, then calls stop() at once / after a short delay
   (the consumer has then written some number [k] of lines: taken from the observed file) or
   after it has seen the file complete ([drain]).  The order in which the producers' lines
   entered the queue is taken from the observed file ([order]: producer numbers); whatever the
   file does not determine is appended producer by producer. *)

(* P i repeated until producer i has pushed one more line (calls at disabled levels push nothing) *)
Fixpoint until_push (m : Z) (i : nat) (p : prog) : list tid * prog :=
  match p with
  | [] => ([], [])
  | (lev, _) :: rest =>
      if enabled m lev then ([P i], rest)
      else let (s, r) := until_push m i rest in (P i :: s, r)
  end.

Fixpoint sched_pushes (m : Z) (order : list nat) (ps : list prog) : list tid * list prog :=
  match order with
  | [] => ([], ps)
  | i :: more =>
      match nth_error ps i with
      | None => sched_pushes m more ps
      | Some p => let (s, r) := until_push m i p in
                  let (s', ps') := sched_pushes m more (upd ps i r) in (s ++ s', ps')
      end
  end.

Fixpoint sched_rest (i : nat) (ps : list prog) : list tid :=
  match ps with
  | [] => []
  | p :: more => repeat (P i) (length p) ++ sched_rest (S i) more
  end.

Definition total_calls (ps : list prog) : nat := fold_right (fun p n => (length p + n)%nat) O ps.

Definition sched_for (drain : bool) (k : nat) (m : Z) (order : list nat) (ps : list prog) : list tid :=
  let (s1, ps1) := sched_pushes m order ps in
  let producers := s1 ++ sched_rest O ps1 in
  let consumer := if drain then repeat Cons (3 * S (total_calls ps)) else repeat Cons (3 * k) in
  producers ++ consumer ++ [Stop; Cons; Cons; Cons; Stop; Cons; Cons; Cons; Stop].

Definition run_case (drain : bool) (k : nat) (m : Z) (order : list nat) (ps : list prog) : obs :=
  observe (run (sched_for drain k m order ps) (init m ps)).
