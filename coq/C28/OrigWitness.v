(* Witnesses against the code as it was before the repairs c53d854 and 4b85524
   (model C28/LoggerQOrig.v). *)
From Coq Require Import ZArith List Bool.
From F8 Require Import C28.Spec_C28 C28.LoggerQOrig.
Import ListNotations.
Local Open Scope Z_scope.

(* one producer, one line at an enabled level, accepted before stop() is called; stop() is called
   before the consumer has looked at the queue: the old loop tested _stopping first and left,
   stop() returned, the file is empty. *)
Lemma c28_lost_lines_orig_refuted_lemma :
  exists m ps sched,
    let c := run sched (init m ps) in
    stopper c = SDone /\
    map rets (prods c) = [[false]] /\
    pushed c = [{| q_src := Some (O, O); q_text := [65] |}; {| q_src := None; q_text := [] |}] /\
    file c = [] /\
    file_complete false m (fun _ _ => 0) ps (observe c) = false.
Proof.
  exists 2, [[(1, [65])]], [P 0; Stop; Cons; Stop; Stop]. vm_compute. repeat split; reflexivity.
Qed.

(* everything written, in order, queue drained before stop(): only the return value was wrong
   (enqueue returned try_push(le) == 0) *)
Lemma c28_return_orig_refuted_lemma :
  exists m ps sched,
    let o := observe (run sched (init m ps)) in
    file_sound false m (fun _ _ => 0) ps o = true /\ file_complete false m (fun _ _ => 0) ps o = true /\
    o_rets o = [[false]] /\ rets_ok m ps (o_rets o) = false.
Proof.
  exists 2, [[(1, [65])]], (sched_for true 0 2 [] [[(1, [65])]]). vm_compute. repeat split; reflexivity.
Qed.
