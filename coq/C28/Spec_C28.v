(* Property C28 as an executable predicate on observables, written from the property text:

     "Every line submitted at an enabled level before the logger is stopped is written exactly
      once, lines from one producer appear in submission order with consecutive sequence
      numbers, lines at disabled levels never appear, and the submit call reports success
      exactly when the line was accepted.  Stopping the logger returns only after all accepted
      lines are written."

   Observables of one run: the level mask, what every producer submitted (level, text), what
   each submit call returned, the log file after stop() returned (sequence number and text of
   every line, in file order) and whether stop() returned.  All producers have finished before
   stop() is called.  Texts are byte lists; the text of line k of producer i is unique to (i, k)
   in the runs this is applied to, so a file line identifies the submission it stems from.

   Reading of the return-value clause: a line is "accepted" when its level is enabled (the
   queue is unbounded, nothing else can refuse it); a submit call at an enabled level must
   return true.  At a disabled level the call has nothing to do and its result is not judged. *)
From Coq Require Import ZArith List Bool Arith.
Import ListNotations.

Definition text := list Z.
Definition prog := list (Z * text).            (* one producer: (level, text) per submit call *)

Definition enabled (mask : Z) (lev : Z) : bool := Z.testbit mask lev.   (* _levels & level *)

Fixpoint text_eqb (a b : text) : bool :=
  match a, b with
  | [], [] => true
  | x :: a', y :: b' => Z.eqb x y && text_eqb a' b'
  | _, _ => false
  end.

(* the lines of one producer that must be written, in submission order *)
Definition must_write (mask : Z) (p : prog) : list text :=
  map snd (filter (fun l => enabled mask (fst l)) p).

Record obs := { o_rets : list (list bool);         (* per producer, per submit call *)
                o_file : list (nat * text);         (* sequence number, text *)
                o_stopped : bool }.

(* sequence numbers are 1, 2, 3, ... in file order *)
Fixpoint seq_ok (n : nat) (f : list (nat * text)) : bool :=
  match f with
  | [] => true
  | (s, _) :: t => Nat.eqb s n && seq_ok (S n) t
  end.

(* consume the file line by line: each line must be the NEXT not yet written line of some
   producer (this is "exactly once" + "in submission order" + "only enabled levels" + "only
   submitted texts" at once); returns what is still unwritten *)
Fixpoint strike (t : text) (rest : list (list text)) : option (list (list text)) :=
  match rest with
  | [] => None
  | [] :: more => match strike t more with Some r => Some ([] :: r) | None => None end
  | (x :: xs) :: more =>
      if text_eqb x t then Some (xs :: more)
      else match strike t more with Some r => Some ((x :: xs) :: r) | None => None end
  end.

Fixpoint strike_all (f : list (nat * text)) (rest : list (list text)) : option (list (list text)) :=
  match f with
  | [] => Some rest
  | (_, t) :: f' => match strike t rest with Some r => strike_all f' r | None => None end
  end.

(* what is written is legitimate: order, exactly-once, levels, sequence numbers *)
Definition file_sound (mask : Z) (ps : list prog) (o : obs) : bool :=
  seq_ok 1 (o_file o) &&
  match strike_all (o_file o) (map (must_write mask) ps) with Some _ => true | None => false end.

(* nothing accepted is missing once stop() has returned *)
Definition file_complete (mask : Z) (ps : list prog) (o : obs) : bool :=
  o_stopped o &&
  match strike_all (o_file o) (map (must_write mask) ps) with
  | Some rest => forallb (fun l => match l with [] => true | _ => false end) rest
  | None => false
  end.

(* every submit call at an enabled level reported success; one result per call *)
Fixpoint rets_ok1 (mask : Z) (p : prog) (r : list bool) : bool :=
  match p, r with
  | [], [] => true
  | (lev, _) :: p', b :: r' => (if enabled mask lev then b else true) && rets_ok1 mask p' r'
  | _, _ => false
  end.

Fixpoint rets_ok (mask : Z) (ps : list prog) (rs : list (list bool)) : bool :=
  match ps, rs with
  | [], [] => true
  | p :: ps', r :: rs' => rets_ok1 mask p r && rets_ok mask ps' rs'
  | _, _ => false
  end.

Definition c28_ok (mask : Z) (ps : list prog) (o : obs) : bool :=
  file_sound mask ps o && file_complete mask ps o && rets_ok mask ps (o_rets o).
