(* Property C28 as an executable predicate on observables, written from the property text:

     "Every line submitted at an enabled level before the logger is stopped is written exactly
      once, lines from one producer appear in submission order with consecutive sequence
      numbers, lines at disabled levels never appear, and the submit call reports success
      exactly when the line was accepted.  Stopping the logger returns only after all accepted
      lines are written."

   Observables of one run: the level mask, whether the logger has the "direction" flag, what
   every producer submitted (level, text, and the "val" argument of send: [vf i k] for call k of
   producer i), what
   each submit call returned, the log file after stop() returned (sequence number and text of
   every line, in file order) and whether stop() returned.  All producers have finished before
   stop() is called.  Texts are byte lists; the text of line k of producer i is unique to (i, k)
   in the runs this is applied to, so a file line identifies the submission it stems from.

   Reading of the return-value clause: a line is "accepted" when its level is enabled (the
   queue is unbounded, nothing else can refuse it); a submit call at an enabled level must
   return true.  At a disabled level the call has nothing to do and its result is not judged. *)
From Coq Require Import ZArith List Bool Arith.
Import ListNotations.

Definition text := list Z.
Definition prog := list (Z * text).            (* one producer: (level, text) per submit call *)

Definition enabled (mask : Z) (lev : Z) : bool := Z.testbit mask lev.   (* _levels & level *)

(* the "val" argument of call k of producer i *)
Definition valfn := nat -> nat -> Z.

(* "Consecutive sequence numbers".  A logger without the direction flag numbers its lines
   1, 2, 3, ... in file order, whatever val the lines were submitted with.  A logger WITH the
   direction flag keeps two independent series (as a session's protocol log does for inbound and
   outbound messages): a line submitted with val <> 0 is marked " in" and carries the next number
   of the inbound series, a line submitted with val = 0 is marked "out" and carries the next
   number of the outbound series; each series is 1, 2, 3, ... in file order.
   What stands in a file line behind the sequence field and its delimiter: with the direction
   flag the direction field and a blank, then the text; without it the text. *)
Definition tag (v : Z) : text := if Z.eqb v 0 then [111; 117; 116]%Z else [32; 105; 110]%Z.   (* "out" / " in" *)
Definition rest (d : bool) (v : Z) (t : text) : text := if d then tag v ++ 32%Z :: t else t.
Definition starts_in (r : text) : bool :=
  match r with
  | a :: b :: c :: _ => Z.eqb a 32 && Z.eqb b 105 && Z.eqb c 110
  | _ => false
  end.

Fixpoint text_eqb (a b : text) : bool :=
  match a, b with
  | [], [] => true
  | x :: a', y :: b' => Z.eqb x y && text_eqb a' b'
  | _, _ => false
  end.

(* what must stand in the file for one producer (calls numbered from k), in submission order *)
Fixpoint must_write (d : bool) (mask : Z) (vf : valfn) (i k : nat) (p : prog) : list text :=
  match p with
  | [] => []
  | (lev, t) :: r =>
      if enabled mask lev then rest d (vf i k) t :: must_write d mask vf i (S k) r
      else must_write d mask vf i (S k) r
  end.

Fixpoint must_all (d : bool) (mask : Z) (vf : valfn) (i : nat) (ps : list prog) : list (list text) :=
  match ps with
  | [] => []
  | p :: more => must_write d mask vf i O p :: must_all d mask vf (S i) more
  end.

Record obs := { o_rets : list (list bool);         (* per producer, per submit call *)
                o_file : list (nat * text);         (* sequence number, rest of the line *)
                o_stopped : bool }.

(* sequence numbers are 1, 2, 3, ... in file order *)
Fixpoint seq_ok (n : nat) (f : list (nat * text)) : bool :=
  match f with
  | [] => true
  | (s, _) :: t => Nat.eqb s n && seq_ok (S n) t
  end.

(* with the direction flag: the " in" lines and the other lines each carry 1, 2, 3, ... *)
Fixpoint seq_ok_dir (si so : nat) (f : list (nat * text)) : bool :=
  match f with
  | [] => true
  | (s, r) :: t => if starts_in r then Nat.eqb s (S si) && seq_ok_dir (S si) so t
                   else Nat.eqb s (S so) && seq_ok_dir si (S so) t
  end.

Definition numbers_ok (d : bool) (f : list (nat * text)) : bool :=
  if d then seq_ok_dir O O f else seq_ok 1 f.

(* consume the file line by line: each line must be the NEXT not yet written line of some
   producer (this is "exactly once" + "in submission order" + "only enabled levels" + "only
   submitted texts" at once); returns what is still unwritten *)
Fixpoint strike (t : text) (rest : list (list text)) : option (list (list text)) :=
  match rest with
  | [] => None
  | [] :: more => match strike t more with Some r => Some ([] :: r) | None => None end
  | (x :: xs) :: more =>
      if text_eqb x t then Some (xs :: more)
      else match strike t more with Some r => Some ((x :: xs) :: r) | None => None end
  end.

Fixpoint strike_all (f : list (nat * text)) (rest : list (list text)) : option (list (list text)) :=
  match f with
  | [] => Some rest
  | (_, t) :: f' => match strike t rest with Some r => strike_all f' r | None => None end
  end.

(* what is written is legitimate: order, exactly-once, levels, sequence numbers *)
Definition file_sound (d : bool) (mask : Z) (vf : valfn) (ps : list prog) (o : obs) : bool :=
  numbers_ok d (o_file o) &&
  match strike_all (o_file o) (must_all d mask vf O ps) with Some _ => true | None => false end.

(* nothing accepted is missing once stop() has returned *)
Definition file_complete (d : bool) (mask : Z) (vf : valfn) (ps : list prog) (o : obs) : bool :=
  o_stopped o &&
  match strike_all (o_file o) (must_all d mask vf O ps) with
  | Some rest => forallb (fun l => match l with [] => true | _ => false end) rest
  | None => false
  end.

(* every submit call at an enabled level reported success; one result per call *)
Fixpoint rets_ok1 (mask : Z) (p : prog) (r : list bool) : bool :=
  match p, r with
  | [], [] => true
  | (lev, _) :: p', b :: r' => (if enabled mask lev then b else true) && rets_ok1 mask p' r'
  | _, _ => false
  end.

Fixpoint rets_ok (mask : Z) (ps : list prog) (rs : list (list bool)) : bool :=
  match ps, rs with
  | [], [] => true
  | p :: ps', r :: rs' => rets_ok1 mask p r && rets_ok mask ps' rs'
  | _, _ => false
  end.

Definition c28_ok (d : bool) (mask : Z) (vf : valfn) (ps : list prog) (o : obs) : bool :=
  file_sound d mask vf ps o && file_complete d mask vf ps o && rets_ok mask ps (o_rets o).
