(* Proofs about the logger model, for ALL schedules, any number of producers, any programs. *)
From Coq Require Import ZArith List Bool Arith Lia.
From F8 Require Import C28.Spec_C28 C28.LoggerQ.
Import ListNotations.

(* ------------------------------------------------------------------ vocabulary *)
Definition from (i : nat) (x : qelem) : bool :=
  match q_src x with Some (j, _) => Nat.eqb j i | None => false end.

Definition is_prod (x : qelem) : bool := match q_src x with Some _ => true | None => false end.

(* the queue elements producer i creates for the calls of p (numbered from k) at enabled levels *)
Fixpoint elems (m : Z) (i k : nat) (p : prog) : list qelem :=
  match p with
  | [] => []
  | (lev, t) :: r =>
      if enabled m lev then {| q_src := Some (i, k); q_text := t |} :: elems m i (S k) r
      else elems m i (S k) r
  end.

Definition inflight (k : cpc) : list qelem := match k with CWrite x => [x] | _ => [] end.

(* what send returns in the model for a call: false exactly when the level is enabled *)
Definition ret_of (m : Z) (l : Z * text) : bool := negb (enabled m (fst l)).

Definition prefix {A} (a b : list A) : Prop := exists t, b = a ++ t.

Definition PInv (m : Z) (pu : list qelem) (i : nat) (p : prog) (st : pstate) : Prop :=
  exists done, p = done ++ todo st /\ length done = pidx st /\
               rets st = map (ret_of m) done /\ filter (from i) pu = elems m i 0 done.

Definition orel {A B} (R : A -> B -> Prop) (a : option A) (b : option B) : Prop :=
  match a, b with
  | Some x, Some y => R x y
  | None, None => True
  | _, _ => False
  end.

Record Inv (m : Z) (ps0 : list prog) (c : config) : Prop := {
  i_mask : mask c = m;
  i_prods : forall i, orel (PInv m (pushed c) i) (nth_error ps0 i) (nth_error (prods c) i);
  i_src : forall x, In x (pushed c) ->
          match q_src x with Some (j, _) => j < length ps0 | None => q_text x = [] end;
  i_fifo : pushed c = wrote c ++ inflight (cons c) ++ dropped c ++ queue c;
  i_file : map snd (file c) = map q_text (wrote c) /\ map fst (file c) = seq 1 (length (wrote c))
           /\ seqno c = length (wrote c);
  i_text : (forall x, In x (wrote c ++ inflight (cons c)) -> q_text x <> []) /\
           (forall x, In x (dropped c) -> q_text x = []);
  i_exit : dropped c <> [] -> cons c = CExit;
  i_done : stopper c = SDone -> cons c = CExit;
  i_nodup : NoDup (map q_src (filter is_prod (pushed c))) }.

(* ------------------------------------------------------------------ list facts *)
Lemma upd_length : forall A (l : list A) i x, length (upd l i x) = length l.
Proof. induction l as [|a l IH]; intros [|i] x; cbn; auto. Qed.

Lemma upd_same : forall A (l : list A) i x y, nth_error l i = Some y -> nth_error (upd l i x) i = Some x.
Proof. induction l as [|a l IH]; intros [|i] x y H; cbn in *; try discriminate; eauto. Qed.

Lemma upd_other : forall A (l : list A) i j x, i <> j -> nth_error (upd l i x) j = nth_error l j.
Proof.
  induction l as [|a l IH]; intros [|i] [|j] x H; cbn; auto; try congruence.
Qed.

Lemma elems_app : forall m i a k b, elems m i k (a ++ b) = elems m i k a ++ elems m i (k + length a) b.
Proof.
  induction a as [|[lev t] a IH]; intros k b; cbn [elems app length].
  - rewrite Nat.add_0_r. reflexivity.
  - rewrite IH. replace (S k + length a) with (k + S (length a)) by lia.
    destruct (enabled m lev); reflexivity.
Qed.

Lemma elems_in : forall m i p k x, In x (elems m i k p) ->
  exists j lev, q_src x = Some (i, k + j) /\ nth_error p j = Some (lev, q_text x) /\ enabled m lev = true.
Proof.
  induction p as [|[lev t] p IH]; intros k x H; cbn [elems] in H; [inversion H|].
  destruct (enabled m lev) eqn:E.
  - destruct H as [<-|H].
    + exists 0, lev. cbn. rewrite Nat.add_0_r. auto.
    + destruct (IH _ _ H) as [j [l [A [B C]]]]. exists (S j), l. cbn.
      replace (k + S j) with (S k + j) by lia. auto.
  - destruct (IH _ _ H) as [j [l [A [B C]]]]. exists (S j), l. cbn.
    replace (k + S j) with (S k + j) by lia. auto.
Qed.

Lemma elems_from : forall m i p k x, In x (elems m i k p) -> from i x = true.
Proof.
  intros m i p k x H. destruct (elems_in _ _ _ _ _ H) as [j [l [A _]]]. unfold from. rewrite A.
  apply Nat.eqb_refl.
Qed.

Lemma filter_snoc : forall A (f : A -> bool) l x, filter f (l ++ [x]) = filter f l ++ (if f x then [x] else []).
Proof. intros. rewrite filter_app. reflexivity. Qed.

Lemma PInv_irrel : forall m pu pu' i p st, filter (from i) pu' = filter (from i) pu ->
  PInv m pu i p st -> PInv m pu' i p st.
Proof. intros m pu pu' i p st E [d [A [B [C D]]]]. exists d. rewrite E. auto. Qed.

(* ------------------------------------------------------------------ initial state *)
Lemma Inv_init : forall m ps, Inv m ps (init m ps).
Proof.
  intros m ps. constructor; cbn; auto.
  - intros i. rewrite nth_error_map. destruct (nth_error ps i) as [p|]; cbn; [|exact I].
    exists []. cbn. auto.
  - intros x [].
  - split; intros x [].
  - intros H; contradiction H; reflexivity.
  - discriminate.
  - constructor.
Qed.

(* ------------------------------------------------------------------ preservation *)
Lemma Inv_step_prod : forall m ps0 c i, Inv m ps0 c -> Inv m ps0 (step_prod c i).
Proof.
  intros m ps0 c i HI. unfold step_prod.
  destruct (nth_error (prods c) i) as [st|] eqn:Est; [|exact HI].
  destruct (todo st) as [|[lev txt] rest] eqn:Etodo; [exact HI|].
  pose proof (i_prods _ _ _ HI i) as Hpi. rewrite Est in Hpi.
  destruct (nth_error ps0 i) as [p|] eqn:Ep; [|contradiction]. cbn in Hpi.
  destruct Hpi as [done [Hp [Hlen [Hrets Hfil]]]].
  assert (Hilt : i < length ps0) by (apply nth_error_Some; congruence).
  rewrite (i_mask _ _ _ HI).
  destruct (enabled m lev) eqn:Een.
  - (* pushed *)
    cbn [enqueue try_push].
    set (x := {| q_src := Some (i, pidx st); q_text := txt |}).
    destruct HI as [Hm Hpr Hsrc Hfifo Hfile Htext Hex Hdn Hnd].
    constructor; cbn [mask prods queue stopping cons seqno file stopper pushed wrote dropped].
    + reflexivity.
    + intros j. destruct (Nat.eq_dec i j) as [<-|Hij].
      * rewrite (upd_same _ _ _ _ _ Est), Ep. cbn.
        exists (done ++ [(lev, txt)]). cbn [todo pidx rets].
        split; [rewrite Hp, Etodo, <- app_assoc; reflexivity|].
        split; [rewrite app_length; cbn; lia|].
        split; [rewrite map_app, Hrets; cbn; unfold ret_of; cbn; rewrite Een; reflexivity|].
        rewrite filter_snoc. unfold from at 2. cbn [q_src x]. rewrite Nat.eqb_refl.
        rewrite Hfil, elems_app. cbn [elems]. rewrite Een, Hlen. reflexivity.
      * rewrite (upd_other _ _ _ _ _ Hij). specialize (Hpr j).
        destruct (nth_error ps0 j), (nth_error (prods c) j); cbn in *; auto.
        eapply PInv_irrel; [|exact Hpr]. rewrite filter_snoc. unfold from at 2. cbn [q_src x].
        rewrite (proj2 (Nat.eqb_neq i j) Hij). rewrite app_nil_r. reflexivity.
    + intros y Hy. apply in_app_or in Hy. destruct Hy as [Hy|[<-|[]]]; [apply Hsrc; assumption|].
      cbn. exact Hilt.
    + rewrite Hfifo. rewrite <- !app_assoc. reflexivity.
    + exact Hfile.
    + exact Htext.
    + exact Hex.
    + exact Hdn.
    + rewrite filter_snoc. cbn [is_prod q_src x]. rewrite map_app. cbn [map].
      (* (i, pidx st) is fresh *)
      assert (Hfresh : ~ In (Some (i, pidx st)) (map q_src (filter is_prod (pushed c)))).
      { intro H. apply in_map_iff in H. destruct H as [y [Hy1 Hy2]]. apply filter_In in Hy2.
        destruct Hy2 as [Hy2 _].
        assert (Fy : In y (filter (from i) (pushed c))).
        { apply filter_In. split; [assumption|]. unfold from. rewrite Hy1. apply Nat.eqb_refl. }
        rewrite Hfil in Fy. destruct (elems_in _ _ _ _ _ Fy) as [j [l [A [B _]]]].
        rewrite Hy1 in A. injection A as A. cbn in A.
        assert (j < length done) by (apply nth_error_Some; congruence). lia. }
      clear - Hnd Hfresh. induction (map q_src (filter is_prod (pushed c))) as [|a l IH]; cbn.
      * constructor; [intros []|constructor].
      * inversion Hnd; subst. constructor.
        -- intro H. apply in_app_or in H. destruct H as [H|[H|[]]]; [contradiction|].
           apply Hfresh. left. symmetry. exact H.
        -- apply IH; [assumption|]. intro H. apply Hfresh. right. exact H.
  - (* level disabled: nothing pushed, result true *)
    destruct HI as [Hm Hpr Hsrc Hfifo Hfile Htext Hex Hdn Hnd].
    constructor; cbn [mask prods queue stopping cons seqno file stopper pushed wrote dropped]; auto.
    intros j. destruct (Nat.eq_dec i j) as [<-|Hij].
    + rewrite (upd_same _ _ _ _ _ Est), Ep. cbn.
      exists (done ++ [(lev, txt)]). cbn [todo pidx rets].
      split; [rewrite Hp, Etodo, <- app_assoc; reflexivity|].
      split; [rewrite app_length; cbn; lia|].
      split; [rewrite map_app, Hrets; cbn; unfold ret_of; cbn; rewrite Een; reflexivity|].
      rewrite Hfil, elems_app. cbn [elems]. rewrite Een, app_nil_r. reflexivity.
    + rewrite (upd_other _ _ _ _ _ Hij). exact (Hpr j).
Qed.

Ltac exit_goal Hd := let H := fresh in intros H; try reflexivity; try (rewrite Hd in H; contradiction H; reflexivity).
Ltac done_goal Hdn := let H := fresh in intros H; try reflexivity; try (apply Hdn in H; discriminate).

Lemma Inv_step_cons : forall m ps0 c, Inv m ps0 c -> Inv m ps0 (step_cons c).
Proof.
  intros m ps0 c HI. unfold step_cons.
  destruct (cons c) as [| |x|] eqn:Ec; [| | |exact HI];
    destruct HI as [Hm Hpr Hsrc Hfifo Hfile Htext Hex Hdn Hnd]; rewrite Ec in *; cbn [inflight] in *;
    (assert (Hd : dropped c = []) by
      (destruct (dropped c); [reflexivity|];
       match type of Hex with _ -> ?k = CExit => assert (k = CExit) by (apply Hex; discriminate); discriminate end)).
  - (* CTest *)
    destruct (stopping c); constructor;
      cbn [set_cons mask prods queue stopping cons seqno file stopper pushed wrote dropped inflight]; try assumption.
    + exit_goal Hd.
    + done_goal Hdn.
    + exit_goal Hd.
    + done_goal Hdn.
  - (* CPop *)
    destruct (queue c) as [|x q'] eqn:Eq.
    + constructor; cbn [set_cons mask prods queue stopping cons seqno file stopper pushed wrote dropped inflight]; try assumption.
      * rewrite Eq. exact Hfifo.
      * exit_goal Hd.
      * done_goal Hdn.
    + destruct Htext as [Ht1 Ht2].
      destruct (q_text x) as [|b bs] eqn:Ex.
      * constructor; cbn [mask prods queue stopping cons seqno file stopper pushed wrote dropped inflight]; try assumption.
        -- rewrite Hfifo, Hd. cbn. reflexivity.
        -- split; [exact Ht1|]. intros y Hy. apply in_app_or in Hy. destruct Hy as [Hy|[<-|[]]]; auto.
        -- exit_goal Hd.
        -- done_goal Hdn.
      * constructor; cbn [mask prods queue stopping cons seqno file stopper pushed wrote dropped inflight]; try assumption.
        -- rewrite Hfifo, Hd. cbn. reflexivity.
        -- split; [|exact Ht2]. intros y Hy. rewrite app_nil_r in Ht1. apply in_app_or in Hy.
           destruct Hy as [Hy|[<-|[]]]; [apply Ht1; assumption|]. rewrite Ex. discriminate.
        -- exit_goal Hd.
        -- done_goal Hdn.
  - (* CWrite x *)
    destruct Hfile as [Hf1 [Hf2 Hf3]]. destruct Htext as [Ht1 Ht2].
    constructor; cbn [mask prods queue stopping cons seqno file stopper pushed wrote dropped inflight]; try assumption.
    + rewrite Hfifo. rewrite <- !app_assoc. reflexivity.
    + rewrite !map_app, Hf1, Hf2, Hf3, app_length. cbn. split; [reflexivity|]. split; [|lia].
      rewrite Nat.add_1_r. rewrite seq_S. reflexivity.
    + split; [|exact Ht2]. intros y Hy. rewrite app_nil_r in Hy. apply Ht1. exact Hy.
    + exit_goal Hd.
    + done_goal Hdn.
Qed.

Lemma Inv_step_stop : forall m ps0 c, Inv m ps0 c -> Inv m ps0 (step_stop c).
Proof.
  intros m ps0 c HI. unfold step_stop.
  destruct (stopper c) eqn:Es.
  - destruct HI as [Hm Hpr Hsrc Hfifo Hfile Htext Hex Hdn Hnd].
    constructor; cbn [mask prods queue stopping cons seqno file stopper pushed wrote dropped]; try assumption.
    discriminate.
  - destruct HI as [Hm Hpr Hsrc Hfifo Hfile Htext Hex Hdn Hnd]. cbn [enqueue try_push].
    constructor; cbn [mask prods queue stopping cons seqno file stopper pushed wrote dropped]; try assumption.
    + intros j. specialize (Hpr j). destruct (nth_error ps0 j), (nth_error (prods c) j); cbn in *; auto.
      eapply PInv_irrel; [|exact Hpr]. rewrite filter_snoc. cbn. rewrite app_nil_r. reflexivity.
    + intros y Hy. apply in_app_or in Hy. destruct Hy as [Hy|[<-|[]]]; [apply Hsrc; assumption|]. reflexivity.
    + rewrite Hfifo. rewrite <- !app_assoc. reflexivity.
    + discriminate.
    + rewrite filter_snoc. cbn. rewrite app_nil_r. exact Hnd.
  - destruct (cons c) eqn:Ec; try exact HI.
    destruct HI as [Hm Hpr Hsrc Hfifo Hfile Htext Hex Hdn Hnd].
    rewrite Ec in *.
    constructor; cbn [mask prods queue stopping cons seqno file stopper pushed wrote dropped]; try assumption;
      intros; reflexivity.
  - exact HI.
Qed.

Lemma Inv_step : forall m ps0 c t, Inv m ps0 c -> Inv m ps0 (step c t).
Proof.
  intros m ps0 c [i| |] HI; cbn [step];
    [apply Inv_step_prod|apply Inv_step_cons|apply Inv_step_stop]; exact HI.
Qed.

Lemma Inv_run : forall m ps0 sched c, Inv m ps0 c -> Inv m ps0 (run sched c).
Proof.
  induction sched as [|t sched IH]; intros c HI; cbn; [exact HI|]. apply IH. apply Inv_step. exact HI.
Qed.

Lemma Inv_reach : forall m ps sched, Inv m ps (run sched (init m ps)).
Proof. intros. apply Inv_run. apply Inv_init. Qed.

(* ------------------------------------------------------------------ consequences *)
Lemma prod_state : forall m ps c i p, Inv m ps c -> nth_error ps i = Some p ->
  exists st, nth_error (prods c) i = Some st /\ PInv m (pushed c) i p st.
Proof.
  intros m ps c i p HI Hp. pose proof (i_prods _ _ _ HI i) as H. rewrite Hp in H.
  destruct (nth_error (prods c) i) as [st|]; [|contradiction]. exists st. split; [reflexivity|exact H].
Qed.

(* a written element: nonempty text, stems from a submit call at an enabled level *)
Lemma wrote_origin : forall m ps c x, Inv m ps c -> In x (wrote c) ->
  exists i k p lev, q_src x = Some (i, k) /\ nth_error ps i = Some p /\
                    nth_error p k = Some (lev, q_text x) /\ enabled m lev = true.
Proof.
  intros m ps c x HI Hx.
  assert (Hpu : In x (pushed c)) by (rewrite (i_fifo _ _ _ HI); apply in_or_app; left; exact Hx).
  assert (Hne : q_text x <> []) by (apply (proj1 (i_text _ _ _ HI)); apply in_or_app; left; exact Hx).
  pose proof (i_src _ _ _ HI x Hpu) as Hs.
  destruct (q_src x) as [[i k0]|] eqn:Esrc; [|contradiction].
  destruct (nth_error ps i) as [p|] eqn:Ep; [|apply nth_error_None in Ep; lia].
  destruct (prod_state _ _ _ _ _ HI Ep) as [st [_ [done [Hp [_ [_ Hfil]]]]]].
  assert (Fx : In x (filter (from i) (pushed c))).
  { apply filter_In. split; [exact Hpu|]. unfold from. rewrite Esrc. apply Nat.eqb_refl. }
  rewrite Hfil in Fx. destruct (elems_in _ _ _ _ _ Fx) as [j [lev [A [B C]]]].
  rewrite Esrc in A. injection A as ->. cbn.
  exists i, j, p, lev. split; [reflexivity|]. split; [exact Ep|]. split; [|exact C].
  rewrite Hp. rewrite nth_error_app1; [exact B|]. apply nth_error_Some. congruence.
Qed.

Lemma c28_order_lemma : forall m ps sched i p, nth_error ps i = Some p ->
  let c := run sched (init m ps) in
  prefix (filter (from i) (wrote c)) (elems m i 0 p) /\
  map snd (file c) = map q_text (wrote c) /\
  map fst (file c) = seq 1 (length (file c)).
Proof.
  intros m ps sched i p Hp c. pose proof (Inv_reach m ps sched) as HI. fold c in HI.
  destruct (prod_state _ _ _ _ _ HI Hp) as [st [_ [done [Hsplit [_ [_ Hfil]]]]]].
  split; [|split].
  - rewrite (i_fifo _ _ _ HI) in Hfil. rewrite filter_app in Hfil.
    exists (filter (from i) (inflight (cons c) ++ dropped c ++ queue c) ++ elems m i (0 + length done) (todo st)).
    rewrite Hsplit, elems_app, <- Hfil, <- app_assoc. reflexivity.
  - exact (proj1 (i_file _ _ _ HI)).
  - destruct (i_file _ _ _ HI) as [A [B _]]. rewrite B. f_equal.
    rewrite <- (map_length snd (file c)), A, map_length. reflexivity.
Qed.

Lemma c28_levels_lemma : forall m ps sched x, In x (wrote (run sched (init m ps))) ->
  exists i k p lev, q_src x = Some (i, k) /\ nth_error ps i = Some p /\
                    nth_error p k = Some (lev, q_text x) /\ enabled m lev = true.
Proof. intros. eapply wrote_origin; [apply Inv_reach|eassumption]. Qed.

Lemma filter_all : forall A (f : A -> bool) l, (forall x, In x l -> f x = true) -> filter f l = l.
Proof.
  induction l as [|a l IH]; intros H; cbn; [reflexivity|]. rewrite (H a (or_introl eq_refl)).
  f_equal. apply IH. intros; apply H; right; assumption.
Qed.

Lemma NoDup_app_l : forall A (a b : list A), NoDup (a ++ b) -> NoDup a.
Proof.
  induction a as [|x a IH]; intros b H; [constructor|]. inversion H; subst. constructor.
  - intro Hx. apply H2. apply in_or_app. left. exact Hx.
  - eapply IH; eassumption.
Qed.

Lemma c28_once_lemma : forall m ps sched, NoDup (map q_src (wrote (run sched (init m ps)))).
Proof.
  intros m ps sched. pose proof (Inv_reach m ps sched) as HI. set (c := run sched (init m ps)) in *.
  pose proof (i_nodup _ _ _ HI) as Hn. rewrite (i_fifo _ _ _ HI) in Hn. rewrite filter_app, map_app in Hn.
  apply NoDup_app_l in Hn. rewrite filter_all in Hn; [exact Hn|].
  intros x Hx. destruct (wrote_origin _ _ _ _ HI Hx) as [i [k [p [lev [A _]]]]]. unfold is_prod. rewrite A. reflexivity.
Qed.

(* the return values: false exactly for the calls at an enabled level *)
Lemma c28_return_exact_lemma : forall m ps sched i p, nth_error ps i = Some p ->
  exists st done, nth_error (prods (run sched (init m ps))) i = Some st /\
                  p = done ++ todo st /\ rets st = map (fun l => negb (enabled m (fst l))) done.
Proof.
  intros m ps sched i p Hp. pose proof (Inv_reach m ps sched) as HI.
  destruct (prod_state _ _ _ _ _ HI Hp) as [st [Hst [done [A [_ [B _]]]]]].
  exists st, done. split; [exact Hst|]. split; [exact A|exact B].
Qed.

(* ------------------------------------------------------------------ stop after the queue was drained *)
Definition quiesced (c : config) : bool :=
  match stopper c with
  | SIdle => negb (stopping c) && match cons c with CExit => false | _ => true end &&
             match queue c with [] => true | _ => false end &&
             forallb (fun st => match todo st with [] => true | _ => false end) (prods c)
  | _ => false
  end.

Record Q (c1 c : config) : Prop := {
  q_todo : forall i st, nth_error (prods c) i = Some st -> todo st = [];
  q_sent : forall x, In x (queue c ++ dropped c) -> q_src x = None;
  q_same : forall i, filter (from i) (pushed c) = filter (from i) (pushed c1) }.

Lemma Q_step : forall m ps c1 c t, Inv m ps c -> Q c1 c -> Q c1 (step c t).
Proof.
  intros m ps c1 c [i| |] HI [Qt Qs Qp]; cbn [step].
  - unfold step_prod. destruct (nth_error (prods c) i) as [st|] eqn:E; [|constructor; assumption].
    rewrite (Qt _ _ E). constructor; assumption.
  - unfold step_cons. destruct (cons c) eqn:Ec.
    + destruct (stopping c); constructor; cbn; assumption.
    + destruct (queue c) as [|x q'] eqn:Eq. { constructor; cbn; try assumption. rewrite Eq. exact Qs. }
      destruct (q_text x) eqn:Ex; constructor; cbn [prods queue dropped pushed]; try assumption.
      * intros y Hy. apply Qs. apply in_app_or in Hy. destruct Hy as [Hy|Hy].
        -- apply in_or_app. left. right. exact Hy.
        -- apply in_app_or in Hy. destruct Hy as [Hy|[<-|[]]]; [apply in_or_app; right; exact Hy|].
           apply in_or_app. left. left. reflexivity.
      * intros y Hy. apply Qs. apply in_app_or in Hy. destruct Hy as [Hy|Hy].
        -- apply in_or_app. left. right. exact Hy.
        -- apply in_or_app. right. exact Hy.
    + constructor; cbn; assumption.
    + constructor; assumption.
  - unfold step_stop. destruct (stopper c) eqn:Es.
    + constructor; cbn; assumption.
    + cbn [enqueue try_push]. constructor; cbn [prods queue dropped pushed]; try assumption.
      * intros y Hy. rewrite <- app_assoc in Hy. apply in_app_or in Hy. destruct Hy as [Hy|Hy].
        -- apply Qs. apply in_or_app. left. exact Hy.
        -- destruct Hy as [<-|Hy]; [reflexivity|]. apply Qs. apply in_or_app. right. exact Hy.
      * intros j. rewrite filter_snoc. cbn. rewrite app_nil_r. apply Qp.
    + destruct (cons c); constructor; cbn; assumption.
    + constructor; assumption.
Qed.

Lemma Q_run : forall m ps c1 sched c, Inv m ps c -> Q c1 c -> Inv m ps (run sched c) /\ Q c1 (run sched c).
Proof.
  induction sched as [|t sched IH]; intros c HI HQ; cbn; [split; assumption|].
  apply IH; [apply Inv_step; assumption|eapply Q_step; eassumption].
Qed.

Lemma c28_all_written_partial_lemma : forall m ps s1 s2,
  let c1 := run s1 (init m ps) in
  quiesced c1 = true ->
  let c2 := run s2 c1 in
  stopper c2 = SDone ->
  forall i p, nth_error ps i = Some p -> filter (from i) (wrote c2) = elems m i 0 p.
Proof.
  intros m ps s1 s2 c1 Hq c2 Hdone i p Hp.
  pose proof (Inv_reach m ps s1) as HI1. fold c1 in HI1.
  unfold quiesced in Hq. destruct (stopper c1) eqn:Es1; try discriminate.
  apply andb_prop in Hq. destruct Hq as [Hq Htodo]. apply andb_prop in Hq. destruct Hq as [Hq Hqueue].
  apply andb_prop in Hq. destruct Hq as [_ Hcons].
  assert (Hq1 : queue c1 = []) by (destruct (queue c1); [reflexivity|discriminate]).
  assert (Hd1 : dropped c1 = []).
  { destruct (dropped c1) eqn:Ed; [reflexivity|].
    assert (cons c1 = CExit) by (apply (i_exit _ _ _ HI1); rewrite Ed; discriminate).
    rewrite H in Hcons. discriminate. }
  assert (HQ1 : Q c1 c1).
  { constructor.
    - intros j st Hst. rewrite forallb_forall in Htodo. apply nth_error_In in Hst. specialize (Htodo st Hst).
      destruct (todo st); [reflexivity|discriminate].
    - rewrite Hq1, Hd1. intros x [].
    - reflexivity. }
  destruct (Q_run m ps c1 s2 c1 HI1 HQ1) as [HI2 HQ2]. fold c2 in HI2, HQ2.
  (* at c1 everything of producer i has been pushed *)
  destruct (prod_state _ _ _ _ _ HI1 Hp) as [st [Hst [done [Hsplit [_ [_ Hfil]]]]]].
  rewrite (q_todo _ _ HQ1 _ _ Hst), app_nil_r in Hsplit. subst done.
  rewrite <- Hfil, <- (q_same _ _ HQ2 i).
  (* at c2 the consumer has exited: nothing in flight; queue and dropped hold only the stop marker *)
  pose proof (i_done _ _ _ HI2 Hdone) as Hc2. rewrite (i_fifo _ _ _ HI2), Hc2. cbn [inflight app].
  rewrite filter_app.
  assert (E : filter (from i) (dropped c2 ++ queue c2) = []).
  { rewrite filter_app. assert (F : forall l, (forall x, In x l -> q_src x = None) -> filter (from i) l = []).
    { induction l as [|a l IH]; intros H; cbn; [reflexivity|]. unfold from at 1. rewrite (H a (or_introl eq_refl)).
      apply IH. intros; apply H; right; assumption. }
    rewrite !F; [reflexivity| |]; intros x Hx; apply (q_sent _ _ HQ2); apply in_or_app; [left|right]; exact Hx. }
  rewrite E, app_nil_r. reflexivity.
Qed.

(* ------------------------------------------------------------------ where the code violates the property *)
Local Open Scope Z_scope.

(* one producer, one line at an enabled level, accepted before stop() is called; stop() is called
   before the consumer has looked at the queue: the consumer tests _stopping first and leaves,
   stop() returns, the file is empty. *)
Lemma c28_lost_lines_refuted_lemma :
  exists m ps sched,
    let c := run sched (init m ps) in
    stopper c = SDone /\                                     (* stop() has returned *)
    map rets (prods c) = [[false]] /\                        (* the submit call had completed ... *)
    pushed c = [{| q_src := Some (O, O); q_text := [65] |}; {| q_src := None; q_text := [] |}] /\
                                                             (* ... and was queued before stop's marker *)
    file c = [] /\
    file_complete m ps (observe c) = false.
Proof.
  exists 2, [[(1, [65])]], [P 0; Stop; Cons; Stop; Stop]. vm_compute. repeat split; reflexivity.
Qed.

(* everything is written, in order, the queue was drained before stop(): only the return value is wrong *)
Lemma c28_return_refuted_lemma :
  exists m ps sched,
    let o := observe (run sched (init m ps)) in
    file_sound m ps o = true /\ file_complete m ps o = true /\
    o_rets o = [[false]] /\ rets_ok m ps (o_rets o) = false.
Proof.
  exists 2, [[(1, [65])]], (sched_for true 0 2 [] [[(1, [65])]]). vm_compute. repeat split; reflexivity.
Qed.

(* a line with an empty text at an enabled level makes the consumer leave its loop (it is the
   stop marker): the lines behind it are never written, however long stop() is delayed *)
Lemma c28_empty_line_refuted_lemma :
  exists m ps,
    let o := run_case true 0 m [] ps in
    o_stopped o = true /\ o_file o = [(1%nat, [65])] /\ file_complete m ps o = false.
Proof.
  exists 2, [[(1, [65]); (1, []); (1, [66])]]. vm_compute. repeat split; reflexivity.
Qed.

(* ------------------------------------------------------------------ non-vacuity *)
Definition nv_ps : list prog := [[(1, [65]); (0, [66]); (1, [67])]; [(1, [68]); (4, [69])]].

Lemma c28_nonvacuous_lemma :
  let c1 := run (fst (sched_pushes 18 [1; 0; 1; 0]%nat nv_ps) ++ repeat Cons 15) (init 18 nv_ps) in
  quiesced c1 = true /\
  let c2 := run [Stop; Cons; Cons; Cons; Stop; Stop] c1 in
  stopper c2 = SDone /\
  file c2 = [(1%nat, [68]); (2%nat, [65]); (3%nat, [69]); (4%nat, [67])] /\
  map rets (prods c2) = [[false; true; false]; [false; false]].
Proof. vm_compute. repeat split; reflexivity. Qed.
