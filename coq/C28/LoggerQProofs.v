(* Proofs about the logger model, for ALL schedules, any number of producers, any programs. *)
From Coq Require Import ZArith List Bool Arith Lia.
From F8 Require Import C28.Spec_C28 C28.LoggerQ.
Import ListNotations.

(* ------------------------------------------------------------------ vocabulary *)
Definition from (i : nat) (x : qelem) : bool :=
  match q_src x with Some (j, _) => Nat.eqb j i | None => false end.

Definition is_prod (x : qelem) : bool := match q_src x with Some _ => true | None => false end.

(* the queue elements producer i creates for the calls of p (numbered from k) at enabled levels *)
Fixpoint elems (m : Z) (vf : valfn) (i k : nat) (p : prog) : list qelem :=
  match p with
  | [] => []
  | (lev, t) :: r =>
      if enabled m lev then {| q_src := Some (i, k); q_text := t; q_val := vf i k |} :: elems m vf i (S k) r
      else elems m vf i (S k) r
  end.

(* which counter numbers a written element, and the numbers a sequence of written elements gets *)
Definition uses_seq (d : bool) (x : qelem) : bool := if d then negb (Z.eqb (q_val x) 0) else true.
Fixpoint nums (d : bool) (s o : nat) (W : list qelem) : list nat :=
  match W with
  | [] => []
  | x :: W' => if uses_seq d x then S s :: nums d (S s) o W' else S o :: nums d s (S o) W'
  end.
Definition cnt (d : bool) (b : bool) (W : list qelem) : nat :=
  length (filter (fun y => Bool.eqb (uses_seq d y) b) W).
Definition line_of (d : bool) (x : qelem) : text := rest d (q_val x) (q_text x).

Definition inflight (k : cpc) : list qelem := match k with CWrite x => [x] | _ => [] end.

(* what send returns in the model for a call: true (from try_push at an enabled level, the constant otherwise) *)
Definition ret_of (m : Z) (l : Z * text) : bool := true.

Definition prefix {A} (a b : list A) : Prop := exists t, b = a ++ t.

Definition PInv (m : Z) (vf : valfn) (pu : list qelem) (i : nat) (p : prog) (st : pstate) : Prop :=
  exists done, p = done ++ todo st /\ length done = pidx st /\
               rets st = map (ret_of m) done /\ filter (from i) pu = elems m vf i 0 done.

Definition orel {A B} (R : A -> B -> Prop) (a : option A) (b : option B) : Prop :=
  match a, b with
  | Some x, Some y => R x y
  | None, None => True
  | _, _ => False
  end.

Record Inv (m : Z) (d : bool) (vf : valfn) (ps0 : list prog) (c : config) : Prop := {
  i_mask : mask c = m;
  i_cfg : dirflag c = d /\ valf c = vf;
  i_prods : forall i, orel (PInv m vf (pushed c) i) (nth_error ps0 i) (nth_error (prods c) i);
  i_src : forall x, In x (pushed c) ->
          match q_src x with Some (j, _) => j < length ps0 | None => q_text x = [] end;
  i_fifo : pushed c = wrote c ++ inflight (cons c) ++ dropped c ++ queue c;
  i_obuf : obuf c = [];
  i_file : map snd (file c) = map (line_of d) (wrote c) /\ map fst (file c) = nums d 0 0 (wrote c)
           /\ seqno c = cnt d true (wrote c) /\ oseqno c = cnt d false (wrote c);
  i_text : (forall x, In x (wrote c ++ inflight (cons c)) -> q_text x <> []) /\
           (forall x, In x (dropped c) -> q_text x = []);
  i_exit : dropped c <> [] -> cons c = CExit;
  i_done : stopper c = SDone -> cons c = CExit;
  i_nodup : NoDup (map q_src (filter is_prod (pushed c))) }.

(* ------------------------------------------------------------------ list facts *)
Lemma upd_length : forall A (l : list A) i x, length (upd l i x) = length l.
Proof. induction l as [|a l IH]; intros [|i] x; cbn; auto. Qed.

Lemma upd_same : forall A (l : list A) i x y, nth_error l i = Some y -> nth_error (upd l i x) i = Some x.
Proof. induction l as [|a l IH]; intros [|i] x y H; cbn in *; try discriminate; eauto. Qed.

Lemma upd_other : forall A (l : list A) i j x, i <> j -> nth_error (upd l i x) j = nth_error l j.
Proof.
  induction l as [|a l IH]; intros [|i] [|j] x H; cbn; auto; try congruence.
Qed.

Lemma elems_app : forall m vf i a k b, elems m vf i k (a ++ b) = elems m vf i k a ++ elems m vf i (k + length a) b.
Proof.
  induction a as [|[lev t] a IH]; intros k b; cbn [elems app length].
  - rewrite Nat.add_0_r. reflexivity.
  - rewrite IH. replace (S k + length a) with (k + S (length a)) by lia.
    destruct (enabled m lev); reflexivity.
Qed.

Lemma elems_in : forall m vf i p k x, In x (elems m vf i k p) ->
  exists j lev, q_src x = Some (i, k + j) /\ nth_error p j = Some (lev, q_text x) /\ enabled m lev = true.
Proof.
  induction p as [|[lev t] p IH]; intros k x H; cbn [elems] in H; [inversion H|].
  destruct (enabled m lev) eqn:E.
  - destruct H as [<-|H].
    + exists 0, lev. cbn. rewrite Nat.add_0_r. auto.
    + destruct (IH _ _ H) as [j [l [A [B C]]]]. exists (S j), l. cbn.
      replace (k + S j) with (S k + j) by lia. auto.
  - destruct (IH _ _ H) as [j [l [A [B C]]]]. exists (S j), l. cbn.
    replace (k + S j) with (S k + j) by lia. auto.
Qed.

Lemma elems_from : forall m vf i p k x, In x (elems m vf i k p) -> from i x = true.
Proof.
  intros m vf i p k x H. destruct (elems_in _ _ _ _ _ _ H) as [j [l [A _]]]. unfold from. rewrite A.
  apply Nat.eqb_refl.
Qed.

Lemma filter_snoc : forall A (f : A -> bool) l x, filter f (l ++ [x]) = filter f l ++ (if f x then [x] else []).
Proof. intros. rewrite filter_app. reflexivity. Qed.

Lemma PInv_irrel : forall m vf pu pu' i p st, filter (from i) pu' = filter (from i) pu ->
  PInv m vf pu i p st -> PInv m vf pu' i p st.
Proof. intros m vf pu pu' i p st E [dn [A [B [C D]]]]. exists dn. rewrite E. auto. Qed.

(* ------------------------------------------------------------------ initial state *)
Lemma Inv_init : forall m d vf ps, Inv m d vf ps (init m d vf ps).
Proof.
  intros m d vf ps. constructor; cbn; auto.
  - intros i. rewrite nth_error_map. destruct (nth_error ps i) as [p|]; cbn; [|exact I].
    exists []. cbn. auto.
  - intros x [].
  - split; intros x [].
  - intros H; contradiction H; reflexivity.
  - discriminate.
  - constructor.
Qed.

(* ------------------------------------------------------------------ preservation *)
Lemma Inv_step_prod : forall m d vf ps0 c i, Inv m d vf ps0 c -> Inv m d vf ps0 (step_prod c i).
Proof.
  intros m d vf ps0 c i HI. unfold step_prod.
  destruct (nth_error (prods c) i) as [st|] eqn:Est; [|exact HI].
  destruct (todo st) as [|[lev txt] rest] eqn:Etodo; [exact HI|].
  pose proof (i_prods _ _ _ _ _ HI i) as Hpi. rewrite Est in Hpi.
  destruct (nth_error ps0 i) as [p|] eqn:Ep; [|contradiction]. cbn in Hpi.
  destruct Hpi as [done [Hp [Hlen [Hrets Hfil]]]].
  assert (Hilt : i < length ps0) by (apply nth_error_Some; congruence).
  rewrite (i_mask _ _ _ _ _ HI).
  destruct (enabled m lev) eqn:Een.
  - (* pushed *)
    cbn [enqueue try_push]. rewrite (proj2 (i_cfg _ _ _ _ _ HI)).
    set (x := {| q_src := Some (i, pidx st); q_text := txt; q_val := vf i (pidx st) |}).
    destruct HI as [Hm Hcfg Hpr Hsrc Hfifo Hob Hfile Htext Hex Hdn Hnd].
    constructor; cbn [mask dirflag valf prods queue stopping cons seqno oseqno file obuf stopper pushed wrote dropped].
    + reflexivity.
    + destruct Hcfg; split; [assumption|reflexivity].
    + intros j. destruct (Nat.eq_dec i j) as [<-|Hij].
      * rewrite (upd_same _ _ _ _ _ Est), Ep. cbn.
        exists (done ++ [(lev, txt)]). cbn [todo pidx rets].
        split; [rewrite Hp, Etodo, <- app_assoc; reflexivity|].
        split; [rewrite app_length; cbn; lia|].
        split; [rewrite map_app, Hrets; cbn; reflexivity|].
        rewrite filter_snoc. unfold from at 2. cbn [q_src x]. rewrite Nat.eqb_refl.
        rewrite Hfil, elems_app. cbn [elems]. rewrite Een, Hlen. reflexivity.
      * rewrite (upd_other _ _ _ _ _ Hij). specialize (Hpr j).
        destruct (nth_error ps0 j), (nth_error (prods c) j); cbn in *; auto.
        eapply PInv_irrel; [|exact Hpr]. rewrite filter_snoc. unfold from at 2. cbn [q_src x].
        rewrite (proj2 (Nat.eqb_neq i j) Hij). rewrite app_nil_r. reflexivity.
    + intros y Hy. apply in_app_or in Hy. destruct Hy as [Hy|[<-|[]]]; [apply Hsrc; assumption|].
      cbn. exact Hilt.
    + rewrite Hfifo. rewrite <- !app_assoc. reflexivity.
    + exact Hob.
    + exact Hfile.
    + exact Htext.
    + exact Hex.
    + exact Hdn.
    + rewrite filter_snoc. cbn [is_prod q_src x]. rewrite map_app. cbn [map].
      (* (i, pidx st) is fresh *)
      assert (Hfresh : ~ In (Some (i, pidx st)) (map q_src (filter is_prod (pushed c)))).
      { intro H. apply in_map_iff in H. destruct H as [y [Hy1 Hy2]]. apply filter_In in Hy2.
        destruct Hy2 as [Hy2 _].
        assert (Fy : In y (filter (from i) (pushed c))).
        { apply filter_In. split; [assumption|]. unfold from. rewrite Hy1. apply Nat.eqb_refl. }
        rewrite Hfil in Fy. destruct (elems_in _ _ _ _ _ _ Fy) as [j [l [A [B _]]]].
        rewrite Hy1 in A. injection A as A. cbn in A.
        assert (j < length done) by (apply nth_error_Some; congruence). lia. }
      clear - Hnd Hfresh. induction (map q_src (filter is_prod (pushed c))) as [|a l IH]; cbn.
      * constructor; [intros []|constructor].
      * inversion Hnd; subst. constructor.
        -- intro H. apply in_app_or in H. destruct H as [H|[H|[]]]; [contradiction|].
           apply Hfresh. left. symmetry. exact H.
        -- apply IH; [assumption|]. intro H. apply Hfresh. right. exact H.
  - (* level disabled: nothing pushed, result true *)
    destruct HI as [Hm Hcfg Hpr Hsrc Hfifo Hob Hfile Htext Hex Hdn Hnd].
    constructor; cbn [mask dirflag valf prods queue stopping cons seqno oseqno file obuf stopper pushed wrote dropped]; auto.
    intros j. destruct (Nat.eq_dec i j) as [<-|Hij].
    + rewrite (upd_same _ _ _ _ _ Est), Ep. cbn.
      exists (done ++ [(lev, txt)]). cbn [todo pidx rets].
      split; [rewrite Hp, Etodo, <- app_assoc; reflexivity|].
      split; [rewrite app_length; cbn; lia|].
      split; [rewrite map_app, Hrets; cbn; reflexivity|].
      rewrite Hfil, elems_app. cbn [elems]. rewrite Een, app_nil_r. reflexivity.
    + rewrite (upd_other _ _ _ _ _ Hij). exact (Hpr j).
Qed.

Lemma cnt_snoc : forall d b W x, cnt d b (W ++ [x]) = cnt d b W + (if Bool.eqb (uses_seq d x) b then 1 else 0).
Proof.
  intros. unfold cnt. rewrite filter_app, app_length. cbn [filter].
  destruct (Bool.eqb (uses_seq d x) b); reflexivity.
Qed.

Lemma nums_snoc : forall d W s o x,
  nums d s o (W ++ [x]) =
  nums d s o W ++ [S (if uses_seq d x then s + cnt d true W else o + cnt d false W)].
Proof.
  induction W as [|y W IH]; intros s o x; cbn [app nums].
  - unfold cnt. cbn. rewrite !Nat.add_0_r. destruct (uses_seq d x); reflexivity.
  - destruct (uses_seq d y) eqn:Ey; rewrite IH; cbn [app]; do 3 f_equal; unfold cnt; cbn [filter]; rewrite Ey; cbn [Bool.eqb length];
      destruct (uses_seq d x); lia.
Qed.

Ltac exit_goal Hd := let H := fresh in intros H; try reflexivity; try (rewrite Hd in H; contradiction H; reflexivity).
Ltac done_goal Hdn := let H := fresh in intros H; try reflexivity; try (apply Hdn in H; discriminate).
Ltac fields := cbn [set_cons mask dirflag valf prods queue stopping cons seqno oseqno file obuf stopper pushed wrote dropped inflight].

Lemma Inv_step_cons : forall m d vf ps0 c, Inv m d vf ps0 c -> Inv m d vf ps0 (step_cons c).
Proof.
  intros m d vf ps0 c HI. unfold step_cons.
  destruct (cons c) as [|s|x|] eqn:Ec; [| | |exact HI];
    destruct HI as [Hm Hcfg Hpr Hsrc Hfifo Hob Hfile Htext Hex Hdn Hnd]; rewrite Ec in *; cbn [inflight] in *;
    (assert (Hd : dropped c = []) by
      (destruct (dropped c); [reflexivity|];
       match type of Hex with _ -> ?k = CExit => assert (k = CExit) by (apply Hex; discriminate); discriminate end)).
  - (* CSample *)
    constructor; fields; try assumption.
    + exit_goal Hd.
    + done_goal Hdn.
  - (* CPop s *)
    destruct (queue c) as [|x q'] eqn:Eq.
    + destruct s; constructor; fields; try assumption; try (rewrite Eq; exact Hfifo).
      * exit_goal Hd.
      * done_goal Hdn.
      * exit_goal Hd.
      * done_goal Hdn.
    + destruct Htext as [Ht1 Ht2].
      destruct (q_text x) as [|b bs] eqn:Ex.
      * constructor; fields; try assumption.
        -- rewrite Hfifo, Hd. cbn. reflexivity.
        -- split; [exact Ht1|]. intros y Hy. apply in_app_or in Hy. destruct Hy as [Hy|[<-|[]]]; auto.
        -- exit_goal Hd.
        -- done_goal Hdn.
      * constructor; fields; try assumption.
        -- rewrite Hfifo, Hd. cbn. reflexivity.
        -- split; [|exact Ht2]. intros y Hy. rewrite app_nil_r in Ht1. apply in_app_or in Hy.
           destruct Hy as [Hy|[<-|[]]]; [apply Ht1; assumption|]. rewrite Ex. discriminate.
        -- exit_goal Hd.
        -- done_goal Hdn.
  - (* CWrite x *)
    destruct Hfile as [Hf1 [Hf2 [Hf3 Hf4]]]. destruct Htext as [Ht1 Ht2]. destruct Hcfg as [Hcd Hcv].
    rewrite Hcd, Hob. cbn [app]. change (if d then negb (Z.eqb (q_val x) 0) else true) with (uses_seq d x).
    constructor; fields; try assumption; try reflexivity.
    + split; [reflexivity|assumption].
    + rewrite Hfifo. rewrite <- !app_assoc. reflexivity.
    + rewrite !map_app, Hf1, Hf2, nums_snoc, !cnt_snoc, Hf3, Hf4. cbn [map snd fst Nat.add].
      destruct (uses_seq d x); cbn [Bool.eqb]; repeat split; try reflexivity; lia.
    + split; [|exact Ht2]. intros y Hy. rewrite app_nil_r in Hy. apply Ht1. exact Hy.
    + exit_goal Hd.
    + done_goal Hdn.
Qed.

Lemma Inv_step_stop : forall m d vf ps0 c, Inv m d vf ps0 c -> Inv m d vf ps0 (step_stop c).
Proof.
  intros m d vf ps0 c HI. unfold step_stop.
  destruct (stopper c) eqn:Es.
  - destruct HI as [Hm Hcfg Hpr Hsrc Hfifo Hob Hfile Htext Hex Hdn Hnd].
    constructor; fields; try assumption. discriminate.
  - destruct HI as [Hm Hcfg Hpr Hsrc Hfifo Hob Hfile Htext Hex Hdn Hnd]. cbn [enqueue try_push].
    constructor; fields; try assumption.
    + intros j. specialize (Hpr j). destruct (nth_error ps0 j), (nth_error (prods c) j); cbn in *; auto.
      eapply PInv_irrel; [|exact Hpr]. rewrite filter_snoc. cbn. rewrite app_nil_r. reflexivity.
    + intros y Hy. apply in_app_or in Hy. destruct Hy as [Hy|[<-|[]]]; [apply Hsrc; assumption|]. reflexivity.
    + rewrite Hfifo. rewrite <- !app_assoc. reflexivity.
    + discriminate.
    + rewrite filter_snoc. cbn. rewrite app_nil_r. exact Hnd.
  - destruct (cons c) eqn:Ec; try exact HI.
    destruct HI as [Hm Hcfg Hpr Hsrc Hfifo Hob Hfile Htext Hex Hdn Hnd].
    rewrite Ec in *.
    constructor; fields; try assumption; intros; reflexivity.
  - exact HI.
Qed.

Lemma Inv_step : forall m d vf ps0 c t, Inv m d vf ps0 c -> Inv m d vf ps0 (step c t).
Proof.
  intros m d vf ps0 c [i| |] HI; cbn [step];
    [apply Inv_step_prod|apply Inv_step_cons|apply Inv_step_stop]; exact HI.
Qed.

Lemma Inv_run : forall m d vf ps0 sched c, Inv m d vf ps0 c -> Inv m d vf ps0 (run sched c).
Proof.
  induction sched as [|t sched IH]; intros c HI; cbn; [exact HI|]. apply IH. apply Inv_step. exact HI.
Qed.

Lemma Inv_reach : forall m d vf ps sched, Inv m d vf ps (run sched (init m d vf ps)).
Proof. intros. apply Inv_run. apply Inv_init. Qed.

(* ------------------------------------------------------------------ consequences *)
Lemma prod_state : forall m d vf ps c i p, Inv m d vf ps c -> nth_error ps i = Some p ->
  exists st, nth_error (prods c) i = Some st /\ PInv m vf (pushed c) i p st.
Proof.
  intros m d vf ps c i p HI Hp. pose proof (i_prods _ _ _ _ _ HI i) as H. rewrite Hp in H.
  destruct (nth_error (prods c) i) as [st|]; [|contradiction]. exists st. split; [reflexivity|exact H].
Qed.

(* a written element: nonempty text, stems from a submit call at an enabled level *)
Lemma wrote_origin : forall m d vf ps c x, Inv m d vf ps c -> In x (wrote c) ->
  exists i k p lev, q_src x = Some (i, k) /\ nth_error ps i = Some p /\
                    nth_error p k = Some (lev, q_text x) /\ enabled m lev = true.
Proof.
  intros m d vf ps c x HI Hx.
  assert (Hpu : In x (pushed c)) by (rewrite (i_fifo _ _ _ _ _ HI); apply in_or_app; left; exact Hx).
  assert (Hne : q_text x <> []) by (apply (proj1 (i_text _ _ _ _ _ HI)); apply in_or_app; left; exact Hx).
  pose proof (i_src _ _ _ _ _ HI x Hpu) as Hs.
  destruct (q_src x) as [[i k0]|] eqn:Esrc; [|contradiction].
  destruct (nth_error ps i) as [p|] eqn:Ep; [|apply nth_error_None in Ep; lia].
  destruct (prod_state _ _ _ _ _ _ _ HI Ep) as [st [_ [done [Hp [_ [_ Hfil]]]]]].
  assert (Fx : In x (filter (from i) (pushed c))).
  { apply filter_In. split; [exact Hpu|]. unfold from. rewrite Esrc. apply Nat.eqb_refl. }
  rewrite Hfil in Fx. destruct (elems_in _ _ _ _ _ _ Fx) as [j [lev [A [B C]]]].
  rewrite Esrc in A. injection A as ->. cbn.
  exists i, j, p, lev. split; [reflexivity|]. split; [exact Ep|]. split; [|exact C].
  rewrite Hp. rewrite nth_error_app1; [exact B|]. apply nth_error_Some. congruence.
Qed.

Lemma c28_order_lemma : forall m d vf ps sched i p, nth_error ps i = Some p ->
  let c := run sched (init m d vf ps) in
  prefix (filter (from i) (wrote c)) (elems m vf i 0 p) /\
  map snd (file c) = map (line_of d) (wrote c) /\
  map fst (file c) = nums d 0 0 (wrote c).
Proof.
  intros m d vf ps sched i p Hp c. pose proof (Inv_reach m d vf ps sched) as HI. fold c in HI.
  destruct (prod_state _ _ _ _ _ _ _ HI Hp) as [st [_ [done [Hsplit [_ [_ Hfil]]]]]].
  split; [|split].
  - rewrite (i_fifo _ _ _ _ _ HI) in Hfil. rewrite filter_app in Hfil.
    exists (filter (from i) (inflight (cons c) ++ dropped c ++ queue c) ++ elems m vf i (0 + length done) (todo st)).
    rewrite Hsplit, elems_app, <- Hfil, <- app_assoc. reflexivity.
  - exact (proj1 (i_file _ _ _ _ _ HI)).
  - exact (proj1 (proj2 (i_file _ _ _ _ _ HI))).
Qed.

(* the numbers: one series without the direction flag ... *)
Lemma nums_plain : forall W s o, nums false s o W = seq (S s) (length W).
Proof. induction W as [|x W IH]; intros s o; cbn; [reflexivity|]. rewrite IH. reflexivity. Qed.

Lemma c28_numbering_plain_lemma : forall m vf ps sched,
  let c := run sched (init m false vf ps) in
  map fst (file c) = seq 1 (length (file c)).
Proof.
  intros m vf ps sched c. pose proof (Inv_reach m false vf ps sched) as HI. fold c in HI.
  destruct (i_file _ _ _ _ _ HI) as [A [B _]]. rewrite B, nums_plain. f_equal.
  rewrite <- (map_length snd (file c)), A, map_length. reflexivity.
Qed.

(* ... two independent series with it: the numbers of the lines submitted with val <> 0, in file
   order, are 1, 2, 3, ..., and so are the numbers of the lines submitted with val = 0 *)
Definition stream (d b : bool) (W : list qelem) (N : list nat) : list nat :=
  map snd (filter (fun e => Bool.eqb (uses_seq d (fst e)) b) (combine W N)).

Lemma nums_stream : forall d W s o,
  stream d true W (nums d s o W) = seq (S s) (cnt d true W) /\
  stream d false W (nums d s o W) = seq (S o) (cnt d false W).
Proof.
  unfold stream, cnt. induction W as [|x W IH]; intros s o; cbn [nums combine filter map length fst snd]; [split; reflexivity|].
  destruct (uses_seq d x) eqn:E; cbn [combine filter fst]; rewrite E; cbn [Bool.eqb map snd length seq].
  - destruct (IH (S s) o) as [A B]. rewrite A, B. split; reflexivity.
  - destruct (IH s (S o)) as [A B]. rewrite A, B. split; reflexivity.
Qed.

Lemma c28_numbering_direction_lemma : forall m vf ps sched,
  let c := run sched (init m true vf ps) in
  stream true true (wrote c) (map fst (file c)) = seq 1 (cnt true true (wrote c)) /\
  stream true false (wrote c) (map fst (file c)) = seq 1 (cnt true false (wrote c)) /\
  length (file c) = length (wrote c).
Proof.
  intros m vf ps sched c. pose proof (Inv_reach m true vf ps sched) as HI. fold c in HI.
  destruct (i_file _ _ _ _ _ HI) as [A [B _]]. rewrite B.
  destruct (nums_stream true (wrote c) 0 0) as [C D]. split; [exact C|]. split; [exact D|].
  rewrite <- (map_length snd (file c)), A, map_length. reflexivity.
Qed.

Lemma c28_levels_lemma : forall m d vf ps sched x, In x (wrote (run sched (init m d vf ps))) ->
  exists i k p lev, q_src x = Some (i, k) /\ nth_error ps i = Some p /\
                    nth_error p k = Some (lev, q_text x) /\ enabled m lev = true.
Proof. intros. eapply wrote_origin; [apply Inv_reach|eassumption]. Qed.

Lemma filter_all : forall A (f : A -> bool) l, (forall x, In x l -> f x = true) -> filter f l = l.
Proof.
  induction l as [|a l IH]; intros H; cbn; [reflexivity|]. rewrite (H a (or_introl eq_refl)).
  f_equal. apply IH. intros; apply H; right; assumption.
Qed.

Lemma NoDup_app_l : forall A (a b : list A), NoDup (a ++ b) -> NoDup a.
Proof.
  induction a as [|x a IH]; intros b H; [constructor|]. inversion H; subst. constructor.
  - intro Hx. apply H2. apply in_or_app. left. exact Hx.
  - eapply IH; eassumption.
Qed.

Lemma c28_once_lemma : forall m d vf ps sched, NoDup (map q_src (wrote (run sched (init m d vf ps)))).
Proof.
  intros m d vf ps sched. pose proof (Inv_reach m d vf ps sched) as HI. set (c := run sched (init m d vf ps)) in *.
  pose proof (i_nodup _ _ _ _ _ HI) as Hn. rewrite (i_fifo _ _ _ _ _ HI) in Hn. rewrite filter_app, map_app in Hn.
  apply NoDup_app_l in Hn. rewrite filter_all in Hn; [exact Hn|].
  intros x Hx. destruct (wrote_origin _ _ _ _ _ _ HI Hx) as [i [k [p [lev [A _]]]]]. unfold is_prod. rewrite A. reflexivity.
Qed.


(* the return values: every completed call returned true *)
Lemma c28_return_exact_lemma : forall m d vf ps sched i p, nth_error ps i = Some p ->
  exists st done, nth_error (prods (run sched (init m d vf ps))) i = Some st /\
                  p = done ++ todo st /\ rets st = map (fun _ => true) done.
Proof.
  intros m d vf ps sched i p Hp. pose proof (Inv_reach m d vf ps sched) as HI.
  destruct (prod_state _ _ _ _ _ _ _ HI Hp) as [st [Hst [done [A [_ [B _]]]]]].
  exists st, done. split; [exact Hst|]. split; [exact A|exact B].
Qed.

Definition all_done (c : config) : bool :=
  forallb (fun st => match todo st with [] => true | _ => false end) (prods c).

Lemma rets_ok1_true : forall m p, rets_ok1 m p (map (fun _ => true) p) = true.
Proof. induction p as [|[lev t] p IH]; cbn; [reflexivity|]. rewrite IH. destruct (enabled m lev); reflexivity. Qed.

(* the oracle's return-value clause, once every producer has made all its calls *)
Lemma c28_return_ok_lemma : forall m d vf ps sched,
  all_done (run sched (init m d vf ps)) = true ->
  rets_ok m ps (o_rets (observe (run sched (init m d vf ps)))) = true.
Proof.
  intros m d vf ps sched Hd. pose proof (Inv_reach m d vf ps sched) as HI. set (c := run sched (init m d vf ps)) in *.
  cbn [observe o_rets]. unfold all_done in Hd. rewrite forallb_forall in Hd.
  pose proof (i_prods _ _ _ _ _ HI) as Hp.
  assert (G : forall (ps0 : list prog) (l : list pstate),
            (forall i, orel (fun p st => todo st = [] -> rets st = map (fun _ => true) p) (nth_error ps0 i) (nth_error l i)) ->
            (forall st, In st l -> todo st = []) -> rets_ok m ps0 (map rets l) = true).
  { induction ps0 as [|p ps0 IH]; intros [|st l] H Ht; cbn.
    - reflexivity.
    - specialize (H 0). cbn in H. contradiction.
    - specialize (H 0). cbn in H. contradiction.
    - pose proof (H 0) as H0. cbn in H0. rewrite (H0 (Ht st (or_introl eq_refl))), rets_ok1_true. cbn.
      apply IH; [intros i; exact (H (S i))|intros; apply Ht; right; assumption]. }
  apply G.
  - intros i. specialize (Hp i). unfold orel in *.
    destruct (nth_error (prods c) i) as [st|] eqn:E1; destruct (nth_error ps i) as [p|] eqn:E2; auto.
    destruct Hp as [done [A [_ [B _]]]]. intros Ht. rewrite Ht, app_nil_r in A. subst done. exact B.
  - intros st Hst. specialize (Hd st Hst). destruct (todo st); [reflexivity|discriminate].
Qed.

(* ------------------------------------------------------------------ every line accepted before stop() is written *)
(* no program submits an empty text at an enabled level (that text is the stop marker: finding
   C28-empty-line-stops-logger) *)
Definition no_marker (m : Z) (ps : list prog) : bool :=
  forallb (fun p => forallb (fun l => negb (enabled m (fst l)) || match snd l with [] => false | _ => true end) p) ps.

Record Jnv (c : config) : Prop := {
  j_idle : stopper c = SIdle -> stopping c = false /\ after_stop c = [];
  j_req : stopper c <> SIdle -> stopping c = true /\ pushed c = at_stop c ++ after_stop c;
  j_at : forall x, In x (at_stop c) -> is_prod x = true;
  j_pop : cons c = CPop true -> stopper c <> SIdle;        (* the sample was taken after the stop request *)
  j_exit : cons c = CExit -> stopper c <> SIdle /\ forall y, In y (queue c) -> In y (after_stop c);
  j_none : forall y, In y (pushed c) -> q_src y = None -> In y (after_stop c) }.

Lemma Jnv_init : forall m d vf ps, Jnv (init m d vf ps).
Proof.
  intros. constructor; cbn; auto; try discriminate; try (intros ? []); try (intros H; contradiction H; reflexivity).
Qed.

Section AllWritten.
Variables (m : Z) (d : bool) (vf : valfn) (ps : list prog).
Hypothesis NM : no_marker m ps = true.

Lemma pushed_prod_text : forall c x, Inv m d vf ps c -> In x (pushed c) -> is_prod x = true -> q_text x <> [].
Proof.
  intros c x HI Hx Hp. unfold is_prod in Hp. pose proof (i_src _ _ _ _ _ HI x Hx) as Hs.
  destruct (q_src x) as [[i k0]|] eqn:Esrc; [|discriminate].
  destruct (nth_error ps i) as [p|] eqn:Ep; [|apply nth_error_None in Ep; lia].
  destruct (prod_state _ _ _ _ _ _ _ HI Ep) as [st [_ [done [Hsplit [_ [_ Hfil]]]]]].
  assert (Fx : In x (filter (from i) (pushed c))).
  { apply filter_In. split; [exact Hx|]. unfold from. rewrite Esrc. apply Nat.eqb_refl. }
  rewrite Hfil in Fx. destruct (elems_in _ _ _ _ _ _ Fx) as [j [lev [_ [B C]]]].
  assert (Hin : In (lev, q_text x) p).
  { rewrite Hsplit. apply in_or_app. left. eapply nth_error_In. exact B. }
  unfold no_marker in NM. rewrite forallb_forall in NM. specialize (NM p (nth_error_In _ _ Ep)).
  rewrite forallb_forall in NM. specialize (NM _ Hin). cbn in NM. rewrite C in NM. cbn in NM.
  destruct (q_text x); [discriminate|discriminate].
Qed.

Ltac jf := cbn [set_cons stopper stopping after_stop pushed at_stop cons queue].

Lemma Jnv_step : forall c t, Inv m d vf ps c -> Jnv c -> Jnv (step c t).
Proof.
  intros c t HI HJ. pose proof HJ as [Jidle Jreq Jat Jpop Jexit Jnone]. destruct t as [i| |]; cbn [step].
  - (* producer *)
    unfold step_prod. destruct (nth_error (prods c) i) as [st|]; [|exact HJ].
    destruct (todo st) as [|[lev txt] rest]; [exact HJ|].
    destruct (enabled (mask c) lev); [|constructor; cbn; assumption].
    cbn [enqueue try_push]. set (x := {| q_src := Some (i, pidx st); q_text := txt |}).
    constructor; jf.
    + intros E. unfold g_after. rewrite E. apply Jidle. exact E.
    + intros E. destruct (Jreq E) as [A B]. split; [exact A|]. unfold g_after.
      destruct (stopper c); [contradiction E; reflexivity| | |]; rewrite B, app_assoc; reflexivity.
    + exact Jat.
    + exact Jpop.
    + intros E. destruct (Jexit E) as [A B]. split; [exact A|]. intros y Hy. apply in_app_or in Hy.
      unfold g_after.
      destruct Hy as [Hy|[<-|[]]].
      * specialize (B y Hy). destruct (stopper c); [exact B| | |]; apply in_or_app; left; exact B.
      * destruct (stopper c); [contradiction A; reflexivity| | |]; apply in_or_app; right; left; reflexivity.
    + intros y Hy Hn. apply in_app_or in Hy. destruct Hy as [Hy|[<-|[]]]; [|discriminate].
      unfold g_after. specialize (Jnone y Hy Hn). destruct (stopper c); [exact Jnone| | |]; apply in_or_app; left; exact Jnone.
  - (* consumer *)
    unfold step_cons. destruct (cons c) as [|s|x|] eqn:Ec.
    + (* CSample *)
      constructor; jf; try assumption; try discriminate.
      intros E. injection E as E. intro E2. destruct (Jidle E2) as [A _]. congruence.
    + (* CPop s *)
      destruct (queue c) as [|x q'] eqn:Eq.
      * destruct s; constructor; jf; try assumption; try discriminate.
        intros _. split; [apply Jpop; reflexivity|]. rewrite Eq. intros y [].
      * destruct (q_text x) as [|b bs] eqn:Ex.
        -- (* the element that ends the loop: by NM it is the marker of stop() *)
           assert (Hxp : In x (pushed c)).
           { rewrite (i_fifo _ _ _ _ _ HI), Eq. apply in_or_app. right. apply in_or_app. right. apply in_or_app. right. left. reflexivity. }
           assert (Hxn : q_src x = None).
           { destruct (q_src x) eqn:Es; [|reflexivity]. exfalso.
             apply (pushed_prod_text c x HI Hxp); [unfold is_prod; rewrite Es; reflexivity|exact Ex]. }
           pose proof (Jnone x Hxp Hxn) as Hxa.
           assert (Hns : stopper c <> SIdle).
           { intro E. destruct (Jidle E) as [_ A]. rewrite A in Hxa. inversion Hxa. }
           destruct (Jreq Hns) as [_ Hsplit].
           assert (Hd : dropped c = []).
           { destruct (dropped c) eqn:Ed; [reflexivity|].
             assert (cons c = CExit) by (apply (i_exit _ _ _ _ _ HI); rewrite Ed; discriminate). congruence. }
           constructor; jf; try assumption; try discriminate.
           intros _. split; [exact Hns|]. intros y Hy.
           pose proof (i_fifo _ _ _ _ _ HI) as Hf. rewrite Ec, Hd, Eq in Hf. cbn [inflight app] in Hf.
           rewrite Hsplit in Hf. apply app_eq_app in Hf. destruct Hf as [l [[A B]|[A B]]].
           ++ destruct l as [|z l].
              ** cbn in B. rewrite <- B. right. exact Hy.
              ** cbn in B. injection B as B1 B2. subst z. exfalso.
                 assert (is_prod x = true) by (apply Jat; rewrite A; apply in_or_app; right; left; reflexivity).
                 unfold is_prod in H. rewrite Hxn in H. discriminate.
           ++ rewrite B. apply in_or_app. right. right. exact Hy.
        -- constructor; jf; try assumption; discriminate.
    + constructor; jf; try assumption; discriminate.
    + exact HJ.
  - (* stop() *)
    unfold step_stop. destruct (stopper c) eqn:Es.
    + (* request_stop *)
      destruct (Jidle eq_refl) as [_ Ha].
      constructor; jf; try assumption.
      * discriminate.
      * intros _. split; [reflexivity|]. rewrite app_nil_r. reflexivity.
      * intros y Hy. destruct (is_prod y) eqn:E; [reflexivity|]. exfalso.
        unfold is_prod in E. destruct (q_src y) eqn:Esy; [discriminate|].
        pose proof (Jnone y Hy Esy) as H. rewrite Ha in H. inversion H.
      * intros _. discriminate.
      * intros E. destruct (Jexit E) as [A _]. contradiction A; reflexivity.
      * intros y Hy Hn. pose proof (Jnone y Hy Hn) as H. rewrite Ha in H. inversion H.
    + (* enqueue("") *)
      cbn [enqueue try_push]. assert (Hns : SReq <> SIdle) by discriminate. destruct (Jreq Hns) as [A B].
      constructor; jf; try assumption.
      * discriminate.
      * intros _. split; [exact A|]. rewrite B, app_assoc. reflexivity.
      * intros _. discriminate.
      * intros E. split; [discriminate|]. destruct (Jexit E) as [_ C]. intros y Hy.
        apply in_app_or in Hy. destruct Hy as [Hy|[<-|[]]].
        -- apply in_or_app; left; apply C; exact Hy.
        -- apply in_or_app. right. left. reflexivity.
      * intros y Hy Hn. apply in_app_or in Hy. destruct Hy as [Hy|[<-|[]]].
        -- apply in_or_app. left. apply Jnone; assumption.
        -- apply in_or_app. right. left. reflexivity.
    + destruct (cons c) eqn:Ec; try exact HJ.
      assert (Hns : SPushed <> SIdle) by discriminate. destruct (Jreq Hns) as [A B].
      constructor; jf; try assumption.
      * discriminate.
      * intros _. split; assumption.
      * intros _. discriminate.
      * intros _. split; [discriminate|]. destruct (Jexit eq_refl) as [_ C]. exact C.
    + exact HJ.
Qed.

Lemma Jnv_reach : forall sched, Jnv (run sched (init m d vf ps)).
Proof.
  intros sched.
  assert (G : forall sched c, Inv m d vf ps c -> Jnv c -> Jnv (run sched c)).
  { induction sched0 as [|t sched0 IH]; intros c HI HJ; cbn; [exact HJ|].
    apply IH; [apply Inv_step; exact HI|apply Jnv_step; assumption]. }
  apply G; [apply Inv_init|apply Jnv_init].
Qed.

Lemma NoDup_src_split : forall (a b : list qelem) x,
  NoDup (map q_src (filter is_prod (a ++ b))) -> is_prod x = true -> In x a -> In x b -> False.
Proof.
  intros a b x Hn Hp Ha Hb. rewrite filter_app, map_app in Hn.
  assert (A : In (q_src x) (map q_src (filter is_prod a))) by (apply in_map; apply filter_In; split; assumption).
  assert (B : In (q_src x) (map q_src (filter is_prod b))) by (apply in_map; apply filter_In; split; assumption).
  clear - Hn A B. induction (map q_src (filter is_prod a)) as [|y l IH]; [inversion A|].
  cbn in Hn. inversion Hn; subst. destruct A as [->|A].
  - apply H1. apply in_or_app. right. exact B.
  - apply IH; assumption.
Qed.

(* When stop() has returned, every element that was in the queue history at the moment stop()
   executed _stopping.request_stop() has been written. *)
Lemma c28_all_written_lemma : forall sched,
  let c := run sched (init m d vf ps) in
  stopper c = SDone ->
  (forall x, In x (at_stop c) -> In x (wrote c)) /\ NoDup (map q_src (wrote c)).
Proof.
  intros sched c Hdone. split; [|apply c28_once_lemma]. intros x Hx.
  pose proof (Inv_reach m d vf ps sched) as HI. pose proof (Jnv_reach sched) as HJ. fold c in HI, HJ.
  pose proof (i_done _ _ _ _ _ HI Hdone) as Hc.
  assert (Hns : stopper c <> SIdle) by (rewrite Hdone; discriminate).
  destruct (j_req _ HJ Hns) as [_ Hsplit].
  assert (Hxp : In x (pushed c)) by (rewrite Hsplit; apply in_or_app; left; exact Hx).
  pose proof (j_at _ HJ x Hx) as Hprod.
  pose proof (i_fifo _ _ _ _ _ HI) as Hf. rewrite Hc in Hf. cbn [inflight app] in Hf.
  rewrite Hf in Hxp. apply in_app_or in Hxp. destruct Hxp as [Hw|Hxp]; [exact Hw|].
  apply in_app_or in Hxp. destruct Hxp as [Hd|Hq].
  - exfalso. apply (pushed_prod_text c x HI); [rewrite Hsplit; apply in_or_app; left; exact Hx|exact Hprod|].
    apply (proj2 (i_text _ _ _ _ _ HI)). exact Hd.
  - destruct (j_exit _ HJ Hc) as [_ B]. pose proof (B x Hq) as H.
    exfalso. eapply NoDup_src_split; [|exact Hprod|exact Hx|exact H]. rewrite <- Hsplit. exact (i_nodup _ _ _ _ _ HI).
Qed.
End AllWritten.

(* ------------------------------------------------------------------ what [at_stop] is *)
Lemma at_stop_step : forall c t, stopper c <> SIdle ->
  at_stop (step c t) = at_stop c /\ stopper (step c t) <> SIdle.
Proof.
  intros c [i| |] H; cbn [step].
  - unfold step_prod. destruct (nth_error (prods c) i) as [st|]; [|auto].
    destruct (todo st) as [|[lev txt] rest]; [auto|].
    destruct (enabled (mask c) lev); cbn; auto.
  - unfold step_cons. destruct (cons c) as [|s|x|]; [cbn; auto
                                         |destruct (queue c) as [|x q']; [destruct s; cbn; auto|destruct (q_text x); cbn; auto]
                                         |cbn; auto|auto].
  - unfold step_stop. destruct (stopper c) eqn:E; [contradiction H; reflexivity|cbn; split; [reflexivity|discriminate]| |].
    + destruct (cons c); cbn; rewrite ?E; split; try reflexivity; try discriminate; rewrite E; discriminate.
    + rewrite E. split; [reflexivity|discriminate].
Qed.

(* [at_stop] is the queue history at the moment stop() executed _stopping.request_stop() *)
Lemma c28_at_stop_lemma : forall c1 s2, stopper c1 = SIdle ->
  at_stop (run s2 (step c1 Stop)) = pushed c1.
Proof.
  intros c1 s2 H.
  assert (G : forall s c, stopper c <> SIdle -> at_stop (run s c) = at_stop c).
  { induction s as [|t s IH]; intros c Hc; cbn; [reflexivity|].
    destruct (at_stop_step c t Hc) as [A B]. rewrite IH by exact B. exact A. }
  rewrite G.
  - cbn [step]. unfold step_stop. rewrite H. reflexivity.
  - cbn [step]. unfold step_stop. rewrite H. cbn. discriminate.
Qed.

Lemma elems_NoDup : forall m vf i p k, NoDup (elems m vf i k p).
Proof.
  induction p as [|[lev t] p IH]; intros k; cbn [elems]; [constructor|].
  destruct (enabled m lev); [|apply IH]. constructor; [|apply IH].
  intro H. destruct (elems_in _ _ _ _ _ _ H) as [j [l [A _]]]. cbn in A. injection A as A. lia.
Qed.

Lemma prefix_full : forall A (a b : list A), prefix a b -> NoDup b -> (forall x, In x b -> In x a) -> a = b.
Proof.
  intros A a b [t ->] Hn Hi. destruct t as [|y t]; [rewrite app_nil_r; reflexivity|]. exfalso.
  assert (In y a) by (apply Hi; apply in_or_app; right; left; reflexivity).
  clear - Hn H. induction a as [|z a IH]; [inversion H|]. cbn in Hn. inversion Hn; subst.
  destruct H as [->|H]; [apply H2; apply in_or_app; right; left; reflexivity|apply IH; assumption].
Qed.

(* stop() called after every producer has made all its calls: when it has returned, every line
   submitted at an enabled level is written, in order *)
Lemma c28_all_written_done_lemma : forall m d vf ps s1 s2,
  no_marker m ps = true ->
  let c1 := run s1 (init m d vf ps) in
  stopper c1 = SIdle -> all_done c1 = true ->
  let c2 := run s2 (step c1 Stop) in
  stopper c2 = SDone ->
  forall i p, nth_error ps i = Some p -> filter (from i) (wrote c2) = elems m vf i 0 p.
Proof.
  intros m d vf ps s1 s2 NM c1 Hidle Hdone c2 Hs i p Hp.
  assert (E : c2 = run (s1 ++ Stop :: s2) (init m d vf ps)).
  { unfold c2, c1, run. rewrite fold_left_app. reflexivity. }
  pose proof (c28_order_lemma m d vf ps (s1 ++ Stop :: s2) i p Hp) as [Hpre _]. rewrite <- E in Hpre.
  apply prefix_full; [exact Hpre|apply elems_NoDup|].
  intros x Hx.
  (* x was pushed before the stop request *)
  pose proof (Inv_reach m d vf ps s1) as HI1. fold c1 in HI1.
  destruct (prod_state _ _ _ _ _ _ _ HI1 Hp) as [st [Hst [done [Hsplit [_ [_ Hfil]]]]]].
  assert (Ht : todo st = []).
  { unfold all_done in Hdone. rewrite forallb_forall in Hdone. specialize (Hdone st (nth_error_In _ _ Hst)).
    destruct (todo st); [reflexivity|discriminate]. }
  rewrite Ht, app_nil_r in Hsplit. subst done.
  assert (Hxa : In x (at_stop c2)).
  { unfold c2. rewrite c28_at_stop_lemma by exact Hidle. rewrite <- Hfil in Hx. apply filter_In in Hx. tauto. }
  rewrite E in Hs, Hxa |- *.
  destruct (c28_all_written_lemma m d vf ps NM (s1 ++ Stop :: s2) Hs) as [H _].
  apply filter_In. split; [exact (H x Hxa)|]. eapply elems_from. exact Hx.
Qed.

(* ------------------------------------------------------------------ what is still wrong *)
Local Open Scope Z_scope.

(* a line with an empty text at an enabled level makes the consumer leave its loop (it is the
   stop marker): the lines behind it are never written, however long stop() is delayed *)
Lemma c28_empty_line_refuted_lemma :
  exists m ps,
    let o := run_case m false (fun _ _ => 0) [] ps in
    o_stopped o = true /\ o_file o = [(1%nat, [65])] /\ file_complete false m (fun _ _ => 0) ps o = false.
Proof.
  exists 2, [[(1, [65]); (1, []); (1, [66])]]. vm_compute. repeat split; reflexivity.
Qed.

(* ------------------------------------------------------------------ non-vacuity *)
Definition nv_ps : list prog := [[(1, [65]); (0, [66]); (1, [67])]; [(1, [68]); (4, [69])]].

(* stop() requested while all four accepted lines are still in the queue and the logger thread has
   not run at all: everything is written before stop() returns *)
Lemma c28_nonvacuous_lemma :
  no_marker 18 nv_ps = true /\
  let c1 := run [P 1; P 0; P 1; P 0; P 0] (init 18 false (fun _ _ => 0) nv_ps) in
  stopper c1 = SIdle /\ all_done c1 = true /\ length (queue c1) = 4%nat /\
  let c2 := run (Stop :: repeat Cons 15 ++ [Stop; Stop]) (step c1 Stop) in
  stopper c2 = SDone /\
  file c2 = [(1%nat, [68]); (2%nat, [65]); (3%nat, [69]); (4%nat, [67])] /\
  map rets (prods c2) = [[true; true; true]; [true; true]] /\
  c28_ok false 18 (fun _ _ => 0) nv_ps (observe c2) = true.
Proof. vm_compute. repeat split; reflexivity. Qed.

(* the same programs with mixed val arguments, once with and once without the direction flag *)
Definition nv_vf (i k : nat) : Z := Z.of_nat ((i + 2 * k) mod 3).

Lemma c28_nonvacuous_direction_lemma :
  (let o := run_case 18 true nv_vf [1; 0; 1; 0]%nat nv_ps in
   o_file o = [(1%nat, [32; 105; 110; 32; 68]); (1%nat, [111; 117; 116; 32; 65]);
               (2%nat, [111; 117; 116; 32; 69]); (2%nat, [32; 105; 110; 32; 67])] /\
   c28_ok true 18 nv_vf nv_ps o = true) /\
  (let o := run_case 18 false nv_vf [1; 0; 1; 0]%nat nv_ps in
   o_file o = [(1%nat, [68]); (2%nat, [65]); (3%nat, [69]); (4%nat, [67])] /\
   c28_ok false 18 nv_vf nv_ps o = true) /\
  (* and the oracle rejects the two-series numbering when the flag is not set *)
  c28_ok false 18 nv_vf nv_ps
    {| o_rets := [[true; true; true]; [true; true]];
       o_file := [(1%nat, [68]); (1%nat, [65]); (2%nat, [69]); (2%nat, [67])]; o_stopped := true |} = false.
Proof. vm_compute. repeat split; reflexivity. Qed.
