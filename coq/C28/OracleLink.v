(* Link between the model (all schedules) and the extracted oracle of Spec_C28: when the texts of
   the calls at enabled levels are pairwise distinct (as in the correspondence runs, where each
   text carries producer and call number), the "soundness" half of the oracle holds in every
   reachable state, and the "completeness" half holds under the hypothesis of
   c28_all_written_partial. *)
From Coq Require Import ZArith List Bool Arith Lia.
From F8 Require Import C28.Spec_C28 C28.LoggerQ C28.LoggerQProofs.
Import ListNotations.

(* ------------------------------------------------------------------ text equality *)
Lemma text_eqb_refl : forall a, text_eqb a a = true.
Proof. induction a as [|x a IH]; cbn; [reflexivity|]. rewrite Z.eqb_refl, IH. reflexivity. Qed.

Lemma text_eqb_eq : forall a b, text_eqb a b = true -> a = b.
Proof.
  induction a as [|x a IH]; intros [|y b] H; cbn in H; try discriminate; [reflexivity|].
  apply andb_prop in H. destruct H as [H1 H2]. apply Z.eqb_eq in H1. subst. f_equal. apply IH. exact H2.
Qed.

Lemma text_eqb_neq : forall a b, a <> b -> text_eqb a b = false.
Proof. intros a b H. destruct (text_eqb a b) eqn:E; [|reflexivity]. exfalso. apply H. apply text_eqb_eq. exact E. Qed.

(* ------------------------------------------------------------------ NoDup helpers *)
Lemma NoDup_app_r : forall A (a b : list A), NoDup (a ++ b) -> NoDup b.
Proof. induction a as [|x a IH]; intros b H; [exact H|]. inversion H; subst. apply IH. assumption. Qed.

Lemma NoDup_app_disj : forall A (a b : list A) x, NoDup (a ++ b) -> In x a -> In x b -> False.
Proof.
  induction a as [|y a IH]; intros b x H Ha Hb; [inversion Ha|]. inversion H; subst.
  destruct Ha as [->|Ha].
  - apply H2. apply in_or_app. right. exact Hb.
  - eapply IH; eassumption.
Qed.

Lemma NoDup_app_intro : forall A (a b : list A), NoDup a -> NoDup b -> (forall x, In x a -> In x b -> False) -> NoDup (a ++ b).
Proof.
  induction a as [|y a IH]; intros b Ha Hb Hd; [exact Hb|]. inversion Ha; subst. cbn. constructor.
  - intro H. apply in_app_or in H. destruct H as [H|H]; [contradiction|]. eapply Hd; [left; reflexivity|exact H].
  - apply IH; try assumption. intros x Hx1 Hx2. eapply Hd; [right; exact Hx1|exact Hx2].
Qed.

(* ------------------------------------------------------------------ one strike *)
Lemma strike_spec : forall (Ls : list (list text)) i t rest,
  nth_error Ls i = Some (t :: rest) -> NoDup (concat Ls) ->
  strike t Ls = Some (upd Ls i rest) /\ NoDup (concat (upd Ls i rest)) /\
  (forall x, In x (concat (upd Ls i rest)) -> In x (concat Ls)).
Proof.
  induction Ls as [|l Ls IH]; intros [|i] t rest Hn Hd; cbn in Hn; try discriminate.
  - injection Hn as ->. cbn [strike upd concat]. rewrite text_eqb_refl.
    split; [reflexivity|]. cbn in Hd. inversion Hd; subst. split; [assumption|].
    intros x Hx. cbn. right. exact Hx.
  - cbn [concat] in Hd.
    destruct (IH i t rest Hn (NoDup_app_r _ _ _ Hd)) as [S1 [S2 S3]].
    assert (Ht : In t (concat Ls)).
    { apply in_concat. exists (t :: rest). split; [eapply nth_error_In; eassumption|left; reflexivity]. }
    assert (Hnd : NoDup (l ++ concat (upd Ls i rest))).
    { apply NoDup_app_intro.
      - clear - Hd. induction l as [|a l IHl]; [constructor|]. cbn in Hd. inversion Hd; subst. constructor.
        + intro H. apply H1. apply in_or_app. left. exact H.
        + apply IHl. assumption.
      - exact S2.
      - intros x Hx1 Hx2. eapply NoDup_app_disj; [exact Hd|exact Hx1|apply S3; exact Hx2]. }
    destruct l as [|x xs]; cbn [strike upd concat].
    + rewrite S1. split; [reflexivity|]. split; [exact S2|]. intros y Hy. cbn. apply S3. exact Hy.
    + assert (Hx : x <> t).
      { intro E. subst x. eapply NoDup_app_disj; [exact Hd|left; reflexivity|exact Ht]. }
      rewrite (text_eqb_neq _ _ Hx), S1. split; [reflexivity|]. split; [exact Hnd|].
      intros y Hy. apply in_app_or in Hy. apply in_or_app. destruct Hy as [Hy|Hy]; [left; exact Hy|right; apply S3; exact Hy].
Qed.

(* ------------------------------------------------------------------ a whole file *)
(* W: the written lines as (producer, text); Ls: per producer the texts still to be written *)
Definition of (i : nat) (w : nat * text) : bool := Nat.eqb (fst w) i.

Lemma filter_of_same : forall i t W, filter (of i) ((i, t) :: W) = (i, t) :: filter (of i) W.
Proof. intros. cbn [filter]. unfold of at 1. cbn [fst]. rewrite Nat.eqb_refl. reflexivity. Qed.

Lemma filter_of_other : forall i j t W, i <> j -> filter (of j) ((i, t) :: W) = filter (of j) W.
Proof. intros. cbn [filter]. unfold of at 1. cbn [fst]. rewrite (proj2 (Nat.eqb_neq i j) H). reflexivity. Qed.

Lemma upd_nth_same : forall A (l : list A) i x d, i < length l -> nth i (upd l i x) d = x.
Proof. induction l as [|a l IH]; intros [|i] x d H; cbn in *; try lia; [reflexivity|]. apply IH. lia. Qed.

Lemma upd_nth_other : forall A (l : list A) i j x d, i <> j -> nth j (upd l i x) d = nth j l d.
Proof. induction l as [|a l IH]; intros [|i] [|j] x d H; cbn; auto; try congruence. Qed.

Lemma strike_all_spec : forall (W : list (nat * text)) (sq : list nat) (Ls : list (list text)),
  NoDup (concat Ls) -> length sq = length W ->
  (forall i, prefix (map snd (filter (of i) W)) (nth i Ls [])) ->
  (forall w, In w W -> fst w < length Ls) ->
  exists R, strike_all (combine sq (map snd W)) Ls = Some R /\ length R = length Ls /\
            forall i, nth i Ls [] = map snd (filter (of i) W) ++ nth i R [].
Proof.
  induction W as [|[i t] W IH]; intros sq Ls Hd Hlen Hp Hb.
  - destruct sq; [|discriminate]. cbn. exists Ls. split; [reflexivity|]. split; [reflexivity|]. intros; reflexivity.
  - destruct sq as [|s sq]; [discriminate|]. cbn [map combine strike_all snd].
    assert (Hi : i < length Ls) by (apply (Hb (i, t)); left; reflexivity).
    destruct (Hp i) as [tl Htl]. rewrite filter_of_same in Htl. cbn [map snd app] in Htl.
    assert (Hn : nth_error Ls i = Some (t :: map snd (filter (of i) W) ++ tl)).
    { rewrite <- Htl. apply nth_error_nth'. exact Hi. }
    destruct (strike_spec Ls i t _ Hn Hd) as [S1 [S2 _]]. rewrite S1.
    destruct (IH sq (upd Ls i (map snd (filter (of i) W) ++ tl))) as [R [R1 [R2 R3]]].
    + exact S2.
    + cbn in Hlen. lia.
    + intros j. destruct (Nat.eq_dec i j) as [<-|Hij].
      * rewrite upd_nth_same by exact Hi. exists tl. reflexivity.
      * rewrite upd_nth_other by exact Hij. destruct (Hp j) as [tj Htj]. rewrite (filter_of_other _ _ _ _ Hij) in Htj.
        exists tj. exact Htj.
    + intros w Hw. rewrite upd_length. apply Hb. right. exact Hw.
    + exists R. split; [exact R1|]. split; [rewrite R2; apply upd_length|].
      intros j. destruct (Nat.eq_dec i j) as [<-|Hij].
      * rewrite filter_of_same. cbn [map snd app]. rewrite Htl. f_equal.
        specialize (R3 i). rewrite upd_nth_same in R3 by exact Hi.
        (* R3: filt ++ tl = filt ++ nth i R [] *)
        rewrite <- R3. reflexivity.
      * rewrite (filter_of_other _ _ _ _ Hij).
        specialize (R3 j). rewrite upd_nth_other in R3 by exact Hij. exact R3.
Qed.

(* ------------------------------------------------------------------ from the model to the oracle *)
Definition lab (d : bool) (x : qelem) : nat * text :=
  (match q_src x with Some (i, _) => i | None => O end, line_of d x).

Lemma must_write_elems : forall d m vf i p k, must_write d m vf i k p = map (line_of d) (elems m vf i k p).
Proof.
  induction p as [|[lev t] p IH]; intros k; cbn [must_write map elems]; [reflexivity|].
  destruct (enabled m lev); cbn [map]; [f_equal|]; apply IH.
Qed.

Lemma combine_fst_snd : forall A B (l : list (A * B)), combine (map fst l) (map snd l) = l.
Proof. induction l as [|[a b] l IH]; cbn; [reflexivity|]. f_equal. exact IH. Qed.

Lemma seq_ok_seq : forall (l : list (nat * text)) k, map fst l = seq k (length l) -> seq_ok k l = true.
Proof.
  induction l as [|[s t] l IH]; intros k H; cbn; [reflexivity|]. cbn in H. injection H as -> H.
  rewrite Nat.eqb_refl. cbn. apply IH. exact H.
Qed.

Lemma starts_in_line : forall x, starts_in (line_of true x) = uses_seq true x.
Proof.
  intros x. unfold line_of, rest, tag, uses_seq. destruct (Z.eqb (q_val x) 0); reflexivity.
Qed.

Lemma seq_ok_dir_nums : forall W (f : list (nat * text)) s o,
  map fst f = nums true s o W -> map snd f = map (line_of true) W -> seq_ok_dir s o f = true.
Proof.
  induction W as [|x W IH]; intros [|[n r] f] s o H1 H2; cbn [map nums fst snd] in *; try discriminate; [reflexivity|].
  injection H2 as -> H2. cbn [seq_ok_dir]. change (tag (q_val x) ++ 32%Z :: q_text x) with (line_of true x). rewrite starts_in_line.
  destruct (uses_seq true x); injection H1 as -> H1; rewrite Nat.eqb_refl; cbn [andb]; apply IH; assumption.
Qed.

Lemma prefix_map : forall A B (f : A -> B) a b, prefix a b -> prefix (map f a) (map f b).
Proof. intros A B f a b [t ->]. exists (map f t). apply map_app. Qed.

Lemma filter_lab : forall d i l, (forall x, In x l -> is_prod x = true) ->
  filter (of i) (map (lab d) l) = map (lab d) (filter (from i) l).
Proof.
  induction l as [|x l IH]; intros H; cbn [map filter]; [reflexivity|].
  assert (Hx : is_prod x = true) by (apply H; left; reflexivity).
  assert (E : of i (lab d x) = from i x).
  { unfold of, lab, from, is_prod in *. destruct (q_src x) as [[j k]|]; [reflexivity|discriminate]. }
  rewrite E. destruct (from i x); cbn [map]; rewrite IH; auto; intros; apply H; right; assumption.
Qed.

Lemma map_snd_lab : forall d l, map snd (map (lab d) l) = map (line_of d) l.
Proof. intros. rewrite map_map. reflexivity. Qed.

Lemma nth_must_all : forall d m vf ps j i, nth i (must_all d m vf j ps) [] =
  match nth_error ps i with Some p => must_write d m vf (j + i) 0 p | None => [] end.
Proof.
  induction ps as [|p ps IH]; intros j [|i]; cbn [must_all nth nth_error]; try reflexivity.
  - rewrite Nat.add_0_r. reflexivity.
  - rewrite IH. replace (S j + i) with (j + S i) by lia. reflexivity.
Qed.

Lemma must_all_length : forall d m vf ps j, length (must_all d m vf j ps) = length ps.
Proof. induction ps as [|p ps IH]; intros j; cbn; [reflexivity|]. rewrite IH. reflexivity. Qed.

Section Link.
Variables (m : Z) (d : bool) (vf : valfn) (ps : list prog) (sched : list tid).
Let c := run sched (init m d vf ps).

Lemma wrote_is_prod : forall x, In x (wrote c) -> is_prod x = true /\ fst (lab d x) < length ps.
Proof.
  intros x Hx. destruct (c28_levels_lemma m d vf ps sched x Hx) as [i [k [p [lev [A [B _]]]]]].
  unfold is_prod, lab. rewrite A. split; [reflexivity|]. cbn. apply nth_error_Some. congruence.
Qed.

Lemma nth_must_write : forall i, nth i (must_all d m vf 0 ps) [] =
  match nth_error ps i with Some p => must_write d m vf i 0 p | None => [] end.
Proof. intros i. rewrite nth_must_all. reflexivity. Qed.

Lemma link_strike : NoDup (concat (must_all d m vf 0 ps)) ->
  exists R, strike_all (file c) (must_all d m vf 0 ps) = Some R /\ length R = length ps /\
            forall i, nth i (must_all d m vf 0 ps) [] = map (line_of d) (filter (from i) (wrote c)) ++ nth i R [].
Proof.
  intros Hd. pose proof (Inv_reach m d vf ps sched) as HI. fold c in HI.
  destruct (i_file _ _ _ _ _ HI) as [F1 [F2 _]].
  assert (Hfile : file c = combine (map fst (file c)) (map snd (map (lab d) (wrote c)))).
  { rewrite map_snd_lab, <- F1. symmetry. apply combine_fst_snd. }
  assert (Hprod : forall x, In x (wrote c) -> is_prod x = true) by (intros x Hx; apply wrote_is_prod; exact Hx).
  destruct (strike_all_spec (map (lab d) (wrote c)) (map fst (file c)) (must_all d m vf 0 ps)) as [R [R1 [R2 R3]]].
  - exact Hd.
  - rewrite !map_length. rewrite <- (map_length snd (file c)), F1, map_length. reflexivity.
  - intros i. rewrite (filter_lab d i _ Hprod), map_snd_lab, nth_must_write.
    destruct (nth_error ps i) as [p|] eqn:E.
    + rewrite (must_write_elems d m vf i p 0). apply prefix_map.
      exact (proj1 (c28_order_lemma m d vf ps sched i p E)).
    + assert (Hn : filter (from i) (wrote c) = []).
      { apply nth_error_None in E.
        assert (G : forall l, (forall x, In x l -> In x (wrote c)) -> filter (from i) l = []).
        { induction l as [|x l IH]; intros H; cbn; [reflexivity|].
          destruct (c28_levels_lemma m d vf ps sched x (H x (or_introl eq_refl))) as [j [k [p [lev [A [B _]]]]]].
          assert (j < length ps) by (apply nth_error_Some; congruence).
          unfold from at 1. rewrite A. rewrite (proj2 (Nat.eqb_neq j i)) by lia.
          apply IH. intros; apply H; right; assumption. }
        apply G. auto. }
      rewrite Hn. exists []. reflexivity.
  - intros w Hw. rewrite must_all_length. apply in_map_iff in Hw. destruct Hw as [x [<- Hx]]. apply wrote_is_prod. exact Hx.
  - exists R. rewrite <- Hfile in R1. split; [exact R1|]. split; [rewrite R2; apply must_all_length|].
    intros i. rewrite (R3 i), (filter_lab d i _ Hprod), map_snd_lab. reflexivity.
Qed.

(* the soundness half of the oracle holds in every reachable state of the model *)
Lemma c28_oracle_sound_lemma : NoDup (concat (must_all d m vf 0 ps)) ->
  file_sound d m vf ps (observe c) = true.
Proof.
  intros Hd. unfold file_sound. cbn [observe o_file].
  destruct (link_strike Hd) as [R [R1 _]]. rewrite R1.
  pose proof (Inv_reach m d vf ps sched) as HI. fold c in HI. destruct (i_file _ _ _ _ _ HI) as [F1 [F2 _]].
  assert (N : numbers_ok d (file c) = true); [|rewrite N; reflexivity].
  unfold numbers_ok. clear R R1 Hd. revert HI F1 F2. destruct d; intros HI F1 F2.
  - eapply seq_ok_dir_nums; eassumption.
  - apply seq_ok_seq. rewrite F2, nums_plain. f_equal.
    rewrite <- (map_length snd (file c)), F1, map_length. reflexivity.
Qed.
End Link.

(* the completeness half: stop() called after all producers are done, stop() has returned, no
   program submits the marker *)
Lemma c28_oracle_complete_lemma : forall m d vf ps s1 s2,
  NoDup (concat (must_all d m vf 0 ps)) -> no_marker m ps = true ->
  stopper (run s1 (init m d vf ps)) = SIdle -> all_done (run s1 (init m d vf ps)) = true ->
  stopper (run s2 (step (run s1 (init m d vf ps)) Stop)) = SDone ->
  file_complete d m vf ps (observe (run s2 (step (run s1 (init m d vf ps)) Stop))) = true.
Proof.
  intros m d vf ps s1 s2 Hd NM Hidle Hdone Hs.
  assert (E : run s2 (step (run s1 (init m d vf ps)) Stop) = run (s1 ++ Stop :: s2) (init m d vf ps))
    by (unfold run; rewrite fold_left_app; reflexivity).
  unfold file_complete. cbn [observe o_file o_stopped]. rewrite Hs. cbn [andb].
  rewrite E. destruct (link_strike m d vf ps (s1 ++ Stop :: s2) Hd) as [R [R1 [R2 R3]]]. rewrite R1.
  apply forallb_forall. intros l Hl. apply In_nth with (d := []) in Hl. destruct Hl as [i [Hi <-]].
  rewrite R2 in Hi. destruct (nth_error ps i) as [p|] eqn:Ep; [|apply nth_error_None in Ep; lia].
  specialize (R3 i). rewrite nth_must_write, Ep in R3.
  pose proof (c28_all_written_done_lemma m d vf ps s1 s2 NM Hidle Hdone Hs i p Ep) as A. rewrite E in A.
  rewrite A, <- (must_write_elems d m vf i p 0) in R3.
  destruct (nth i R []) as [|x xs]; [reflexivity|]. exfalso.
  assert (L : length (must_write d m vf i 0 p) = length (must_write d m vf i 0 p ++ x :: xs)) by (rewrite <- R3; reflexivity).
  rewrite app_length in L. cbn in L. lia.
Qed.

(* the whole oracle *)
Lemma c28_oracle_ok_lemma : forall m d vf ps s1 s2,
  NoDup (concat (must_all d m vf 0 ps)) -> no_marker m ps = true ->
  stopper (run s1 (init m d vf ps)) = SIdle -> all_done (run s1 (init m d vf ps)) = true ->
  stopper (run s2 (step (run s1 (init m d vf ps)) Stop)) = SDone ->
  c28_ok d m vf ps (observe (run s2 (step (run s1 (init m d vf ps)) Stop))) = true.
Proof.
  intros m d vf ps s1 s2 Hd NM Hidle Hdone Hs. unfold c28_ok.
  rewrite (c28_oracle_complete_lemma m d vf ps s1 s2 Hd NM Hidle Hdone Hs).
  assert (E : run s2 (step (run s1 (init m d vf ps)) Stop) = run (s1 ++ Stop :: s2) (init m d vf ps))
    by (unfold run; rewrite fold_left_app; reflexivity).
  rewrite E. rewrite (c28_oracle_sound_lemma m d vf ps (s1 ++ Stop :: s2) Hd). cbn [andb].
  apply c28_return_ok_lemma. rewrite <- E.
  (* producers that are done stay done *)
  assert (G : forall s c, all_done c = true -> all_done (run s c) = true).
  { induction s as [|t s IH]; intros c Hc; cbn; [exact Hc|]. apply IH.
    destruct t as [i| |]; cbn [step].
    - unfold step_prod. destruct (nth_error (prods c) i) as [st|] eqn:Est; [|exact Hc].
      assert (todo st = []).
      { unfold all_done in Hc. rewrite forallb_forall in Hc. specialize (Hc st (nth_error_In _ _ Est)).
        destruct (todo st); [reflexivity|discriminate]. }
      rewrite H. exact Hc.
    - unfold step_cons. destruct (cons c) as [|s0|x|]; [exact Hc
                                           |destruct (queue c) as [|x q']; [destruct s0; exact Hc|destruct (q_text x); exact Hc]
                                           |exact Hc|exact Hc].
    - unfold step_stop. destruct (stopper c); [exact Hc|exact Hc|destruct (cons c); exact Hc|exact Hc]. }
  apply G. cbn [step]. unfold step_stop. rewrite Hidle. exact Hdone.
Qed.
