(* Witness against the intermediate code (model C28/LoggerQMid.v): the logger thread finds the
   queue empty; a line is accepted; stop() requests the stop; the logger thread now loads
   _stopping = true and leaves although the queue holds the line; stop() returns. *)
From Coq Require Import ZArith List Bool.
From F8 Require Import C28.Spec_C28 C28.LoggerQMid.
Import ListNotations.
Local Open Scope Z_scope.

Lemma c28_stop_window_intermediate_refuted_lemma :
  exists m ps sched,
    let c := run sched (init m ps) in
    stopper c = SDone /\
    at_stop c = [{| q_src := Some (O, O); q_text := [65] |}] /\
    map rets (prods c) = [[true]] /\
    wrote c = [] /\ file c = [] /\
    file_complete false m (fun _ _ => 0) ps (observe c) = false.
Proof.
  exists 2, [[(1, [65])]], [Cons; P 0; Stop; Cons; Stop; Stop]. vm_compute. repeat split; reflexivity.
Qed.
