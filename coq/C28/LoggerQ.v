(* Model of the asynchronous logger: Logger::send / enqueue / stop (include/fix8/logger.hpp:
   296-312), the consumer loop Logger::operator()() and the "sequence" and "direction" fields of
   process_logline (runtime/logger.cpp:60-140), FIX8_MPMC_SYSTEM == FIX8_MPMC_FF branch,
   as an interleaving model in the convention of DESIGN.md section 4 "Concurrency group":
   [step c t] executes the next atomic action of thread t (one load, one store, one queue
   operation), a schedule is a list of thread ids, [run sched c = fold_left step sched c].
   No proofs in this file.  This is the code after the repairs c53d854, 4b85524 and aa7ec53; the code
   before them is C28/LoggerQOrig.v, the code between 4b85524 and aa7ec53 is C28/LoggerQMid.v.

   The queue (ff_unbounded_queue<LogElement> over ff::uMPMC_Ptr_Queue) is abstracted as a FIFO
   list with atomic push and pop; that the real multi-producer queue is linearizable to this
   is the subject of property C30 (coq/C30, c30_ticket_order / c30_exactly_once), cited here as
   the licence for the abstraction, not re-proved.  try_push on the unbounded queue always
   succeeds (allocation failure is not modelled).

   Ghost state (never read by the modelled code): [q_src] of a queue element (which submit call
   it stems from; None for the empty string pushed by stop()), [pushed] (all pushes in order),
   [wrote] (the elements written), [dropped] (the element whose empty text made the consumer
   leave its loop), [at_stop] (= [pushed] at the moment stop() executed
   _stopping.request_stop(): the lines "accepted before stop"), [after_stop] (the pushes since
   then).
   The std::ofstream is modelled as a buffer [obuf] that reaches the file [file] when it is
   flushed (by endl after every line; the flush on destruction is outside the model): [file] is
   what a reader of the file sees, and all theorems about "written" lines speak about it. *)
From Coq Require Import ZArith List Bool Arith.
From F8 Require Import C28.Spec_C28.
Import ListNotations.

(* LogElement: _str, _val (the "val" argument of send/enqueue) *)
Record qelem := { q_src : option (nat * nat); q_text : text; q_val : Z }.

Inductive tid := P (i : nat) | Cons | Stop.

(* a producer thread: the submit calls still to make, the number already made, their results *)
Record pstate := { todo : prog; pidx : nat; rets : list bool }.

(* consumer: about to sample _stopping, at try_pop (holding the sample), holding a popped element
   to write, or exited *)
Inductive cpc := CSample | CPop (s : bool) | CWrite (x : qelem) | CExit.
(* the thread calling stop(): before, after _stopping.request_stop(), after enqueue(""), after join *)
Inductive spc := SIdle | SReq | SPushed | SDone.

Record config := {
  mask : Z;                      (* _levels *)
  dirflag : bool;                (* _flags & direction *)
  valf : valfn;                  (* what the producers pass as val: call k of producer i passes valf i k *)
  prods : list pstate;
  queue : list qelem;            (* _msg_queue *)
  stopping : bool;               (* _stopping *)
  cons : cpc;
  seqno : nat;                   (* _sequence *)
  oseqno : nat;                  (* _osequence *)
  file : list (nat * text);      (* the log FILE, i.e. what has been flushed to it: sequence field and rest of each line *)
  obuf : list (nat * text);      (* the ofstream's buffer: lines inserted into the stream but not yet flushed *)
  stopper : spc;
  pushed : list qelem;           (* ghost *)
  wrote : list qelem;            (* ghost *)
  dropped : list qelem;          (* ghost *)
  at_stop : list qelem;          (* ghost *)
  after_stop : list qelem }.     (* ghost *)

Definition init (m : Z) (d : bool) (vf : valfn) (ps : list prog) : config :=
  {| mask := m; dirflag := d; valf := vf; prods := map (fun p => {| todo := p; pidx := O; rets := [] |}) ps;
     queue := []; stopping := false; cons := CSample; seqno := O; oseqno := O; file := []; obuf := []; stopper := SIdle;
     pushed := []; wrote := []; dropped := []; at_stop := []; after_stop := [] |}.

(* _msg_queue.try_push(le): always succeeds *)
Definition try_push (q : list qelem) (x : qelem) : list qelem * bool := (q ++ [x], true).

(* bool enqueue(what, ...) { const LogElement le(...); return _msg_queue.try_push (le); } *)
Definition enqueue (q : list qelem) (x : qelem) : list qelem * bool := try_push q x.

Fixpoint upd {A} (l : list A) (i : nat) (x : A) : list A :=
  match l, i with
  | [], _ => []
  | _ :: t, O => x :: t
  | a :: t, S j => a :: upd t j x
  end.

(* ghost bookkeeping of one push *)
Definition g_after (c : config) (x : qelem) : list qelem :=
  match stopper c with SIdle => after_stop c | _ => after_stop c ++ [x] end.

(* producer i makes its next call: send(what, lev) { return is_loggable(lev) ? enqueue(what, lev) : true; } *)
Definition step_prod (c : config) (i : nat) : config :=
  match nth_error (prods c) i with
  | None => c
  | Some ps =>
      match todo ps with
      | [] => c
      | (lev, txt) :: rest =>
          if enabled (mask c) lev then
            let x := {| q_src := Some (i, pidx ps); q_text := txt; q_val := valf c i (pidx ps) |} in
            let (q', r) := enqueue (queue c) x in
            {| mask := mask c; dirflag := dirflag c; valf := valf c; prods := upd (prods c) i {| todo := rest; pidx := S (pidx ps); rets := rets ps ++ [r] |};
               queue := q'; stopping := stopping c; cons := cons c; seqno := seqno c; oseqno := oseqno c; file := file c; obuf := obuf c;
               stopper := stopper c; pushed := pushed c ++ [x]; wrote := wrote c; dropped := dropped c;
               at_stop := at_stop c; after_stop := g_after c x |}
          else
            {| mask := mask c; dirflag := dirflag c; valf := valf c; prods := upd (prods c) i {| todo := rest; pidx := S (pidx ps); rets := rets ps ++ [true] |};
               queue := queue c; stopping := stopping c; cons := cons c; seqno := seqno c; oseqno := oseqno c; file := file c; obuf := obuf c;
               stopper := stopper c; pushed := pushed c; wrote := wrote c; dropped := dropped c;
               at_stop := at_stop c; after_stop := after_stop c |}
      end
  end.

Definition set_cons (c : config) (k : cpc) : config :=
  {| mask := mask c; dirflag := dirflag c; valf := valf c; prods := prods c; queue := queue c; stopping := stopping c; cons := k; seqno := seqno c; oseqno := oseqno c;
     file := file c; obuf := obuf c; stopper := stopper c; pushed := pushed c; wrote := wrote c; dropped := dropped c;
     at_stop := at_stop c; after_stop := after_stop c |}.

(* the consumer thread:
     for (;;) {
        const bool stopping(_stopping);   // sampled before the queue is polled        CSample
        if (!_msg_queue.try_pop(msg_ptr))                                             CPop s
        {
           if (stopping) break;    // queue drained       (the sample is thread-local: same step)
           hypersleep<h_microseconds>(200); continue;
        }
        if (msg_ptr->_str.empty()) break;                  (still CPop: thread-local)
        process_logline(msg_ptr);   // sequence field, [direction field,] text, endl                CWrite
     }                                                                                          *)
Definition step_cons (c : config) : config :=
  match cons c with
  | CSample => set_cons c (CPop (stopping c))
  | CPop s =>
      match queue c with
      | [] => if s then set_cons c CExit else set_cons c CSample
      | x :: q' =>
          match q_text x with
          | [] => {| mask := mask c; dirflag := dirflag c; valf := valf c; prods := prods c; queue := q'; stopping := stopping c; cons := CExit;
                     seqno := seqno c; oseqno := oseqno c; file := file c; obuf := obuf c; stopper := stopper c; pushed := pushed c; wrote := wrote c;
                     dropped := dropped c ++ [x]; at_stop := at_stop c; after_stop := after_stop c |}
          | _ :: _ => {| mask := mask c; dirflag := dirflag c; valf := valf c; prods := prods c; queue := q'; stopping := stopping c; cons := CWrite x;
                         seqno := seqno c; oseqno := oseqno c; file := file c; obuf := obuf c; stopper := stopper c; pushed := pushed c; wrote := wrote c;
                         dropped := dropped c; at_stop := at_stop c; after_stop := after_stop c |}
          end
      end
  | CWrite x =>
      (* case sequence: if (_flags & direction) fostr << (msg_ptr->_val ? ++_sequence : ++_osequence);
                        else fostr << ++_sequence;
         case direction (only with the flag): fostr << (msg_ptr->_val ? " in" : "out");   then the text *)
      let useseq := if dirflag c then negb (Z.eqb (q_val x) 0) else true in
      let n := if useseq then S (seqno c) else S (oseqno c) in
      {| mask := mask c; dirflag := dirflag c; valf := valf c; prods := prods c; queue := queue c;
         stopping := stopping c; cons := CSample;
         seqno := if useseq then S (seqno c) else seqno c;
         oseqno := if useseq then oseqno c else S (oseqno c);
         (* unbuffered path of process_logline (no "buffer", no "nolf" flag):
              get_stream() << ostr.str() << msg_ptr->_str;     the line goes into the stream's buffer
              get_stream() << endl;                             '\n' and FLUSH: the buffer goes to the file *)
         file := file c ++ (obuf c ++ [(n, rest (dirflag c) (q_val x) (q_text x))]); obuf := [];
         stopper := stopper c;
         pushed := pushed c; wrote := wrote c ++ [x]; dropped := dropped c;
         at_stop := at_stop c; after_stop := after_stop c |}
  | CExit => c
  end.

(* void stop() { _stopping.request_stop(); enqueue(std::string()); _thread.join(); } *)
Definition step_stop (c : config) : config :=
  match stopper c with
  | SIdle => {| mask := mask c; dirflag := dirflag c; valf := valf c; prods := prods c; queue := queue c; stopping := true; cons := cons c;
                seqno := seqno c; oseqno := oseqno c; file := file c; obuf := obuf c; stopper := SReq; pushed := pushed c; wrote := wrote c;
                dropped := dropped c; at_stop := pushed c; after_stop := [] |}
  | SReq => let x := {| q_src := None; q_text := []; q_val := 0%Z |} in     (* enqueue(std::string()): val defaults to 0 *)
            let (q', _) := enqueue (queue c) x in
            {| mask := mask c; dirflag := dirflag c; valf := valf c; prods := prods c; queue := q'; stopping := stopping c; cons := cons c;
               seqno := seqno c; oseqno := oseqno c; file := file c; obuf := obuf c; stopper := SPushed; pushed := pushed c ++ [x]; wrote := wrote c;
               dropped := dropped c; at_stop := at_stop c; after_stop := after_stop c ++ [x] |}
  | SPushed => match cons c with
               | CExit => {| mask := mask c; dirflag := dirflag c; valf := valf c; prods := prods c; queue := queue c; stopping := stopping c; cons := cons c;
                             seqno := seqno c; oseqno := oseqno c; file := file c; obuf := obuf c; stopper := SDone; pushed := pushed c; wrote := wrote c;
                             dropped := dropped c; at_stop := at_stop c; after_stop := after_stop c |}
               | _ => c                                   (* join blocks *)
               end
  | SDone => c
  end.

Definition step (c : config) (t : tid) : config :=
  match t with
  | P i => step_prod c i
  | Cons => step_cons c
  | Stop => step_stop c
  end.

Definition run (sched : list tid) (c : config) : config := fold_left step sched c.

(* what a run shows to the outside (Spec_C28.obs) *)
Definition observe (c : config) : obs :=
  {| o_rets := map rets (prods c); o_file := file c;
     o_stopped := match stopper c with SDone => true | _ => false end |}.

(* ---- schedules used by the correspondence check ------------------------------------------
   The harness lets all producers finish and then calls stop() (at once, after a delay, or
   after it has seen the file complete: with the repaired loop that makes no difference to what
   must be in the file).  The order in which the producers' lines entered the queue is taken
   from the observed file ([order]: producer numbers); what the file does not determine is
   appended: first a producer whose next line is an empty text (if the file stops short, that
   is what the logger thread met next), then producer by producer. *)

(* P i repeated until producer i has pushed one more line (calls at disabled levels push nothing) *)
Fixpoint until_push (m : Z) (i : nat) (p : prog) : list tid * prog :=
  match p with
  | [] => ([], [])
  | (lev, _) :: rest =>
      if enabled m lev then ([P i], rest)
      else let (s, r) := until_push m i rest in (P i :: s, r)
  end.

Fixpoint sched_pushes (m : Z) (order : list nat) (ps : list prog) : list tid * list prog :=
  match order with
  | [] => ([], ps)
  | i :: more =>
      match nth_error ps i with
      | None => sched_pushes m more ps
      | Some p => let (s, r) := until_push m i p in
                  let (s', ps') := sched_pushes m more (upd ps i r) in (s ++ s', ps')
      end
  end.

(* is the next line producer p would push an empty text? *)
Fixpoint next_is_marker (m : Z) (p : prog) : bool :=
  match p with
  | [] => false
  | (lev, t) :: rest => if enabled m lev then match t with [] => true | _ => false end
                        else next_is_marker m rest
  end.

Fixpoint first_marker (m : Z) (i : nat) (ps : list prog) : option nat :=
  match ps with
  | [] => None
  | p :: more => if next_is_marker m p then Some i else first_marker m (S i) more
  end.

Fixpoint sched_rest (i : nat) (ps : list prog) : list tid :=
  match ps with
  | [] => []
  | p :: more => repeat (P i) (length p) ++ sched_rest (S i) more
  end.

Definition total_calls (ps : list prog) : nat := fold_right (fun p n => (length p + n)%nat) O ps.

Definition sched_for (m : Z) (order : list nat) (ps : list prog) : list tid :=
  let (s1, ps1) := sched_pushes m order ps in
  let (s2, ps2) := match first_marker m O ps1 with
                   | Some i => sched_pushes m [i] ps1
                   | None => ([], ps1)
                   end in
  let producers := s1 ++ s2 ++ sched_rest O ps2 in
  producers ++ repeat Cons (3 * S (total_calls ps)) ++ [Stop; Cons; Cons; Cons; Stop; Cons; Cons; Cons; Cons; Stop].

Definition run_case (m : Z) (d : bool) (vf : valfn) (order : list nat) (ps : list prog) : obs :=
  observe (run (sched_for m order ps) (init m d vf ps)).
