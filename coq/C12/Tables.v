(* Models of the static metadata lookup tables (C12):
     GeneratedTable<Key,Val>::_find / find_ptr / at          include/fix8/f8types.hpp
     F8MetaCntx: _flu construction and find_be, the reverse name maps   include/fix8/message.hpp
     FieldTrait_Hash_Array and the hash-array overloads of presorted_set<unsigned short,
       FieldTrait, FieldTrait::Compare>::find                 include/fix8/traits.hpp
   A table is the list of its keys in array order (Pair::Less / FieldTrait::Compare read only the
   key; values are fetched by the index found).  std::lower_bound is the bisection model of
   C12/Bisect.v.  No proofs in this file.  Outer [None] = model error (out-of-bounds access,
   fuel, or construction failed). *)
From Coq Require Import Arith List Bool ZArith.
From F8 Require Import C12.Bisect.
Import ListNotations.

Section Generated.
  Context {K : Type}.
  Variable ltK : K -> K -> bool.     (* Pair::Less on keys: operator< (unsigned) or strcmp(..) < 0 *)

  (* const_iterator res(std::lower_bound(begin(), end(), (const Pair&)key, Pair::Less));
     return res != end() && !Pair::Less((const Pair&)key, *res) ? res : nullptr; *)
  Definition gt_find (keys : list K) (k : K) : option (option nat) :=
    match lower_bound ltK keys k with
    | None => None
    | Some r =>
      if r =? length keys then Some None
      else match nth_error keys r with
           | None => None
           | Some x => Some (if ltK k x then None else Some r)
           end
    end.

  (* find_ptr: res ? &res->_value : nullptr  -- the value of the entry found *)
  Definition gt_find_ptr {V : Type} (T : list (K * V)) (k : K) : option (option V) :=
    match gt_find (map fst T) k with
    | None => None
    | Some None => Some None
    | Some (Some r) => match nth_error T r with
                       | None => None
                       | Some p => Some (Some (snd p))
                       end
    end.

  (* at(idx): idx < _pairsz ? _pairs + idx : nullptr *)
  Definition gt_at (keys : list K) (idx : nat) : option nat :=
    if idx <? length keys then Some idx else None.
End Generated.

Local Open Scope Z_scope.

(* The content of an array cell after the loop
     for (offset = 0; offset < n; ++offset) arr[key(offset)] = offset;
   i.e. the last offset whose key is k, if any (the array is modelled by its content function). *)
Fixpoint last_write (keys : list Z) (k : Z) (i : nat) (acc : option nat) : option nat :=
  match keys with
  | [] => acc
  | x :: t => last_write t k (i + 1) (if x =? k then Some i else acc)
  end.

(* size of the direct-index array: key of the LAST entry + 1 (F8MetaCntx: _be.at(_be.size()-1)->_key + 1;
   FieldTrait_Hash_Array: (from + _els - 1)->_fnum + 1).  None: empty table (reads entry -1), or some key
   does not fit (the construction loop writes outside the array). *)
Definition direct_size (keys : list Z) : option Z :=
  match nth_error keys (length keys - 1) with
  | None => None
  | Some lastk =>
    let sz := lastk + 1 in
    if forallb (fun k => (0 <=? k) && (k <? sz)) keys then Some sz else None
  end.

(* F8MetaCntx ctor: if (_flu_sz == 1) throw; fill(_flu, nullptr); for offset: _flu[_be.at(offset)->_key] = &value;
   find_be(fnum): fnum < _flu_sz ? _flu[fnum] : nullptr     -- result: index of the entry *)
Definition find_be (keys : list Z) (fnum : Z) : option (option nat) :=
  match direct_size keys with
  | None => None
  | Some sz =>
    if sz =? 1 then None      (* the constructor throws: no context *)
    else Some (if fnum <? sz then last_write keys fnum 0 None else None)
  end.

(* FieldTrait_Hash_Array: fill(_arr, 0); for offset: _arr[from[offset]._fnum] = offset *)
Definition ftha_cell (keys : list Z) (k : Z) : nat :=
  match last_write keys k 0 None with Some j => j | None => 0%nat end.

(* presorted_set<...>::find(key) with _ftha (all four overloads have the same test):
     key < _ftha->_sz && (_arr + _ftha->_arr[key])->_fnum == key ? _arr + _ftha->_arr[key] : end() / 0
   [arr] = the set's own array (a copy of the table the hash array was built from) *)
Definition ftha_find (tabkeys : list Z) (arr : list Z) (k : Z) : option (option nat) :=
  match direct_size tabkeys with
  | None => None
  | Some sz =>
    if k <? sz then
      let j := ftha_cell tabkeys k in
      match nth_error arr j with
      | None => None
      | Some x => Some (if x =? k then Some j else None)
      end
    else Some None
  end.

(* Reverse name maps: std::map<const char*, const Entry*, strcmp-less>, filled by emplace in table
   order (the first entry with a name wins); reverse_find_be / reverse_find_fnum return nothing for an
   empty name ([check_empty]); reverse_find_bme has no such test.  Names are byte lists. *)
Fixpoint list_eqb (a b : list Z) : bool :=
  match a, b with
  | [], [] => true
  | x :: a', y :: b' => (x =? y) && list_eqb a' b'
  | _, _ => false
  end.

Fixpoint first_index (names : list (list Z)) (n : list Z) (i : nat) : option nat :=
  match names with
  | [] => None
  | x :: t => if list_eqb x n then Some i else first_index t n (i + 1)
  end.

Definition reverse_find (check_empty : bool) (names : list (list Z)) (n : list Z) : option nat :=
  if check_empty && (match n with [] => true | _ => false end) then None
  else first_index names n 0.
