(* Proofs about the presorted_set state machine (C12): for every history the model's answers are
   those of a sorted list of unique keys, no access leaves the allocated block, the size
   bookkeeping holds -- for sets built by the array constructor / the empty constructor with a
   positive reserve.  The defects (stale iterator after a reallocating insert, reserve 0, the
   hash-array constructor, the explicit constructor with a size) are exhibited as witnesses. *)
From Coq Require Import Arith List Bool Lia ZArith.
From F8 Require Import C12.Bisect C12.BisectProofs C12.Tables C12.Presorted C12.Spec_C12 C12.TablesProofs.
Import ListNotations.

(* ------------------------------------------------------------------ the loops read only their range *)
Section Bridge.
  Context {A : Type}.
  Variable lt : A -> A -> bool.

  Lemma lb_loop_app v : forall fuel (l rest : list A) first len,
    first + len <= length l -> lb_loop lt fuel (l ++ rest) v first len = lb_loop lt fuel l v first len.
  Proof.
    induction fuel; intros l rest first len Hb; cbn [lb_loop]; destruct (len =? 0) eqn:E0; auto.
    apply Nat.eqb_neq in E0. pose proof (div2_lt len E0).
    rewrite nth_error_app1 by lia. destruct (nth_error l (first + Nat.div2 len)); auto.
    destruct (lt a v); apply IHfuel; lia.
  Qed.

  Lemma ub_loop_app v : forall fuel (l rest : list A) first len,
    first + len <= length l -> ub_loop lt fuel (l ++ rest) v first len = ub_loop lt fuel l v first len.
  Proof.
    induction fuel; intros l rest first len Hb; cbn [ub_loop]; destruct (len =? 0) eqn:E0; auto.
    apply Nat.eqb_neq in E0. pose proof (div2_lt len E0).
    rewrite nth_error_app1 by lia. destruct (nth_error l (first + Nat.div2 len)); auto.
    destruct (lt v a); apply IHfuel; lia.
  Qed.

  Lemma er_loop_app v : forall fuel (l rest : list A) first len,
    first + len <= length l -> er_loop lt fuel (l ++ rest) v first len = er_loop lt fuel l v first len.
  Proof.
    induction fuel; intros l rest first len Hb; cbn [er_loop]; destruct (len =? 0) eqn:E0; auto.
    apply Nat.eqb_neq in E0. pose proof (div2_lt len E0).
    rewrite nth_error_app1 by lia. destruct (nth_error l (first + Nat.div2 len)); auto.
    destruct (lt a v); [apply IHfuel; lia|]. destruct (lt v a); [apply IHfuel; lia|].
    rewrite lb_loop_app, ub_loop_app by lia. reflexivity.
  Qed.
End Bridge.

Section BridgeMap.
  Context {A B : Type}.
  Variable f : A -> B.
  Variable lt : B -> B -> bool.
  Let ltA (a b : A) := lt (f a) (f b).

  Lemma lb_loop_map v : forall fuel (l : list A) first len,
    lb_loop ltA fuel l v first len = lb_loop lt fuel (map f l) (f v) first len.
  Proof.
    induction fuel; intros l first len; cbn [lb_loop]; destruct (len =? 0); auto.
    rewrite nth_error_map. destruct (nth_error l (first + Nat.div2 len)); cbn [option_map]; auto.
    change (ltA a v) with (lt (f a) (f v)). destruct (lt (f a) (f v)); apply IHfuel.
  Qed.

  Lemma ub_loop_map v : forall fuel (l : list A) first len,
    ub_loop ltA fuel l v first len = ub_loop lt fuel (map f l) (f v) first len.
  Proof.
    induction fuel; intros l first len; cbn [ub_loop]; destruct (len =? 0); auto.
    rewrite nth_error_map. destruct (nth_error l (first + Nat.div2 len)); cbn [option_map]; auto.
    change (ltA v a) with (lt (f v) (f a)). destruct (lt (f v) (f a)); apply IHfuel.
  Qed.

  Lemma er_loop_map v : forall fuel (l : list A) first len,
    er_loop ltA fuel l v first len = er_loop lt fuel (map f l) (f v) first len.
  Proof.
    induction fuel; intros l first len; cbn [er_loop]; destruct (len =? 0); auto.
    rewrite nth_error_map. destruct (nth_error l (first + Nat.div2 len)); cbn [option_map]; auto.
    change (ltA a v) with (lt (f a) (f v)). change (ltA v a) with (lt (f v) (f a)).
    destruct (lt (f a) (f v)); [apply IHfuel|].
    destruct (lt (f v) (f a)); [apply IHfuel|].
    rewrite lb_loop_map, ub_loop_map. reflexivity.
  Qed.
End BridgeMap.

(* ------------------------------------------------------------------ the sorted-list specification *)
Local Open Scope Z_scope.

Definition keys_sorted (L : list elem) : bool := sortedb Z.ltb (map fst L).
Definition abs (s : pset) : list elem := firstn (p_sz s) (p_arr s).

Lemma sl_count_lt_keys L k : sl_count_lt L k = count_lt Z.ltb (map fst L) k.
Proof.
  unfold sl_count_lt, count_lt. induction L as [|x t IH]; [reflexivity|].
  cbn [map filter]. destruct (fst x <? k); cbn [length]; rewrite IH; reflexivity.
Qed.

Lemma sl_count_le_length L k : (sl_count_lt L k <= length L)%nat.
Proof.
  unfold sl_count_lt. induction L as [|x t IH]; cbn [filter length]; [lia|].
  destruct (fst x <? k); cbn [length]; lia.
Qed.

Lemma sl_index_spec : forall L k i,
  match sl_index L k i with
  | Some m => (i <= m)%nat /\ nth_error (map fst L) (m - i) = Some k /\
              forall j, (j < m - i)%nat -> nth_error (map fst L) j <> Some k
  | None => ~ In k (map fst L)
  end.
Proof.
  induction L as [|x t IH]; intros k i; cbn [sl_index map]; [intros []|].
  destruct (fst x =? k) eqn:E.
  - apply Z.eqb_eq in E. rewrite Nat.sub_diag. split; [lia|]. split; [cbn; congruence|]. intros; lia.
  - apply Z.eqb_neq in E. specialize (IH k (i + 1)%nat). destruct (sl_index t k (i + 1)) as [m|].
    + destruct IH as [Hi [Hn Hf]]. split; [lia|].
      replace (m - i)%nat with (S (m - (i + 1)))%nat by lia. split; [exact Hn|].
      intros j Hj. destruct j; cbn [nth_error]; [congruence|]. apply Hf. lia.
    + intros [C|C]; [congruence | exact (IH C)].
Qed.

Lemma sl_mem_In L k : sl_mem L k = true <-> In k (map fst L).
Proof.
  unfold sl_mem. pose proof (sl_index_spec L k 0%nat) as H. destruct (sl_index L k 0) as [m|].
  - destruct H as [_ [Hm _]]. split; [|reflexivity]. intros _. eapply nth_error_In; eassumption.
  - split; [discriminate | intros C; exfalso; exact (H C)].
Qed.

Lemma sl_index_sorted L k :
  keys_sorted L = true ->
  sl_index L k 0 = if sl_mem L k then Some (sl_count_lt L k) else None.
Proof.
  intros Hs. unfold sl_mem. pose proof (sl_index_spec L k 0%nat) as H.
  destruct (sl_index L k 0) as [m|]; [|reflexivity].
  destruct H as [_ [Hm _]]. rewrite Nat.sub_0_r in Hm. f_equal. rewrite sl_count_lt_keys.
  symmetry. apply (o_count_lt_member Z.ltb Zltb_strict_total _ _ _ Hs Hm).
Qed.

Lemma sortedb_cons_intro k ks :
  sortedb Z.ltb ks = true -> (forall y, In y ks -> k < y) -> sortedb Z.ltb (k :: ks) = true.
Proof.
  intros Hs Hall. destruct ks as [|y t]; [reflexivity|]. cbn [sortedb].
  apply andb_true_iff. split; [|exact Hs]. apply Z.ltb_lt, Hall. left. reflexivity.
Qed.

Lemma sl_insert_keys_In e L y : In y (map fst (sl_insert e L)) <-> y = fst e \/ In y (map fst L).
Proof.
  induction L as [|x t IH]; cbn [sl_insert map In]; [intuition|].
  destruct (fst e <? fst x); cbn [map In]; [intuition|]. rewrite IH. intuition.
Qed.

Lemma sl_insert_sorted e L :
  keys_sorted L = true -> ~ In (fst e) (map fst L) -> keys_sorted (sl_insert e L) = true.
Proof.
  unfold keys_sorted. induction L as [|x t IH]; intros Hs Hn; [reflexivity|].
  cbn [sl_insert]. destruct (fst e <? fst x) eqn:E.
  - cbn [map]. cbn [map] in Hs. cbn [sortedb]. rewrite E. exact Hs.
  - cbn [map] in *. destruct (o_sortedb_cons Z.ltb Zltb_strict_total _ _ Hs) as [Hs' Hall].
    apply sortedb_cons_intro.
    + apply IH; [exact Hs'|]. intros C. apply Hn. right. exact C.
    + intros y Hy. apply sl_insert_keys_In in Hy. destruct Hy as [->|Hy].
      * apply Z.ltb_ge in E. assert (fst x <> fst e) by (intros C; apply Hn; left; exact C). lia.
      * apply Z.ltb_lt, Hall, Hy.
Qed.

(* inserting an absent key puts it at position (number of smaller keys) *)
Lemma sl_insert_split e L :
  keys_sorted L = true -> ~ In (fst e) (map fst L) ->
  sl_insert e L = firstn (sl_count_lt L (fst e)) L ++ e :: skipn (sl_count_lt L (fst e)) L.
Proof.
  unfold keys_sorted, sl_count_lt. induction L as [|x t IH]; intros Hs Hn; [reflexivity|].
  cbn [map] in Hs. destruct (o_sortedb_cons Z.ltb Zltb_strict_total _ _ Hs) as [Hs' Hall].
  cbn [sl_insert filter]. destruct (fst e <? fst x) eqn:E.
  - assert ((fst x <? fst e) = false) as -> by (apply Z.ltb_lt in E; apply Z.ltb_ge; lia).
    assert (filter (fun y : Z * Z => fst y <? fst e) t = []) as ->.
    { apply Z.ltb_lt in E. clear IH Hs Hs' Hn. induction t as [|y t IHt]; [reflexivity|].
      cbn [filter]. assert (fst x < fst y) by (apply Z.ltb_lt, Hall; left; reflexivity).
      assert ((fst y <? fst e) = false) as -> by (apply Z.ltb_ge; lia).
      apply IHt. intros z Hz. apply Hall. right. exact Hz. }
    reflexivity.
  - assert ((fst x <? fst e) = true) as ->.
    { apply Z.ltb_ge in E. apply Z.ltb_lt.
      assert (fst x <> fst e) by (intros C; apply Hn; left; exact C). lia. }
    cbn [length firstn skipn app]. f_equal. apply IH; [exact Hs'|].
    intros C. apply Hn. right. exact C.
Qed.

(* ------------------------------------------------------------------ memory lemmas *)
Lemma read_range_mid (P M Q : list elem) pos n :
  pos = length P -> n = length M -> read_range (P ++ M ++ Q) pos n = Some M.
Proof.
  intros -> ->. unfold read_range. rewrite !app_length.
  assert ((length P + length M <=? length P + (length M + length Q))%nat = true) as -> by (apply Nat.leb_le; lia).
  rewrite skipn_app, Nat.sub_diag, skipn_all, skipn_O. cbn [app].
  rewrite firstn_app, Nat.sub_diag, firstn_all, firstn_O, app_nil_r. reflexivity.
Qed.

Lemma write_at_mid (P M Q src : list elem) pos :
  pos = length P -> length src = length M -> write_at (P ++ M ++ Q) pos src = Some (P ++ src ++ Q).
Proof.
  intros -> Hl. unfold write_at. rewrite !app_length, Hl.
  assert ((length P + length M <=? length P + (length M + length Q))%nat = true) as -> by (apply Nat.leb_le; lia).
  rewrite firstn_app, Nat.sub_diag, firstn_all, firstn_O, app_nil_r.
  rewrite skipn_app. rewrite skipn_all2 by lia.
  replace (length P + length M - length P)%nat with (length M) by lia.
  rewrite skipn_app, skipn_all, Nat.sub_diag, skipn_O. reflexivity.
Qed.

(* memmove(where + 1, where, n); memcpy(where, what): open a gap and fill it *)
Lemma shift_insert (A1 A2 : list elem) (j what : elem) (rest' : list elem) :
  exists a1, write_at (A1 ++ A2 ++ j :: rest') (length A1 + 1) A2 = Some a1 /\
             write_at a1 (length A1) [what] = Some (A1 ++ what :: A2 ++ rest').
Proof.
  destruct A2 as [|x A2'].
  - exists (A1 ++ j :: rest'). split.
    + replace (A1 ++ [] ++ j :: rest') with ((A1 ++ [j]) ++ [] ++ rest') by (rewrite <- app_assoc; reflexivity).
      rewrite write_at_mid with (src := []); [|rewrite app_length; cbn; lia|reflexivity].
      rewrite <- app_assoc. reflexivity.
    + replace (A1 ++ j :: rest') with (A1 ++ [j] ++ rest') by reflexivity.
      rewrite write_at_mid; [reflexivity|reflexivity|reflexivity].
  - exists ((A1 ++ [x]) ++ (x :: A2') ++ rest'). split.
    + replace (A1 ++ (x :: A2') ++ j :: rest') with ((A1 ++ [x]) ++ (A2' ++ [j]) ++ rest').
      2:{ rewrite <- !app_assoc. cbn. reflexivity. }
      apply write_at_mid; [rewrite app_length; cbn; lia | rewrite app_length; cbn; lia].
    + replace ((A1 ++ [x]) ++ (x :: A2') ++ rest') with (A1 ++ [x] ++ ((x :: A2') ++ rest')).
      2:{ rewrite <- !app_assoc. reflexivity. }
      rewrite write_at_mid; [|reflexivity|reflexivity]. reflexivity.
Qed.

(* the three memcpy's into the fresh block *)
Lemma realloc_copy (A1 A2 : list elem) (what : elem) (extra : nat) :
  let n := (length A1 + 1 + length A2 + extra)%nat in
  exists n1 n2,
    (if (0 <? length A1)%nat then write_at (repeat junk n) 0 A1 else Some (repeat junk n)) = Some n1 /\
    write_at n1 (length A1) [what] = Some n2 /\
    write_at n2 (length A1 + 1) A2 = Some (A1 ++ what :: A2 ++ repeat junk extra).
Proof.
  intros n. exists (A1 ++ repeat junk (1 + length A2 + extra)), (A1 ++ [what] ++ repeat junk (length A2 + extra)).
  assert (repeat junk n = [] ++ repeat junk (length A1) ++ repeat junk (1 + length A2 + extra)) as Hn.
  { cbn [app]. rewrite <- repeat_app. f_equal. unfold n. lia. }
  split; [|split].
  - destruct (0 <? length A1)%nat eqn:E.
    + rewrite Hn. rewrite write_at_mid; [reflexivity | reflexivity | rewrite repeat_length; reflexivity].
    + apply Nat.ltb_ge in E. assert (A1 = []) by (destruct A1; [reflexivity | cbn in E; lia]). subst A1.
      cbn [app length]. f_equal.
  - replace (repeat junk (1 + length A2 + extra)) with ([junk] ++ repeat junk (length A2 + extra)) by reflexivity.
    apply write_at_mid; reflexivity.
  - replace (A1 ++ [what] ++ repeat junk (length A2 + extra))
      with ((A1 ++ [what]) ++ repeat junk (length A2) ++ repeat junk extra).
    2:{ rewrite <- repeat_app, <- app_assoc. reflexivity. }
    rewrite write_at_mid; [|rewrite app_length; cbn; lia | rewrite repeat_length; reflexivity].
    rewrite <- app_assoc. reflexivity.
Qed.

(* ------------------------------------------------------------------ the invariant *)
Definition ps_wf (s : pset) : Prop :=
  p_hash s = None /\ (p_sz s <= p_rsz s)%nat /\ (0 < p_rsz s)%nat /\
  (p_sz s = 0%nat \/ length (p_arr s) = p_rsz s) /\ keys_sorted (abs s) = true.

Lemma abs_length s : ps_wf s -> length (abs s) = p_sz s.
Proof.
  intros [_ [Hle [_ [[H0|Hl] _]]]]; unfold abs.
  - rewrite H0. reflexivity.
  - rewrite firstn_length. lia.
Qed.

Lemma arr_split s : p_arr s = abs s ++ skipn (p_sz s) (p_arr s).
Proof. unfold abs. symmetry. apply firstn_skipn. Qed.

Lemma equal_range_abs s what :
  ps_wf s ->
  equal_range_at elt (p_arr s) what 0 (p_sz s) = equal_range Z.ltb (map fst (abs s)) (fst what).
Proof.
  intros Hwf. pose proof (abs_length s Hwf) as Hl.
  unfold equal_range_at, equal_range, equal_range_at. rewrite map_length, Hl.
  rewrite (arr_split s) at 1. rewrite er_loop_app by lia.
  exact (er_loop_map fst Z.ltb what (p_sz s) (abs s) 0%nat (p_sz s)).
Qed.

Lemma find_answer_wf s what :
  ps_wf s ->
  ps_find_answer s what = Some (Some (sl_count_lt (abs s) (fst what)), sl_mem (abs s) (fst what)).
Proof.
  intros Hwf. pose proof Hwf as [Hh [_ [_ [_ Hs]]]]. unfold ps_find_answer. rewrite Hh.
  rewrite (equal_range_abs s what Hwf).
  destruct (o_equal_range_member Z.ltb Zltb_strict_total (map fst (abs s)) (fst what) Hs)
    as [a [b [Her [Ha [Hin Hnin]]]]].
  rewrite Her. rewrite sl_count_lt_keys, <- Ha. f_equal. f_equal.
  destruct (sl_mem (abs s) (fst what)) eqn:M.
  - apply sl_mem_In in M. destruct (Hin M) as [_ ->]. apply negb_true_iff, Nat.eqb_neq. lia.
  - assert (~ In (fst what) (map fst (abs s))) as Hn.
    { intros C. apply sl_mem_In in C. congruence. }
    rewrite (Hnin Hn). apply negb_false_iff, Nat.eqb_refl.
Qed.

Lemma find_wf s k : ps_wf s -> ps_find s k = Some (sl_index (abs s) k 0).
Proof.
  intros Hwf. pose proof Hwf as [Hh [_ [_ [_ Hs]]]]. unfold ps_find. rewrite Hh.
  rewrite (equal_range_abs s (key_elem k) Hwf). cbn [key_elem fst].
  destruct (o_equal_range_member Z.ltb Zltb_strict_total (map fst (abs s)) k Hs)
    as [a [b [Her [Ha [Hin Hnin]]]]].
  rewrite Her. rewrite (sl_index_sorted (abs s) k Hs). f_equal.
  destruct (sl_mem (abs s) k) eqn:M.
  - apply sl_mem_In in M. destruct (Hin M) as [_ ->].
    assert ((a =? a + 1)%nat = false) as -> by (apply Nat.eqb_neq; lia).
    rewrite sl_count_lt_keys, Ha. reflexivity.
  - assert (~ In k (map fst (abs s))) as Hn.
    { intros C. apply sl_mem_In in C. congruence. }
    rewrite (Hnin Hn), Nat.eqb_refl. reflexivity.
Qed.

Lemma at_wf s i : ps_wf s -> ps_at s i = Some (nth_error (abs s) i).
Proof.
  intros Hwf. pose proof (abs_length s Hwf) as Hl. unfold ps_at.
  destruct (i <? p_sz s)%nat eqn:E.
  - apply Nat.ltb_lt in E. rewrite (arr_split s), nth_error_app1 by lia.
    destruct (nth_error (abs s) i) eqn:En; [reflexivity|]. apply nth_error_None in En. lia.
  - apply Nat.ltb_ge in E. f_equal. symmetry. apply nth_error_None. lia.
Qed.

Lemma calc_reserve_pos' sz res : (1 <= calc_reserve sz res)%nat.
Proof.
  unfold calc_reserve. destruct (sz =? 0)%nat.
  - destruct (res =? 0)%nat eqn:E; [lia|]. apply Nat.eqb_neq in E. lia.
  - destruct (sz * res / 100 =? 0)%nat eqn:E2; [lia|]. apply Nat.eqb_neq in E2. lia.
Qed.

Lemma calc_reserve_pos sz res : sz <> 0%nat -> (1 <= calc_reserve sz res)%nat.
Proof. intros _. apply calc_reserve_pos'. Qed.

Lemma detach_wf s : p_hash s = None -> detach s = s.
Proof. destruct s as [a z r v h]. cbn. intros ->. reflexivity. Qed.

(* ---- insert ---- *)
Lemma insert_gen_wf fixed s e :
  ps_wf s ->
  exists s' r, ps_insert_gen fixed s e = Some (s', r) /\ ps_wf s' /\ p_reserve s' = p_reserve s /\
    (if sl_mem (abs s) (fst e)
     then s' = s /\ r = RInsert false None false
     else abs s' = sl_insert e (abs s) /\ p_sz s' = (p_sz s + 1)%nat /\
          exists stale, r = RInsert true (Some (sl_count_lt (abs s) (fst e))) stale /\
                        (stale = true <-> (fixed = false /\ p_sz s <> 0%nat /\ p_sz s = p_rsz s))).
Proof.
  intros Hwf. pose proof Hwf as [Hh [Hle [Hpos [Hlen Hs]]]].
  pose proof (abs_length s Hwf) as Hl. unfold ps_insert_gen.
  destruct (p_sz s =? 0)%nat eqn:E0.
  - (* first element: a fresh block of _rsz slots *)
    apply Nat.eqb_eq in E0. rewrite Hh.
    assert (abs s = []) as Habs by (unfold abs; rewrite E0; reflexivity).
    rewrite Habs. cbn [sl_mem sl_index sl_insert sl_count_lt filter length].
    assert (exists m, p_rsz s = S m) as [m Hm] by (exists (p_rsz s - 1)%nat; lia).
    rewrite Hm. cbn [repeat].
    replace (junk :: repeat junk m) with ([] ++ [junk] ++ repeat junk m) by reflexivity.
    rewrite write_at_mid; [|reflexivity|reflexivity]. cbn [app].
    eexists _, _. split; [reflexivity|]. split.
    + unfold ps_wf, upd, abs; cbn. repeat split; try lia; try assumption.
      right. rewrite repeat_length. reflexivity.
    + split; [reflexivity|]. split; [reflexivity|]. split; [cbn; lia|].
      exists false. split; [reflexivity|]. split; [discriminate | intros [_ [C _]]; congruence].
  - apply Nat.eqb_neq in E0. rewrite (find_answer_wf s e Hwf).
    destruct (sl_mem (abs s) (fst e)) eqn:M.
    + eexists _, _. split; [reflexivity|]. split; [exact Hwf|]. split; [reflexivity|]. split; reflexivity.
    + rewrite Hh.
      assert (~ In (fst e) (map fst (abs s))) as Hn.
      { intros C. apply sl_mem_In in C. congruence. }
      set (c := sl_count_lt (abs s) (fst e)).
      pose proof (sl_count_le_length (abs s) (fst e)) as Hc. fold c in Hc. rewrite Hl in Hc.
      set (A1 := firstn c (abs s)). set (A2 := skipn c (abs s)).
      assert (abs s = A1 ++ A2) as HA by (symmetry; apply firstn_skipn).
      assert (length A1 = c) as HA1 by (unfold A1; rewrite firstn_length; lia).
      assert (length A2 = (p_sz s - c)%nat) as HA2 by (unfold A2; rewrite skipn_length; lia).
      assert (length (p_arr s) = p_rsz s) as Hcap by (destruct Hlen; [congruence | assumption]).
      pose proof (sl_insert_split e (abs s) Hs Hn) as Hsplit. fold c A1 A2 in Hsplit.
      pose proof (sl_insert_sorted e (abs s) Hs Hn) as Hsorted.
      destruct (p_sz s <? p_rsz s)%nat eqn:Efull.
      * (* room left: shift the tail by one slot *)
        apply Nat.ltb_lt in Efull.
        set (rest := skipn (p_sz s) (p_arr s)).
        assert (length rest = (p_rsz s - p_sz s)%nat) as Hrest by (unfold rest; rewrite skipn_length; lia).
        destruct rest as [|j rest'] eqn:Er; [cbn in Hrest; lia|].
        assert (p_arr s = A1 ++ A2 ++ j :: rest') as Harr.
        { rewrite (arr_split s). fold rest. rewrite Er, HA, <- app_assoc. reflexivity. }
        rewrite Harr.
        rewrite (read_range_mid A1 A2 (j :: rest')) by lia.
        destruct (shift_insert A1 A2 j e rest') as [a1 [W1 W2]].
        rewrite HA1 in W1, W2. rewrite W1, W2.
        eexists _, _. split; [reflexivity|].
        assert (firstn (p_sz s + 1) (A1 ++ e :: A2 ++ rest') = A1 ++ e :: A2) as Hfirst.
        { replace (A1 ++ e :: A2 ++ rest') with ((A1 ++ e :: A2) ++ rest') by (rewrite <- app_assoc; reflexivity).
          rewrite firstn_app. replace (p_sz s + 1 - length (A1 ++ e :: A2))%nat with 0%nat
            by (rewrite app_length; cbn; lia).
          rewrite firstn_O, app_nil_r. apply firstn_all2. rewrite app_length. cbn. lia. }
        split.
        -- unfold ps_wf, upd, abs; cbn [p_hash p_sz p_rsz p_arr]. rewrite Hfirst, <- Hsplit.
           repeat split; try lia; try assumption. right.
           rewrite !app_length. cbn [length]. rewrite app_length.
           rewrite Harr in Hcap. rewrite !app_length in Hcap. cbn [length] in Hcap. lia.
        -- split; [reflexivity|]. split; [|split; [reflexivity|]].
           ++ unfold abs, upd; cbn [p_sz p_arr]. rewrite Hfirst. symmetry. exact Hsplit.
           ++ exists false. split; [reflexivity|]. split; [discriminate|]. intros [_ [_ C]]. lia.
      * (* full: a new block of _sz + calc_reserve(_sz, _reserve) slots *)
        apply Nat.ltb_ge in Efull. assert (p_sz s = p_rsz s) as Hfull by lia.
        pose proof (calc_reserve_pos (p_sz s) (p_reserve s) E0) as Hcr.
        set (cr := calc_reserve (p_sz s) (p_reserve s)) in *.
        assert (p_arr s = A1 ++ A2 ++ []) as Harr.
        { rewrite (arr_split s). rewrite skipn_all2 by lia. rewrite HA, app_nil_r, app_nil_r. reflexivity. }
        destruct (realloc_copy A1 A2 e (cr - 1)) as [n1 [n2 [C1 [C2 C3]]]].
        replace (length A1 + 1 + length A2 + (cr - 1))%nat with (p_sz s + cr)%nat in C1 by lia.
        rewrite HA1 in C1, C2, C3.
        assert (read_range (p_arr s) 0 c = Some A1) as R1.
        { rewrite Harr. replace (A1 ++ A2 ++ []) with ([] ++ A1 ++ (A2 ++ [])) by reflexivity.
          apply read_range_mid; [reflexivity | lia]. }
        assert (read_range (p_arr s) c (p_sz s - c) = Some A2) as R2.
        { rewrite Harr. apply read_range_mid; lia. }
        rewrite R1, R2.
        assert ((if (0 <? c)%nat then write_at (repeat junk (p_sz s + cr)) 0 A1 else Some (repeat junk (p_sz s + cr))) = Some n1) as C1'.
        { exact C1. }
        rewrite C1', C2, C3.
        eexists _, _. split; [reflexivity|].
        assert (firstn (p_sz s + 1) (A1 ++ e :: A2 ++ repeat junk (cr - 1)) = A1 ++ e :: A2) as Hfirst.
        { replace (A1 ++ e :: A2 ++ repeat junk (cr - 1)) with ((A1 ++ e :: A2) ++ repeat junk (cr - 1))
            by (rewrite <- app_assoc; reflexivity).
          rewrite firstn_app. replace (p_sz s + 1 - length (A1 ++ e :: A2))%nat with 0%nat
            by (rewrite app_length; cbn; lia).
          rewrite firstn_O, app_nil_r. apply firstn_all2. rewrite app_length. cbn. lia. }
        split.
        -- unfold ps_wf, upd, abs; cbn [p_hash p_sz p_rsz p_arr]. rewrite Hfirst, <- Hsplit.
           repeat split; try lia; try assumption. right.
           rewrite !app_length. cbn [length]. rewrite app_length, repeat_length. lia.
        -- split; [reflexivity|]. split; [|split; [reflexivity|]].
           ++ unfold abs, upd; cbn [p_sz p_arr]. rewrite Hfirst. symmetry. exact Hsplit.
           ++ exists (negb fixed). split; [reflexivity|]. split.
              ** intros C. apply negb_true_iff in C. repeat split; assumption.
              ** intros [-> _]. reflexivity.
Qed.

(* the current code (5f81ca8): the returned position is always that of the inserted element *)
Lemma insert_wf s e :
  ps_wf s ->
  exists s' r, ps_insert s e = Some (s', r) /\ ps_wf s' /\ p_reserve s' = p_reserve s /\
    (if sl_mem (abs s) (fst e)
     then s' = s /\ r = RInsert false None false
     else abs s' = sl_insert e (abs s) /\ p_sz s' = (p_sz s + 1)%nat /\
          r = RInsert true (Some (sl_count_lt (abs s) (fst e))) false).
Proof.
  intros Hwf. destruct (insert_gen_wf true s e Hwf) as [s' [r [Hi [Hwf' [Hres H]]]]].
  exists s', r. split; [unfold ps_insert; rewrite (detach_wf s (proj1 Hwf)); exact Hi|].
  split; [exact Hwf'|]. split; [exact Hres|].
  destruct (sl_mem (abs s) (fst e)); [exact H|].
  destruct H as [Habs [Hsz [stale [Hr Hiff]]]]. split; [exact Habs|]. split; [exact Hsz|].
  destruct stale; [|exact Hr]. destruct (proj1 Hiff eq_refl) as [C _]. discriminate.
Qed.

(* the position returned designates the inserted element in the new state *)
Lemma insert_position s e s' pos :
  ps_wf s -> ps_insert s e = Some (s', RInsert true pos false) ->
  exists i, pos = Some i /\ nth_error (abs s') i = Some e /\ (i < p_sz s')%nat.
Proof.
  intros Hwf Hi. destruct (insert_wf s e Hwf) as [s1 [r [Hi' [Hwf1 [_ H]]]]].
  rewrite Hi in Hi'. inversion Hi'; subst s1 r. clear Hi'.
  destruct (sl_mem (abs s) (fst e)) eqn:M; [destruct H as [_ C]; discriminate|].
  destruct H as [Habs [Hsz Hr]]. inversion Hr; subst pos.
  assert (~ In (fst e) (map fst (abs s))) as Hn by (intros C; apply sl_mem_In in C; congruence).
  destruct Hwf as [_ [_ [_ [_ Hs]]]].
  exists (sl_count_lt (abs s) (fst e)). split; [reflexivity|].
  pose proof (sl_count_le_length (abs s) (fst e)) as Hc.
  rewrite Habs, (sl_insert_split e (abs s) Hs Hn). split.
  - rewrite nth_error_app2 by (rewrite firstn_length; lia).
    rewrite firstn_length, Nat.min_l by lia. rewrite Nat.sub_diag. reflexivity.
  - rewrite <- (abs_length s' Hwf1), Habs, (sl_insert_split e (abs s) Hs Hn).
    rewrite app_length, firstn_length. cbn [length]. lia.
Qed.

Lemma insert_range_wf : forall es s,
  ps_wf s ->
  exists s', ps_insert_range s es = Some s' /\ ps_wf s' /\ p_reserve s' = p_reserve s /\
             abs s' = sl_insert_range (abs s) es.
Proof.
  induction es as [|e t IH]; intros s Hwf; cbn [ps_insert_range sl_insert_range].
  - exists s. split; [reflexivity|]. split; [exact Hwf|]. split; reflexivity.
  - destruct (insert_wf s e Hwf) as [s1 [r [Hi [Hwf1 [Hres H]]]]]. rewrite Hi.
    destruct (sl_mem (abs s) (fst e)).
    + destruct H as [-> ->]. exists s. split; [reflexivity|]. split; [exact Hwf|]. split; reflexivity.
    + destruct H as [Habs [_ ->]].
      destruct (IH s1 Hwf1) as [s' [Hr [Hwf' [Hres' Habs']]]].
      exists s'. split; [exact Hr|]. split; [exact Hwf'|]. split; [congruence|].
      rewrite Habs', Habs. reflexivity.
Qed.


Theorem ps_step_refines s o :
  ps_wf s ->
  exists s' r, ps_step s o = Some (s', r) /\ ps_wf s' /\ p_reserve s' = p_reserve s /\
               spec_step (abs s) o = (abs s', r).
Proof.
  intros Hwf. destruct o as [k|k|i|e|es|]; cbn [ps_step spec_step].
  - rewrite (find_wf s k Hwf). eexists _, _. split; [reflexivity|]. split; [exact Hwf|]. split; reflexivity.
  - rewrite (find_answer_wf s (key_elem k) Hwf). cbn [key_elem fst].
    eexists _, _. split; [reflexivity|]. split; [exact Hwf|]. split; reflexivity.
  - rewrite (at_wf s i Hwf). eexists _, _. split; [reflexivity|]. split; [exact Hwf|]. split; reflexivity.
  - destruct (insert_wf s e Hwf) as [s1 [r [Hi [Hwf1 [Hres H]]]]]. rewrite Hi.
    exists s1, r. split; [reflexivity|]. split; [exact Hwf1|]. split; [exact Hres|].
    destruct (sl_mem (abs s) (fst e)).
    + destruct H as [-> ->]. reflexivity.
    + destruct H as [Habs [_ ->]]. rewrite Habs. reflexivity.
  - destruct (insert_range_wf es s Hwf) as [s' [Hr [Hwf' [Hres Habs]]]]. rewrite Hr.
    exists s', RRange. split; [reflexivity|]. split; [exact Hwf'|]. split; [exact Hres|]. rewrite Habs. reflexivity.
  - eexists _, _. split; [reflexivity|]. destruct Hwf as [Hh [Hle [Hpos [Hlen Hs]]]]. split.
    + unfold ps_wf, upd, abs; cbn. repeat split; try lia; try assumption.
    + split; reflexivity.
Qed.

(* the main refinement theorem: any history *)
Theorem ps_run_refines : forall ops s,
  ps_wf s ->
  exists s' rs, ps_run s ops = Some (s', rs) /\ ps_wf s' /\
    map fst rs = spec_run (abs s) ops /\
    Forall (fun x => (snd (fst x) <= snd x)%nat) rs.
Proof.
  induction ops as [|o t IH]; intros s Hwf; cbn [ps_run spec_run].
  - exists s, []. split; [reflexivity|]. split; [exact Hwf|]. split; [reflexivity | constructor].
  - destruct (ps_step_refines s o Hwf) as [s1 [r [Hstep [Hwf1 [_ Hspec]]]]]. rewrite Hstep.
    destruct (IH s1 Hwf1) as [s' [rs [Hrun [Hwf' [Hmap Hall]]]]]. rewrite Hrun.
    eexists _, _. split; [reflexivity|]. split; [exact Hwf'|]. rewrite Hspec. split.
    + cbn [map fst snd]. rewrite Hmap. f_equal. f_equal. symmetry. apply abs_length. exact Hwf1.
    + constructor; [|exact Hall]. cbn. destruct Hwf1 as [_ [Hle _]]. exact Hle.
Qed.

(* ---- constructors establish the invariant (any reserve, 0 included) ---- *)
Lemma init_array_wf tab reserve :
  keys_sorted tab = true -> ps_wf (ps_init_array tab reserve) /\ abs (ps_init_array tab reserve) = tab.
Proof.
  intros Hs.
  assert (abs (ps_init_array tab reserve) = tab) as Habs.
  { unfold abs, ps_init_array; cbn [p_sz p_arr]. rewrite firstn_app, Nat.sub_diag, firstn_all, firstn_O, app_nil_r. reflexivity. }
  split; [|exact Habs]. unfold ps_wf. rewrite Habs. unfold ps_init_array; cbn [p_hash p_sz p_rsz p_arr].
  pose proof (calc_reserve_pos' (length tab) reserve).
  repeat split; try lia; try assumption.
  right. rewrite app_length, repeat_length. lia.
Qed.

Lemma init_explicit_wf sz reserve : ps_wf (ps_init_explicit sz reserve) /\ abs (ps_init_explicit sz reserve) = [].
Proof.
  split; [|reflexivity]. unfold ps_wf, ps_init_explicit, abs; cbn [p_hash p_sz p_rsz p_arr firstn].
  pose proof (calc_reserve_pos' sz reserve). repeat split; try lia.
Qed.

Theorem presorted_refines_lemma tab reserve ops :
  keys_sorted tab = true ->
  exists s' rs, ps_run (ps_init_array tab reserve) ops = Some (s', rs) /\
    map fst rs = spec_run tab ops /\
    Forall (fun x => (snd (fst x) <= snd x)%nat) rs.
Proof.
  intros Hs. destruct (init_array_wf tab reserve Hs) as [Hwf Habs].
  destruct (ps_run_refines ops _ Hwf) as [s' [rs [Hrun [_ [Hmap Hall]]]]].
  exists s', rs. split; [exact Hrun|]. rewrite Habs in Hmap. split; assumption.
Qed.

Theorem presorted_explicit_refines_lemma sz reserve ops :
  exists s' rs, ps_run (ps_init_explicit sz reserve) ops = Some (s', rs) /\
    map fst rs = spec_run [] ops /\
    Forall (fun x => (snd (fst x) <= snd x)%nat) rs.
Proof.
  destruct (init_explicit_wf sz reserve) as [Hwf Habs].
  destruct (ps_run_refines ops _ Hwf) as [s' [rs [Hrun [_ [Hmap Hall]]]]].
  exists s', rs. split; [exact Hrun|]. rewrite Habs in Hmap. split; assumption.
Qed.

(* ------------------------------------------------------------------ sets built from a hash array *)
(* The hash array indexes the initial layout; it is consulted by find until the first insert detaches
   it.  Constructor precondition: the table is non-empty and strictly sorted by (non-negative) key --
   what the generated trait tables satisfy (evaluated on every dumped table). *)
Inductive hmode := HDetached | HIntact | HCleared.

Definition hash_intact (s : pset) : Prop :=
  exists tab extra, p_hash s = Some (map fst tab) /\ p_arr s = tab ++ extra /\ p_sz s = length tab /\
    length (p_arr s) = p_rsz s /\ (p_sz s < p_rsz s)%nat /\
    keys_sorted tab = true /\ nonneg_keys (map fst tab) = true /\ tab <> [].

Definition inv (s : pset) (m : hmode) : Prop :=
  match m with
  | HDetached => ps_wf s
  | HIntact => hash_intact s
  | HCleared => p_sz s = 0%nat /\ (0 < p_rsz s)%nat
  end.

(* the histories for which a hash-built set answers like the sorted list: while the hash array is
   attached, find(key, answer) only for keys that are present, and no lookup between a clear() and
   the next insert.  (The code still gets the excluded cases wrong, see the _refuted witnesses.) *)
Fixpoint hist_ok (m : hmode) (L : list elem) (ops : list op) : bool :=
  match ops with
  | [] => true
  | o :: t =>
    match m with
    | HDetached => true
    | HIntact =>
      match o with
      | OFind _ | OAt _ => hist_ok m L t
      | OFindA k => sl_mem L k && hist_ok m L t
      | OInsert _ => true
      | OInsertRange [] => hist_ok m L t
      | OInsertRange (_ :: _) => true
      | OClear => hist_ok HCleared [] t
      end
    | HCleared =>
      match o with
      | OAt _ | OClear | OInsertRange [] => hist_ok HCleared [] t
      | OInsert _ | OInsertRange (_ :: _) => true
      | OFind _ | OFindA _ => false
      end
    end
  end.

Lemma ftha_find_app keys extra k :
  keys <> [] -> ftha_find keys (keys ++ extra) k = ftha_find keys keys k.
Proof.
  intros Hne. unfold ftha_find. destruct (direct_size keys); [|reflexivity].
  destruct (k <? z); [|reflexivity].
  assert (ftha_cell keys k < length keys)%nat as Hj.
  { unfold ftha_cell. destruct (last_write keys k 0 None) as [j|] eqn:E.
    - apply last_write_sound in E. destruct E as [C|[_ E]]; [discriminate|].
      rewrite Nat.sub_0_r in E. apply nth_error_Some. congruence.
    - destruct keys; [congruence | cbn; lia]. }
  rewrite nth_error_app1 by exact Hj. reflexivity.
Qed.

Lemma exact_index_sl L k r :
  (forall i, r = Some i <-> nth_error (map fst L) i = Some k) -> sl_index L k 0 = r.
Proof.
  intros Hiff. pose proof (sl_index_spec L k 0%nat) as H. destruct (sl_index L k 0) as [m|].
  - destruct H as [_ [Hm _]]. rewrite Nat.sub_0_r in Hm. symmetry. apply Hiff. exact Hm.
  - destruct r as [i|]; [|reflexivity]. exfalso. apply H.
    eapply nth_error_In. apply Hiff. reflexivity.
Qed.

Lemma abs_intact s : hash_intact s -> exists tab, abs s = tab /\ p_hash s = Some (map fst tab) /\
  keys_sorted tab = true /\ nonneg_keys (map fst tab) = true /\ tab <> [] /\ length tab = p_sz s /\
  exists extra, p_arr s = tab ++ extra.
Proof.
  intros [tab [extra [Hh [Ha [Hz [Hl [Hlt [Hs [Hn Hne]]]]]]]]]. exists tab. split.
  - unfold abs. rewrite Ha, Hz, firstn_app, Nat.sub_diag, firstn_all, firstn_O, app_nil_r. reflexivity.
  - repeat split; try assumption; [symmetry; assumption | exists extra; assumption].
Qed.

Lemma hash_lookup_intact s k :
  hash_intact s ->
  exists r, ftha_find (map fst (abs s)) (map fst (p_arr s)) k = Some r /\
            (forall i, r = Some i <-> nth_error (map fst (abs s)) i = Some k) /\
            p_hash s = Some (map fst (abs s)).
Proof.
  intros Hi. destruct (abs_intact s Hi) as [tab [Habs [Hh [Hs [Hn [Hne [Hl [extra Ha]]]]]]]].
  rewrite Habs, Ha, map_app.
  assert (map fst tab <> []) as Hne' by (destruct tab; [congruence | discriminate]).
  rewrite ftha_find_app by exact Hne'.
  destruct (ftha_find_exact (map fst tab) k Hs Hn Hne') as [r [Hr Hiff]].
  exists r. split; [exact Hr|]. split; [exact Hiff | exact Hh].
Qed.

Lemma find_intact s k : hash_intact s -> ps_find s k = Some (sl_index (abs s) k 0).
Proof.
  intros Hi. destruct (hash_lookup_intact s k Hi) as [r [Hr [Hiff Hh]]].
  unfold ps_find. rewrite Hh, Hr. rewrite (exact_index_sl (abs s) k r Hiff).
  destruct r as [j|]; [|reflexivity].
  destruct (abs_intact s Hi) as [tab [Habs [_ [_ [_ [_ [Hl _]]]]]]].
  assert (j < p_sz s)%nat.
  { rewrite <- Hl, <- Habs, <- (map_length fst). apply nth_error_Some.
    rewrite (proj1 (Hiff j) eq_refl). discriminate. }
  assert ((j =? p_sz s)%nat = false) as -> by (apply Nat.eqb_neq; lia). reflexivity.
Qed.

Lemma find_answer_intact s k :
  hash_intact s -> sl_mem (abs s) k = true ->
  ps_find_answer s (key_elem k) = Some (Some (sl_count_lt (abs s) k), true).
Proof.
  intros Hi Hm. destruct (hash_lookup_intact s k Hi) as [r [Hr [Hiff Hh]]].
  unfold ps_find_answer. cbn [key_elem fst]. rewrite Hh, Hr.
  destruct (abs_intact s Hi) as [tab [Habs [_ [Hs _]]]]. rewrite <- Habs in Hs.
  pose proof (exact_index_sl (abs s) k r Hiff) as Hsl.
  rewrite (sl_index_sorted (abs s) k Hs), Hm in Hsl. subst r. reflexivity.
Qed.

Lemma at_len s i : length (abs s) = p_sz s -> ps_at s i = Some (nth_error (abs s) i).
Proof.
  intros Hl. unfold ps_at. destruct (i <? p_sz s)%nat eqn:E.
  - apply Nat.ltb_lt in E. rewrite (arr_split s), nth_error_app1 by lia.
    destruct (nth_error (abs s) i) eqn:En; [reflexivity|]. apply nth_error_None in En. lia.
  - apply Nat.ltb_ge in E. f_equal. symmetry. apply nth_error_None. lia.
Qed.

Lemma detach_intact s : hash_intact s -> ps_wf (detach s) /\ abs (detach s) = abs s.
Proof.
  intros Hi. destruct (abs_intact s Hi) as [tab [Habs [_ [Hs _]]]].
  destruct Hi as [tab' [extra [Hh [Ha [Hz [Hl [Hlt _]]]]]]].
  split; [|reflexivity]. unfold ps_wf, detach, abs; cbn [p_hash p_sz p_rsz p_arr].
  fold (abs s). rewrite Habs. repeat split; try lia; try assumption.
Qed.

Lemma detach_cleared s : p_sz s = 0%nat -> (0 < p_rsz s)%nat -> ps_wf (detach s) /\ abs (detach s) = [].
Proof.
  intros Hz Hr. unfold ps_wf, detach, abs; cbn [p_hash p_sz p_rsz p_arr]. rewrite Hz. cbn [firstn].
  repeat split; try lia.
Qed.

Lemma ps_insert_detach s e : ps_insert s e = ps_insert (detach s) e.
Proof. reflexivity. Qed.

Lemma ps_insert_range_detach s e t : ps_insert_range s (e :: t) = ps_insert_range (detach s) (e :: t).
Proof. reflexivity. Qed.

(* one step followed by a refined rest *)
Lemma run_cons s o t s1 r L1 :
  ps_step s o = Some (s1, r) -> spec_step (abs s) o = (L1, r) ->
  length L1 = p_sz s1 -> (p_sz s1 <= p_rsz s1)%nat ->
  (exists s' rs, ps_run s1 t = Some (s', rs) /\ map fst rs = spec_run L1 t /\
                 Forall (fun x => (snd (fst x) <= snd x)%nat) rs) ->
  exists s' rs, ps_run s (o :: t) = Some (s', rs) /\ map fst rs = spec_run (abs s) (o :: t) /\
                Forall (fun x => (snd (fst x) <= snd x)%nat) rs.
Proof.
  intros Hstep Hspec Hlen Hle [s' [rs [Hrun [Hmap Hall]]]].
  cbn [ps_run spec_run]. rewrite Hstep, Hrun, Hspec.
  eexists _, _. split; [reflexivity|]. split.
  - cbn [map fst snd]. rewrite Hmap, Hlen. reflexivity.
  - constructor; [cbn; exact Hle | exact Hall].
Qed.

Lemma run_detached ops s :
  ps_wf s ->
  exists s' rs, ps_run s ops = Some (s', rs) /\ map fst rs = spec_run (abs s) ops /\
                Forall (fun x => (snd (fst x) <= snd x)%nat) rs.
Proof.
  intros Hwf. destruct (ps_run_refines ops s Hwf) as [s' [rs [H1 [_ [H2 H3]]]]].
  exists s', rs. repeat split; assumption.
Qed.

(* a step that detaches the hash array (insert / non-empty range insert) and everything after it *)
Lemma run_after_detach s o t :
  ps_wf (detach s) -> abs (detach s) = abs s ->
  ps_step s o = ps_step (detach s) o ->
  exists s' rs, ps_run s (o :: t) = Some (s', rs) /\ map fst rs = spec_run (abs s) (o :: t) /\
                Forall (fun x => (snd (fst x) <= snd x)%nat) rs.
Proof.
  intros Hwf Habs Hstep. destruct (run_detached (o :: t) (detach s) Hwf) as [s' [rs [Hrun [Hmap Hall]]]].
  exists s', rs. split; [|split; [rewrite <- Habs; exact Hmap | exact Hall]].
  cbn [ps_run] in *. rewrite Hstep. exact Hrun.
Qed.

Theorem ps_run_refines_gen : forall ops s m,
  inv s m -> hist_ok m (abs s) ops = true ->
  exists s' rs, ps_run s ops = Some (s', rs) /\ map fst rs = spec_run (abs s) ops /\
                Forall (fun x => (snd (fst x) <= snd x)%nat) rs.
Proof.
  induction ops as [|o t IH]; intros s m Hinv Hok.
  - exists s, []. split; [reflexivity|]. split; [reflexivity | constructor].
  - destruct m; cbn [inv] in Hinv.
    + apply run_detached. exact Hinv.
    + (* hash array attached, nothing inserted or cleared yet *)
      destruct (abs_intact s Hinv) as [tab [Habs [_ [_ [_ [_ [Hl _]]]]]]].
      assert (length (abs s) = p_sz s) as Hlen by (rewrite Habs; exact Hl).
      assert (p_sz s < p_rsz s)%nat as Hlt.
      { destruct Hinv as [? [? [_ [_ [_ [_ [H _]]]]]]]. exact H. }
      assert (p_sz s <= p_rsz s)%nat as Hle by lia.
      destruct (detach_intact s Hinv) as [Hwfd Habsd].
      destruct o as [k|k|i|e|es|]; cbn [hist_ok] in Hok.
      * eapply (run_cons s (OFind k) t s); try eassumption.
        -- cbn [ps_step]. rewrite (find_intact s k Hinv). reflexivity.
        -- reflexivity.
        -- apply (IH s HIntact Hinv Hok).
      * apply andb_true_iff in Hok. destruct Hok as [Hm Hok].
        eapply (run_cons s (OFindA k) t s); try eassumption.
        -- cbn [ps_step]. rewrite (find_answer_intact s k Hinv Hm). reflexivity.
        -- cbn [spec_step]. rewrite Hm. reflexivity.
        -- apply (IH s HIntact Hinv Hok).
      * eapply (run_cons s (OAt i) t s); try eassumption.
        -- cbn [ps_step]. rewrite (at_len s i Hlen). reflexivity.
        -- reflexivity.
        -- apply (IH s HIntact Hinv Hok).
      * apply run_after_detach; [assumption | assumption | reflexivity].
      * destruct es as [|e es].
        -- eapply (run_cons s (OInsertRange []) t s); try eassumption; try reflexivity.
           apply (IH s HIntact Hinv Hok).
        -- apply run_after_detach; [assumption | assumption | reflexivity].
      * eapply (run_cons s OClear t (upd s (p_arr s) 0 (p_rsz s)) RClear []); try reflexivity.
        -- cbn. lia.
        -- apply (IH (upd s (p_arr s) 0 (p_rsz s)) HCleared).
           ++ cbn. split; [reflexivity | lia].
           ++ exact Hok.
    + (* cleared while the hash array was attached *)
      destruct Hinv as [Hz Hr].
      assert (abs s = []) as Habs by (unfold abs; rewrite Hz; reflexivity).
      destruct (detach_cleared s Hz Hr) as [Hwfd Habsd].
      destruct o as [k|k|i|e|es|]; cbn [hist_ok] in Hok; try discriminate.
      * eapply (run_cons s (OAt i) t s (RAt None) []).
        -- cbn [ps_step]. unfold ps_at. rewrite Hz. reflexivity.
        -- cbn [spec_step]. rewrite Habs. destruct i; reflexivity.
        -- cbn. lia.
        -- lia.
        -- rewrite <- Habs. apply (IH s HCleared); [split; assumption | rewrite Habs; exact Hok].
      * apply run_after_detach; [assumption | rewrite Habsd, Habs; reflexivity | reflexivity].
      * destruct es as [|e es].
        -- eapply (run_cons s (OInsertRange []) t s RRange []).
           ++ reflexivity.
           ++ cbn [spec_step sl_insert_range]. rewrite Habs. reflexivity.
           ++ cbn. lia.
           ++ lia.
           ++ rewrite <- Habs. apply (IH s HCleared); [split; assumption | rewrite Habs; exact Hok].
        -- apply run_after_detach; [assumption | rewrite Habsd, Habs; reflexivity | reflexivity].
      * eapply (run_cons s OClear t (upd s (p_arr s) 0 (p_rsz s)) RClear []); try reflexivity.
        -- cbn. lia.
        -- apply (IH (upd s (p_arr s) 0 (p_rsz s)) HCleared).
           ++ cbn. split; [reflexivity | lia].
           ++ exact Hok.
Qed.

Lemma init_hash_intact tab :
  keys_sorted tab = true -> nonneg_keys (map fst tab) = true -> tab <> [] ->
  hash_intact (ps_init_hash tab) /\ abs (ps_init_hash tab) = tab.
Proof.
  intros Hs Hn Hne. pose proof (calc_reserve_pos' (length tab) 0) as Hc.
  assert (hash_intact (ps_init_hash tab)) as Hi.
  { exists tab, (repeat junk (length tab + calc_reserve (length tab) 0 - length tab)).
    unfold ps_init_hash; cbn [p_hash p_arr p_sz p_rsz].
    repeat split; try assumption; try reflexivity; [|lia].
    rewrite app_length, repeat_length. lia. }
  split; [exact Hi|]. destruct (abs_intact _ Hi) as [tab' [Habs [Hh _]]].
  unfold abs, ps_init_hash; cbn [p_sz p_arr].
  rewrite firstn_app, Nat.sub_diag, firstn_all, firstn_O, app_nil_r. reflexivity.
Qed.

(* a set built by the hash-array constructor (every message's field-trait set) *)
Theorem presorted_hash_refines_lemma tab ops :
  keys_sorted tab = true -> nonneg_keys (map fst tab) = true -> tab <> [] ->
  hist_ok HIntact tab ops = true ->
  exists s' rs, ps_run (ps_init_hash tab) ops = Some (s', rs) /\
    map fst rs = spec_run tab ops /\
    Forall (fun x => (snd (fst x) <= snd x)%nat) rs.
Proof.
  intros Hs Hn Hne Hok. destruct (init_hash_intact tab Hs Hn Hne) as [Hi Habs].
  destruct (ps_run_refines_gen ops (ps_init_hash tab) HIntact Hi) as [s' [rs [H1 [H2 H3]]]].
  - rewrite Habs. exact Hok.
  - exists s', rs. rewrite Habs in H2. repeat split; assumption.
Qed.

(* what the repairs do not cover: while the hash array is attached, find(key, answer) gives a null
   position for an absent key, and after clear() the stale hash array still finds the cleared keys *)
Lemma hash_residual_refuted_lemma :
  let s := ps_init_hash [(1, 0); (5, 0); (9, 0)] in
  ps_step s (OFindA 2) = Some (s, RFindA None false) /\
  fst (spec_step [(1, 0); (5, 0); (9, 0)] (OFindA 2)) = [(1, 0); (5, 0); (9, 0)] /\
  snd (spec_step [(1, 0); (5, 0); (9, 0)] (OFindA 2)) = RFindA (Some 1%nat) false /\
  (exists s1 rs, ps_run s [OClear; OFind 5] = Some (s1, rs) /\
                 map fst rs = [(RClear, 0%nat); (RFind (Some 1%nat), 0%nat)] /\
                 spec_run [(1, 0); (5, 0); (9, 0)] [OClear; OFind 5] = [(RClear, 0%nat); (RFind None, 0%nat)]).
Proof. cbn zeta. repeat split; try reflexivity. eexists _, _. repeat split; vm_compute; reflexivity. Qed.

(* ---- the oracle accepts the model's observations (no escape clause) ---- *)
Lemma onat_eqb_refl a : onat_eqb a a = true.
Proof. destruct a; cbn; [apply Nat.eqb_refl | reflexivity]. Qed.

Lemma out_eqb_refl o : out_eqb o o = true.
Proof.
  destruct o as [r|p a|[e|]|ok pos st| |]; cbn; try reflexivity.
  - apply onat_eqb_refl.
  - rewrite onat_eqb_refl, eqb_reflx. reflexivity.
  - unfold elem_eqb. rewrite !Z.eqb_refl. reflexivity.
  - rewrite !eqb_reflx, onat_eqb_refl. reflexivity.
Qed.

Lemma outs_eqb_refl l : outs_eqb l l = true.
Proof. induction l as [|[o n] l IH]; cbn; [reflexivity|]. rewrite out_eqb_refl, Nat.eqb_refl, IH. reflexivity. Qed.

Theorem presorted_oracle_lemma tab reserve ops :
  keys_sorted tab = true ->
  exists s' rs, ps_run (ps_init_array tab reserve) ops = Some (s', rs) /\ c12_ps_ok tab ops (map fst rs) = true.
Proof.
  intros Hs. destruct (presorted_refines_lemma tab reserve ops Hs) as [s' [rs [Hrun [Hmap _]]]].
  exists s', rs. split; [exact Hrun|]. unfold c12_ps_ok. rewrite Hmap. apply outs_eqb_refl.
Qed.

(* the iterator returned by insert: never stale in the current code; in the ORIGINAL routine stale
   exactly for the inserts that had to grow the block *)
Theorem insert_never_stale_lemma s e s' ok pos stale :
  ps_wf s -> ps_insert s e = Some (s', RInsert ok pos stale) -> stale = false.
Proof.
  intros Hwf Hi. destruct (insert_wf s e Hwf) as [s1 [r [Hi' [_ [_ H]]]]].
  rewrite Hi in Hi'. inversion Hi'; subst s1 r. destruct (sl_mem (abs s) (fst e)).
  - destruct H as [_ H]. inversion H. reflexivity.
  - destruct H as [_ [_ H]]. inversion H. reflexivity.
Qed.

Theorem insert_orig_stale_lemma s e s' ok pos stale :
  ps_wf s -> ps_insert_orig s e = Some (s', RInsert ok pos stale) ->
  (stale = true <-> (ok = true /\ p_sz s <> 0%nat /\ p_sz s = p_rsz s)).
Proof.
  intros Hwf Hi. destruct (insert_gen_wf false s e Hwf) as [s1 [r [Hi' [_ [_ H]]]]].
  unfold ps_insert_orig in Hi. rewrite Hi in Hi'. inversion Hi'; subst s1 r. destruct (sl_mem (abs s) (fst e)).
  - destruct H as [_ H]. inversion H; subst. split; [discriminate | intros [C _]; discriminate].
  - destruct H as [_ [_ [st [H Hiff]]]]. inversion H; subst. rewrite Hiff. intuition.
Qed.

(* ---- witnesses of the defects ---- *)
Definition full_set : pset :=
  {| p_arr := [(1, 0); (2, 0)]; p_sz := 2; p_rsz := 2; p_reserve := 30; p_hash := None |}.

Lemma stale_orig_refuted_lemma :
  ps_wf full_set /\
  (exists s', ps_insert_orig full_set (3, 0) = Some (s', RInsert true (Some 2%nat) true)) /\
  (exists s', ps_insert full_set (3, 0) = Some (s', RInsert true (Some 2%nat) false) /\
              nth_error (abs s') 2 = Some (3, 0)).
Proof.
  split; [|split].
  - unfold ps_wf, full_set, abs; cbn. repeat split; try lia.
  - eexists. vm_compute. reflexivity.
  - eexists. split; vm_compute; reflexivity.
Qed.

(* the constructors / insert as they were before 432f45d, b713cdd, a311e58 *)
Lemma reserve0_orig_refuted_lemma :
  ps_insert (ps_init_explicit_orig 0 0) (1, 0) = None /\
  (exists s', ps_insert (ps_init_explicit 0 0) (1, 0) = Some (s', RInsert true (Some 0%nat) false)).
Proof. split; [reflexivity | eexists; vm_compute; reflexivity]. Qed.

Lemma hash_insert_orig_refuted_lemma :
  ps_insert_gen true (ps_init_hash_orig [(1, 0); (5, 0)]) (2, 0) = None /\
  (exists s', ps_insert (ps_init_hash [(1, 0); (5, 0)]) (2, 0) = Some (s', RInsert true (Some 1%nat) false) /\
              abs s' = [(1, 0); (2, 0); (5, 0)]).
Proof. split; [reflexivity | eexists; split; vm_compute; reflexivity]. Qed.

Lemma explicit_size_orig_refuted_lemma :
  ps_find (ps_init_explicit_orig 3 30) 1 = None /\ ps_find (ps_init_explicit 3 30) 1 = Some None.
Proof. split; reflexivity. Qed.

Lemma presorted_nonvacuous_lemma :
  let tab := [(1, 10); (4, 40); (9, 90)] in
  let ops := [OFind 4; OFind 5; OFindA 5; OInsert (5, 50); OInsert (4, 41); OAt 2%nat; OAt 9%nat;
              OInsertRange [(2, 20); (7, 70); (2, 21); (8, 80)]; OFind 8; OClear; OFind 1; OInsert (3, 30); OFind 3] in
  keys_sorted tab = true /\
  exists s' rs, ps_run (ps_init_array tab 30) ops = Some (s', rs) /\
    map (fun x => fst (fst x)) rs =
      [RFind (Some 1%nat); RFind None; RFindA (Some 2%nat) false; RInsert true (Some 2%nat) false;
       RInsert false None false; RAt (Some (5, 50)); RAt None; RRange; RFind None; RClear; RFind None;
       RInsert true (Some 0%nat) false; RFind (Some 0%nat)].
Proof. cbn zeta. split; [reflexivity|]. eexists _, _. split; vm_compute; reflexivity. Qed.
