(* Proofs about the static lookup tables (C12): on a table sorted by key (hence with unique keys)
   GeneratedTable::_find, F8MetaCntx::find_be, the hash-array find and the reverse name maps are
   exact maps. *)
From Coq Require Import Arith List Bool Lia ZArith.
From F8 Require Import C12.Bisect C12.BisectProofs C12.Tables C12.Presorted C12.Spec_C12.
Import ListNotations.

Section Generated.
  Context {K : Type}.
  Variable ltK : K -> K -> bool.
  Hypothesis O : strict_total ltK.

  Theorem gt_find_exact keys k :
    sortedb ltK keys = true ->
    exists r, gt_find ltK keys k = Some r /\ forall i, r = Some i <-> nth_error keys i = Some k.
  Proof.
    intros Hs. unfold gt_find.
    destruct (o_lower_bound_at_spec ltK O keys k 0 (length keys) Hs) as [c [Hlb Hp]]; [lia|].
    unfold lower_bound. rewrite Hlb.
    assert (forall i, nth_error keys i = Some k -> i = c) as Hmem.
    { intros i Hi. eapply (o_part_member ltK O); try eassumption.
      split; [lia|]. apply nth_error_Some. congruence. }
    destruct (c =? length keys) eqn:E.
    - apply Nat.eqb_eq in E. eexists. split; [reflexivity|]. intros i. split; [discriminate|].
      intros Hi. pose proof (Hmem i Hi). assert (i < length keys) by (apply nth_error_Some; congruence). lia.
    - apply Nat.eqb_neq in E. destruct Hp as [Hc Hp'].
      destruct (nth_error keys c) as [x|] eqn:Ex. 2:{ apply nth_error_None in Ex. lia. }
      destruct (o_part_point_elem ltK O keys k c x Hs (conj Hc Hp') Ex) as [Hxv Hiff].
      eexists. split; [reflexivity|]. intros i. destruct (ltK k x) eqn:Evx.
      + split; [discriminate|]. intros Hi. pose proof (Hmem i Hi). subst i.
        assert (x = k) by congruence. subst. rewrite (st_irrefl ltK O) in Evx. discriminate.
      + assert (x = k) by (apply (st_tricho ltK O); assumption). subst x. split.
        * intros H. inversion H. subst. exact Ex.
        * intros Hi. rewrite (Hmem i Hi). reflexivity.
  Qed.

  (* find_ptr returns v exactly for the pairs (k, v) of the table *)
  Theorem gt_find_ptr_exact {V : Type} (T : list (K * V)) k :
    sortedb ltK (map fst T) = true ->
    exists r, gt_find_ptr ltK T k = Some r /\ forall v, r = Some v <-> In (k, v) T.
  Proof.
    intros Hs. unfold gt_find_ptr.
    destruct (gt_find_exact (map fst T) k Hs) as [r [Hr Hiff]]. rewrite Hr.
    pose proof (o_sortedb_NoDup ltK O (map fst T) Hs) as Hnd.
    destruct r as [i|].
    - pose proof (proj1 (Hiff i) eq_refl) as Hi. rewrite nth_error_map in Hi.
      destruct (nth_error T i) as [[k' v']|] eqn:Et; [|discriminate]. cbn in Hi. inversion Hi; subst k'.
      eexists. split; [reflexivity|]. intros v. cbn [snd]. split.
      + intros H. inversion H; subst. eapply nth_error_In; eassumption.
      + intros Hin. apply In_nth_error in Hin. destruct Hin as [j Hj].
        assert (nth_error (map fst T) j = Some k) as Hj' by (rewrite nth_error_map, Hj; reflexivity).
        apply Hiff in Hj'. inversion Hj'; subst j. rewrite Et in Hj. inversion Hj. reflexivity.
    - eexists. split; [reflexivity|]. intros v. split; [discriminate|].
      intros Hin. apply In_nth_error in Hin. destruct Hin as [j Hj].
      assert (nth_error (map fst T) j = Some k) as Hj' by (rewrite nth_error_map, Hj; reflexivity).
      apply Hiff in Hj'. discriminate.
  Qed.

  Variable eqK : K -> K -> bool.
  Hypothesis eqK_eq : forall a b, eqK a b = true <-> a = b.

  (* what an exact index means for the oracle *)
  Lemma exact_lookup_ok keys k r :
    (forall i, r = Some i <-> nth_error keys i = Some k) -> c12_lookup_ok eqK keys k r = true.
  Proof.
    intros Hiff. unfold c12_lookup_ok. destruct r as [i|].
    - rewrite (proj1 (Hiff i) eq_refl). apply eqK_eq. reflexivity.
    - apply negb_true_iff. apply not_true_iff_false. intros C. apply existsb_exists in C.
      destruct C as [x [Hx He]]. apply eqK_eq in He. subst x.
      apply In_nth_error in Hx. destruct Hx as [j Hj]. apply Hiff in Hj. discriminate.
  Qed.

  Theorem gt_find_ok keys k r :
    sortedb ltK keys = true -> gt_find ltK keys k = Some r -> c12_lookup_ok eqK keys k r = true.
  Proof.
    intros Hs Hr. destruct (gt_find_exact keys k Hs) as [r' [Hr' Hiff]].
    assert (r' = r) by congruence. subst. apply exact_lookup_ok. exact Hiff.
  Qed.
End Generated.

(* ------------------------------------------------------------------ direct-index arrays *)
Local Open Scope Z_scope.

Lemma last_write_absent : forall keys k i acc, ~ In k keys -> last_write keys k i acc = acc.
Proof.
  induction keys as [|x t IH]; intros k i acc Hn; cbn [last_write]; [reflexivity|].
  destruct (x =? k) eqn:E.
  - apply Z.eqb_eq in E. subst. exfalso. apply Hn. left. reflexivity.
  - apply IH. intros C. apply Hn. right. exact C.
Qed.

Lemma last_write_member : forall keys k j i acc,
  NoDup keys -> nth_error keys j = Some k -> last_write keys k i acc = Some (i + j)%nat.
Proof.
  induction keys as [|x t IH]; intros k j i acc Hnd Hj; [destruct j; discriminate|].
  inversion Hnd as [|? ? Hx Hnd']; subst. cbn [last_write]. destruct j.
  - cbn in Hj. inversion Hj; subst. rewrite Z.eqb_refl.
    rewrite last_write_absent by assumption. f_equal. lia.
  - cbn [nth_error] in Hj. destruct (x =? k) eqn:E.
    + apply Z.eqb_eq in E. subst. exfalso. apply Hx. eapply nth_error_In; eassumption.
    + rewrite (IH k j (i + 1)%nat acc Hnd' Hj). f_equal. lia.
Qed.

Lemma last_write_sound : forall keys k i acc m,
  last_write keys k i acc = Some m ->
  acc = Some m \/ ((i <= m)%nat /\ nth_error keys (m - i) = Some k).
Proof.
  induction keys as [|x t IH]; intros k i acc m H; cbn [last_write] in H; [left; exact H|].
  apply IH in H. destruct H as [H|[Hle H]].
  - destruct (x =? k) eqn:E; [|left; exact H]. inversion H; subst. apply Z.eqb_eq in E. subst.
    right. split; [lia|]. rewrite Nat.sub_diag. reflexivity.
  - right. split; [lia|]. replace (m - i)%nat with (S (m - (i + 1)))%nat by lia. exact H.
Qed.

Definition nonneg_keys (keys : list Z) : bool := forallb (fun k => 0 <=? k) keys.

Lemma direct_size_sorted keys :
  sortedb Z.ltb keys = true -> nonneg_keys keys = true -> keys <> [] ->
  exists sz, direct_size keys = Some sz /\ (forall k, In k keys -> 0 <= k < sz) /\ 0 < sz.
Proof.
  intros Hs Hnn Hne. unfold direct_size.
  assert (length keys <> 0)%nat as Hl by (destruct keys; [congruence | cbn; lia]).
  destruct (nth_error keys (length keys - 1)) as [lastk|] eqn:El.
  2:{ apply nth_error_None in El. lia. }
  assert (forall k, In k keys -> 0 <= k < lastk + 1) as Hall.
  { intros k Hk. unfold nonneg_keys in Hnn. rewrite forallb_forall in Hnn.
    pose proof (Hnn k Hk) as H0. apply Z.leb_le in H0. split; [exact H0|].
    apply In_nth_error in Hk. destruct Hk as [i Hi].
    assert (i < length keys)%nat by (apply nth_error_Some; congruence).
    destruct (Nat.eq_dec i (length keys - 1)) as [->|Hne'].
    - assert (k = lastk) by congruence. lia.
    - pose proof (o_sortedb_nth Z.ltb Zltb_strict_total keys Hs i (length keys - 1)%nat k lastk
                    ltac:(lia) Hi El) as Hlt.
      apply Z.ltb_lt in Hlt. lia. }
  assert (forallb (fun k => (0 <=? k) && (k <? lastk + 1)) keys = true) as ->.
  { apply forallb_forall. intros k Hk. specialize (Hall k Hk).
    apply andb_true_iff. split; [apply Z.leb_le | apply Z.ltb_lt]; lia. }
  exists (lastk + 1). split; [reflexivity|]. split; [exact Hall|].
  assert (In lastk keys) by (eapply nth_error_In; eassumption). specialize (Hall lastk H). lia.
Qed.

(* F8MetaCntx::find_be is exact (the field table has a key other than 0 last, else the ctor throws) *)
Theorem find_be_exact keys k :
  sortedb Z.ltb keys = true -> nonneg_keys keys = true -> keys <> [] ->
  nth_error keys (length keys - 1) <> Some 0 ->
  exists r, find_be keys k = Some r /\ forall i, r = Some i <-> nth_error keys i = Some k.
Proof.
  intros Hs Hnn Hne Hlast. destruct (direct_size_sorted keys Hs Hnn Hne) as [sz [Hsz [Hall Hpos]]].
  unfold find_be. rewrite Hsz.
  assert ((sz =? 1) = false) as ->.
  { apply Z.eqb_neq. intros ->. unfold direct_size in Hsz.
    destruct (nth_error keys (length keys - 1)) as [lastk|] eqn:El; [|discriminate].
    destruct (forallb _ keys); [|discriminate]. inversion Hsz. apply Hlast. f_equal. lia. }
  pose proof (o_sortedb_NoDup Z.ltb Zltb_strict_total keys Hs) as Hnd.
  eexists. split; [reflexivity|]. intros i. destruct (k <? sz) eqn:E.
  - split.
    + intros H. apply last_write_sound in H. destruct H as [H|[_ H]]; [discriminate|].
      rewrite Nat.sub_0_r in H. exact H.
    + intros Hi. rewrite (last_write_member keys k i 0%nat None Hnd Hi). reflexivity.
  - apply Z.ltb_ge in E. split; [discriminate|]. intros Hi.
    assert (In k keys) by (eapply nth_error_In; eassumption). specialize (Hall k H). lia.
Qed.

(* the hash-array find of a message's field-trait set (its array is a copy of the table) *)
Theorem ftha_find_exact keys k :
  sortedb Z.ltb keys = true -> nonneg_keys keys = true -> keys <> [] ->
  exists r, ftha_find keys keys k = Some r /\ forall i, r = Some i <-> nth_error keys i = Some k.
Proof.
  intros Hs Hnn Hne. destruct (direct_size_sorted keys Hs Hnn Hne) as [sz [Hsz [Hall Hpos]]].
  unfold ftha_find. rewrite Hsz.
  pose proof (o_sortedb_NoDup Z.ltb Zltb_strict_total keys Hs) as Hnd.
  destruct (k <? sz) eqn:E.
  - unfold ftha_cell. destruct (last_write keys k 0 None) as [j|] eqn:Elw.
    + apply last_write_sound in Elw. destruct Elw as [C|[_ Hj]]; [discriminate|].
      rewrite Nat.sub_0_r in Hj. rewrite Hj, Z.eqb_refl.
      eexists. split; [reflexivity|]. intros i. split.
      * intros H. inversion H; subst. exact Hj.
      * intros Hi. f_equal. eapply (proj1 (NoDup_nth_error keys) Hnd); [|congruence].
        apply nth_error_Some. congruence.
    + assert (~ In k keys) as Hn.
      { intros Hin. apply In_nth_error in Hin. destruct Hin as [j Hj].
        rewrite (last_write_member keys k j 0%nat None Hnd Hj) in Elw. discriminate. }
      destruct keys as [|x t]; [congruence|]. cbn [nth_error].
      assert ((x =? k) = false) as ->.
      { apply Z.eqb_neq. intros ->. apply Hn. left. reflexivity. }
      eexists. split; [reflexivity|]. intros i. split; [discriminate|].
      intros Hi. exfalso. apply Hn. eapply nth_error_In; eassumption.
  - apply Z.ltb_ge in E. eexists. split; [reflexivity|]. intros i. split; [discriminate|].
    intros Hi. assert (In k keys) by (eapply nth_error_In; eassumption). specialize (Hall k H). lia.
Qed.

(* ------------------------------------------------------------------ reverse name maps *)
Lemma list_eqb_eq : forall a b, list_eqb a b = true <-> a = b.
Proof.
  induction a as [|x a IH]; destruct b as [|y b]; cbn [list_eqb]; try (split; [discriminate|congruence]).
  - split; reflexivity.
  - rewrite andb_true_iff, Z.eqb_eq, IH. split; [intros [-> ->]; reflexivity | intros H; inversion H; auto].
Qed.

Lemma first_index_spec : forall names n k,
  match first_index names n k with
  | Some j => (k <= j)%nat /\ nth_error names (j - k) = Some n /\
              forall i, (i < j - k)%nat -> nth_error names i <> Some n
  | None => ~ In n names
  end.
Proof.
  induction names as [|x t IH]; intros n k; cbn [first_index]; [intros []|].
  destruct (list_eqb x n) eqn:E.
  - apply list_eqb_eq in E. subst. rewrite Nat.sub_diag. split; [lia|]. split; [reflexivity|]. intros; lia.
  - assert (x <> n) as Hne by (intros ->; rewrite (proj2 (list_eqb_eq n n) eq_refl) in E; discriminate).
    specialize (IH n (k + 1)%nat). destruct (first_index t n (k + 1)) as [j|].
    + destruct IH as [Hk [Hn Hf]]. split; [lia|].
      replace (j - k)%nat with (S (j - (k + 1)))%nat by lia. split; [exact Hn|].
      intros i Hi. destruct i; cbn [nth_error]; [congruence|]. apply Hf. lia.
    + intros [->|Hin]; [congruence | exact (IH Hin)].
Qed.

(* the name found is the first entry carrying it; with unique names: exactly the entry *)
Theorem reverse_find_exact ce names n :
  NoDup names -> (ce = true -> n <> []) ->
  forall j, reverse_find ce names n = Some j <-> nth_error names j = Some n.
Proof.
  intros Hnd Hce j. unfold reverse_find.
  assert ((ce && match n with [] => true | _ => false end) = false) as ->.
  { destruct ce; [|reflexivity]. destruct n; [exfalso; apply Hce; reflexivity | reflexivity]. }
  pose proof (first_index_spec names n 0%nat) as H. destruct (first_index names n 0) as [m|].
  - destruct H as [_ [Hm _]]. rewrite Nat.sub_0_r in Hm. split.
    + intros E. inversion E; subst. exact Hm.
    + intros Hj. f_equal. eapply (proj1 (NoDup_nth_error names) Hnd); [|congruence].
      apply nth_error_Some. congruence.
  - split; [discriminate|]. intros Hj. exfalso. apply H. eapply nth_error_In; eassumption.
Qed.

Theorem reverse_find_empty names : reverse_find true names [] = None.
Proof. reflexivity. Qed.
