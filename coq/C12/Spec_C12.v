(* Property C12 as executable predicates on observables, written from the property text:
   "for every key the lookup tables report a hit exactly when the key is present and return that
    key's entry; the insertable sorted set behaves like a sorted set of unique keys under any
    sequence of inserts, lookups and clears".
   Independent of the bisection / hash-array models: linear scans and a sorted list. *)
From Coq Require Import Arith List Bool ZArith.
From F8 Require Import C12.Presorted.
Import ListNotations.

Section Lookup.
  Context {K : Type}.
  Variable eqK : K -> K -> bool.

  (* a lookup reported entry index [r] (None = miss) for key k in a table with these keys *)
  Definition c12_lookup_ok (keys : list K) (k : K) (r : option nat) : bool :=
    match r with
    | Some i => match nth_error keys i with Some x => eqK x k | None => false end
    | None => negb (existsb (fun x => eqK x k) keys)
    end.
End Lookup.

(* ---- the sorted set of unique keys ---- *)
Local Open Scope Z_scope.

Fixpoint sl_index (L : list elem) (k : Z) (i : nat) : option nat :=
  match L with
  | [] => None
  | x :: t => if fst x =? k then Some i else sl_index t k (i + 1)
  end.

Definition sl_count_lt (L : list elem) (k : Z) : nat := length (filter (fun x => fst x <? k) L).

Fixpoint sl_insert (e : elem) (L : list elem) : list elem :=
  match L with
  | [] => [e]
  | x :: t => if fst e <? fst x then e :: x :: t else x :: sl_insert e t
  end.

Definition sl_mem (L : list elem) (k : Z) : bool :=
  match sl_index L k 0 with Some _ => true | None => false end.

(* insert(begin, end): inserts in order and stops at the first element already present *)
Fixpoint sl_insert_range (L : list elem) (es : list elem) : list elem :=
  match es with
  | [] => L
  | e :: t => if sl_mem L (fst e) then L else sl_insert_range (sl_insert e L) t
  end.

Definition spec_step (L : list elem) (o : op) : list elem * out :=
  match o with
  | OFind k => (L, RFind (sl_index L k 0))
  | OFindA k => (L, RFindA (Some (sl_count_lt L k)) (sl_mem L k))
  | OAt i => (L, RAt (nth_error L i))
  | OInsert e =>
    if sl_mem L (fst e) then (L, RInsert false None false)
    else (sl_insert e L, RInsert true (Some (sl_count_lt L (fst e))) false)
  | OInsertRange es => (sl_insert_range L es, RRange)
  | OClear => ([], RClear)
  end.

(* results and the set's size after every operation *)
Fixpoint spec_run (L : list elem) (ops : list op) : list (out * nat) :=
  match ops with
  | [] => []
  | o :: t => let (L', r) := spec_step L o in (r, length L') :: spec_run L' t
  end.

(* ---- comparison of observations ---- *)
Definition onat_eqb (a b : option nat) : bool :=
  match a, b with
  | None, None => true
  | Some x, Some y => Nat.eqb x y
  | _, _ => false
  end.

Definition elem_eqb (a b : elem) : bool := (fst a =? fst b) && (snd a =? snd b).

Definition out_eqb (a b : out) : bool :=
  match a, b with
  | RFind x, RFind y => onat_eqb x y
  | RFindA p x, RFindA q y => onat_eqb p q && Bool.eqb x y
  | RAt None, RAt None => true
  | RAt (Some x), RAt (Some y) => elem_eqb x y
  | RInsert o1 p1 s1, RInsert o2 p2 s2 => Bool.eqb o1 o2 && onat_eqb p1 p2 && Bool.eqb s1 s2
  | RRange, RRange => true
  | RClear, RClear => true
  | _, _ => false
  end.

Fixpoint outs_eqb (a b : list (out * nat)) : bool :=
  match a, b with
  | [], [] => true
  | (x, n) :: a', (y, m) :: b' => out_eqb x y && Nat.eqb n m && outs_eqb a' b'
  | _, _ => false
  end.

(* the oracle: the observed results of a history on a set that initially holds L0 *)
Definition c12_ps_ok (L0 : list elem) (ops : list op) (obs : list (out * nat)) : bool :=
  outs_eqb obs (spec_run L0 ops).
