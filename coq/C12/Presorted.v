(* Model of presorted_set<K, T, Comp> (include/fix8/f8types.hpp) and of its specialisation
   presorted_set<unsigned short, FieldTrait, FieldTrait::Compare> (include/fix8/traits.hpp) as a
   state machine over (_arr, _sz, _rsz, _reserve), instrumented with the allocated capacity:
   [p_arr] is the whole allocated block (its length is the capacity; a null _arr is the empty
   block), every read and write is bounds-checked against it.  std::equal_range is the bisection
   model of C12/Bisect.v.  No proofs in this file.
   A step returns [None] on a fault: an access outside the allocated block, use of the
   uninitialised _rsz (hash-array constructor), or fuel. *)
From Coq Require Import Arith List Bool ZArith.
From F8 Require Import C12.Bisect C12.Tables.
Import ListNotations.

Notation elem := (Z * Z)%type.                  (* key (_fnum) and the rest of the element *)
Definition elt (a b : elem) : bool := (fst a <? fst b)%Z.   (* Comp: FieldTrait::Compare *)
Definition junk : elem := ((-1)%Z, (-1)%Z).             (* content of a slot fresh from new T[] *)
Definition key_elem (k : Z) : elem := (k, (-1)%Z).       (* T(key): only the key is set *)

Record pset := {
  p_arr : list elem;
  p_sz : nat;
  p_rsz : nat;
  p_reserve : nat;
  p_hash : option (list Z)    (* Some keys: built by the hash-array constructor from that table *)
}.

(* static size_t calc_reserve(size_t sz, size_t res)
     { if (!sz) return res ? res : 1; const size_t val(sz * res / 100); return val ? val : 1; }
   (since 432f45d; the original returned res for an empty set, i.e. 0 for reserve 0) *)
Definition calc_reserve (sz res : nat) : nat :=
  if sz =? 0 then (if res =? 0 then 1 else res) else
  let val := sz * res / 100 in if val =? 0 then 1 else val.

Definition calc_reserve_orig (sz res : nat) : nat :=
  if sz =? 0 then res else
  let val := sz * res / 100 in if val =? 0 then 1 else val.

(* ---- constructors ---- *)
(* presorted_set(arr_start, sz, reserve): _sz(sz), _rsz(_sz + calc_reserve(_sz, _reserve)), _arr(new T[_rsz]), memcpy *)
Definition ps_init_array (tab : list elem) (reserve : nat) : pset :=
  let sz := length tab in
  let rsz := sz + calc_reserve sz reserve in
  {| p_arr := tab ++ repeat junk (rsz - sz); p_sz := sz; p_rsz := rsz; p_reserve := reserve; p_hash := None |}.

(* explicit presorted_set(sz = 0, reserve): _sz(), _rsz(sz + calc_reserve(sz, _reserve)), _arr()
   (since a311e58: an empty set with room for sz elements) *)
Definition ps_init_explicit (sz reserve : nat) : pset :=
  {| p_arr := []; p_sz := 0; p_rsz := sz + calc_reserve sz reserve; p_reserve := reserve; p_hash := None |}.

(* presorted_set(arr_start, sz, ftha): _reserve(), _sz(sz), _rsz(_sz + calc_reserve(_sz, _reserve)),
   _arr(new FieldTrait[_rsz]), _ftha(ftha)     (since b713cdd) *)
Definition ps_init_hash (tab : list elem) : pset :=
  let sz := length tab in
  let rsz := sz + calc_reserve sz 0 in
  {| p_arr := tab ++ repeat junk (rsz - sz); p_sz := sz; p_rsz := rsz; p_reserve := 0; p_hash := Some (map fst tab) |}.

(* ---- the constructors as they were before the repairs (refutation witnesses only) ---- *)
(* _sz(sz) although nothing is allocated; reserve 0 on an empty set gives _rsz = 0 *)
Definition ps_init_explicit_orig (sz reserve : nat) : pset :=
  {| p_arr := []; p_sz := sz; p_rsz := sz + calc_reserve_orig sz reserve; p_reserve := reserve; p_hash := None |}.
(* _arr(new FieldTrait[_sz]), _rsz not initialised (recorded as 0; every use of it is a fault) *)
Definition ps_init_hash_orig (tab : list elem) : pset :=
  {| p_arr := tab; p_sz := length tab; p_rsz := 0; p_reserve := 0; p_hash := Some (map fst tab) |}.

(* ---- memory ---- *)
Definition read_range (arr : list elem) (pos n : nat) : option (list elem) :=
  if pos + n <=? length arr then Some (firstn n (skipn pos arr)) else None.

Definition write_at (arr : list elem) (pos : nat) (src : list elem) : option (list elem) :=
  if pos + length src <=? length arr
  then Some (firstn pos arr ++ src ++ skipn (pos + length src) arr)
  else None.

(* ---- operations and their observable results ---- *)
Inductive op :=
| OFind (k : Z)                 (* find(key) const       -> iterator *)
| OFindA (k : Z)                (* find(key, answer)     -> iterator, answer *)
| OAt (i : nat)                 (* at(idx)               -> iterator (dereferenced by the observer) *)
| OInsert (e : elem)            (* insert(&e)            -> (iterator, bool) *)
| OInsertRange (es : list elem) (* insert(begin, end) *)
| OClear.

Inductive out :=
| RFind (r : option nat)                    (* index of the element, None = end() *)
| RFindA (pos : option nat) (answer : bool)  (* None = null pointer (hash-array miss) *)
| RAt (e : option elem)                      (* None = end() *)
| RInsert (ok : bool) (pos : option nat) (stale : bool)
      (* pos: index the returned iterator refers to, None = end();
         stale: the iterator points into the block that has just been deleted *)
| RRange
| RClear.

Definition upd (s : pset) (arr : list elem) (sz rsz : nat) : pset :=
  {| p_arr := arr; p_sz := sz; p_rsz := rsz; p_reserve := p_reserve s; p_hash := p_hash s |}.

(* find(what, answer):
     hash array: return (answer = what._fnum < _ftha->_sz && (_arr + _ftha->_arr[what._fnum])->_fnum == what._fnum)
                        ? _arr + _ftha->_arr[what._fnum] : 0;
     else: res = std::equal_range(_arr, _arr + _sz, what, Comp()); answer = res.first != res.second; return res.first; *)
Definition ps_find_answer (s : pset) (what : elem) : option (option nat * bool) :=
  match p_hash s with
  | Some tabkeys =>
    match ftha_find tabkeys (map fst (p_arr s)) (fst what) with
    | None => None
    | Some None => Some (None, false)
    | Some (Some j) => Some (Some j, true)
    end
  | None =>
    match equal_range_at elt (p_arr s) what 0 (p_sz s) with
    | None => None
    | Some (a, b) => Some (Some a, negb (a =? b))
    end
  end.

(* find(key) [const]: hash array: cond ? _arr + _ftha->_arr[key] : end();
                      else res = equal_range(...); res.first != res.second ? res.first : end().
   The observer sees an index, or end() when the iterator equals _arr + _sz. *)
Definition ps_find (s : pset) (k : Z) : option (option nat) :=
  match p_hash s with
  | Some tabkeys =>
    match ftha_find tabkeys (map fst (p_arr s)) k with
    | None => None
    | Some None => Some None
    | Some (Some j) => Some (if j =? p_sz s then None else Some j)
    end
  | None =>
    match equal_range_at elt (p_arr s) (key_elem k) 0 (p_sz s) with
    | None => None
    | Some (a, b) => Some (if a =? b then None else Some a)
    end
  end.

(* at(idx): idx < _sz ? _arr + idx : end();  the observer dereferences a non-end iterator *)
Definition ps_at (s : pset) (i : nat) : option (option elem) :=
  if i <? p_sz s then
    match nth_error (p_arr s) i with
    | None => None
    | Some e => Some (Some e)
    end
  else Some None.

(* [fixed = true]: the code since commit 5f81ca8 (after growing: where = _arr + wptr, the iterator points
   into the new block); [fixed = false]: the original routine, which returned the pointer into the block it
   had just deleted -- kept for the refutation witness only. *)
Definition ps_insert_gen (fixed : bool) (s : pset) (what : elem) : option (pset * out) :=
  if p_sz s =? 0 then
    (* _arr = new T[_rsz]; memcpy(_arr, what, sizeof(T)); ++_sz; return result(_arr, true); *)
    match p_hash s with
    | Some _ => None                                    (* _rsz uninitialised *)
    | None =>
      match write_at (repeat junk (p_rsz s)) 0 [what] with
      | None => None
      | Some arr' => Some (upd s arr' 1 (p_rsz s), RInsert true (Some 0) false)
      end
    end
  else
    match ps_find_answer s what with
    | None => None
    | Some (_, true) => Some (s, RInsert false None false)          (* result(end(), false) *)
    | Some (where_, false) =>
      match p_hash s, where_ with
      | Some _, _ => None                                (* where == 0 and _rsz uninitialised *)
      | None, None => None
      | None, Some w =>
        if p_sz s <? p_rsz s then
          (* memmove(where + 1, where, (end() - where) * sizeof(T)); memcpy(where, what, sizeof(T)); *)
          match read_range (p_arr s) w (p_sz s - w) with
          | None => None
          | Some blk =>
            match write_at (p_arr s) (w + 1) blk with
            | None => None
            | Some a1 =>
              match write_at a1 w [what] with
              | None => None
              | Some a2 => Some (upd s a2 (p_sz s + 1) (p_rsz s), RInsert true (Some w) false)
              end
            end
          end
        else
          (* new_arr(new T[_rsz = _sz + calc_reserve(_sz, _reserve)]); wptr = where - _arr;
             if (wptr > 0) memcpy(new_arr, _arr, sizeof(T) * wptr);
             memcpy(new_arr + wptr, what, sizeof(T));
             memcpy(new_arr + wptr + 1, where, (end() - where) * sizeof(T));
             delete[] _arr; _arr = new_arr;
             where = _arr + wptr;      (since 5f81ca8; without it where still points into the old block)
             ...   return result(where, true) *)
          let rsz' := p_sz s + calc_reserve (p_sz s) (p_reserve s) in
          let new_arr := repeat junk rsz' in
          match (if 0 <? w then
                   match read_range (p_arr s) 0 w with
                   | None => None
                   | Some pre => write_at new_arr 0 pre
                   end
                 else Some new_arr) with
          | None => None
          | Some n1 =>
            match write_at n1 w [what] with
            | None => None
            | Some n2 =>
              match read_range (p_arr s) w (p_sz s - w) with
              | None => None
              | Some post =>
                match write_at n2 (w + 1) post with
                | None => None
                | Some n3 => Some (upd s n3 (p_sz s + 1) rsz', RInsert true (Some w) (negb fixed))
                end
              end
            end
          end
      end
    end.

(* insert(const_iterator what) { _ftha = nullptr;   // the hash array indexes the initial layout only   (b713cdd)
     ... the routine above ... }
   [ps_insert_gen] with a hash array still attached is the routine before b713cdd (a null insert position and
   the uninitialised _rsz: a fault for every key that is not a duplicate). *)
Definition detach (s : pset) : pset :=
  {| p_arr := p_arr s; p_sz := p_sz s; p_rsz := p_rsz s; p_reserve := p_reserve s; p_hash := None |}.

Definition ps_insert (s : pset) (what : elem) : option (pset * out) := ps_insert_gen true (detach s) what.
Definition ps_insert_orig := ps_insert_gen false.      (* stale iterator after growing, before 5f81ca8 *)

(* for (ptr = what_begin; ptr < what_end; ++ptr) if (!insert(ptr).second) break; *)
Fixpoint ps_insert_range (s : pset) (es : list elem) : option pset :=
  match es with
  | [] => Some s
  | e :: t =>
    match ps_insert s e with
    | None => None
    | Some (s', RInsert true _ _) => ps_insert_range s' t
    | Some (s', _) => Some s'
    end
  end.

Definition ps_step (s : pset) (o : op) : option (pset * out) :=
  match o with
  | OFind k => match ps_find s k with None => None | Some r => Some (s, RFind r) end
  | OFindA k => match ps_find_answer s (key_elem k) with
                | None => None
                | Some (pos, ans) => Some (s, RFindA pos ans)
                end
  | OAt i => match ps_at s i with None => None | Some r => Some (s, RAt r) end
  | OInsert e => ps_insert s e
  | OInsertRange es => match ps_insert_range s es with None => None | Some s' => Some (s', RRange) end
  | OClear => Some (upd s (p_arr s) 0 (p_rsz s), RClear)      (* void clear() { _sz = 0; } *)
  end.

(* a whole history; the sizes after every step are observable too (size(), rsize()) *)
Fixpoint ps_run (s : pset) (ops : list op) : option (pset * list (out * nat * nat)) :=
  match ops with
  | [] => Some (s, [])
  | o :: t =>
    match ps_step s o with
    | None => None
    | Some (s', r) =>
      match ps_run s' t with
      | None => None
      | Some (s'', rs) => Some (s'', (r, p_sz s', p_rsz s') :: rs)
      end
    end
  end.
