(* Proofs about the bisection model: totality (no out-of-bounds read, fuel suffices), the
   partition-point characterisation, and on sorted input
     lower_bound = number of elements < key,  upper_bound = number of elements <= key,
     equal_range = (lower_bound, upper_bound),  binary_search <-> membership. *)
From Coq Require Import Arith List Bool Lia ZArith.
From F8 Require Import C12.Bisect.
Import ListNotations.

Lemma div2_lt n : n <> 0 -> Nat.div2 n < n.
Proof. intros. apply Nat.lt_div2. lia. Qed.

Section Generic.
  Context {A : Type}.

  (* bisection on a predicate: both loops are instances *)
  Fixpoint bis_loop (p : A -> bool) (fuel : nat) (l : list A) (first len : nat) : option nat :=
    if len =? 0 then Some first else
    match fuel with
    | O => None
    | S f =>
      let half := Nat.div2 len in
      let middle := first + half in
      match nth_error l middle with
      | None => None
      | Some m => if p m then bis_loop p f l (middle + 1) (len - half - 1)
                  else bis_loop p f l first half
      end
    end.

  Lemma lb_loop_bis (lt : A -> A -> bool) v : forall fuel l first len,
    lb_loop lt fuel l v first len = bis_loop (fun m => lt m v) fuel l first len.
  Proof.
    induction fuel; intros; cbn [lb_loop bis_loop]; destruct (len =? 0); auto.
    destruct (nth_error l (first + Nat.div2 len)); auto.
    destruct (lt a v); auto.
  Qed.

  Lemma ub_loop_bis (lt : A -> A -> bool) v : forall fuel l first len,
    ub_loop lt fuel l v first len = bis_loop (fun m => negb (lt v m)) fuel l first len.
  Proof.
    induction fuel; intros; cbn [ub_loop bis_loop]; destruct (len =? 0); auto.
    destruct (nth_error l (first + Nat.div2 len)); auto.
    destruct (lt v a); cbn [negb]; auto.
  Qed.

  Definition part_at (p : A -> bool) (l : list A) (first len r : nat) : Prop :=
    first <= r <= first + len /\
    (forall i x, first <= i < r -> nth_error l i = Some x -> p x = true) /\
    (forall i x, r <= i < first + len -> nth_error l i = Some x -> p x = false).

  Definition mono_at (p : A -> bool) (l : list A) (first len : nat) : Prop :=
    forall i j x y, first <= i -> i <= j -> j < first + len ->
      nth_error l i = Some x -> nth_error l j = Some y -> p y = true -> p x = true.

  Lemma mono_at_sub p l first len first' len' :
    first <= first' -> first' + len' <= first + len ->
    mono_at p l first len -> mono_at p l first' len'.
  Proof. unfold mono_at; intros ? ? H i j x y ? ? ?. apply (H i j x y); lia. Qed.

  (* totality: in-bounds range + enough fuel => a result inside the range *)
  Lemma bis_loop_total p : forall fuel l first len,
    len <= fuel -> first + len <= length l ->
    exists r, bis_loop p fuel l first len = Some r /\ first <= r <= first + len.
  Proof.
    induction fuel; intros l first len Hf Hb; cbn [bis_loop].
    - assert (len = 0) by lia. subst. exists first. split; [reflexivity | lia].
    - destruct (len =? 0) eqn:E0.
      + apply Nat.eqb_eq in E0. exists first. split; [reflexivity | lia].
      + apply Nat.eqb_neq in E0. pose proof (div2_lt len E0) as Hh.
        set (half := Nat.div2 len) in *.
        destruct (nth_error l (first + half)) eqn:En.
        2:{ apply nth_error_None in En. lia. }
        destruct (p a).
        * destruct (IHfuel l (first + half + 1) (len - half - 1)) as [r [Hr ?]]; try lia.
          exists r. split; [exact Hr | lia].
        * destruct (IHfuel l first half) as [r [Hr ?]]; try lia.
          exists r. split; [exact Hr | lia].
  Qed.

  (* the partition point *)
  Lemma bis_loop_spec p : forall fuel l first len,
    len <= fuel -> first + len <= length l -> mono_at p l first len ->
    exists r, bis_loop p fuel l first len = Some r /\ part_at p l first len r.
  Proof.
    induction fuel; intros l first len Hf Hb Hm; cbn [bis_loop].
    - assert (len = 0) by lia. subst. exists first. split; [reflexivity|].
      split; [lia|]. split; intros; lia.
    - destruct (len =? 0) eqn:E0.
      + apply Nat.eqb_eq in E0. subst. exists first. split; [reflexivity|].
        split; [lia|]. split; intros; lia.
      + apply Nat.eqb_neq in E0. pose proof (div2_lt len E0) as Hh.
        set (half := Nat.div2 len) in *.
        destruct (nth_error l (first + half)) as [m|] eqn:En.
        2:{ apply nth_error_None in En. lia. }
        destruct (p m) eqn:Pm.
        * destruct (IHfuel l (first + half + 1) (len - half - 1)) as [r [Hr [Hr1 [Hr2 Hr3]]]]; try lia.
          { eapply mono_at_sub; [| |exact Hm]; lia. }
          exists r. split; [exact Hr|]. split; [lia|]. split.
          -- intros i x Hi Hx. destruct (le_lt_dec i (first + half)).
             ++ apply (Hm i (first + half) x m); try lia; assumption.
             ++ apply (Hr2 i x); [lia | assumption].
          -- intros i x Hi Hx. apply (Hr3 i x); [lia | assumption].
        * destruct (IHfuel l first half) as [r [Hr [Hr1 [Hr2 Hr3]]]]; try lia.
          { eapply mono_at_sub; [| |exact Hm]; lia. }
          exists r. split; [exact Hr|]. split; [lia|]. split.
          -- intros i x Hi Hx. apply (Hr2 i x); [lia | assumption].
          -- intros i x Hi Hx. destruct (le_lt_dec (first + half) i).
             ++ destruct (p x) eqn:Px; [|reflexivity].
                rewrite <- Pm. symmetry.
                apply (Hm (first + half) i m x); try lia; assumption.
             ++ apply (Hr3 i x); [lia | assumption].
  Qed.

  Lemma part_at_unique (p : A -> bool) (l : list A) first len r1 r2 :
    first + len <= length l ->
    part_at p l first len r1 -> part_at p l first len r2 -> r1 = r2.
  Proof.
    intros Hb [H1 [H1a H1b]] [H2 [H2a H2b]].
    destruct (lt_eq_lt_dec r1 r2) as [[Hlt|Heq]|Hgt]; [|assumption|].
    - destruct (nth_error l r1) eqn:E. 2:{ apply nth_error_None in E. lia. }
      pose proof (H1b r1 a ltac:(lia) E). pose proof (H2a r1 a ltac:(lia) E). congruence.
    - destruct (nth_error l r2) eqn:E. 2:{ apply nth_error_None in E. lia. }
      pose proof (H2b r2 a ltac:(lia) E). pose proof (H1a r2 a ltac:(lia) E). congruence.
  Qed.

  (* the partition point of a whole list is the number of elements satisfying p *)
  Lemma part_count (p : A -> bool) : forall (l : list A) r,
    (forall i x, i < r -> nth_error l i = Some x -> p x = true) ->
    (forall i x, r <= i -> nth_error l i = Some x -> p x = false) ->
    r <= length l -> length (filter p l) = r.
  Proof.
    induction l as [|a l IH]; intros r Ht Hf Hr; cbn [length] in *.
    - cbn. lia.
    - cbn [filter]. destruct r.
      + rewrite (Hf 0 a); [|lia|reflexivity].
        apply IH; [intros; lia | | lia].
        intros i x _ Hx. apply (Hf (S i) x); [lia | exact Hx].
      + rewrite (Ht 0 a); [|lia|reflexivity]. cbn [length]. f_equal.
        apply IH; [| |lia].
        * intros i x Hi Hx. apply (Ht (S i) x); [lia | exact Hx].
        * intros i x Hi Hx. apply (Hf (S i) x); [lia | exact Hx].
  Qed.

  Lemma part_at_count (p : A -> bool) (l : list A) r : part_at p l 0 (length l) r -> length (filter p l) = r.
  Proof.
    intros [H [Ha Hb]]. apply part_count; [| |lia].
    - intros i x Hi. apply Ha. lia.
    - intros i x Hi Hx. apply (Hb i x); [|exact Hx]. split; [lia|].
      cbn. apply nth_error_Some. congruence.
  Qed.
End Generic.

(* ------------------------------------------------------------------ strict total orders *)
Section Order.
  Context {A : Type}.
  Variable lt : A -> A -> bool.
  Hypothesis lt_trans : forall a b c, lt a b = true -> lt b c = true -> lt a c = true.
  Hypothesis lt_irrefl : forall a, lt a a = false.

  Lemma lt_asym a b : lt a b = true -> lt b a = false.
  Proof.
    intros H. destruct (lt b a) eqn:E; [|reflexivity].
    rewrite <- (lt_irrefl a). symmetry. eapply lt_trans; eassumption.
  Qed.

  Lemma sortedb_cons x l : sortedb lt (x :: l) = true ->
    sortedb lt l = true /\ forall y, In y l -> lt x y = true.
  Proof.
    revert x. induction l as [|y l IH]; intros x H.
    - split; [reflexivity | intros ? []].
    - cbn [sortedb] in H. apply andb_true_iff in H. destruct H as [Hxy Hs].
      split; [exact Hs|]. intros z [->|Hz]; [exact Hxy|].
      destruct (IH y Hs) as [_ Hy]. eapply lt_trans; [exact Hxy | apply Hy, Hz].
  Qed.

  Lemma sortedb_nth : forall l, sortedb lt l = true ->
    forall i j x y, i < j -> nth_error l i = Some x -> nth_error l j = Some y -> lt x y = true.
  Proof.
    induction l as [|a l IH]; intros Hs i j x y Hij Hx Hy.
    - destruct i; discriminate.
    - destruct (sortedb_cons a l Hs) as [Hs' Ha].
      destruct j; [lia|]. cbn [nth_error] in Hy. destruct i.
      + cbn in Hx. inversion Hx; subst. apply Ha. eapply nth_error_In; eassumption.
      + cbn [nth_error] in Hx. apply (IH Hs' i j); [lia | assumption | assumption].
  Qed.

  Lemma sortedb_NoDup l : sortedb lt l = true -> NoDup l.
  Proof.
    induction l as [|a l IH]; intros Hs; [constructor|].
    destruct (sortedb_cons a l Hs) as [Hs' Ha]. constructor; [|auto].
    intros Hin. specialize (Ha a Hin). rewrite lt_irrefl in Ha. discriminate.
  Qed.

  Lemma sorted_mono_lt l v first len : sortedb lt l = true ->
    mono_at (fun m => lt m v) l first len.
  Proof.
    intros Hs i j x y _ Hij _ Hx Hy Hp. destruct (Nat.eq_dec i j) as [->|Hne].
    - congruence.
    - eapply lt_trans; [|exact Hp]. eapply (sortedb_nth l Hs i j); [lia | assumption | assumption].
  Qed.

  Lemma sorted_mono_le l v first len : sortedb lt l = true ->
    mono_at (fun m => negb (lt v m)) l first len.
  Proof.
    intros Hs i j x y _ Hij _ Hx Hy Hp. destruct (Nat.eq_dec i j) as [->|Hne].
    - congruence.
    - apply negb_true_iff in Hp. apply negb_true_iff.
      destruct (lt v x) eqn:E; [|reflexivity].
      rewrite <- Hp. symmetry. eapply lt_trans; [exact E|].
      eapply (sortedb_nth l Hs i j); [lia | assumption | assumption].
  Qed.

  (* ---- lower_bound / upper_bound on a range of a sorted array ---- *)
  Lemma lower_bound_at_spec l v first len :
    sortedb lt l = true -> first + len <= length l ->
    exists r, lower_bound_at lt l v first len = Some r /\ part_at (fun m => lt m v) l first len r.
  Proof.
    intros Hs Hb. unfold lower_bound_at. rewrite lb_loop_bis.
    apply bis_loop_spec; [lia | assumption | apply sorted_mono_lt; assumption].
  Qed.

  Lemma upper_bound_at_spec l v first len :
    sortedb lt l = true -> first + len <= length l ->
    exists r, upper_bound_at lt l v first len = Some r /\
              part_at (fun m => negb (lt v m)) l first len r.
  Proof.
    intros Hs Hb. unfold upper_bound_at. rewrite ub_loop_bis.
    apply bis_loop_spec; [lia | assumption | apply sorted_mono_le; assumption].
  Qed.

  Lemma lower_bound_total l v : exists r, lower_bound lt l v = Some r /\ r <= length l.
  Proof.
    unfold lower_bound, lower_bound_at. rewrite lb_loop_bis.
    destruct (bis_loop_total (fun m => lt m v) (length l) l 0 (length l)) as [r [Hr ?]]; try lia.
    exists r. split; [exact Hr | lia].
  Qed.

  Theorem lower_bound_sorted l v :
    sortedb lt l = true -> lower_bound lt l v = Some (count_lt lt l v).
  Proof.
    intros Hs. destruct (lower_bound_at_spec l v 0 (length l) Hs) as [r [Hr Hp]]; [lia|].
    unfold lower_bound. rewrite Hr. f_equal. symmetry. apply part_at_count. exact Hp.
  Qed.

  Theorem upper_bound_sorted l v :
    sortedb lt l = true -> upper_bound lt l v = Some (count_le lt l v).
  Proof.
    intros Hs. destruct (upper_bound_at_spec l v 0 (length l) Hs) as [r [Hr Hp]]; [lia|].
    unfold upper_bound. rewrite Hr. f_equal. symmetry. apply part_at_count. exact Hp.
  Qed.

  (* ---- equal_range = (lower_bound, upper_bound) on the same range ---- *)
  Lemma er_loop_spec v : forall fuel l first len,
    sortedb lt l = true -> len <= fuel -> first + len <= length l ->
    exists a b, er_loop lt fuel l v first len = Some (a, b) /\
                part_at (fun m => lt m v) l first len a /\
                part_at (fun m => negb (lt v m)) l first len b.
  Proof.
    induction fuel; intros l first len Hs Hf Hb; cbn [er_loop].
    - assert (len = 0) by lia. subst. exists first, first. split; [reflexivity|].
      split; (split; [lia|]; split; intros; lia).
    - destruct (len =? 0) eqn:E0.
      + apply Nat.eqb_eq in E0. subst. exists first, first. split; [reflexivity|].
        split; (split; [lia|]; split; intros; lia).
      + apply Nat.eqb_neq in E0. pose proof (div2_lt len E0) as Hh.
        set (half := Nat.div2 len) in *.
        pose proof (sorted_mono_lt l v first len Hs) as M1.
        pose proof (sorted_mono_le l v first len Hs) as M2.
        destruct (nth_error l (first + half)) as [m|] eqn:En.
        2:{ apply nth_error_None in En. lia. }
        destruct (lt m v) eqn:P1.
        * (* everything up to middle is < v *)
          destruct (IHfuel l (first + half + 1) (len - half - 1) Hs) as [a [b [Hr [[Ha1 [Ha2 Ha3]] [Hb1 [Hb2 Hb3]]]]]]; try lia.
          exists a, b. split; [exact Hr|]. split.
          -- split; [lia|]. split.
             ++ intros i x Hi Hx. destruct (le_lt_dec i (first + half)).
                ** apply (M1 i (first + half) x m); try lia; assumption.
                ** apply (Ha2 i x); [lia | assumption].
             ++ intros i x Hi Hx. apply (Ha3 i x); [lia | assumption].
          -- split; [lia|]. split.
             ++ intros i x Hi Hx. destruct (le_lt_dec i (first + half)).
                ** apply (M2 i (first + half) x m); try lia; try assumption.
                   apply negb_true_iff. apply lt_asym. exact P1.
                ** apply (Hb2 i x); [lia | assumption].
             ++ intros i x Hi Hx. apply (Hb3 i x); [lia | assumption].
        * destruct (lt v m) eqn:P2.
          -- (* everything from middle on is > v *)
             destruct (IHfuel l first half Hs) as [a [b [Hr [[Ha1 [Ha2 Ha3]] [Hb1 [Hb2 Hb3]]]]]]; try lia.
             exists a, b. split; [exact Hr|]. split.
             ++ split; [lia|]. split.
                ** intros i x Hi Hx. apply (Ha2 i x); [lia | assumption].
                ** intros i x Hi Hx. destruct (le_lt_dec (first + half) i).
                   --- destruct (lt x v) eqn:Px; [|reflexivity].
                       rewrite <- P1. symmetry.
                       apply (M1 (first + half) i m x); try lia; assumption.
                   --- apply (Ha3 i x); [lia | assumption].
             ++ split; [lia|]. split.
                ** intros i x Hi Hx. apply (Hb2 i x); [lia | assumption].
                ** intros i x Hi Hx. destruct (le_lt_dec (first + half) i).
                   --- destruct (negb (lt v x)) eqn:Px; [|reflexivity].
                       assert (negb (lt v m) = true) as C.
                       { apply (M2 (first + half) i m x); try lia; assumption. }
                       rewrite P2 in C. discriminate.
                   --- apply (Hb3 i x); [lia | assumption].
          -- (* m is equivalent to v *)
             destruct (lower_bound_at_spec l v first half Hs) as [a [Ha [Ha1 [Ha2 Ha3]]]]; [lia|].
             destruct (upper_bound_at_spec l v (first + half + 1) (len - half - 1) Hs)
               as [b [Hb' [Hb1 [Hb2 Hb3]]]]; [lia|].
             unfold lower_bound_at in Ha. unfold upper_bound_at in Hb'.
             (* the inner calls run with fuel f >= their len: re-establish with that fuel *)
             assert (lb_loop lt fuel l v first half = Some a) as Ha'.
             { rewrite lb_loop_bis.
               destruct (bis_loop_spec (fun m => lt m v) fuel l first half) as [a' [Ea Pa]]; try lia.
               { apply sorted_mono_lt; assumption. }
               rewrite Ea. f_equal.
               eapply part_at_unique; [|exact Pa|]; [lia|]. split; [lia|]. split; assumption. }
             assert (ub_loop lt fuel l v (first + half + 1) (len - half - 1) = Some b) as Hb''.
             { rewrite ub_loop_bis.
               destruct (bis_loop_spec (fun m => negb (lt v m)) fuel l (first + half + 1) (len - half - 1))
                 as [b' [Eb Pb]]; try lia.
               { apply sorted_mono_le; assumption. }
               rewrite Eb. f_equal.
               eapply part_at_unique; [|exact Pb|]; [lia|]. split; [lia|]. split; assumption. }
             rewrite Ha', Hb''. exists a, b. split; [reflexivity|]. split.
             ++ split; [lia|]. split.
                ** intros i x Hi Hx. apply (Ha2 i x); [lia | assumption].
                ** intros i x Hi Hx. destruct (le_lt_dec (first + half) i).
                   --- destruct (lt x v) eqn:Px; [|reflexivity].
                       rewrite <- P1. symmetry.
                       apply (M1 (first + half) i m x); try lia; assumption.
                   --- apply (Ha3 i x); [lia | assumption].
             ++ split; [lia|]. split.
                ** intros i x Hi Hx. destruct (le_lt_dec i (first + half)).
                   --- apply (M2 i (first + half) x m); try lia; try assumption.
                       rewrite P2. reflexivity.
                   --- apply (Hb2 i x); [lia | assumption].
                ** intros i x Hi Hx. apply (Hb3 i x); [lia | assumption].
  Qed.

  Lemma equal_range_at_spec l v first len :
    sortedb lt l = true -> first + len <= length l ->
    exists a b, equal_range_at lt l v first len = Some (a, b) /\
                part_at (fun m => lt m v) l first len a /\
                part_at (fun m => negb (lt v m)) l first len b.
  Proof. intros. apply er_loop_spec; [assumption | lia | assumption]. Qed.

  Theorem equal_range_sorted l v :
    sortedb lt l = true ->
    equal_range lt l v = Some (count_lt lt l v, count_le lt l v).
  Proof.
    intros Hs. destruct (equal_range_at_spec l v 0 (length l) Hs) as [a [b [Hr [Pa Pb]]]]; [lia|].
    unfold equal_range. rewrite Hr.
    rewrite <- (part_at_count _ _ _ Pa), <- (part_at_count _ _ _ Pb). reflexivity.
  Qed.

  (* ---- membership (needs trichotomy) ---- *)
  Hypothesis lt_tricho : forall a b, lt a b = false -> lt b a = false -> a = b.

  (* a member sits exactly at the partition point of (< v) *)
  Lemma part_member l v first len r i :
    sortedb lt l = true -> part_at (fun m => lt m v) l first len r ->
    first <= i < first + len -> nth_error l i = Some v -> i = r.
  Proof.
    intros Hs [Hr [Ha Hb]] Hi Hv.
    destruct (lt_eq_lt_dec i r) as [[Hlt|Heq]|Hgt]; [|assumption|].
    - pose proof (Ha i v ltac:(lia) Hv) as C. cbn in C. rewrite lt_irrefl in C. discriminate.
    - destruct (nth_error l r) as [x|] eqn:Ex.
      2:{ apply nth_error_None in Ex. assert (i < length l) by (apply nth_error_Some; congruence). lia. }
      pose proof (Hb r x ltac:(lia) Ex) as C. cbn in C.
      rewrite (sortedb_nth l Hs r i x v) in C; [discriminate | lia | assumption | assumption].
  Qed.

  (* the element at the partition point, if any, is >= v; it is v iff v is a member *)
  Lemma part_point_elem l v r x :
    sortedb lt l = true -> part_at (fun m => lt m v) l 0 (length l) r ->
    nth_error l r = Some x -> lt x v = false /\ (lt v x = false <-> In v l).
  Proof.
    intros Hs Hp Hx. pose proof Hp as [Hr [Ha Hb]].
    assert (r < length l) as Hlt by (apply nth_error_Some; congruence).
    pose proof (Hb r x ltac:(lia) Hx) as Hxv. cbn in Hxv. split; [exact Hxv|]. split.
    - intros Hvx. rewrite <- (lt_tricho x v Hxv Hvx). eapply nth_error_In; eassumption.
    - intros Hin. apply In_nth_error in Hin. destruct Hin as [i Hi].
      assert (i < length l) by (apply nth_error_Some; congruence).
      assert (i = r) by (eapply part_member; try eassumption; lia). subst i.
      assert (x = v) by congruence. subst. apply lt_irrefl.
  Qed.

  Theorem binary_search_sorted l v :
    sortedb lt l = true ->
    exists b, binary_search lt l v = Some b /\ (b = true <-> In v l).
  Proof.
    intros Hs. destruct (lower_bound_at_spec l v 0 (length l) Hs) as [r [Hr Hp]]; [lia|].
    unfold binary_search, lower_bound. rewrite Hr.
    destruct (r =? length l) eqn:E.
    - apply Nat.eqb_eq in E. exists false. split; [reflexivity|]. split; [discriminate|].
      intros Hin. apply In_nth_error in Hin. destruct Hin as [i Hi].
      assert (i < length l) by (apply nth_error_Some; congruence).
      assert (i = r) by (eapply part_member; try eassumption; lia). lia.
    - apply Nat.eqb_neq in E. destruct Hp as [Hr' Hp'].
      destruct (nth_error l r) as [x|] eqn:Ex.
      2:{ apply nth_error_None in Ex. lia. }
      exists (negb (lt v x)). split; [reflexivity|].
      destruct (part_point_elem l v r x Hs (conj Hr' Hp') Ex) as [_ Hiff].
      rewrite negb_true_iff. exact Hiff.
  Qed.

  Theorem count_lt_member l v i :
    sortedb lt l = true -> nth_error l i = Some v -> count_lt lt l v = i.
  Proof.
    intros Hs Hv. destruct (lower_bound_at_spec l v 0 (length l) Hs) as [r [Hr Hp]]; [lia|].
    assert (i < length l) by (apply nth_error_Some; congruence).
    assert (i = r) by (eapply part_member; try eassumption; lia). subst i.
    apply part_at_count. exact Hp.
  Qed.

  (* a non-member below the maximum: the partition point holds the next larger member *)
  Theorem count_lt_nonmember l v :
    sortedb lt l = true -> ~ In v l -> count_lt lt l v < length l ->
    exists y, nth_error l (count_lt lt l v) = Some y /\ lt v y = true /\
              (forall j z, j < count_lt lt l v -> nth_error l j = Some z -> lt z v = true).
  Proof.
    intros Hs Hn Hlt. destruct (lower_bound_at_spec l v 0 (length l) Hs) as [r [Hr Hp]]; [lia|].
    assert (count_lt lt l v = r) as Hc by (apply part_at_count; exact Hp).
    rewrite Hc in *.
    destruct (nth_error l r) as [y|] eqn:Ey. 2:{ apply nth_error_None in Ey. lia. }
    exists y. split; [reflexivity|].
    destruct (part_point_elem l v r y Hs Hp Ey) as [_ Hiff]. split.
    - destruct (lt v y) eqn:E; [reflexivity|]. exfalso. apply Hn, Hiff. reflexivity.
    - destruct Hp as [_ [Ha _]]. intros j z Hj Hz. apply (Ha j z); [lia | exact Hz].
  Qed.

  (* on a strictly sorted list the equal range is non-empty exactly for members, and then
     has width one *)
  Lemma part_le_of_nonmember l v a :
    sortedb lt l = true -> ~ In v l ->
    part_at (fun m => lt m v) l 0 (length l) a ->
    part_at (fun m => negb (lt v m)) l 0 (length l) a.
  Proof.
    intros Hs Hn [Hr [Ha Hb]]. split; [exact Hr|]. split.
    - intros i x Hi Hx. apply negb_true_iff. apply lt_asym. apply (Ha i x Hi Hx).
    - intros i x Hi Hx. apply negb_false_iff.
      pose proof (Hb i x Hi Hx) as Hxv. cbn in Hxv.
      destruct (lt v x) eqn:E; [reflexivity|]. exfalso. apply Hn.
      rewrite <- (lt_tricho x v Hxv E). eapply nth_error_In; eassumption.
  Qed.

  Theorem equal_range_member l v :
    sortedb lt l = true ->
    exists a b, equal_range lt l v = Some (a, b) /\ a = count_lt lt l v /\
                (In v l -> nth_error l a = Some v /\ b = a + 1) /\ (~ In v l -> b = a).
  Proof.
    intros Hs. destruct (equal_range_at_spec l v 0 (length l) Hs) as [a [b [Hr [Pa Pb]]]]; [lia|].
    exists a, b. split; [exact Hr|]. split; [symmetry; apply part_at_count; exact Pa|]. split.
    - intros Hin. apply In_nth_error in Hin. destruct Hin as [i Hi].
      assert (i < length l) as Hil by (apply nth_error_Some; congruence).
      assert (i = a) by (eapply part_member; try eassumption; lia). subst i.
      split; [exact Hi|].
      destruct Pb as [Hb0 [Hb1 Hb2]].
      destruct (lt_eq_lt_dec b (a + 1)) as [[Hlt|Heq]|Hgt]; [|assumption|]; exfalso.
      + pose proof (Hb2 a v ltac:(lia) Hi) as C. cbn in C. rewrite lt_irrefl in C. discriminate.
      + destruct (nth_error l (a + 1)) as [x|] eqn:Ex.
        2:{ apply nth_error_None in Ex. lia. }
        pose proof (Hb1 (a + 1) x ltac:(lia) Ex) as C. cbn in C.
        rewrite (sortedb_nth l Hs a (a + 1) v x) in C; [discriminate | lia | assumption | assumption].
    - intros Hn. eapply part_at_unique; [|exact Pb|]; [lia|].
      apply part_le_of_nonmember; assumption.
  Qed.
End Order.

(* ------------------------------------------------------------------ the two orders in use *)
Local Open Scope Z_scope.

Lemma Zltb_trans a b c : (a <? b) = true -> (b <? c) = true -> (a <? c) = true.
Proof. rewrite !Z.ltb_lt. lia. Qed.
Lemma Zltb_irrefl a : (a <? a) = false.
Proof. apply Z.ltb_irrefl. Qed.
Lemma Zltb_tricho a b : (a <? b) = false -> (b <? a) = false -> a = b.
Proof. rewrite !Z.ltb_ge. lia. Qed.

Lemma str_ltb_irrefl a : str_ltb a a = false.
Proof. induction a as [|x a IH]; [reflexivity|]. cbn [str_ltb]. rewrite Z.ltb_irrefl. exact IH. Qed.

Lemma str_ltb_trans : forall a b c, str_ltb a b = true -> str_ltb b c = true -> str_ltb a c = true.
Proof.
  induction a as [|x a IH]; intros b c Hab Hbc.
  - destruct b; [discriminate|]. destruct c; [discriminate|]. reflexivity.
  - destruct b as [|y b]; [discriminate|]. destruct c as [|z c]; [discriminate|].
    cbn [str_ltb] in *.
    destruct (x <? y) eqn:Exy; destruct (y <? z) eqn:Eyz;
      try apply Z.ltb_lt in Exy; try apply Z.ltb_lt in Eyz;
      try apply Z.ltb_ge in Exy; try apply Z.ltb_ge in Eyz.
    + assert ((x <? z) = true) as -> by (apply Z.ltb_lt; lia). reflexivity.
    + destruct (z <? y) eqn:Ezy; [discriminate|]. apply Z.ltb_ge in Ezy.
      assert ((x <? z) = true) as -> by (apply Z.ltb_lt; lia). reflexivity.
    + destruct (y <? x) eqn:Eyx; [discriminate|]. apply Z.ltb_ge in Eyx.
      assert ((x <? z) = true) as -> by (apply Z.ltb_lt; lia). reflexivity.
    + destruct (y <? x) eqn:Eyx; [discriminate|]. apply Z.ltb_ge in Eyx.
      destruct (z <? y) eqn:Ezy; [discriminate|]. apply Z.ltb_ge in Ezy.
      assert (x = z) by lia. subst z. rewrite Z.ltb_irrefl.
      eapply IH; eassumption.
Qed.

Lemma str_ltb_tricho : forall a b, str_ltb a b = false -> str_ltb b a = false -> a = b.
Proof.
  induction a as [|x a IH]; intros b Hab Hba.
  - destruct b; [reflexivity | discriminate].
  - destruct b as [|y b]; [discriminate|]. cbn [str_ltb] in *.
    destruct (x <? y) eqn:Exy; [discriminate|]. destruct (y <? x) eqn:Eyx; [discriminate|].
    apply Z.ltb_ge in Exy. apply Z.ltb_ge in Eyx. assert (x = y) by lia. subst y.
    f_equal. apply IH; assumption.
Qed.

(* ------------------------------------------------------------------ packaged interface *)
Record strict_total {A : Type} (lt : A -> A -> bool) : Prop := {
  st_trans : forall a b c, lt a b = true -> lt b c = true -> lt a c = true;
  st_irrefl : forall a, lt a a = false;
  st_tricho : forall a b, lt a b = false -> lt b a = false -> a = b }.

Lemma Zltb_strict_total : strict_total Z.ltb.
Proof. split; [exact Zltb_trans | exact Zltb_irrefl | exact Zltb_tricho]. Qed.
Lemma str_ltb_strict_total : strict_total str_ltb.
Proof. split; [exact str_ltb_trans | exact str_ltb_irrefl | exact str_ltb_tricho]. Qed.

Section Packaged.
  Context {A : Type} (lt : A -> A -> bool) (O : strict_total lt).
  Let T := st_trans lt O.
  Let I := st_irrefl lt O.
  Let C := st_tricho lt O.
  Definition o_asym := lt_asym lt T I.
  Definition o_sortedb_cons := sortedb_cons lt T.
  Definition o_sortedb_nth := sortedb_nth lt T.
  Definition o_sortedb_NoDup := sortedb_NoDup lt T I.
  Definition o_lower_bound_at_spec := lower_bound_at_spec lt T.
  Definition o_upper_bound_at_spec := upper_bound_at_spec lt T.
  Definition o_equal_range_at_spec := equal_range_at_spec lt T I.
  Definition o_lower_bound_sorted := lower_bound_sorted lt T.
  Definition o_upper_bound_sorted := upper_bound_sorted lt T.
  Definition o_equal_range_sorted := equal_range_sorted lt T I.
  Definition o_equal_range_member := equal_range_member lt T I C.
  Definition o_binary_search_sorted := binary_search_sorted lt T I C.
  Definition o_part_member := part_member lt T I.
  Definition o_part_point_elem := part_point_elem lt T I C.
  Definition o_part_le_of_nonmember := part_le_of_nonmember lt T I C.
  Definition o_count_lt_member := count_lt_member lt T I.
  Definition o_count_lt_nonmember := count_lt_nonmember lt T I C.
End Packaged.
