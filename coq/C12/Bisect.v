(* Model of the libstdc++ bisection algorithms used by the fix8 lookup code:
     std::__lower_bound (bits/stl_algobase.h), std::__upper_bound, std::__equal_range,
     std::binary_search (bits/stl_algo.h)   -- g++ 12,
   transcribed statement by statement on index ranges of a list (the array) under a
   comparator [lt] (operator< or the comparison functor).  A range is (first, len); reading an
   index outside the list is an out-of-bounds read.  No proofs in this file.

   Result [None] = model error: out of fuel or an out-of-bounds read; BisectProofs shows that it
   never happens when first + len <= length l and fuel >= len. *)
From Coq Require Import Arith List Bool.
Import ListNotations.

Section Bisect.
  Context {A : Type}.
  Variable lt : A -> A -> bool.

  (* while (__len > 0) { __half = __len >> 1; __middle = __first + __half;
       if (__comp(__middle, __val)) { __first = __middle; ++__first; __len = __len - __half - 1; }
       else __len = __half; }
     return __first; *)
  Fixpoint lb_loop (fuel : nat) (l : list A) (v : A) (first len : nat) : option nat :=
    if len =? 0 then Some first else
    match fuel with
    | O => None
    | S f =>
      let half := Nat.div2 len in
      let middle := first + half in
      match nth_error l middle with
      | None => None
      | Some m =>
        if lt m v then lb_loop f l v (middle + 1) (len - half - 1)
        else lb_loop f l v first half
      end
    end.

  (* while (__len > 0) { __half = __len >> 1; __middle = __first + __half;
       if (__comp(__val, __middle)) __len = __half;
       else { __first = __middle; ++__first; __len = __len - __half - 1; } }
     return __first; *)
  Fixpoint ub_loop (fuel : nat) (l : list A) (v : A) (first len : nat) : option nat :=
    if len =? 0 then Some first else
    match fuel with
    | O => None
    | S f =>
      let half := Nat.div2 len in
      let middle := first + half in
      match nth_error l middle with
      | None => None
      | Some m =>
        if lt v m then ub_loop f l v first half
        else ub_loop f l v (middle + 1) (len - half - 1)
      end
    end.

  (* __equal_range: the same loop with a three-way split; on an equivalent element
       __left  = __lower_bound(__first, __middle, ...)           (range first, half)
       advance(__first, __len);
       __right = __upper_bound(++__middle, __first, ...)         (range middle+1, len-half-1) *)
  Fixpoint er_loop (fuel : nat) (l : list A) (v : A) (first len : nat) : option (nat * nat) :=
    if len =? 0 then Some (first, first) else
    match fuel with
    | O => None
    | S f =>
      let half := Nat.div2 len in
      let middle := first + half in
      match nth_error l middle with
      | None => None
      | Some m =>
        if lt m v then er_loop f l v (middle + 1) (len - half - 1)
        else if lt v m then er_loop f l v first half
        else
          match lb_loop f l v first half, ub_loop f l v (middle + 1) (len - half - 1) with
          | Some lo, Some hi => Some (lo, hi)
          | _, _ => None
          end
      end
    end.

  (* the calls on the range [first, first+len) of the array l *)
  Definition lower_bound_at (l : list A) (v : A) (first len : nat) : option nat :=
    lb_loop len l v first len.
  Definition upper_bound_at (l : list A) (v : A) (first len : nat) : option nat :=
    ub_loop len l v first len.
  Definition equal_range_at (l : list A) (v : A) (first len : nat) : option (nat * nat) :=
    er_loop len l v first len.

  (* whole array: std::lower_bound(rng, rng + sz, v) *)
  Definition lower_bound (l : list A) (v : A) : option nat := lower_bound_at l v 0 (length l).
  Definition upper_bound (l : list A) (v : A) : option nat := upper_bound_at l v 0 (length l).
  Definition equal_range (l : list A) (v : A) : option (nat * nat) := equal_range_at l v 0 (length l).

  (* std::binary_search: __i = __lower_bound(first, last, val); return __i != __last && !(__val < *__i); *)
  Definition binary_search (l : list A) (v : A) : option bool :=
    match lower_bound l v with
    | None => None
    | Some i =>
      if i =? length l then Some false
      else match nth_error l i with
           | None => None
           | Some x => Some (negb (lt v x))
           end
    end.

  (* strictly increasing under lt (checked on adjacent elements); evaluated on every dumped
     table at run time, and the hypothesis of the theorems *)
  Fixpoint sortedb (l : list A) : bool :=
    match l with
    | x :: ((y :: _) as t) => lt x y && sortedb t
    | _ => true
    end.

  Definition count_lt (l : list A) (v : A) : nat := length (filter (fun x => lt x v) l).
  Definition count_le (l : list A) (v : A) : nat := length (filter (fun x => negb (lt v x)) l).
End Bisect.

(* ---- orders used by the instances ---- *)
From Coq Require Import ZArith.
Local Open Scope Z_scope.

(* std::string operator< / strcmp on NUL-free strings: lexicographic on unsigned bytes,
   a proper prefix is smaller *)
Fixpoint str_ltb (a b : list Z) : bool :=
  match a, b with
  | _, [] => false
  | [], _ :: _ => true
  | x :: a', y :: b' => if x <? y then true else if y <? x then false else str_ltb a' b'
  end.
