(* C21: two fix8 sessions -- an initiator and an acceptor, each the session model of coq/Sess (Sess.Session /
   Sess.Wire, not edited) with its own FilePersister model -- joined by two in-flight buffers, and the schedule
   operations that drive them.  The twin of harness/h_c21.cpp.

   Both sessions are created at virtual time T0 (the clock never moves): the acceptor first (START A file asa=0,
   SRV:CLI, waits for a Logon), then the initiator (START I file asa=0, CLI:SRV, its Logon goes in flight).
   A schedule (the CASE LINE) is a list of operations separated by '|':
     SI <msgspec> / SA <msgspec>   the application of the initiator / acceptor calls Session::send (Sess.Wire SEND syntax);
                                   what the session writes goes in flight towards the other side
     DA / DI                       the bytes in flight towards the acceptor / initiator arrive (one message per chunk) and
                                   are processed; what the receiver writes goes in flight the other way
     D                             DA, DI repeated until nothing is in flight (at most `quiesce_fuel` rounds)
     DROP                          the connection drops: the bytes in flight in both directions are LOST; both sides
                                   reconnect = acceptor instance and initiator re-created on their persister files
                                   (Sess.Wire RESTART), the initiator's new Logon goes in flight
     OI <msgspec> / OA <msgspec>   OVERLAP: Session::send on the initiator / acceptor, and while that send is between the
                                   assignment of its MsgSeqNum and the write of its control record (the modify_outbound
                                   hook) the FIRST message in flight towards the sender arrives and is fully processed by
                                   its reader thread.  The control record of a send reads next_recv when it is written,
                                   so this is: process that one message, then send
     CFG <a> <b>                   the operators force the numbers: in-flight bytes lost, both sides re-created on their
                                   files with start arguments (Session::start send/receive numbers) initiator ss=a rs=b,
                                   acceptor ss=b rs=a; every LATER reconnect recovers the numbers from the files only
     RI / RA                       the initiator / acceptor PROCESS restarts: the bytes in flight towards the surviving
                                   side still arrive and are processed (its answers go nowhere), the bytes in flight
                                   towards the restarted side are lost; then both sides are re-created as for DROP
   The trace has one step per operation (step 0 = creation): the events of each side in order and each side's
   snapshot, rendered "<initiator step> # <acceptor step>", steps joined by " | ".
   No proofs in this file. *)
From Coq Require Import NArith ZArith List Bool.
From F8 Require Import Sess.Bytes Sess.Msg Sess.Persist Sess.Session Sess.SimpleCodec Sess.Wire C20.Peer.
Import ListNotations.
Local Open Scope N_scope.

Inductive sop :=
| SSendI (txt : bytes) (m : msgspec)
| SSendA (txt : bytes) (m : msgspec)
| SDeliverA
| SDeliverI
| SDeliver
| SDrop
| SRestartI
| SRestartA
| SCfg (a b : N)
| SOverI (txt : bytes) (m : msgspec)
| SOverA (txt : bytes) (m : msgspec)
| SBad.

Record tp := mkTP {
  tp_i : world;                 (* the initiator: session, disk *)
  tp_a : world;                 (* the acceptor *)
  tp_ia : list bytes;           (* in flight initiator -> acceptor, one FIX message per element *)
  tp_ai : list bytes            (* in flight acceptor -> initiator *)
}.

Definition sp_i : startp := mkStart Initiator PFile [67;76;73] [83;82;86] (mkParams false true false false []) 30 0 0.
Definition sp_a : startp := mkStart Acceptor PFile [83;82;86] [67;76;73] (mkParams false true false false []) 30 0 0.

(* what a side wrote to its socket *)
Definition outs (evs : list event) : list bytes :=
  flat_map (fun e => match e with EOut b => [b] | EOutRaw b => [b] | _ => [] end) evs.

Definition quiesce_fuel : nat := 6.

Section TP.
Variable sc : schema.
Variable decode : bytes -> decode_result.
Variable fl : bytes.

Definition side_op (w : world) (o : op) : world * list event := step_op sc decode fl w o.

(* a composite operation: new state, the initiator's events, the acceptor's events *)
Definition res := (tp * list event * list event)%type.

Definition send_i (t : tp) (m : msgspec) : res :=
  let '(w, e) := side_op (tp_i t) (OSend m) in
  (mkTP w (tp_a t) (tp_ia t ++ outs e)%list (tp_ai t), e, []).
Definition send_a (t : tp) (m : msgspec) : res :=
  let '(w, e) := side_op (tp_a t) (OSend m) in
  (mkTP (tp_i t) w (tp_ia t) (tp_ai t ++ outs e)%list, [], e).

Definition deliver_a (t : tp) : res :=
  match tp_ia t with
  | [] => (t, [], [])
  | l => let '(w, e) := side_op (tp_a t) (OIn l) in
         (mkTP (tp_i t) w [] (tp_ai t ++ outs e)%list, [], e)
  end.
Definition deliver_i (t : tp) : res :=
  match tp_ai t with
  | [] => (t, [], [])
  | l => let '(w, e) := side_op (tp_i t) (OIn l) in
         (mkTP w (tp_a t) (tp_ia t ++ outs e)%list [], e, [])
  end.

(* only the first message in flight arrives *)
Definition deliver_one_a (t : tp) : res :=
  match tp_ia t with
  | [] => (t, [], [])
  | x :: l => let '(w, e) := side_op (tp_a t) (OIn [x]) in
              (mkTP (tp_i t) w l (tp_ai t ++ outs e)%list, [], e)
  end.
Definition deliver_one_i (t : tp) : res :=
  match tp_ai t with
  | [] => (t, [], [])
  | x :: l => let '(w, e) := side_op (tp_i t) (OIn [x]) in
              (mkTP w (tp_a t) (tp_ia t ++ outs e)%list l, e, [])
  end.

Definition seq2 (f g : tp -> res) (t : tp) : res :=
  let '(t1, i1, a1) := f t in
  let '(t2, i2, a2) := g t1 in
  (t2, (i1 ++ i2)%list, (a1 ++ a2)%list).

Fixpoint quiesce (fuel : nat) (t : tp) : res :=
  match fuel with
  | O => (t, [], [])
  | S f =>
    match tp_ia t, tp_ai t with
    | [], [] => (t, [], [])
    | _, _ => seq2 (seq2 deliver_a deliver_i) (quiesce f) t
    end
  end.

(* harness teardown, then START with the given parameters on the same files (Sess.Wire's RESTART with new start
   arguments) *)
Definition restart_with (p : startp) (w : world) : world * list event :=
  let w1 := teardown w in
  do_start sc (mkWorld (w_sess w1) (w_now w1) p (w_disk w1) (w_snap w1)).

(* both sides re-created on their files; nothing is in flight but the initiator's new Logon *)
Definition reconnect_with (pi pa : startp) (t : tp) : res :=
  let '(wa, ea) := restart_with pa (tp_a t) in
  let '(wi, ei) := restart_with pi (tp_i t) in
  (mkTP wi wa (outs ei) (outs ea), ei, ea).
Definition reconnect : tp -> res := reconnect_with sp_i sp_a.

Definition with_numbers (p : startp) (ss rs : N) : startp :=
  mkStart (sp_role p) (sp_pk p) (sp_snd p) (sp_tgt p) (sp_par p) (sp_hb p) ss rs.

Definition lose_flight (t : tp) : res := (mkTP (tp_i t) (tp_a t) [] [], [], []).
Definition lose_ia (t : tp) : res := (mkTP (tp_i t) (tp_a t) [] (tp_ai t), [], []).
Definition lose_ai (t : tp) : res := (mkTP (tp_i t) (tp_a t) (tp_ia t) [], [], []).

Definition run_sop (t : tp) (o : sop) : res :=
  match o with
  | SSendI _ m => send_i t m
  | SSendA _ m => send_a t m
  | SDeliverA => deliver_a t
  | SDeliverI => deliver_i t
  | SDeliver => quiesce quiesce_fuel t
  | SDrop => seq2 lose_flight reconnect t
  | SRestartI => seq2 (seq2 lose_ai deliver_a) (seq2 lose_flight reconnect) t
  | SRestartA => seq2 (seq2 lose_ia deliver_i) (seq2 lose_flight reconnect) t
  | SOverI _ m => seq2 deliver_one_i (fun t1 => send_i t1 m) t
  | SOverA _ m => seq2 deliver_one_a (fun t1 => send_a t1 m) t
  | SCfg a b => seq2 lose_flight (reconnect_with (with_numbers sp_i a b) (with_numbers sp_a b a)) t
  | SBad => (t, [ENote [66;65;68;79;80]], [ENote [66;65;68;79;80]])
  end.

(* creation: acceptor, then initiator *)
Definition tp_init : res :=
  let '(wa, ea) := side_op world0 (OStart sp_a None) in
  let '(wi, ei) := side_op world0 (OStart sp_i None) in
  (mkTP wi wa (outs ei) (outs ea), ei, ea).

Definition tstep := (step * step)%type.

(* take both snapshots *)
Definition snap2 (r : res) : tp * tstep :=
  let '(t, ei, ea) := r in
  let '(wi, si) := snapshot (tp_i t) in
  let '(wa, sa) := snapshot (tp_a t) in
  (mkTP wi wa (tp_ia t) (tp_ai t), (mkStep ei si, mkStep ea sa)).

Fixpoint run_sops (t : tp) (l : list sop) : list tstep :=
  match l with
  | [] => []
  | o :: l' => let '(t1, st) := snap2 (run_sop t o) in st :: run_sops t1 l'
  end.

Definition run_schedule (l : list sop) : list tstep :=
  let '(t0, st0) := snap2 tp_init in st0 :: run_sops t0 l.

End TP.

(* ---- concrete syntax ---------------------------------------------------------------------------------------------- *)
Definition parse_sop (t : bytes) : sop :=
  match words t with
  | [name] =>
    if beq name [68;65] then SDeliverA                       (* DA *)
    else if beq name [68;73] then SDeliverI                  (* DI *)
    else if beq name [68] then SDeliver                      (* D *)
    else if beq name [68;82;79;80] then SDrop                (* DROP *)
    else if beq name [82;73] then SRestartI                  (* RI *)
    else if beq name [82;65] then SRestartA                  (* RA *)
    else SBad
  | [name; a] =>
    if beq name [83;73] then SSendI t (parse_spec a)         (* SI *)
    else if beq name [83;65] then SSendA t (parse_spec a)    (* SA *)
    else if beq name [79;73] then SOverI t (parse_spec a)    (* OI *)
    else if beq name [79;65] then SOverA t (parse_spec a)    (* OA *)
    else SBad
  | [name; a; b] =>
    if beq name [67;70;71] then                               (* CFG *)
      match parse_num a, parse_num b with Some x, Some y => SCfg x y | _, _ => SBad end
    else SBad
  | _ => SBad
  end.

Definition parse_schedule (line : bytes) : list sop := map parse_sop (split_on 124 line).

Definition render_tstep (st : tstep) : bytes := (render_step (fst st) ++ [32;35;32] ++ render_step (snd st))%list.
Definition render_ttrace (l : list tstep) : bytes := join [32;124;32] (map render_tstep l).

(* result line -> steps of both sides (for the oracle, applied to either side's output) *)
Definition parse_tstep (l : bytes) : tstep :=
  match cut 35 l with
  | (a, Some b) => (parse_step a, parse_step b)
  | (a, None) => (parse_step a, mkStep [ENote [63]] None)
  end.
Definition parse_ttrace (line : bytes) : list tstep := map parse_tstep (split_on 124 line).

(* the whole model on a case line; decoding = Sess.SimpleCodec as in Sess.Wire *)
Definition c21_model_line (sc : schema) (line : bytes) : bytes :=
  render_ttrace (run_schedule sc (simple_decode sc []) [] (parse_schedule line)).
