(* C21: does a schedule LOSE bytes?  Read off the observables (schedule + trace of either side): the messages each
   side wrote (OUT events) are in flight until the schedule delivers them; a DROP loses what is in flight in both
   directions; a process restart (RI / RA) loses what is in flight towards the restarted side and what the
   surviving side writes in answer to the bytes that still reach it.
     c21_class = 1 : some reconnect of the schedule lost at least one message ("a drop of in-flight messages")
                 0 : no message was ever lost (reconnects, if any, happened on a quiet connection)
   Definitions only. *)
From Coq Require Import NArith ZArith List Bool.
From F8 Require Import Sess.Bytes Sess.Msg Sess.Persist Sess.Session Sess.Wire C21.TwoParty.
Import ListNotations.
Local Open Scope N_scope.

Definition nouts (evs : list event) : nat := length (outs evs).

(* ia, ai: number of messages in flight towards the acceptor / the initiator *)
Fixpoint lossy (l : list sop) (tr : list tstep) (ia ai : nat) : bool :=
  match l, tr with
  | o :: l', st :: tr' =>
    let oi := nouts (st_events (fst st)) in
    let oa := nouts (st_events (snd st)) in
    match o with
    | SSendI _ _ => lossy l' tr' (ia + oi) ai
    | SSendA _ _ => lossy l' tr' ia (ai + oa)
    | SDeliverA => lossy l' tr' 0 (ai + oa)
    | SDeliverI => lossy l' tr' (ia + oi) 0
    | SDeliver => lossy l' tr' 0 0
    | SDrop => negb (Nat.eqb (ia + ai) 0) || lossy l' tr' oi oa
    | SRestartI => negb (Nat.eqb (ai + oa) 0) || lossy l' tr' oi 0
    | SRestartA =>
      (* the initiator's last message of the step is its new Logon *)
      negb (Nat.eqb (ia + (oi - 1)) 0) || lossy l' tr' (Nat.min oi 1) 0
    | SOverI _ _ => lossy l' tr' (ia + oi) (Nat.pred ai + oa)
    | SOverA _ _ => lossy l' tr' (Nat.pred ia + oi) (ai + oa)
    | SCfg _ _ => lossy l' tr' oi oa          (* the numbers are forced: what was in flight does not count *)
    | SBad => lossy l' tr' ia ai
    end
  | _, _ => false
  end.

Definition c21_class (sched : list sop) (tr : list tstep) : N :=
  match tr with
  | st0 :: tr' => if lossy sched tr' (nouts (st_events (fst st0))) (nouts (st_events (snd st0))) then 1 else 0
  | [] => 0
  end.

Definition c21_class_line (case result : bytes) : N := c21_class (parse_schedule case) (parse_ttrace result).
