(* C21: witness schedules on the small concrete schema of C20/Example.v.  Definitions only. *)
From Coq Require Import NArith ZArith List Bool.
From F8 Require Import Sess.Bytes Sess.Msg Sess.Persist Sess.Session Sess.SimpleCodec Sess.Wire
  C20.Peer C20.Example C21.TwoParty C21.Spec_C21 C21.Loss.
Import ListNotations.
Local Open Scope N_scope.

(* SEND D with the six mandatory body fields *)
Definition spec_D : msgspec := mkSpec [68] [] body_D 0 false true.
Definition SI_D : sop := SSendI [] spec_D.
Definition SA_D : sop := SSendA [] spec_D.

Definition run21 (l : list sop) : list tstep := run_schedule mini (simple_decode mini []) [] l.

(* logon; the acceptor's application sends one message; the connection drops before it arrives; reconnect *)
Definition w_one_drop : list sop := [SDeliver; SA_D; SDrop; SDeliver].
(* the same without the drop; and with a drop on a quiet connection *)
Definition w_no_fault : list sop := [SDeliver; SI_D; SA_D; SDeliverA; SI_D; SA_D; SDeliver; SA_D; SDeliverI; SDeliver].
Definition w_quiet_drop : list sop := [SDeliver; SI_D; SA_D; SDeliver; SDrop; SDeliver; SI_D; SA_D; SDeliver].
(* the very first Logon is lost *)
Definition w_logon_lost : list sop := [SDrop; SDeliver].

Definition states21 (tr : list tstep) : list (N * N) :=
  map (fun st => (match st_snap (fst st) with Some sn => sn_state sn | None => 0 end,
                  match st_snap (snd st) with Some sn => sn_state sn | None => 0 end)) tr.
Definition recvs21 (tr : list tstep) : list (N * N) :=
  map (fun st => (match st_snap (fst st) with Some sn => sn_recv sn | None => 0 end,
                  match st_snap (snd st) with Some sn => sn_recv sn | None => 0 end)) tr.

(* ---- a concrete instance of the hypotheses of c21_nofault_partial ------------------------------------------------- *)
From F8 Require Import C21.Pair.
Fixpoint tp_after (t : tp) (l : list sop) : tp :=
  match l with
  | [] => t
  | o :: l' => tp_after (fst (snap2 (run_sop mini dec_mini [] t o))) l'
  end.
(* both sessions created, Logon exchange done *)
Definition t_logged : tp := tp_after (fst (snap2 (tp_init mini dec_mini []))) [SDeliver].
Definition m_D : msg := match build_msg mini spec_D with Some m => m | None => new_msg [] end.
Definition sops_w : list sop := [SI_D; SA_D; SDeliverA; SI_D; SA_D; SDeliverI; SI_D].
Definition fops_w : list fop := [FSendI m_D; FSendA m_D; FDeliverA; FSendI m_D; FSendA m_D; FDeliverI; FSendI m_D].
