(* Property C21 "Two fix8 sessions deliver every application message across failures" as an executable predicate on
   observables: the schedule (case line) and the trace of the two sessions (the real ones or the model's).
   Written from the property text; it does not call the session model nor C21/TwoParty.run_schedule (it shares the
   schedule syntax, the trace syntax and the tag=value utilities).

   An application message counts as SENT when Session::send returned true and a message of its type went out on
   the sender's socket; its number is the MsgSeqNum on the wire.  It counts as DELIVERED when the other side's
   application is handed a message of that type and number (DELIVER event).  Sends after the last D operation of
   the schedule are still in flight and are not owed.
     (delivered)    every owed message is delivered at least once, not before it was sent;
     (ordered)      on each side the FIRST deliveries happen in ascending number (= send) order;
     (dupflag)      every delivery of a number that was delivered before carries PossDupFlag;
     (established)  after every D operation both sessions are in state continuous, and no session ever writes a
                    Logout (nobody terminates the other for a sequence-number reason).
   Schedules in which the acceptor's application sends while its session still waits for the Logon are not judged.
   c21_exact (used for fault-free schedules): every owed message is delivered exactly once, never PossDup. *)
From Coq Require Import NArith ZArith List Bool.
From F8 Require Import Sess.Bytes Sess.Msg Sess.Persist Sess.Session Sess.Wire C21.TwoParty.
Import ListNotations.
Local Open Scope N_scope.

Definition type_of (raw : bytes) : bytes :=
  match tok_get [51;53] (tokens raw) with Some t => t | None => [] end.
Definition seq_of (raw : bytes) : option N :=
  match tok_get [51;52] (tokens raw) with Some v => undec v | None => None end.

Definition ret_true (evs : list event) : bool :=
  existsb (fun e => match e with ERet z => (z =? 1)%Z | _ => false end) evs.

(* the number under which a SEND step put a message of type t on the wire *)
Fixpoint sent_seq (t : bytes) (evs : list event) : option N :=
  match evs with
  | [] => None
  | EOut b :: r => if beq (type_of b) t then seq_of b else sent_seq t r
  | _ :: r => sent_seq t r
  end.

Definition dels_of (evs : list event) : list (bytes * N * bool) :=
  flat_map (fun e => match e with EDeliver t q pd => [(t, q, pd)] | _ => [] end) evs.

Definition writes_logout (evs : list event) : bool :=
  existsb (fun e => match e with EOut b => beq (type_of b) [53] | _ => false end) evs.

Definition state_is (st : step) (n : N) : bool :=
  match st_snap st with Some sn => sn_state sn =? n | None => false end.

(* index of the last D in the schedule (steps are numbered from 1; 0 = none) *)
Fixpoint last_d (l : list sop) (k cur : nat) : nat :=
  match l with
  | [] => cur
  | SDeliver :: r => last_d r (S k) k
  | _ :: r => last_d r (S k) cur
  end.

(* owed messages of one direction: (type, number, step index of the send) *)
Fixpoint owed (from_i : bool) (l : list sop) (tr : list tstep) (k lastd : nat) : list (bytes * N * nat) :=
  match l, tr with
  | o :: l', st :: tr' =>
    let here :=
      match o with
      | SSendI _ m =>
        if from_i && (Nat.ltb k lastd) && ret_true (st_events (fst st)) then
          match sent_seq (ms_type m) (st_events (fst st)) with Some q => [(ms_type m, q, k)] | None => [] end
        else []
      | SSendA _ m =>
        if negb from_i && (Nat.ltb k lastd) && ret_true (st_events (snd st)) then
          match sent_seq (ms_type m) (st_events (snd st)) with Some q => [(ms_type m, q, k)] | None => [] end
        else []
      | SOverI _ m =>
        if from_i && (Nat.ltb k lastd) && ret_true (st_events (fst st)) then
          match sent_seq (ms_type m) (st_events (fst st)) with Some q => [(ms_type m, q, k)] | None => [] end
        else []
      | SOverA _ m =>
        if negb from_i && (Nat.ltb k lastd) && ret_true (st_events (snd st)) then
          match sent_seq (ms_type m) (st_events (snd st)) with Some q => [(ms_type m, q, k)] | None => [] end
        else []
      | _ => []
      end in
    (here ++ owed from_i l' tr' (S k) lastd)%list
  | _, _ => []
  end.

(* the deliveries of one side with the index of the step in which they happened *)
Fixpoint deliveries_at (at_a : bool) (tr : list tstep) (k : nat) : list (bytes * N * bool * nat) :=
  match tr with
  | [] => []
  | st :: tr' =>
    (map (fun d => (d, k)) (dels_of (st_events (if at_a then snd st else fst st))) ++ deliveries_at at_a tr' (S k))%list
  end.

Definition delivered_ok (ow : list (bytes * N * nat)) (ds : list (bytes * N * bool * nat)) : bool :=
  forallb (fun o => let '(t, q, k) := o in
                    existsb (fun d => let '(t', q', _, k') := d in beq t t' && (q =? q') && (Nat.leb k k')) ds) ow.

(* scanning the deliveries in time order: `seen` = numbers delivered so far, `top` = the highest *)
Fixpoint order_ok (ds : list (bytes * N * bool * nat)) (seen : list N) (top : N) : bool :=
  match ds with
  | [] => true
  | (_, q, pd, _) :: r =>
    if existsb (N.eqb q) seen then pd && order_ok r seen top
    else (top <? q) && order_ok r (q :: seen) q
  end.

Fixpoint established (l : list sop) (tr : list tstep) : bool :=
  match l, tr with
  | o :: l', st :: tr' =>
    negb (writes_logout (st_events (fst st))) && negb (writes_logout (st_events (snd st))) &&
    match o with
    | SDeliver => state_is (fst st) 1 && state_is (snd st) 1
    | _ => true
    end && established l' tr'
  | [], [] => true
  | _, _ => false
  end.

(* the acceptor's application sends only once its session is logged on (before the Logon the acceptor does not know
   its counterparty): prev = the acceptor's step before the operation *)
Fixpoint sched_valid (l : list sop) (tr : list tstep) (prev : step) : bool :=
  match l, tr with
  | o :: l', st :: tr' =>
    match o with SSendA _ _ => negb (state_is prev 3) | SOverA _ _ => negb (state_is prev 3) | _ => true end && sched_valid l' tr' (snd st)
  | _, _ => true
  end.

Definition c21_ok (sched : list sop) (tr : list tstep) : bool :=
  match tr with
  | [] => false
  | st0 :: tr' =>
    negb (sched_valid sched tr' (snd st0)) ||
    let ld := last_d sched 1 0 in
    let di := deliveries_at false tr 0 in          (* at the initiator: what the acceptor sent *)
    let da := deliveries_at true tr 0 in
    delivered_ok (owed true sched tr' 1 ld) da && delivered_ok (owed false sched tr' 1 ld) di &&
    order_ok da [] 0 && order_ok di [] 0 &&
    negb (writes_logout (st_events (fst st0))) && negb (writes_logout (st_events (snd st0))) &&
    established sched tr'
  end.

Definition exact_ok (ow : list (bytes * N * nat)) (ds : list (bytes * N * bool * nat)) : bool :=
  forallb (fun o => let '(t, q, _) := o in
                    match filter (fun d => let '(t', q', _, _) := d in beq t t' && (q =? q')) ds with
                    | [(_, _, false, _)] => true
                    | _ => false
                    end) ow.

Definition c21_exact (sched : list sop) (tr : list tstep) : bool :=
  match tr with
  | [] => false
  | _ :: tr' =>
    let ld := last_d sched 1 0 in
    exact_ok (owed true sched tr' 1 ld) (deliveries_at true tr 0) &&
    exact_ok (owed false sched tr' 1 ld) (deliveries_at false tr 0)
  end.

(* ---- classification (the hypothesis of c21_nofault_partial, negated) --------------------------------------------- *)
(* 1 = the schedule contains a DROP / RI / RA (a reconnect); 0 = no fault *)
Definition has_fault (sched : list sop) : bool :=
  existsb (fun o => match o with SDrop | SRestartI | SRestartA => true | _ => false end) sched.

Definition c21_ok_line (case result : bytes) : bool := c21_ok (parse_schedule case) (parse_ttrace result).
Definition c21_exact_line (case result : bytes) : bool := c21_exact (parse_schedule case) (parse_ttrace result).
