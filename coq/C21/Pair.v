(* C21: the fault-free core of the two-party model at the level of the two session states (no Sess.Wire world
   around them): the four operations of a schedule without drops and restarts.  C21/NoFaultProofs.v proves the
   delivery theorem about it and that TwoParty.run_sop computes exactly this on the sessions inside its worlds.
   Definitions only. *)
From Coq Require Import NArith ZArith List Bool.
From F8 Require Import Sess.Bytes Sess.Msg Sess.Persist Sess.Session Sess.Wire C21.TwoParty.
Import ListNotations.
Local Open Scope N_scope.

Record pair := mkPair {
  pa_i : sess;                  (* the initiator's session *)
  pa_a : sess;                  (* the acceptor's *)
  pa_ia : list bytes;           (* in flight initiator -> acceptor *)
  pa_ai : list bytes            (* in flight acceptor -> initiator *)
}.

Inductive fop :=
| FSendI (m : msg)              (* Session::send(m) on the initiator *)
| FSendA (m : msg)
| FDeliverA                     (* what is in flight towards the acceptor arrives *)
| FDeliverI.

Section Pair.
Variable sc : schema.
Variable decode : bytes -> decode_result.
Variable fl : bytes.
Variable now : Z.

(* new pair, the initiator's events, the acceptor's events *)
Definition fstep (p : pair) (o : fop) : pair * list event * list event :=
  match o with
  | FSendI m =>
    let '(ok, s, e) := send sc now (pa_i p) m 0 false in
    (mkPair s (pa_a p) (pa_ia p ++ outs e)%list (pa_ai p), (e ++ [ERet (if ok then 1 else 0)%Z])%list, [])
  | FSendA m =>
    let '(ok, s, e) := send sc now (pa_a p) m 0 false in
    (mkPair (pa_i p) s (pa_ia p) (pa_ai p ++ outs e)%list, [], (e ++ [ERet (if ok then 1 else 0)%Z])%list)
  | FDeliverA =>
    match pa_ia p with
    | [] => (p, [], [])
    | l => let '(s, e) := feed sc decode fl now l (pa_a p) in
           (mkPair (pa_i p) s [] (pa_ai p ++ outs e)%list, [], e)
    end
  | FDeliverI =>
    match pa_ai p with
    | [] => (p, [], [])
    | l => let '(s, e) := feed sc decode fl now l (pa_i p) in
           (mkPair s (pa_a p) (pa_ia p ++ outs e)%list [], e, [])
    end
  end.

Fixpoint frun (p : pair) (l : list fop) : pair * list event * list event :=
  match l with
  | [] => (p, [], [])
  | o :: l' =>
    let '(p1, i1, a1) := fstep p o in
    let '(p2, i2, a2) := frun p1 l' in
    (p2, (i1 ++ i2)%list, (a1 ++ a2)%list)
  end.

End Pair.

(* an application message as the schedules' SEND operations build it: a known application type, body fields only *)
Definition simple_app (m : msg) : bool :=
  negb (C20.Peer.is_session_type (m_type m)) &&
  match m_hdr m with [] => true | _ => false end &&
  (m_custom m =? 0) && negb (m_noinc m) && m_eob m &&
  forallb (fun b => negb (b =? SOH)) (m_type m) &&
  forallb (fun f => forallb (fun b => negb (b =? SOH)) (f_val f)) (m_body m) &&
  negb (has_field T_MsgSeqNum (m_body m)) && negb (has_field T_PossDupFlag (m_body m)).

(* ---- boolean forms (for checking concrete instances) --------------------------------------------------------------- *)
From F8 Require Import Sess.SendLemmas C20.Classify.

Definition readyb (s : sess) : bool :=
  s_reader s && s_active s && negb (s_shutdown s) && (s_state s =? st_continuous) && negb (s_closed s) &&
  match s_batch s with [] => true | _ => false end && wf_sess s.

Definition syncedb (p : pair) : bool :=
  readyb (pa_i p) && readyb (pa_a p) &&
  beq (s_snd (pa_i p)) (s_tgt (pa_a p)) && beq (s_tgt (pa_i p)) (s_snd (pa_a p)) &&
  match pa_ia p with [] => true | _ => false end && match pa_ai p with [] => true | _ => false end &&
  (s_next_recv (pa_a p) =? s_next_send (pa_i p)) && (s_next_recv (pa_i p) =? s_next_send (pa_a p)).

Section PairB.
Variable sc : schema.
Variable decode : bytes -> decode_result.
Variable fl : bytes.
Variable now : Z.

Definition codec_atb (s r : sess) (m : msg) : bool :=
  match item_of decode r (wire sc now s m) with
  | Some it => bitem_eqb it (BApp (m_type m) (s_next_send s) false)
  | None => false
  end.

Definition valid_opb (p : pair) (o : fop) : bool :=
  match o with
  | FSendI m => simple_app m && codec_atb (pa_i p) (pa_a p) m
  | FSendA m => simple_app m && codec_atb (pa_a p) (pa_i p) m
  | _ => true
  end.

Fixpoint valid_runb (p : pair) (l : list fop) : bool :=
  match l with
  | [] => true
  | o :: l' => valid_opb p o && valid_runb (fst (fst (fstep sc decode fl now p o))) l'
  end.
End PairB.

Definition proj_pair (t : tp) : option pair :=
  match w_sess (tp_i t), w_sess (tp_a t) with
  | Some si, Some sa => Some (mkPair si sa (tp_ia t) (tp_ai t))
  | _, _ => None
  end.
