(* C21: the delivery theorem for schedules without drops and restarts (c21_nofault_partial), by induction over the
   schedule with the invariant
       what is in flight towards a side is exactly the consecutively numbered new application messages between
       that side's expected number and the other side's next outbound number,
   on top of the send lemmas of coq/Sess/SendLemmas.v and the stream lemmas of coq/C20.  Proofs only.

   The one hypothesis about bytes (`codec_at`, part of valid_run): each application message, as fix8's own send path
   writes it (SendLemmas.wire: CompIDs, MsgSeqNum = next_send, SendingTime added; Message::encode), is read back by
   the other side's decoder as "application message of that type, that number, no PossDupFlag, CompIDs as expected"
   (C20.Classify.item_of = the number Session::process scans from the raw bytes + the decoded form).  It is a
   per-message, executable condition about the codec alone; it holds on every message of the correspondence run (the
   model trace would differ from the real one otherwise) and is evaluated for the witness schedule in the Props file. *)
From Coq Require Import NArith ZArith List Bool Lia.
From F8 Require Import Sess.Bytes Sess.Msg Sess.Persist Sess.Session Sess.Wire Sess.SessLemmas Sess.SendLemmas
  C20.Peer C20.Classify C20.SessFacts C20.BurstProofs C20.CheckProofs C21.TwoParty C21.Pair.
Import ListNotations.
Local Open Scope N_scope.

Definition is_new (it : bitem) : bool := match it with BApp _ _ false => true | _ => false end.

Lemma tiles_snoc : forall l pos past t, tiles pos l past -> tiles pos (l ++ [BApp t past false]) (past + 1).
Proof.
  induction l as [|it l IH]; intros pos past t T; cbn [app tiles] in *.
  - subst. split; reflexivity.
  - destruct it; try (destruct T as [T1 T2]; split; [exact T1|apply IH; exact T2]).
    destruct T as (T1 & T2 & T3). split; [exact T1|]. split; [exact T2|apply IH; exact T3].
Qed.

Lemma item_dels_app : forall a b, item_dels (a ++ b) = (item_dels a ++ item_dels b)%list.
Proof. intros. unfold item_dels. apply flat_map_app. Qed.

Lemma outs_app : forall a b, outs (a ++ b) = (outs a ++ outs b)%list.
Proof. intros. unfold outs. apply flat_map_app. Qed.

(* who sent what, with which number: the deliveries owed to the other side *)
Fixpoint sent_list (from_i : bool) (l : list fop) (n : N) : list (bytes * N * bool) :=
  match l with
  | [] => []
  | FSendI m :: r => if from_i then (m_type m, n, false) :: sent_list from_i r (n + 1) else sent_list from_i r n
  | FSendA m :: r => if from_i then sent_list from_i r n else (m_type m, n, false) :: sent_list from_i r (n + 1)
  | _ :: r => sent_list from_i r n
  end.

Section NoFault.
Variable sc : schema.
Variable decode : bytes -> decode_result.
Variable fl : bytes.
Variable now : Z.

Hypothesis WS : wf_schema sc = true.

Definition facing (s r : sess) : Prop := s_snd s = s_tgt r /\ s_tgt s = s_snd r.

(* see the header: what sender s writes for m is read back by receiver r as the new application message numbered
   next_send *)
Definition codec_at (s r : sess) (m : msg) : Prop :=
  item_of decode r (wire sc now s m) = Some (BApp (m_type m) (s_next_send s) false).

Definition valid_op (p : pair) (o : fop) : Prop :=
  match o with
  | FSendI m => simple_app m = true /\ codec_at (pa_i p) (pa_a p) m
  | FSendA m => simple_app m = true /\ codec_at (pa_a p) (pa_i p) m
  | _ => True
  end.

(* every send of the schedule is valid in the state in which it happens *)
Fixpoint valid_run (p : pair) (l : list fop) : Prop :=
  match l with
  | [] => True
  | o :: l' => valid_op p o /\ valid_run (fst (fst (fstep sc decode fl now p o))) l'
  end.

Definition ready (s : sess) : Prop :=
  good s /\ s_state s = st_continuous /\ s_closed s = false /\ s_batch s = [] /\ wf_sess s = true.

(* ---- sending ------------------------------------------------------------------------------------------------------ *)
Lemma simple_plain : forall m, simple_app m = true -> plain_msg m = true.
Proof.
  intros m H. unfold simple_app in H. repeat (apply andb_true_iff in H; destruct H as [H ?]).
  (* H: type, H7: header empty, H6: custom, H5: noinc, H4: eob, H3: type bytes, H2: body values, H1: no 34, H0: no 43 *)
  destruct (m_hdr m) eqn:EH; [|discriminate].
  unfold plain_msg. rewrite EH. cbn [has_field get_field tags map nodupb vals_ok forallb negb andb].
  apply N.eqb_eq in H6. rewrite H6. cbn [N.eqb]. rewrite H5. cbn [negb andb].
  assert (NSR : beq (m_type m) mt_sequence_reset = false).
  { destruct (beq (m_type m) mt_sequence_reset) eqn:E; [|reflexivity]. apply beq_eq in E. rewrite E in H. discriminate. }
  rewrite NSR. cbn [negb andb]. rewrite H1, H0. cbn [andb].
  unfold nosoh. rewrite H3. unfold vals_ok, nosoh. rewrite H2. reflexivity.
Qed.

Lemma simple_eob : forall m, simple_app m = true -> m_eob m = true.
Proof. intros m H. unfold simple_app in H. repeat (apply andb_true_iff in H; destruct H as [H ?]). assumption. Qed.
Lemma simple_type : forall m, simple_app m = true -> is_session_type (m_type m) = false.
Proof. intros m H. unfold simple_app in H. repeat (apply andb_true_iff in H; destruct H as [H ?]). apply negb_true_iff. assumption. Qed.

Lemma wire_single : forall s m, out_events (wire sc now s m) = [EOut (wire sc now s m)].
Proof.
  intros s m. unfold out_events, wire.
  assert (NB : nosoh (sc_begin sc) = true) by (apply (wf_schema_fields sc WS)).
  pose proof (frames_encodes sc [filled sc now s m] NB) as F. cbn [map concat] in F. rewrite app_nil_r in F.
  rewrite F. reflexivity.
Qed.

(* Session::send of a simple application message on a ready session *)
Lemma send_simple : forall s m, ready s -> simple_app m = true ->
  exists s',
    send sc now s m 0 false = (true, s', [EOut (wire sc now s m)]) /\
    ready s' /\ frame s s' /\ s_next_send s' = s_next_send s + 1.
Proof.
  intros s m (G & St & Cl & Ba & WSs) Sm.
  unfold send. cbn [N.eqb]. rewrite (send_process_plain sc now s m (simple_plain m Sm) Cl).
  unfold plain_result. rewrite (simple_eob m Sm), Ba. rewrite wire_single.
  eexists. split; [reflexivity|].
  destruct G as (R & A & Sh & Ru).
  split; [|split; [repeat split|reflexivity]].
  repeat split; try assumption.
Qed.

(* ---- receiving a stretch of new application messages ------------------------------------------------------------- *)
Definition keep (s s' : sess) : Prop :=
  s_next_send s' = s_next_send s /\ s_batch s' = s_batch s /\ wf_sess s' = wf_sess s.

Lemma recv_apps : forall items raws s evs pos past,
  Forall2 (is_item decode s) raws items -> tiles pos items past -> forallb is_new items = true ->
  good s -> BurstProofs.aligned s pos ->
  exists s' evs',
    reader_loop sc decode fl now raws s evs = (s', (evs ++ evs')%list) /\
    good s' /\ BurstProofs.aligned s' past /\ cfg s s' /\ keep s s' /\
    outs evs' = [] /\ dels evs' = item_dels items.
Proof.
  induction items as [|it items IH]; intros raws s evs pos past F T NW G A.
  - inversion F; subst. cbn [tiles] in T. subst past. exists s, []. rewrite app_nil_r. cbn [reader_loop].
    split; [reflexivity|]. split; [exact G|]. split; [exact A|]. split; [apply cfg_refl|].
    split; [repeat split|]. split; reflexivity.
  - inversion F as [|raw it' raws' items' I F']; subst.
    cbn [forallb] in NW. apply andb_true_iff in NW. destruct NW as [N1 N2].
    destruct it as [t q pd| | |]; try discriminate. destruct pd; [discriminate|].
    cbn [tiles] in T. destruct T as [TQ TN]. subst q.
    cbn [is_item] in I. destruct I as (m & Ar & Ty & NS & C & PD & _). subst t.
    destruct A as [A1 A2]. pose proof (good_last_recv now s G) as L.
    assert (Q : pos = s_next_recv (w_last_recv now s)) by (cbn; congruence).
    pose proof (process_app_inseq_explicit sc decode fl now raw pos m (w_last_recv now s) Ar L NS C Q) as P.
    cbn [reader_loop]. rewrite (good_not_shutdown s G). rewrite P.
    set (s1 := update_persist_seqnums (w_next_recv (s_next_recv (w_last_recv now s) + 1) (w_last_recv now s))).
    destruct (update_persist_frame (w_next_recv (s_next_recv (w_last_recv now s) + 1) (w_last_recv now s))) as (F1 & F2 & F3).
    fold s1 in F1, F2, F3. cbn [s_state s_next_recv w_next_recv w_last_recv] in F1, F2.
    destruct F3 as (C1 & C2 & C3 & C4 & C5 & C6 & C7 & C8). cbn in C1, C2, C3, C4, C5, C6, C7, C8.
    destruct G as (R & Act & Sh & Ru).
    assert (NSh : is_shutdown s1 = false).
    { unfold is_shutdown. rewrite C3, Sh, F1, A1. reflexivity. }
    rewrite NSh.
    assert (K1 : keep s s1).
    { subst s1. unfold update_persist_seqnums.
      destruct (p_attached (s_per (w_next_recv (s_next_recv (w_last_recv now s) + 1) (w_last_recv now s)))); repeat split. }
    assert (G1 : good s1).
    { split; [congruence|]. split; [congruence|]. split; [congruence|]. left. congruence. }
    assert (A1' : BurstProofs.aligned s1 (pos + 1)) by (split; congruence).
    assert (Cf : cfg s s1) by (repeat split; assumption).
    destruct (IH raws' s1 (evs ++ [EDeliver (m_type m) pos (possdup m)] ++ [ERet (if mem_bytes (m_type m) (sc_routed sc) then 1 else 0)%Z])%list
                 (pos + 1) past (items_cfg decode _ _ _ _ Cf F') TN N2 G1 A1')
      as (s' & evs' & RL & G' & A' & C' & K' & O' & D').
    exists s'. eexists. split; [rewrite RL; rewrite <- app_assoc; reflexivity|].
    split; [exact G'|]. split; [exact A'|]. split; [eapply cfg_trans; eassumption|].
    split; [destruct K1 as (a & b & c); destruct K' as (a' & b' & c'); repeat split; congruence|].
    rewrite !outs_app, !dels_app, O', D'. rewrite PD. rewrite (item_dels_cons _ items). split; reflexivity.
Qed.

Lemma feed_encoded : forall ms s,
  s_reader s = true ->
  feed sc decode fl now (map (encode sc) ms) s =
  (let '(s1, e1) := reader_loop sc decode fl now (map (encode sc) ms) s [] in (s1, (e1 ++ [])%list)).
Proof.
  intros ms s R. unfold feed. rewrite R. cbn [negb].
  assert (NB : nosoh (sc_begin sc) = true) by (apply (wf_schema_fields sc WS)).
  rewrite (frames_encodes sc ms NB). reflexivity.
Qed.

(* ---- the invariant --------------------------------------------------------------------------------------------------- *)
Definition flight_ok (snd rcv : sess) (f : list bytes) (items : list bitem) : Prop :=
  (exists ms, f = map (encode sc) ms) /\ Forall2 (is_item decode rcv) f items /\
  tiles (s_next_recv rcv) items (s_next_send snd) /\ forallb is_new items = true.

Definition inv (p : pair) (sentI dA sentA dI : list (bytes * N * bool)) : Prop :=
  ready (pa_i p) /\ ready (pa_a p) /\ facing (pa_i p) (pa_a p) /\
  (exists items, flight_ok (pa_i p) (pa_a p) (pa_ia p) items /\ sentI = (dA ++ item_dels items)%list) /\
  (exists items, flight_ok (pa_a p) (pa_i p) (pa_ai p) items /\ sentA = (dI ++ item_dels items)%list).

Lemma facing_sym : forall s r, facing s r -> facing r s.
Proof. intros s r [A B]. split; congruence. Qed.

Lemma ready_wf : forall s, ready s -> nosoh (s_snd s) = true /\ nosoh (s_tgt s) = true.
Proof. intros s (_ & _ & _ & _ & W). unfold wf_sess in W. apply andb_true_iff in W. exact W. Qed.

(* a send extends the sender's outbound flight by one new item and leaves the other flight consistent *)
Lemma flight_send : forall snd snd' rcv f items m,
  ready snd -> simple_app m = true -> codec_at snd rcv m -> frame snd snd' -> s_next_send snd' = s_next_send snd + 1 ->
  flight_ok snd rcv f items ->
  flight_ok snd' rcv (f ++ [wire sc now snd m]) (items ++ [BApp (m_type m) (s_next_send snd) false]).
Proof.
  intros snd snd' rcv f items m R Sm Cd Fr NS ((ms & E) & F2 & T & NW).
  split; [exists (ms ++ [filled sc now snd m])%list; rewrite map_app, E; reflexivity|].
  split; [apply Forall2_app; [exact F2|]; constructor; [|constructor];
          apply item_of_sound; exact Cd|].
  split; [rewrite NS; apply tiles_snoc; exact T|].
  rewrite forallb_app, NW. reflexivity.
Qed.

Lemma flight_rcv_frame : forall snd rcv rcv' f items,
  frame rcv rcv' -> flight_ok snd rcv f items -> flight_ok snd rcv' f items.
Proof.
  intros snd rcv rcv' f items (F1 & F2 & F3) (E & FA & T & NW).
  split; [exact E|]. split; [eapply items_cfg; eassumption|]. split; [rewrite F2; exact T|exact NW].
Qed.

Theorem fstep_inv : forall p o sentI dA sentA dI,
  inv p sentI dA sentA dI -> valid_op p o ->
  exists p' ei ea,
    fstep sc decode fl now p o = (p', ei, ea) /\
    inv p' (sentI ++ sent_list true [o] (s_next_send (pa_i p)))%list (dA ++ dels ea)%list
           (sentA ++ sent_list false [o] (s_next_send (pa_a p)))%list (dI ++ dels ei)%list /\
    s_next_send (pa_i p') = s_next_send (pa_i p) + N.of_nat (length (sent_list true [o] 0)) /\
    s_next_send (pa_a p') = s_next_send (pa_a p) + N.of_nat (length (sent_list false [o] 0)) /\
    match o with
    | FDeliverA => pa_ia p' = [] /\ pa_ai p' = pa_ai p
    | FDeliverI => pa_ai p' = [] /\ pa_ia p' = pa_ia p
    | _ => True
    end.
Proof.
  intros p o sentI dA sentA dI (RI & RA & FC & (itIA & FIA & EI) & (itAI & FAI & EA)) V.
  destruct o as [m|m| |]; cbn [valid_op] in V; cbn [fstep sent_list length].
  - (* the initiator sends *)
    destruct V as [V CD]. destruct (send_simple (pa_i p) m RI V) as (s' & SE & R' & FR & NS).
    rewrite SE. do 3 eexists. split; [reflexivity|]. unfold inv. cbn [pa_i pa_a pa_ia pa_ai outs flat_map app dels].
    rewrite !app_nil_r. split; [|split; [rewrite NS; reflexivity|split; [rewrite N.add_0_r; reflexivity|exact I]]].
    split; [exact R'|]. split; [exact RA|].
    split; [destruct FR as (_ & _ & (_ & _ & _ & _ & A & B & _)); destruct FC; split; congruence|].
    split.
    + exists (itIA ++ [BApp (m_type m) (s_next_send (pa_i p)) false])%list.
      split; [apply flight_send; assumption|]. rewrite item_dels_app, app_assoc, <- EI. reflexivity.
    + exists itAI. split; [eapply flight_rcv_frame; eassumption|exact EA].
  - (* the acceptor sends *)
    destruct V as [V CD]. destruct (send_simple (pa_a p) m RA V) as (s' & SE & R' & FR & NS).
    rewrite SE. do 3 eexists. split; [reflexivity|]. unfold inv. cbn [pa_i pa_a pa_ia pa_ai outs flat_map app dels].
    rewrite !app_nil_r. split; [|split; [rewrite N.add_0_r; reflexivity|split; [rewrite NS; reflexivity|exact I]]].
    split; [exact RI|]. split; [exact R'|].
    split; [destruct FR as (_ & _ & (_ & _ & _ & _ & A & B & _)); destruct FC; split; congruence|].
    split.
    + exists itIA. split; [eapply flight_rcv_frame; eassumption|exact EI].
    + exists (itAI ++ [BApp (m_type m) (s_next_send (pa_a p)) false])%list.
      split; [apply flight_send; assumption|].
      rewrite item_dels_app, app_assoc, <- EA. reflexivity.
  - (* delivery to the acceptor *)
    destruct (pa_ia p) as [|x l] eqn:EF.
    + do 3 eexists. split; [reflexivity|]. unfold inv. cbn [dels flat_map]. rewrite !app_nil_r, !N.add_0_r.
      split; [|split; [reflexivity|split; [reflexivity|split; [exact EF|reflexivity]]]].
      split; [exact RI|]. split; [exact RA|]. split; [exact FC|].
      split; [exists itIA; rewrite EF; split; assumption|exists itAI; split; assumption].
    + destruct FIA as ((ms & E) & F2 & T & NW).
      destruct RA as (G & St & Cl & Ba & Wf).
      rewrite E. rewrite (feed_encoded ms (pa_a p) (proj1 G)). rewrite <- E.
      destruct (recv_apps itIA (x :: l) (pa_a p) [] _ _ F2 T NW G (conj St eq_refl))
        as (s' & evs' & RL & G' & (A1 & A2) & C' & (K1 & K2 & K3) & O' & D').
      rewrite RL. cbn [app]. rewrite app_nil_r.
      do 3 eexists. split; [reflexivity|]. unfold inv. cbn [pa_i pa_a pa_ia pa_ai dels flat_map].
      rewrite O', !app_nil_r, !N.add_0_r. split; [|split; [reflexivity|split; [exact K1|split; reflexivity]]].
      split; [exact RI|].
      split; [split; [exact G'|]; split; [exact A1|]; split; [destruct C' as (_ & _ & _ & c & _); congruence|]; split; congruence|].
      split; [destruct C' as (_ & _ & _ & _ & a & b & _); destruct FC; split; congruence|].
      split.
      * exists []. split; [|rewrite D', EI; cbn [item_dels flat_map]; rewrite app_nil_r; reflexivity].
        split; [exists []; reflexivity|]. split; [constructor|]. split; [cbn [tiles]; exact A2|reflexivity].
      * exists itAI. split; [|exact EA]. destruct FAI as (E2 & F3 & T3 & NW3).
        split; [exact E2|]. split; [exact F3|]. split; [rewrite K1; exact T3|exact NW3].
  - (* delivery to the initiator *)
    destruct (pa_ai p) as [|x l] eqn:EF.
    + do 3 eexists. split; [reflexivity|]. unfold inv. cbn [dels flat_map]. rewrite !app_nil_r, !N.add_0_r.
      split; [|split; [reflexivity|split; [reflexivity|split; [exact EF|reflexivity]]]].
      split; [exact RI|]. split; [exact RA|]. split; [exact FC|].
      split; [exists itIA; split; assumption|exists itAI; rewrite EF; split; assumption].
    + destruct FAI as ((ms & E) & F2 & T & NW).
      destruct RI as (G & St & Cl & Ba & Wf).
      rewrite E. rewrite (feed_encoded ms (pa_i p) (proj1 G)). rewrite <- E.
      destruct (recv_apps itAI (x :: l) (pa_i p) [] _ _ F2 T NW G (conj St eq_refl))
        as (s' & evs' & RL & G' & (A1 & A2) & C' & (K1 & K2 & K3) & O' & D').
      rewrite RL. cbn [app]. rewrite app_nil_r.
      do 3 eexists. split; [reflexivity|]. unfold inv. cbn [pa_i pa_a pa_ia pa_ai dels flat_map].
      rewrite O', !app_nil_r, !N.add_0_r. split; [|split; [exact K1|split; [reflexivity|split; reflexivity]]].
      split; [split; [exact G'|]; split; [exact A1|]; split; [destruct C' as (_ & _ & _ & c & _); congruence|]; split; congruence|].
      split; [exact RA|].
      split; [destruct C' as (_ & _ & _ & _ & a & b & _); destruct FC; split; congruence|].
      split.
      * exists itIA. split; [|exact EI]. destruct FIA as (E2 & F3 & T3 & NW3).
        split; [exact E2|]. split; [exact F3|]. split; [rewrite K1; exact T3|exact NW3].
      * exists []. split; [|rewrite D', EA; cbn [item_dels flat_map]; rewrite app_nil_r; reflexivity].
        split; [exists []; reflexivity|]. split; [constructor|]. split; [cbn [tiles]; exact A2|reflexivity].
Qed.


Lemma sent_list_cons : forall w o l n,
  sent_list w (o :: l) n = (sent_list w [o] n ++ sent_list w l (n + N.of_nat (length (sent_list w [o] 0))))%list.
Proof.
  intros w o l n. destruct o as [m|m| |]; destruct w; cbn [sent_list app length N.of_nat];
    rewrite ?N.add_0_r; reflexivity.
Qed.

Theorem frun_inv : forall ops p sentI dA sentA dI,
  inv p sentI dA sentA dI -> valid_run p ops ->
  exists p' ei ea,
    frun sc decode fl now p ops = (p', ei, ea) /\
    inv p' (sentI ++ sent_list true ops (s_next_send (pa_i p)))%list (dA ++ dels ea)%list
           (sentA ++ sent_list false ops (s_next_send (pa_a p)))%list (dI ++ dels ei)%list.
Proof.
  induction ops as [|o ops IH]; intros p sentI dA sentA dI I V.
  - exists p, [], []. cbn [frun sent_list dels flat_map]. rewrite !app_nil_r. split; [reflexivity|exact I].
  - destruct V as [V1 V2].
    destruct (fstep_inv p o sentI dA sentA dI I V1) as (p1 & i1 & a1 & E1 & I1 & N1 & N2 & _).
    rewrite E1 in V2. cbn [fst] in V2.
    destruct (IH p1 _ _ _ _ I1 V2) as (p2 & i2 & a2 & E2 & I2).
    exists p2, (i1 ++ i2)%list, (a1 ++ a2)%list. cbn [frun]. rewrite E1, E2. split; [reflexivity|].
    rewrite (sent_list_cons true o ops), (sent_list_cons false o ops). rewrite <- N1, <- N2.
    rewrite !dels_app, !app_assoc. exact I2.
Qed.

(* both sides logged on, nothing in flight, numbers matching *)
Definition synced (p : pair) : Prop :=
  ready (pa_i p) /\ ready (pa_a p) /\ facing (pa_i p) (pa_a p) /\ pa_ia p = [] /\ pa_ai p = [] /\
  s_next_recv (pa_a p) = s_next_send (pa_i p) /\ s_next_recv (pa_i p) = s_next_send (pa_a p).

Lemma synced_inv : forall p, synced p -> inv p [] [] [] [].
Proof.
  intros p (RI & RA & FC & E1 & E2 & N1 & N2). unfold inv. split; [exact RI|]. split; [exact RA|]. split; [exact FC|].
  split; exists []; (split; [|reflexivity]); unfold flight_ok.
  - rewrite E1. split; [exists []; reflexivity|]. split; [constructor|]. split; [exact N1|reflexivity].
  - rewrite E2. split; [exists []; reflexivity|]. split; [constructor|]. split; [exact N2|reflexivity].
Qed.

Lemma inv_empty_synced : forall p sentI dA sentA dI,
  inv p sentI dA sentA dI -> pa_ia p = [] -> pa_ai p = [] -> synced p /\ sentI = dA /\ sentA = dI.
Proof.
  intros p sentI dA sentA dI (RI & RA & FC & (itIA & (_ & F1 & T1 & _) & EI) & (itAI & (_ & F2 & T2 & _) & EA)) E1 E2.
  rewrite E1 in F1. rewrite E2 in F2. inversion F1; subst. inversion F2; subst.
  cbn [tiles] in T1, T2. cbn [item_dels flat_map]. rewrite !app_nil_r.
  split; [|split; reflexivity]. repeat split; try assumption; try apply RI; try apply RA; try apply FC.
Qed.

(* c21_nofault_partial (session level): from a synced pair, ANY schedule of application sends and deliveries, in any
   interleaving (whose messages the codec reads back: valid_run), followed by a delivery in both directions: the acceptor's application received exactly the
   initiator's messages -- each once, in send order, consecutively numbered from the initiator's next number, never
   PossDup -- and vice versa; the pair is synced again. *)
Theorem nofault_delivery : forall ops p,
  synced p -> valid_run p ops ->
  exists p' ei ea,
    frun sc decode fl now p (ops ++ [FDeliverA; FDeliverI]) = (p', ei, ea) /\
    synced p' /\
    dels ea = sent_list true ops (s_next_send (pa_i p)) /\
    dels ei = sent_list false ops (s_next_send (pa_a p)).
Proof.
  intros ops p S V.
  destruct (frun_inv ops p [] [] [] [] (synced_inv p S) V) as (p1 & i1 & a1 & E1 & I1).
  destruct (fstep_inv p1 FDeliverA _ _ _ _ I1 I) as (p2 & i2 & a2 & E2 & I2 & _ & _ & (X1 & X2)).
  destruct (fstep_inv p2 FDeliverI _ _ _ _ I2 I) as (p3 & i3 & a3 & E3 & I3 & _ & _ & (Y1 & Y2)).
  exists p3, (i1 ++ i2 ++ i3 ++ [])%list, (a1 ++ a2 ++ a3 ++ [])%list.
  assert (FR : frun sc decode fl now p (ops ++ [FDeliverA; FDeliverI]) = (p3, (i1 ++ i2 ++ i3 ++ [])%list, (a1 ++ a2 ++ a3 ++ [])%list)).
  { clear - E1 E2 E3. revert p i1 a1 E1. induction ops as [|o ops IH]; intros p i1 a1 E1; cbn [app frun] in *.
    - inversion E1; subst. rewrite E2, E3. reflexivity.
    - destruct (fstep sc decode fl now p o) as [[q iq] aq]. destruct (frun sc decode fl now q ops) as [[q2 iq2] aq2] eqn:EQ.
      inversion E1; subst. rewrite (IH q iq2 aq2 EQ). rewrite <- !app_assoc. reflexivity. }
  split; [exact FR|].
  cbn [sent_list app] in I3. rewrite !app_nil_r in I3. cbn [app] in I3.
  destruct (inv_empty_synced p3 _ _ _ _ I3 (eq_trans Y2 X1) Y1) as (S3 & Q1 & Q2).
  split; [exact S3|].
  rewrite !dels_app. cbn [dels flat_map]. rewrite !app_nil_r. cbn [app] in Q1, Q2.
  split.
  - rewrite Q1. rewrite <- !app_assoc. reflexivity.
  - rewrite Q2. rewrite <- !app_assoc. reflexivity.
Qed.

End NoFault.
