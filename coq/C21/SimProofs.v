(* C21: TwoParty.run_sops (the two Sess.Wire worlds driven by a schedule) computes, on the sessions inside its worlds,
   exactly Pair.fstep for the fault-free operations: same sessions, same in-flight bytes, same events step by step.
   Proofs only. *)
From Coq Require Import NArith ZArith List Bool Lia.
From F8 Require Import Sess.Bytes Sess.Msg Sess.Persist Sess.Session Sess.Wire C20.Peer C21.TwoParty C21.Pair.
Import ListNotations.
Local Open Scope N_scope.

(* per-step events of a fault-free run *)
Fixpoint ftrace (sc : schema) (decode : bytes -> decode_result) (fl : bytes) (now : Z) (p : pair) (l : list fop)
  : list (list event * list event) :=
  match l with
  | [] => []
  | o :: l' => let '(p1, i1, a1) := fstep sc decode fl now p o in (i1, a1) :: ftrace sc decode fl now p1 l'
  end.

Section Sim.
Variable sc : schema.
Variable decode : bytes -> decode_result.
Variable fl : bytes.
Variable now : Z.

Lemma frun_ftrace : forall l p,
  let '(_, ei, ea) := frun sc decode fl now p l in
  ei = concat (map fst (ftrace sc decode fl now p l)) /\ ea = concat (map snd (ftrace sc decode fl now p l)).
Proof.
  induction l as [|o l IH]; intro p; cbn [frun ftrace]; [split; reflexivity|].
  destruct (fstep sc decode fl now p o) as [[p1 i1] a1]. specialize (IH p1).
  destruct (frun sc decode fl now p1 l) as [[p2 i2] a2]. destruct IH as [A B].
  cbn [map concat fst snd]. rewrite A, B. split; reflexivity.
Qed.

(* the worlds hold these sessions, these bytes are in flight, both clocks show `now` *)
Definition sim (t : tp) (p : pair) : Prop :=
  w_sess (tp_i t) = Some (pa_i p) /\ w_sess (tp_a t) = Some (pa_a p) /\
  tp_ia t = pa_ia p /\ tp_ai t = pa_ai p /\ w_now (tp_i t) = now /\ w_now (tp_a t) = now.

(* a schedule operation and the session-level operation it stands for *)
Definition corr (o : sop) (f : fop) : Prop :=
  match o, f with
  | SSendI _ spec, FSendI m =>
    ms_ok spec = true /\ build_msg sc spec = Some m /\ ms_custom spec = 0 /\ ms_noinc spec = false
  | SSendA _ spec, FSendA m =>
    ms_ok spec = true /\ build_msg sc spec = Some m /\ ms_custom spec = 0 /\ ms_noinc spec = false
  | SDeliverA, FDeliverA => True
  | SDeliverI, FDeliverI => True
  | _, _ => False
  end.

Lemma outs_ret : forall e z, outs (e ++ [ERet z]) = outs e.
Proof. intros. unfold outs. rewrite flat_map_app. cbn [flat_map]. rewrite !app_nil_r. reflexivity. Qed.

Lemma run_sop_sim : forall t p o f,
  sim t p -> corr o f ->
  exists t' p' ei ea,
    run_sop sc decode fl t o = (t', ei, ea) /\ fstep sc decode fl now p f = (p', ei, ea) /\ sim t' p'.
Proof.
  intros t p o f (S1 & S2 & S3 & S4 & S5 & S6) C.
  destruct o as [txt spec|txt spec| | | | | | |a b|t1 m1|t1 m1|]; destruct f as [m|m| |]; cbn [corr] in C; try contradiction.
  - destruct C as (C1 & C2 & C3 & C4).
    cbn [run_sop fstep]. unfold send_i, side_op, step_op. cbn [run_op]. rewrite S1, C1, C2, C3, C4, S5. cbn [negb].
    destruct (send sc now (pa_i p) m 0 false) as [[ok s] e]. rewrite outs_ret.
    do 4 eexists. split; [reflexivity|]. split; [reflexivity|].
    unfold sim, with_sess. cbn [tp_i tp_a tp_ia tp_ai pa_i pa_a pa_ia pa_ai w_sess w_now].
    repeat split; congruence.
  - destruct C as (C1 & C2 & C3 & C4).
    cbn [run_sop fstep]. unfold send_a, side_op, step_op. cbn [run_op]. rewrite S2, C1, C2, C3, C4, S6. cbn [negb].
    destruct (send sc now (pa_a p) m 0 false) as [[ok s] e]. rewrite outs_ret.
    do 4 eexists. split; [reflexivity|]. split; [reflexivity|].
    unfold sim, with_sess. cbn [tp_i tp_a tp_ia tp_ai pa_i pa_a pa_ia pa_ai w_sess w_now].
    repeat split; congruence.
  - cbn [run_sop fstep]. unfold deliver_a. rewrite S3. destruct (pa_ia p) as [|x l] eqn:E.
    + do 4 eexists. split; [reflexivity|]. split; [reflexivity|]. repeat split; try assumption. congruence.
    + unfold side_op, step_op. rewrite S2, S6. destruct (feed sc decode fl now (x :: l) (pa_a p)) as [s e].
      do 4 eexists. split; [reflexivity|]. split; [reflexivity|].
      unfold sim, with_sess. cbn [tp_i tp_a tp_ia tp_ai pa_i pa_a pa_ia pa_ai w_sess w_now].
      repeat split; congruence.
  - cbn [run_sop fstep]. unfold deliver_i. rewrite S4. destruct (pa_ai p) as [|x l] eqn:E.
    + do 4 eexists. split; [reflexivity|]. split; [reflexivity|]. repeat split; try assumption. congruence.
    + unfold side_op, step_op. rewrite S1, S5. destruct (feed sc decode fl now (x :: l) (pa_i p)) as [s e].
      do 4 eexists. split; [reflexivity|]. split; [reflexivity|].
      unfold sim, with_sess. cbn [tp_i tp_a tp_ia tp_ai pa_i pa_a pa_ia pa_ai w_sess w_now].
      repeat split; congruence.
Qed.

(* taking the snapshots changes neither the sessions nor the clocks *)
Lemma snapshot_sess : forall w, w_sess (fst (snapshot w)) = w_sess w /\ w_now (fst (snapshot w)) = w_now w.
Proof.
  intro w. unfold snapshot. destruct (w_sess w) as [s|] eqn:E; [|split; [exact E|reflexivity]].
  destruct (p_kind (s_per s)); cbn [fst w_sess w_now]; split; try exact E; reflexivity.
Qed.

Lemma snap2_sim : forall t ei ea p, sim t p -> sim (fst (snap2 (t, ei, ea))) p /\ snd (snap2 (t, ei, ea)) = (mkStep ei (snd (snapshot (tp_i t))), mkStep ea (snd (snapshot (tp_a t)))).
Proof.
  intros t ei ea p (S1 & S2 & S3 & S4 & S5 & S6). unfold snap2.
  destruct (snapshot_sess (tp_i t)) as [A1 A2]. destruct (snapshot_sess (tp_a t)) as [B1 B2].
  destruct (snapshot (tp_i t)) as [wi si]. destruct (snapshot (tp_a t)) as [wa sa]. cbn [fst snd] in *.
  split; [|reflexivity]. repeat split; cbn [tp_i tp_a tp_ia tp_ai]; congruence.
Qed.

(* step by step the events of run_sops are those of the session-level run *)
Theorem run_sops_events : forall sops fops t p,
  sim t p -> Forall2 corr sops fops ->
  map (fun st => (st_events (fst st), st_events (snd st))) (run_sops sc decode fl t sops) = ftrace sc decode fl now p fops.
Proof.
  induction sops as [|o sops IH]; intros fops t p S F; inversion F as [|? f ? fops' C F']; subst; [reflexivity|].
  cbn [run_sops ftrace].
  destruct (run_sop_sim t p o f S C) as (t' & p' & ei & ea & R & FS & S').
  rewrite R, FS. destruct (snap2_sim t' ei ea p' S') as [S'' E].
  destruct (snap2 (t', ei, ea)) as [t1 st] eqn:SN. cbn [fst snd] in S'', E. subst st.
  cbn [map fst snd st_events]. f_equal. apply IH; assumption.
Qed.

End Sim.
