(* C21: witnesses on the small concrete schema (vm_compute).  Proofs only. *)
From Coq Require Import NArith ZArith List Bool.
From F8 Require Import Sess.Bytes Sess.Msg Sess.Persist Sess.Session Sess.SimpleCodec Sess.Wire
  C20.Peer C20.Example C21.TwoParty C21.Spec_C21 C21.Loss C21.Example21.
Import ListNotations.
Local Open Scope N_scope.

(* one drop suffices: the acceptor's application message 2 is lost in flight; after the reconnect the acceptor
   accepts the initiator's Logon (2, as expected) and answers with ITS Logon numbered 3 -- the initiator expects 2:
   InvalidMsgSequence in logon_received, Logout, stop (C20's "Logon above expected" between two fix8 endpoints).
   (state initiator, state acceptor) per step: (logon_sent, wait_for_logon) (continuous, continuous) .. after the
   drop (logon_sent, wait_for_logon) and then (logoff_sent, continuous). *)
Lemma one_drop_fails :
  let tr := run21 w_one_drop in
  c21_ok w_one_drop tr = false /\ c21_class w_one_drop tr = 1 /\
  states21 tr = [(5, 3); (1, 1); (1, 1); (5, 3); (7, 1)] /\
  recvs21 tr = [(1, 1); (2, 2); (2, 2); (2, 1); (2, 4)] /\
  writes_logout (st_events (fst (nth 4 tr (mkStep [] None, mkStep [] None)))) = true /\
  deliveries_at false tr 0 = [].
Proof. vm_compute. repeat split. Qed.

(* the initiator's very first Logon is lost: the acceptor expects 1, receives 2, terminates *)
Lemma logon_lost_fails :
  let tr := run21 w_logon_lost in
  c21_ok w_logon_lost tr = false /\ c21_class w_logon_lost tr = 1 /\
  states21 tr = [(5, 3); (5, 3); (5, 7)].
Proof. vm_compute. repeat split. Qed.

Lemma no_fault_exact :
  let tr := run21 w_no_fault in
  c21_ok w_no_fault tr = true /\ c21_exact w_no_fault tr = true /\ c21_class w_no_fault tr = 0.
Proof. vm_compute. repeat split. Qed.

(* a drop on a quiet connection is harmless *)
Lemma quiet_drop_harmless :
  let tr := run21 w_quiet_drop in
  c21_ok w_quiet_drop tr = true /\ c21_exact w_quiet_drop tr = true /\ c21_class w_quiet_drop tr = 0 /\
  has_fault w_quiet_drop = true.
Proof. vm_compute. repeat split. Qed.

Lemma examples21 :
  (let tr := run21 w_no_fault in
   c21_ok w_no_fault tr = true /\ c21_exact w_no_fault tr = true /\ c21_class w_no_fault tr = 0) /\
  (let tr := run21 w_quiet_drop in
   c21_ok w_quiet_drop tr = true /\ c21_exact w_quiet_drop tr = true /\ c21_class w_quiet_drop tr = 0 /\
   has_fault w_quiet_drop = true).
Proof. split; [exact no_fault_exact|exact quiet_drop_harmless]. Qed.
