(* C21: c21_nofault_partial on the two-party model itself (TwoParty.run_sops), from the session-level theorem
   (NoFaultProofs.nofault_delivery) through the simulation (SimProofs), and soundness of the boolean checkers used to
   instantiate it on concrete schedules.  Proofs only. *)
From Coq Require Import NArith ZArith List Bool Lia.
From F8 Require Import Sess.Bytes Sess.Msg Sess.Persist Sess.Session Sess.Wire Sess.SessLemmas Sess.SendLemmas
  C20.Peer C20.Classify C20.SessFacts C20.BurstProofs C20.CheckProofs C21.TwoParty C21.Pair C21.NoFaultProofs C21.SimProofs.
Import ListNotations.
Local Open Scope N_scope.

Section TPP.
Variable sc : schema.
Variable decode : bytes -> decode_result.
Variable fl : bytes.
Variable now : Z.
Hypothesis WS : wf_schema sc = true.

Lemma readyb_sound : forall s, readyb s = true -> ready s.
Proof.
  intros s H. unfold readyb in H. repeat (apply andb_true_iff in H; destruct H as [H ?]).
  (* H: reader, H5: active, H4: shutdown, H3: state, H2: closed, H1: batch, H0: wf *)
  apply negb_true_iff in H4. apply N.eqb_eq in H3. apply negb_true_iff in H2.
  destruct (s_batch s) eqn:B; [|discriminate].
  split; [split; [exact H|split; [exact H5|split; [exact H4|left; exact H3]]]|].
  split; [exact H3|]. split; [exact H2|]. split; [exact B|exact H0].
Qed.

Lemma syncedb_sound : forall p, syncedb p = true -> synced p.
Proof.
  intros p H. unfold syncedb in H.
  apply andb_true_iff in H; destruct H as [H N2]. apply andb_true_iff in H; destruct H as [H N1].
  apply andb_true_iff in H; destruct H as [H E2]. apply andb_true_iff in H; destruct H as [H E1].
  apply andb_true_iff in H; destruct H as [H F2]. apply andb_true_iff in H; destruct H as [H F1].
  apply andb_true_iff in H; destruct H as [RI RA].
  apply readyb_sound in RI. apply readyb_sound in RA. apply beq_eq in F1. apply beq_eq in F2.
  destruct (pa_ia p) eqn:X1; [|discriminate]. destruct (pa_ai p) eqn:X2; [|discriminate].
  apply N.eqb_eq in N1. apply N.eqb_eq in N2.
  unfold synced. rewrite X1, X2. split; [exact RI|]. split; [exact RA|]. split; [split; assumption|].
  split; [reflexivity|]. split; [reflexivity|]. split; assumption.
Qed.

Lemma valid_runb_sound : forall l p, valid_runb sc decode fl now p l = true -> valid_run sc decode fl now p l.
Proof.
  induction l as [|o l IH]; intros p H; cbn [valid_runb valid_run] in *; [exact I|].
  apply andb_true_iff in H. destruct H as [H1 H2]. split; [|apply IH; exact H2].
  destruct o as [m|m| |]; cbn [valid_opb valid_op] in *; try exact I.
  - apply andb_true_iff in H1. destruct H1 as [A B]. split; [exact A|]. unfold codec_atb in B. unfold codec_at.
    destruct (item_of decode (pa_a p) (wire sc now (pa_i p) m)) as [it|]; [|discriminate]. apply bitem_eqb_eq in B. congruence.
  - apply andb_true_iff in H1. destruct H1 as [A B]. split; [exact A|]. unfold codec_atb in B. unfold codec_at.
    destruct (item_of decode (pa_i p) (wire sc now (pa_a p) m)) as [it|]; [|discriminate]. apply bitem_eqb_eq in B. congruence.
Qed.

Definition step_events (st : tstep) : list event * list event := (st_events (fst st), st_events (snd st)).

(* c21_nofault_partial on the two-party model: the two worlds hold a synced pair of sessions; sops is ANY schedule of
   application sends and one-directional deliveries (no D, DROP, RI, RA), each send building a simple application
   message that the codec reads back (valid_run); then one delivery in each direction.  The DELIVER events on the
   acceptor's side are exactly the initiator's messages -- once each, in send order, numbered consecutively from the
   initiator's next number, never PossDup -- and vice versa. *)
Theorem twoparty_nofault : forall sops fops t p,
  sim now t p -> synced p -> Forall2 (corr sc) sops fops -> valid_run sc decode fl now p fops ->
  let evs := map step_events (run_sops sc decode fl t (sops ++ [SDeliverA; SDeliverI])) in
  dels (concat (map snd evs)) = sent_list true fops (s_next_send (pa_i p)) /\
  dels (concat (map fst evs)) = sent_list false fops (s_next_send (pa_a p)).
Proof.
  intros sops fops t p S SY C V evs.
  assert (C2 : Forall2 (corr sc) (sops ++ [SDeliverA; SDeliverI]) (fops ++ [FDeliverA; FDeliverI])).
  { apply Forall2_app; [exact C|]. constructor; [exact I|]. constructor; [exact I|constructor]. }
  pose proof (run_sops_events sc decode fl now _ _ t p S C2) as E.
  assert (EV : evs = ftrace sc decode fl now p (fops ++ [FDeliverA; FDeliverI])) by (subst evs; exact E).
  destruct (nofault_delivery sc decode fl now WS fops p SY V) as (p' & ei & ea & FR & _ & D1 & D2).
  pose proof (frun_ftrace sc decode fl now (fops ++ [FDeliverA; FDeliverI]) p) as FT. rewrite FR in FT.
  destruct FT as [F1 F2]. rewrite EV, <- F1, <- F2. split; assumption.
Qed.

End TPP.

(* ---- a concrete instance ---------------------------------------------------------------------------------------------- *)
From F8 Require Import Sess.SimpleCodec C20.Example C21.Example21.

Definition instance_check21 (t : tp) : bool :=
  match proj_pair t with
  | Some p => syncedb p && valid_runb mini dec_mini [] T0 p fops_w && (w_now (tp_i t) =? T0)%Z && (w_now (tp_a t) =? T0)%Z
  | None => false
  end.

Lemma instance21_sound : forall t, instance_check21 t = true ->
  exists p, proj_pair t = Some p /\ sim T0 t p /\ synced p /\ valid_run mini dec_mini [] T0 p fops_w.
Proof.
  intros t H. unfold instance_check21 in H. destruct (proj_pair t) as [p|] eqn:E; [|discriminate].
  exists p. split; [reflexivity|].
  apply andb_true_iff in H; destruct H as [H N2]. apply andb_true_iff in H; destruct H as [H N1].
  apply andb_true_iff in H; destruct H as [S V].
  apply Z.eqb_eq in N1. apply Z.eqb_eq in N2.
  split; [|split; [apply syncedb_sound; exact S|apply valid_runb_sound; exact V]].
  unfold proj_pair in E. destruct (w_sess (tp_i t)) as [si|] eqn:E1; [|discriminate].
  destruct (w_sess (tp_a t)) as [sa|] eqn:E2; [|discriminate]. inversion E; subst p.
  unfold sim. cbn [pa_i pa_a pa_ia pa_ai]. repeat split; assumption.
Qed.

Lemma corr_w : Forall2 (corr mini) sops_w fops_w.
Proof.
  assert (B : build_msg mini spec_D = Some m_D) by (vm_compute; reflexivity).
  assert (CI : corr mini SI_D (FSendI m_D)) by (cbn [corr SI_D]; repeat split; try reflexivity; exact B).
  assert (CA : corr mini SA_D (FSendA m_D)) by (cbn [corr SA_D]; repeat split; try reflexivity; exact B).
  unfold sops_w, fops_w. repeat (constructor; try assumption; try exact I).
Qed.

Lemma nofault_instance :
  wf_schema mini = true /\
  exists p, proj_pair t_logged = Some p /\ sim T0 t_logged p /\ synced p /\
            Forall2 (corr mini) sops_w fops_w /\ valid_run mini dec_mini [] T0 p fops_w.
Proof.
  split; [reflexivity|].
  destruct (instance21_sound t_logged) as (p & A & B & C & D); [vm_compute; reflexivity|].
  exists p. split; [exact A|]. split; [exact B|]. split; [exact C|]. split; [exact corr_w|exact D].
Qed.
