(* Crash model for FilePersister (property C27), on top of the C26 file model.
   The disk is (index_bytes, data_bytes).  A run executes the operations' lseek/write calls
   (FilePersist.file_sys: exactly the calls of filepersist.cpp, in program order); the process
   dies after [k] completed calls: the disk keeps the effect of exactly those calls (each call is
   atomic and durable -- trusted-base assumption), everything in memory is lost.  Recovery =
   FilePersister::initialise on the existing files = replay of the index file.
   No proofs in this file. *)
From Coq Require Import PeanoNat NArith List Bool.
From F8 Require Import C26.SMap C26.PersistSpec C26.MemPersist C26.FilePersist.
Import ListNotations.
Local Open Scope N_scope.

(* state and results of a completed run *)
Fixpoint file_exec (st : fstate) (ops : list op) : option (fstate * list out) :=
  match ops with
  | [] => Some (st, [])
  | o :: r =>
    match file_step st o with
    | None => None
    | Some (st', x) =>
      match file_exec st' r with
      | None => None
      | Some (st'', xs) => Some (st'', x :: xs)
      end
    end
  end.

(* the disk at the moment of death, the results of the calls that had returned, and the
   operation that was in progress (None: all operations had returned) *)
Inductive crashed := Crashed (d : disk) (done : list out) (inflight : option op).

(* [k]: number of lseek/write calls that complete before the process dies.
   [sysf]/[stepf]: the system calls and the effect of one operation (current tree: file_sys /
   file_step; the tree before a892b9a: file_sys_orig / file_step_orig) *)
Section Run.
Variable sysf : fstate -> op -> list sys.
Variable stepf : fstate -> op -> option (fstate * out).

Fixpoint crash_run_with (st : fstate) (ops : list op) (k : nat) : option crashed :=
  match ops with
  | [] => Some (Crashed (f_disk st) [] None)
  | o :: r =>
    let l := sysf st o in
    if (length l <=? k)%nat then
      match stepf st o with
      | None => None
      | Some (st', x) =>
        match crash_run_with st' r (k - length l) with
        | None => None
        | Some (Crashed d done i) => Some (Crashed d (x :: done) i)
        end
      end
    else Some (Crashed (exec_all (f_disk st) (firstn k l)) [] (Some o))
  end.

Fixpoint run_with (st : fstate) (ops : list op) : option (list out) :=
  match ops with
  | [] => Some []
  | o :: r =>
    match stepf st o with
    | None => None
    | Some (st', x) => match run_with st' r with None => None | Some xs => Some (x :: xs) end
    end
  end.
End Run.

Definition crash_run := crash_run_with file_sys file_step.

(* a new FilePersister object on the surviving files *)
Definition recover (d : disk) : option fstate :=
  match replay (d_idx d) with
  | None => None
  | Some ix => Some {| f_index := ix; f_disk := d |}
  end.

(* run [pre], die after k calls, reopen, run [after] *)
Record c27_obs := { o_disk : disk; o_done : list out; o_inflight : option op; o_after : list out }.
Definition c27_model_with sysf stepf (pre : list op) (k : nat) (after : list op) : option c27_obs :=
  match crash_run_with sysf stepf file_empty pre k with
  | None => None
  | Some (Crashed d done i) =>
    match recover d with
    | None => None
    | Some st =>
      match run_with stepf st after with
      | None => None
      | Some outs => Some {| o_disk := d; o_done := done; o_inflight := i; o_after := outs |}
      end
    end
  end.
Definition c27_model := c27_model_with file_sys file_step.
Definition c27_model_orig := c27_model_with file_sys_orig file_step_orig.

(* the observables the oracle looks at: how many calls had returned, their results, and the
   results after the reopen *)
Definition result_of (m : option c27_obs) : option (nat * list out * list out) :=
  match m with
  | None => None
  | Some o => Some (length (o_done o), o_done o, o_after o)
  end.
Definition c27_result (pre : list op) (k : nat) (after : list op) := result_of (c27_model pre k after).
Definition c27_result_orig (pre : list op) (k : nat) (after : list op) := result_of (c27_model_orig pre k after).

(* ---- hypotheses of the theorems, as executable predicates ---- *)

(* the process dies between the two writes of a message put (the third of its four calls has
   completed): since a892b9a the record is on disk and its index entry is not (harmless); before,
   the index entry was there without the record (finding F32, repaired) *)
Fixpoint crash_torn (st : fstate) (ops : list op) (k : nat) : bool :=
  match ops with
  | [] => false
  | o :: r =>
    let l := file_sys st o in
    if (length l <=? k)%nat then
      match file_step st o with
      | None => false
      | Some (st', _) => crash_torn st' r (k - length l)
      end
    else match o with OPut _ _ => (k =? 3)%nat | _ => false end
  end.

(* the process dies between two API calls: no call of the operation in progress has completed *)
Fixpoint crash_between (st : fstate) (ops : list op) (k : nat) : bool :=
  match ops with
  | [] => true
  | o :: r =>
    let l := file_sys st o in
    if (length l <=? k)%nat then
      match file_step st o with
      | None => false
      | Some (st', _) => crash_between st' r (k - length l)
      end
    else (k =? 0)%nat
  end.

(* control-first histories: the control record is never written over a message's index entry
   (no message put on an empty index file followed, at any time, by a control put): not F31 *)
Fixpoint never_lost_from (m : slot0) (ops : list op) : bool :=
  match ops with
  | [] => true
  | o :: r => match slot_step m o with SLost => false | m' => never_lost_from m' r end
  end.
Definition never_lost (ops : list op) : bool := never_lost_from SVirgin ops.
