(* Property C27 as an executable predicate on observables, written from the property text on top
   of the store contract (C26/PersistSpec.v); independent of the persister models.

   Observables: the operations [pre] issued before the crash, the number [n] of them that had
   returned and their results [done], and the results [outs] of the operations [after] issued on
   a freshly opened persister after the crash.  [after] is chosen by the test to contain a
   control get, a get of every sequence number, further stores, and the same reads again.

   The store in progress at the crash (operation number n, if any) either happened or did not:
   the answers after the reopen must be those of the contract started from the state after the
   n completed operations, or from the state after n+1 operations.  This gives the four clauses:
   - a message whose store completed is part of both candidate states: returned byte-identical;
   - a get can only return what one of the two states holds under that number: never bytes that
     were not stored for it;
   - the control record is that of the n completed operations (or of the control store in
     progress);
   - further stores behave as the contract says from that state: accepted unless occupied, and
     retrievable afterwards. *)
From Coq Require Import PeanoNat NArith List Bool.
From F8 Require Import C26.SMap C26.PersistSpec.
Import ListNotations.

Definition cand_ok (s : spec) (after : list op) (outs : list out) : bool :=
  list_eqb out_eqb outs (snd (spec_run s after)).

Definition state_after (ops : list op) : spec := fst (spec_run spec_empty ops).

Definition c27_ok (pre after : list op) (r : option (nat * list out * list out)) : bool :=
  match r with
  | None => false
  | Some (n, done, outs) =>
    (n <=? length pre)%nat &&
    list_eqb out_eqb done (spec_outputs (firstn n pre)) &&
    (cand_ok (state_after (firstn n pre)) after outs ||
     ((n <? length pre)%nat && cand_ok (state_after (firstn (S n) pre)) after outs))
  end.
