(* Crash safety of the FilePersister model (tree since a892b9a: the record is written before its
   index entry).  Every crash point leaves either the disk of an operation boundary or that disk
   with the bytes of the put in progress appended to the data file and no index entry for them;
   both satisfy the invariant of the C26 refinement proof, which then gives all four clauses. *)
From Coq Require Import PeanoNat NArith List Bool Lia.
From F8 Require Import C26.SMap C26.SMapProofs C26.PersistSpec C26.PersistProofs C26.Spec_C26
  C26.MemPersist C26.MemProofs C26.FilePersist C26.FileLemmas C26.FileProofs C26.SpecProofs
  C27.Crash C27.Spec_C27.
Import ListNotations.
Local Open Scope N_scope.

(* ---- runs with final state ---- *)
Lemma run_with_file : forall ops st, run_with file_step st ops = file_run st ops.
Proof.
  induction ops as [|o r IH]; intros st; [reflexivity|]. cbn [run_with file_run].
  destruct (file_step st o) as [[st' x]|]; [|reflexivity]. rewrite IH. reflexivity.
Qed.

Lemma file_run_exec : forall ops st, file_run st ops = option_map snd (file_exec st ops).
Proof.
  induction ops as [|o r IH]; intros st; [reflexivity|]. cbn [file_run file_exec].
  destruct (file_step st o) as [[st' x]|]; [|reflexivity]. rewrite IH.
  destruct (file_exec st' r) as [[s2 xs]|]; reflexivity.
Qed.

(* ---- control-first histories ---- *)
Lemma never_lost_firstn : forall ops m j, never_lost_from m ops = true -> never_lost_from m (firstn j ops) = true.
Proof.
  induction ops as [|o r IH]; intros m j H; [destruct j; reflexivity|].
  destruct j; [reflexivity|]. cbn [firstn never_lost_from] in *.
  destruct (slot_step m o); try discriminate; apply IH; auto.
Qed.

Lemma never_lost_reopen_safe : forall ops m, never_lost_from m ops = true -> m <> SLost ->
  reopen_safe_from m ops = true.
Proof.
  induction ops as [|o r IH]; intros m H Hm; [reflexivity|]. cbn [never_lost_from reopen_safe_from] in *.
  assert (slot_step m o <> SLost) by (destruct (slot_step m o); congruence).
  assert (never_lost_from (slot_step m o) r = true) by (destruct (slot_step m o); congruence).
  destruct m; try contradiction; apply IH; auto.
Qed.

(* ---- the invariant of the C26 refinement proof along a completed run ---- *)
Lemma file_exec_finv : forall ops st sp mode n st' outs,
  finv st sp mode n -> forallb op_wf ops = true -> zero_free ops = true ->
  n + N.of_nat (length ops) < LIM -> never_lost_from mode ops = true -> mode <> SLost ->
  file_exec st ops = Some (st', outs) ->
  exists mode', finv st' (fst (spec_run sp ops)) mode' (n + N.of_nat (length ops)) /\ mode' <> SLost /\
                outs = snd (spec_run sp ops).
Proof.
  induction ops as [|o r IH]; intros st sp mode n st' outs I Hw Hz Hn Hl Hm H.
  - cbn in H. inversion H; subst. exists mode. cbn [length spec_run fst snd]. rewrite N.add_0_r. auto.
  - cbn [forallb] in Hw. unfold zero_free in Hz. cbn [forallb] in Hz.
    apply andb_true_iff in Hw, Hz. destruct Hw as [Hw1 Hw2]. destruct Hz as [Hz1 Hz2].
    cbn [length] in *. rewrite Nat2N.inj_succ in *.
    cbn [never_lost_from] in Hl.
    assert (Hm' : slot_step mode o <> SLost) by (destruct (slot_step mode o); congruence).
    assert (Hl' : never_lost_from (slot_step mode o) r = true) by (destruct (slot_step mode o); congruence).
    destruct (file_step_refines st sp mode n o I Hw1 Hz1 ltac:(lia) ltac:(intros; contradiction))
      as [s1 [E I1]].
    cbn [file_exec] in H. rewrite E in H.
    destruct (file_exec s1 r) as [[s2 xs]|] eqn:Er; [|discriminate]. inversion H; subst.
    cbn [spec_run]. destruct (spec_step sp o) as [sp1 x] eqn:Es. cbn [fst snd] in *.
    destruct (IH s1 sp1 _ (n + 1) _ _ I1 Hw2 Hz2 ltac:(lia) Hl' Hm' Er) as [m2 [I2 [Hm2 Hx]]].
    exists m2. destruct (spec_run sp1 r) as [sp2 ys]. cbn [fst snd] in *.
    replace (n + N.succ (N.of_nat (length r))) with (n + 1 + N.of_nat (length r)) by lia.
    subst. auto.
Qed.

Lemma disk_inv_recs : forall mode st, mode <> SLost -> disk_inv mode st ->
  exists recs, d_idx (f_disk st) = encs recs /\ f_index st = fold_left ins recs [] /\ Forall rec_ok recs.
Proof.
  intros mode st Hm D. destruct mode; try contradiction;
    destruct D as [recs [H1 [H2 [H3 _]]]]; exists recs; auto.
Qed.

(* bytes appended to the data file without an index entry (an interrupted put) change nothing *)
Lemma finv_garbage : forall st sp mode n w, finv st sp mode n -> len w <= MAX_MSG_LENGTH ->
  finv {| f_index := f_index st;
          f_disk := {| d_idx := d_idx (f_disk st); d_dat := d_dat (f_disk st) ++ w |} |} sp mode (n + 1).
Proof.
  intros st sp mode n w [S M C B IB DL DI] Hw.
  assert (MAX_MSG_LENGTH = 8192) as HM by reflexivity.
  split; cbn [f_index f_disk d_idx d_dat]; auto.
  - rewrite M. apply absm_ext. intros e He. symmetry. apply rd_app. apply IB; auto.
  - intros e He. specialize (IB e He). unfold len in *. rewrite app_length, Nat2N.inj_add. lia.
  - unfold len in *. rewrite app_length, Nat2N.inj_add. lia.
Qed.

(* ---- shape of the disk at any crash point ---- *)
Lemma crash_shape : forall ops st k d done i,
  crash_run st ops k = Some (Crashed d done i) ->
  exists stj, file_exec st (firstn (length done) ops) = Some (stj, done) /\
    (length done <= length ops)%nat /\
    (d = f_disk stj \/
     exists seq b, i = Some (OPut seq b) /\ len b <= MAX_MSG_LENGTH /\
                   d = {| d_idx := d_idx (f_disk stj); d_dat := d_dat (f_disk stj) ++ b |}).
Proof.
  unfold crash_run.
  induction ops as [|o r IH]; intros st k d done i H.
  - cbn in H. inversion H; subst. exists st. cbn. auto.
  - cbn [crash_run_with] in H.
    destruct (length (file_sys st o) <=? k)%nat eqn:Ek.
    + destruct (file_step st o) as [[st' x]|] eqn:Es; [|discriminate].
      destruct (crash_run_with file_sys file_step st' r (k - length (file_sys st o))) as [[d' done' i']|] eqn:Ec;
        [|discriminate].
      inversion H; subst. destruct (IH _ _ _ _ _ Ec) as [stj [E1 [E2 E3]]].
      exists stj. cbn [length firstn file_exec]. rewrite Es, E1. repeat split; auto. lia.
    + inversion H; subst. exists st. cbn [length firstn file_exec]. split; [reflexivity|]. split; [lia|].
      apply Nat.leb_gt in Ek.
      destruct o as [seq b|seq|s t| | |req last|from to abort| ]; cbn [file_sys] in *;
        try (cbn in Ek; lia).
      * destruct (seq =? 0); [cbn in Ek; lia|].
        destruct (sfind seq (f_index st)); [cbn in Ek; lia|].
        destruct (N.ltb_spec MAX_MSG_LENGTH (len b)) as [Hl|Hl]; [cbn in Ek; lia|]. cbn [length] in Ek.
        destruct k as [|[|[|[|k]]]]; try (left; reflexivity); [|lia].
        right. exists seq, b. repeat split; auto.
        unfold exec_all. cbn [firstn fold_left exec_sys fst d_idx d_dat]. rewrite write_at_end. reflexivity.
      * destruct (seq =? 0); [cbn in Ek; lia|].
        destruct (sfind seq (f_index st)) as [[off sz]|]; [|cbn in Ek; lia]. cbn [length] in Ek.
        destruct k as [|k]; [left; reflexivity|lia].
      * cbn [length] in Ek. destruct k as [|[|k]]; try (left; reflexivity). lia.
Qed.

Lemma crash_none : forall ops st k, crash_run st ops k = None -> file_exec st ops = None.
Proof.
  unfold crash_run. induction ops as [|o r IH]; intros st k H; [discriminate|].
  cbn [crash_run_with file_exec] in *.
  destruct (length (file_sys st o) <=? k)%nat; [|discriminate].
  destruct (file_step st o) as [[st' x]|]; [|reflexivity].
  destruct (crash_run_with file_sys file_step st' r (k - length (file_sys st o))) as [[? ? ?]|] eqn:E; [discriminate|].
  rewrite (IH _ _ E). reflexivity.
Qed.

(* ---- the main theorem: EVERY crash point ---- *)
Lemma c27_atomic_partial_lemma : forall pre k after,
  ops_wf (pre ++ OReopen :: after) = true -> zero_free (pre ++ OReopen :: after) = true ->
  never_lost pre = true -> no_reopen after = true ->
  c27_ok pre after (c27_result pre k after) = true.
Proof.
  intros pre k after Hw Hz Hn Ha.
  assert (LIM = 2147483648) as HL by reflexivity.
  unfold ops_wf in Hw. apply andb_true_iff in Hw. destruct Hw as [Hw1 Hw2]. apply N.ltb_lt in Hw2.
  rewrite forallb_app in Hw1. cbn [forallb] in Hw1. apply andb_true_iff in Hw1. destruct Hw1 as [Hwp Hwa].
  unfold zero_free in Hz. rewrite forallb_app in Hz. cbn [forallb] in Hz.
  apply andb_true_iff in Hz. destruct Hz as [Hzp Hza]. cbn [op_wf op_bounded op_zero_free andb] in Hwa, Hza.
  rewrite app_length in Hw2. cbn [length] in Hw2.
  unfold c27_result, c27_model, c27_model_with. fold crash_run.
  destruct (crash_run file_empty pre k) as [[d done i]|] eqn:Ec.
  2:{ exfalso. apply crash_none in Ec.
      assert (file_outputs pre = Some (spec_outputs pre)) as Hr.
      { apply c26_file_refines_lemma.
        - unfold ops_wf. rewrite Hwp. apply N.ltb_lt. lia.
        - exact Hzp.
        - apply never_lost_reopen_safe; auto. discriminate. }
      unfold file_outputs in Hr. rewrite file_run_exec, Ec in Hr. discriminate. }
  destruct (crash_shape _ _ _ _ _ _ Ec) as [stj [E1 [E3 Hshape]]].
  set (A := firstn (length done) pre) in *.
  assert (HlenA : (length A <= length pre)%nat) by (unfold A; rewrite firstn_length; lia).
  destruct (file_exec_finv A file_empty spec_empty SVirgin 0 stj done finv_empty) as [mode [I [Hm Hd]]]; auto.
  { unfold A. rewrite <- (firstn_skipn (length done) pre) in Hwp. rewrite forallb_app in Hwp.
    apply andb_true_iff in Hwp. tauto. }
  { unfold zero_free, A in *. rewrite <- (firstn_skipn (length done) pre) in Hzp. rewrite forallb_app in Hzp.
    apply andb_true_iff in Hzp. tauto. }
  { lia. }
  { apply never_lost_firstn; auto. }
  { discriminate. }
  rewrite N.add_0_l in I.
  (* the reopened store satisfies the invariant for the state after the completed operations *)
  assert (Hrec : exists st n, recover d = Some st /\ finv st (fst (spec_run spec_empty A)) mode n /\
                              n <= N.of_nat (length A) + 1).
  { destruct (disk_inv_recs _ _ Hm (fi_disk _ _ _ _ I)) as [recs [H1 [H2 H3]]].
    assert (Hrep : replay (d_idx (f_disk stj)) = Some (f_index stj))
      by (rewrite H1, replay_encs by auto; rewrite <- H2; reflexivity).
    destruct Hshape as [Hs|[seq [b [Hi [Hb Hs]]]]]; subst d; unfold recover; cbn [d_idx];
      rewrite Hrep.
    - exists {| f_index := f_index stj; f_disk := f_disk stj |}, (N.of_nat (length A)).
      rewrite <- fstate_eta. split; [reflexivity|]. split; [exact I|lia].
    - eexists. exists (N.of_nat (length A) + 1). split; [reflexivity|]. split; [|lia].
      apply finv_garbage; auto. }
  destruct Hrec as [st [n [Hr [Ist Hn']]]]. rewrite Hr.
  rewrite run_with_file.
  rewrite (file_run_refines after st _ mode n Ist); auto.
  2:{ lia. }
  2:{ apply no_reopen_safe; auto. }
  cbn [result_of o_done o_after c27_ok].
  apply andb_true_iff. split; [apply andb_true_iff; split|].
  - apply Nat.leb_le. exact E3.
  - rewrite Hd at 1. unfold spec_outputs. fold A. apply spec_run_eqb.
  - apply orb_true_iff. left. unfold cand_ok, state_after. fold A. apply spec_run_eqb.
Qed.

Lemma c27_between_ops_partial_lemma : forall pre k after,
  ops_wf (pre ++ OReopen :: after) = true -> zero_free (pre ++ OReopen :: after) = true ->
  never_lost pre = true -> no_reopen after = true ->
  crash_between file_empty pre k = true ->
  c27_ok pre after (c27_result pre k after) = true.
Proof. intros. apply c27_atomic_partial_lemma; auto. Qed.

(* ---- refutations and non-vacuity (evaluation of the model on one history each) ---- *)

(* F31: message stored before the first control record; no crash at all (k beyond the 10 calls) *)
Definition f31_pre : list op := [OPut 1 [77; 83; 71; 45; 79; 78; 69]; OCtlPut 2 1; OPut 2 [77; 83; 71; 45; 84; 87; 79]].
Definition f31_after : list op := [OCtlGet; OGet 1; OGet 2].
Lemma c27_control_refuted_lemma :
  ops_wf (f31_pre ++ OReopen :: f31_after) = true /\ zero_free (f31_pre ++ OReopen :: f31_after) = true /\
  no_reopen f31_after = true /\ crash_between file_empty f31_pre 10 = true /\
  never_lost f31_pre = false /\
  c27_result f31_pre 10 f31_after =
    Some (3%nat, [RBool true; RBool true; RBool true],
          [RCtl (Some (2, 1)); RBytes None; RBytes (Some [77; 83; 71; 45; 84; 87; 79])]) /\
  c27_ok f31_pre f31_after (c27_result f31_pre 10 f31_after) = false.
Proof. repeat split; vm_compute; reflexivity. Qed.

(* F32, the code BEFORE a892b9a (index record written first): the process dies after the third
   call of put(2, "BBBBBB") (call 9 = 2 + 4 + 3); after the reopen put(2) was refused and, once
   put(3, "CCCCCCCC") had appended its bytes, get(2) returned six of them.  The repaired order on
   the same input: 2 is simply absent, put(2,"DD") is accepted and retrievable. *)
Definition f32_pre : list op := [OCtlPut 1 1; OPut 1 [65; 65; 65; 65]; OPut 2 [66; 66; 66; 66; 66; 66]].
Definition f32_after : list op := [OGet 2; OPut 2 [68; 68]; OPut 3 [67; 67; 67; 67; 67; 67; 67; 67]; OGet 2].
Lemma c27_order_orig_refuted_lemma :
  ops_wf (f32_pre ++ OReopen :: f32_after) = true /\ zero_free (f32_pre ++ OReopen :: f32_after) = true /\
  no_reopen f32_after = true /\ never_lost f32_pre = true /\
  crash_torn file_empty f32_pre 9 = true /\
  c27_result_orig f32_pre 9 f32_after =
    Some (2%nat, [RBool true; RBool true],
          [RBytes None; RBool false; RBool true; RBytes (Some [67; 67; 67; 67; 67; 67])]) /\
  c27_ok f32_pre f32_after (c27_result_orig f32_pre 9 f32_after) = false /\
  c27_result f32_pre 9 f32_after =
    Some (2%nat, [RBool true; RBool true],
          [RBytes None; RBool true; RBool true; RBytes (Some [68; 68])]).
Proof. repeat split; vm_compute; reflexivity. Qed.

(* non-vacuity: a control-first history killed BETWEEN the data write and the index write of
   put(2,[13;14]) (call 11 = 2 + 4 + 2 + 3) meets every hypothesis of c27_atomic_partial: the
   orphan bytes are on disk, 2 is absent, everything completed is there, further stores work *)
Definition nv_pre : list op := [OCtlPut 3 4; OPut 1 [10; 11; 12]; OCtlPut 5 6; OPut 2 [13; 14]].
Definition nv_after : list op := [OCtlGet; OGet 1; OGet 2; OPut 2 [15]; OCtlPut 7 8; OCtlGet; OGet 2].
Lemma c27_nonvacuous_lemma :
  ops_wf (nv_pre ++ OReopen :: nv_after) = true /\ zero_free (nv_pre ++ OReopen :: nv_after) = true /\
  never_lost nv_pre = true /\ no_reopen nv_after = true /\
  crash_torn file_empty nv_pre 11 = true /\ crash_between file_empty nv_pre 11 = false /\
  option_map (fun o => d_dat (o_disk o)) (c27_model nv_pre 11 nv_after) = Some [10; 11; 12; 13; 14] /\
  c27_result nv_pre 11 nv_after =
    Some (3%nat, [RBool true; RBool true; RBool true],
          [RCtl (Some (5, 6)); RBytes (Some [10; 11; 12]); RBytes None; RBool true; RBool true;
           RCtl (Some (7, 8)); RBytes (Some [15])]).
Proof. repeat split; vm_compute; reflexivity. Qed.

(* control values over the whole range of `unsigned` are inside the hypotheses: target 8193 (larger
   than any message size), 2^31 (negative as the int32 _size), 2^32-1; killed between two calls *)
Definition cb_pre : list op :=
  [OCtlPut 4294967295 8193; OPut 1 [1; 2]; OCtlPut 65536 2147483648; OPut 2 [3]].
Definition cb_after : list op := [OCtlGet; OGet 1; OCtlPut 8192 4294967295; OCtlGet].
Lemma c27_control_range_nonvacuous_lemma :
  ops_wf (cb_pre ++ OReopen :: cb_after) = true /\ zero_free (cb_pre ++ OReopen :: cb_after) = true /\
  never_lost cb_pre = true /\ no_reopen cb_after = true /\
  crash_between file_empty cb_pre 8 = true /\
  c27_result cb_pre 8 cb_after =
    Some (3%nat, [RBool true; RBool true; RBool true],
          [RCtl (Some (65536, 2147483648)); RBytes (Some [1; 2]); RBool true;
           RCtl (Some (8192, 4294967295))]) /\
  c27_result cb_pre 2 cb_after =
    Some (1%nat, [RBool true],
          [RCtl (Some (4294967295, 8193)); RBytes None; RBool true; RCtl (Some (8192, 4294967295))]).
Proof. repeat split; vm_compute; reflexivity. Qed.
