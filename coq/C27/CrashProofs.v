(* Crash safety of the FilePersister model: every crash point that does not fall between the
   index write and the data write of a message put leaves the disk of an operation boundary, and
   from there the C26 refinement theorem (with a reopen inserted) gives all four clauses. *)
From Coq Require Import PeanoNat NArith List Bool Lia.
From F8 Require Import C26.SMap C26.SMapProofs C26.PersistSpec C26.PersistProofs C26.Spec_C26
  C26.MemPersist C26.MemProofs C26.FilePersist C26.FileLemmas C26.FileProofs C26.SpecProofs
  C27.Crash C27.Spec_C27.
Import ListNotations.
Local Open Scope N_scope.

(* ---- runs with final state ---- *)
Lemma file_run_exec : forall ops st, file_run st ops = option_map snd (file_exec st ops).
Proof.
  induction ops as [|o r IH]; intros st; [reflexivity|]. cbn [file_run file_exec].
  destruct (file_step st o) as [[st' x]|]; [|reflexivity]. rewrite IH.
  destruct (file_exec st' r) as [[s2 xs]|]; reflexivity.
Qed.

Lemma file_exec_app : forall a b st,
  file_exec st (a ++ b) =
  match file_exec st a with
  | None => None
  | Some (s1, x1) => match file_exec s1 b with
                     | None => None
                     | Some (s2, x2) => Some (s2, x1 ++ x2)
                     end
  end.
Proof.
  induction a as [|o r IH]; intros b st.
  - cbn. destruct (file_exec st b) as [[s2 x2]|]; reflexivity.
  - cbn [app file_exec]. destruct (file_step st o) as [[st' x]|]; [|reflexivity].
    rewrite IH. destruct (file_exec st' r) as [[s1 x1]|]; [|reflexivity].
    destruct (file_exec s1 b) as [[s2 x2]|]; reflexivity.
Qed.

Lemma file_exec_length : forall ops st st' outs, file_exec st ops = Some (st', outs) -> length outs = length ops.
Proof.
  induction ops as [|o r IH]; intros st st' outs H; cbn [file_exec] in H.
  - inversion H; reflexivity.
  - destruct (file_step st o) as [[s1 x]|]; [|discriminate].
    destruct (file_exec s1 r) as [[s2 xs]|] eqn:E; [|discriminate]. inversion H; subst.
    cbn [length]. f_equal. eapply IH; eauto.
Qed.

Lemma spec_run_length : forall ops sp, length (snd (spec_run sp ops)) = length ops.
Proof.
  induction ops as [|o r IH]; intros sp; [reflexivity|]. cbn [spec_run].
  destruct (spec_step sp o) as [s1 x]. specialize (IH s1). destruct (spec_run s1 r). cbn [snd length] in *.
  f_equal. exact IH.
Qed.

Lemma app_eq_len {A} : forall (a c b d : list A), length a = length c -> a ++ b = c ++ d -> a = c /\ b = d.
Proof.
  induction a as [|x a IH]; intros [|y c] b d L H; try discriminate; [auto|].
  cbn in L, H. inversion H; subst. destruct (IH c b d) as [E1 E2]; auto. subst. auto.
Qed.

(* ---- a crash that is not torn leaves the disk of an operation boundary ---- *)
Lemma crash_not_torn : forall ops st k d done i,
  crash_run st ops k = Some (Crashed d done i) -> crash_torn st ops k = false ->
  exists stj, file_exec st (firstn (length done) ops) = Some (stj, done) /\ d = f_disk stj /\
              (length done <= length ops)%nat.
Proof.
  induction ops as [|o r IH]; intros st k d done i H T.
  - cbn in H. inversion H; subst. exists st. cbn. auto.
  - cbn [crash_run crash_torn] in H, T.
    destruct (length (file_sys st o) <=? k)%nat eqn:Ek.
    + destruct (file_step st o) as [[st' x]|] eqn:Es; [|discriminate].
      destruct (crash_run st' r (k - length (file_sys st o))) as [[d' done' i']|] eqn:Ec; [|discriminate].
      inversion H; subst. destruct (IH _ _ _ _ _ Ec T) as [stj [E1 [E2 E3]]].
      exists stj. cbn [length firstn file_exec]. rewrite Es, E1. repeat split; auto. lia.
    + inversion H; subst. exists st. cbn [length firstn file_exec]. split; [reflexivity|]. split; [|lia].
      apply Nat.leb_gt in Ek.
      destruct o as [seq b|seq|s t| | |req last|from to abort| ]; cbn [file_sys] in *;
        try (cbn in Ek; lia).
      * destruct (seq =? 0); [cbn in Ek; lia|].
        destruct (sfind seq (f_index st)); [cbn in Ek; lia|]. cbn [length] in Ek.
        destruct k as [|[|[|[|k]]]]; try reflexivity; [discriminate|lia].
      * destruct (seq =? 0); [cbn in Ek; lia|].
        destruct (sfind seq (f_index st)) as [[off sz]|]; [|cbn in Ek; lia]. cbn [length] in Ek.
        destruct k as [|k]; [reflexivity|lia].
      * cbn [length] in Ek. destruct k as [|[|k]]; try reflexivity. lia.
Qed.

Lemma between_not_torn : forall ops st k, crash_between st ops k = true -> crash_torn st ops k = false.
Proof.
  induction ops as [|o r IH]; intros st k H; [reflexivity|]. cbn [crash_between crash_torn] in *.
  destruct (length (file_sys st o) <=? k)%nat.
  - destruct (file_step st o) as [[st' x]|]; [auto|reflexivity].
  - apply Nat.eqb_eq in H. subst. destruct o; reflexivity.
Qed.

(* ---- control-first histories ---- *)
Lemma never_lost_firstn : forall ops m j, never_lost_from m ops = true -> never_lost_from m (firstn j ops) = true.
Proof.
  induction ops as [|o r IH]; intros m j H; [destruct j; reflexivity|].
  destruct j; [reflexivity|]. cbn [firstn never_lost_from] in *.
  destruct (slot_step m o); try discriminate; apply IH; auto.
Qed.

Lemma never_lost_then_reopen : forall a m b, never_lost_from m a = true -> m <> SLost -> no_reopen b = true ->
  reopen_safe_from m (a ++ OReopen :: b) = true.
Proof.
  induction a as [|o r IH]; intros m b H Hm Hb.
  - cbn [app reopen_safe_from]. destruct m; try contradiction; cbn [slot_step]; apply no_reopen_safe; auto.
  - cbn [app never_lost_from reopen_safe_from] in *.
    assert (slot_step m o <> SLost) by (destruct (slot_step m o); congruence).
    assert (never_lost_from (slot_step m o) r = true) by (destruct (slot_step m o); congruence).
    destruct m; try contradiction; try (apply IH; auto).
Qed.

Lemma forallb_prefix_mid {A} (f : A -> bool) : forall a j c b, forallb f (a ++ c :: b) = true ->
  forallb f (firstn j a ++ c :: b) = true.
Proof.
  induction a as [|x a IH]; intros j c b H; [destruct j; exact H|].
  cbn [app forallb] in H. apply andb_true_iff in H. destruct H as [H1 H2].
  destruct j; cbn [firstn app forallb].
  - clear - H2. induction a as [|y a IH]; [exact H2|]. cbn [app forallb] in H2.
    apply andb_true_iff in H2. destruct H2. auto.
  - rewrite H1. cbn [andb]. apply IH; auto.
Qed.

(* ---- the main theorem ---- *)
Lemma spec_outputs_reopen : forall a b,
  spec_outputs (a ++ OReopen :: b) = spec_outputs a ++ RBool true :: snd (spec_run (spec_state a) b).
Proof.
  intros. unfold spec_outputs, spec_state. rewrite spec_run_app. cbn [snd spec_run spec_step].
  destruct (spec_run (fst (spec_run spec_empty a)) b). reflexivity.
Qed.

Lemma c27_atomic_partial_lemma : forall pre k after,
  ops_wf (pre ++ OReopen :: after) = true -> zero_free (pre ++ OReopen :: after) = true ->
  never_lost pre = true -> no_reopen after = true ->
  crash_torn file_empty pre k = false ->
  c27_ok pre after (c27_result pre k after) = true.
Proof.
  intros pre k after Hw Hz Hn Ha Ht.
  unfold c27_result, c27_model.
  (* the combined run with the reopen inserted refines the contract *)
  assert (Href : forall j, file_outputs (firstn j pre ++ OReopen :: after) =
                           Some (spec_outputs (firstn j pre ++ OReopen :: after))).
  { intros j. apply c26_file_refines_lemma.
    - unfold ops_wf in *. apply andb_true_iff in Hw. destruct Hw as [Hw1 Hw2].
      apply andb_true_iff. split; [apply forallb_prefix_mid; auto|].
      apply N.ltb_lt in Hw2. apply N.ltb_lt. rewrite app_length in Hw2. rewrite app_length.
      cbn [length] in *. rewrite firstn_length. lia.
    - unfold zero_free in *. apply forallb_prefix_mid; auto.
    - apply never_lost_then_reopen; auto; [apply never_lost_firstn; auto|discriminate]. }
  destruct (crash_run file_empty pre k) as [[d done i]|] eqn:Ec.
  2:{ (* the run of [pre] itself overran: excluded by refinement of the whole of pre *)
      exfalso. clear Href.
      assert (forall ops st k, crash_run st ops k = None -> file_exec st ops = None) as Hnone.
      { induction ops as [|o r IH]; intros st k0 H; [discriminate|]. cbn [crash_run file_exec] in *.
        destruct (length (file_sys st o) <=? k0)%nat; [|discriminate].
        destruct (file_step st o) as [[st' x]|]; [|reflexivity].
        destruct (crash_run st' r (k0 - length (file_sys st o))) as [[? ? ?]|] eqn:E; [discriminate|].
        rewrite (IH _ _ E). reflexivity. }
      specialize (Hnone _ _ _ Ec).
      assert (file_outputs (firstn (length pre) pre ++ OReopen :: after) = None).
      { unfold file_outputs. rewrite file_run_exec, file_exec_app, firstn_all, Hnone. reflexivity. }
      assert (Hr : file_outputs (firstn (length pre) pre ++ OReopen :: after) <> None).
      { rewrite c26_file_refines_lemma; [discriminate| | |].
        - rewrite firstn_all. auto.
        - rewrite firstn_all. auto.
        - rewrite firstn_all. apply never_lost_then_reopen; auto. discriminate. }
      contradiction. }
  destruct (crash_not_torn _ _ _ _ _ _ Ec Ht) as [stj [E1 [E2 E3]]].
  specialize (Href (length done)).
  unfold file_outputs in Href. rewrite file_run_exec, file_exec_app, E1 in Href.
  cbn [file_exec file_step] in Href. subst d. unfold recover.
  destruct (replay (d_idx (f_disk stj))) as [ix|]; [|discriminate].
  rewrite file_run_exec.
  destruct (file_exec {| f_index := ix; f_disk := f_disk stj |} after) as [[s2 outs]|]; [|discriminate].
  cbn [option_map snd] in *. inversion Href as [Heq]. clear Href.
  rewrite spec_outputs_reopen in Heq.
  change (done ++ RBool true :: outs) with (done ++ [RBool true] ++ outs) in Heq.
  apply app_eq_len in Heq.
  2:{ unfold spec_outputs. rewrite spec_run_length, firstn_length. lia. }
  destruct Heq as [Hd Ho]. cbn [app] in Ho. inversion Ho as [Houts]. clear Ho.
  cbn [o_done o_after c27_ok].
  apply andb_true_iff. split; [apply andb_true_iff; split|].
  - apply Nat.leb_le. exact E3.
  - rewrite Hd at 1. unfold spec_outputs. apply spec_run_eqb.
  - apply orb_true_iff. left. unfold cand_ok, state_after, spec_state. apply spec_run_eqb.
Qed.

Lemma c27_between_ops_partial_lemma : forall pre k after,
  ops_wf (pre ++ OReopen :: after) = true -> zero_free (pre ++ OReopen :: after) = true ->
  never_lost pre = true -> no_reopen after = true ->
  crash_between file_empty pre k = true ->
  c27_ok pre after (c27_result pre k after) = true.
Proof. intros. apply c27_atomic_partial_lemma; auto. apply between_not_torn; auto. Qed.

(* ---- what survives a torn put (crash between the index write and the data write) ---- *)

(* the invariant of the C26 refinement proof holds in the state reached by a completed run *)
Lemma file_exec_finv : forall ops st sp mode n st' outs,
  finv st sp mode n -> forallb op_wf ops = true -> zero_free ops = true ->
  n + N.of_nat (length ops) < LIM -> never_lost_from mode ops = true -> mode <> SLost ->
  file_exec st ops = Some (st', outs) ->
  exists mode', finv st' (fst (spec_run sp ops)) mode' (n + N.of_nat (length ops)) /\ mode' <> SLost.
Proof.
  induction ops as [|o r IH]; intros st sp mode n st' outs I Hw Hz Hn Hl Hm H.
  - cbn in H. inversion H; subst. exists mode. cbn [length spec_run fst]. rewrite N.add_0_r. auto.
  - cbn [forallb] in Hw. unfold zero_free in Hz. cbn [forallb] in Hz.
    apply andb_true_iff in Hw, Hz. destruct Hw as [Hw1 Hw2]. destruct Hz as [Hz1 Hz2].
    cbn [length] in *. rewrite Nat2N.inj_succ in *.
    cbn [never_lost_from] in Hl.
    assert (Hm' : slot_step mode o <> SLost) by (destruct (slot_step mode o); congruence).
    assert (Hl' : never_lost_from (slot_step mode o) r = true) by (destruct (slot_step mode o); congruence).
    destruct (file_step_refines st sp mode n o I Hw1 Hz1 ltac:(lia) ltac:(intros; contradiction))
      as [s1 [E I1]].
    cbn [file_exec] in H. rewrite E in H.
    destruct (file_exec s1 r) as [[s2 xs]|] eqn:Er; [|discriminate]. inversion H; subst.
    cbn [spec_run]. destruct (spec_step sp o) as [sp1 x] eqn:Es. cbn [fst snd] in *.
    destruct (IH s1 sp1 _ (n + 1) _ _ I1 Hw2 Hz2 ltac:(lia) Hl' Hm' Er) as [m2 [I2 Hm2]].
    exists m2. destruct (spec_run sp1 r) as [sp2 ys]. cbn [fst] in *.
    replace (n + N.succ (N.of_nat (length r))) with (n + 1 + N.of_nat (length r)) by lia. auto.
Qed.

Lemma disk_inv_recs : forall mode st, mode <> SLost -> disk_inv mode st ->
  exists recs, d_idx (f_disk st) = encs recs /\ f_index st = fold_left ins recs [] /\ Forall rec_ok recs.
Proof.
  intros mode st Hm D. destruct mode; try contradiction;
    destruct D as [recs [H1 [H2 [H3 _]]]]; exists recs; auto.
Qed.

(* shape of the disk after a torn put *)
Lemma crash_torn_shape : forall ops st k d done i,
  crash_run st ops k = Some (Crashed d done i) -> crash_torn st ops k = true ->
  exists stj seq b, file_exec st (firstn (length done) ops) = Some (stj, done) /\
    i = Some (OPut seq b) /\ In (OPut seq b) ops /\ seq <> 0 /\ sfind seq (f_index stj) = None /\
    d = {| d_idx := d_idx (f_disk stj) ++ enc_iprec seq (len (d_dat (f_disk stj)), len b);
           d_dat := d_dat (f_disk stj) |}.
Proof.
  induction ops as [|o r IH]; intros st k d done i H T; [discriminate|].
  cbn [crash_run crash_torn] in H, T.
  destruct (length (file_sys st o) <=? k)%nat eqn:Ek.
  - destruct (file_step st o) as [[st' x]|] eqn:Es; [|discriminate].
    destruct (crash_run st' r (k - length (file_sys st o))) as [[d' done' i']|] eqn:Ec; [|discriminate].
    inversion H; subst. destruct (IH _ _ _ _ _ Ec T) as [stj [seq [b [E1 [E2 [E3 E4]]]]]].
    exists stj, seq, b. cbn [length firstn file_exec]. rewrite Es, E1.
    repeat split; try tauto. right. exact E3.
  - inversion H; subst. apply Nat.leb_gt in Ek.
    destruct o as [seq b|seq|s t| | |req last|from to abort| ]; try discriminate.
    apply Nat.eqb_eq in T. subst k. exists st, seq, b. cbn [length firstn file_exec file_sys] in *.
    destruct (N.eqb_spec seq 0); [cbn in Ek; lia|].
    destruct (sfind seq (f_index st)) eqn:Ef; [cbn in Ek; lia|].
    repeat split; auto; [left; reflexivity|].
    unfold exec_all. cbn [firstn fold_left exec_sys fst d_idx d_dat]. rewrite write_at_end. reflexivity.
Qed.

Lemma c27_torn_partial_lemma : forall pre k d done i,
  forallb op_wf pre = true -> zero_free pre = true -> N.of_nat (length pre) < LIM ->
  never_lost pre = true ->
  crash_run file_empty pre k = Some (Crashed d done i) -> crash_torn file_empty pre k = true ->
  let s := spec_state (firstn (length done) pre) in
  exists st seq b, recover d = Some st /\ i = Some (OPut seq b) /\
    (forall j, j <> seq -> file_step st (OGet j) = Some (st, snd (spec_step s (OGet j)))) /\
    file_step st OCtlGet = Some (st, RCtl (s_ctl s)) /\
    (b <> [] -> file_step st (OGet seq) = Some (st, RBytes None)).
Proof.
  intros pre k d done i Hw Hz Hn Hl Hc Ht s.
  destruct (crash_torn_shape _ _ _ _ _ _ Hc Ht) as [stj [seq [b [E1 [Ei [Hin [Hs0 [Hnf Hd]]]]]]]].
  assert (LIM = 2147483648) as HL by reflexivity. assert (MAX_MSG_LENGTH = 8192) as HM by reflexivity.
  set (A := firstn (length done) pre) in *.
  assert (HlenA : (length A <= length pre)%nat) by (unfold A; rewrite firstn_length; lia).
  (* the invariant at the last completed operation *)
  destruct (file_exec_finv A file_empty spec_empty SVirgin 0 stj done finv_empty) as [mode [I Hm]]; auto.
  { unfold A. rewrite <- (firstn_skipn (length done) pre) in Hw. rewrite forallb_app in Hw.
    apply andb_true_iff in Hw. tauto. }
  { unfold zero_free, A in *. rewrite <- (firstn_skipn (length done) pre) in Hz. rewrite forallb_app in Hz.
    apply andb_true_iff in Hz. tauto. }
  { lia. }
  { apply never_lost_firstn; auto. }
  { discriminate. }
  fold (spec_state A) in I. fold s in I. destruct I as [S M C B IB DL DI].
  destruct (disk_inv_recs _ _ Hm DI) as [recs [H1 [H2 H3]]].
  (* the put in progress is one of the operations: its numbers are bounded *)
  assert (Hop : op_wf (OPut seq b) = true) by (rewrite forallb_forall in Hw; apply Hw; auto).
  unfold op_wf in Hop. apply andb_true_iff in Hop. destruct Hop as [Hb1 Hb2].
  cbn in Hb1. apply N.ltb_lt in Hb1. apply N.leb_le in Hb2.
  set (dat := d_dat (f_disk stj)) in *.
  set (r := (seq, (len dat, len b))).
  assert (Hrok : rec_ok r) by (unfold rec_ok, r; cbn [fst snd]; lia).
  (* the index file: the records of the completed operations plus the torn one *)
  assert (Hrep : replay (d_idx d) = Some (ins (f_index stj) r)).
  { rewrite Hd. cbn [d_idx]. rewrite H1.
    change (enc_iprec seq (len dat, len b)) with (enc_iprec (fst r) (snd r)).
    replace (encs recs ++ enc_iprec (fst r) (snd r)) with (encs (recs ++ [r]))
      by (rewrite encs_app; unfold encs; cbn [map concat]; rewrite app_nil_r; reflexivity).
    rewrite replay_encs by (apply Forall_app; split; auto).
    rewrite fold_left_app, <- H2. reflexivity. }
  assert (Hfi : forall j, sfind j (ins (f_index stj) r) =
                          if j =? seq then Some (len dat, len b) else sfind j (f_index stj)).
  { intros j. unfold ins, r. cbn [fst snd]. apply sfind_sinsert_none. exact Hnf. }
  exists {| f_index := ins (f_index stj) r; f_disk := d |}, seq, b.
  split; [unfold recover; rewrite Hrep; reflexivity|]. split; [exact Ei|].
  assert (Hdat : d_dat d = dat) by (rewrite Hd; reflexivity).
  split; [|split].
  - intros j Hj. cbn [file_step spec_step f_index f_disk snd].
    destruct (N.eqb_spec j 0); [reflexivity|].
    rewrite Hfi. destruct (N.eqb_spec j seq); [contradiction|].
    rewrite M, sfind_absm by auto. fold dat.
    destruct (sfind j (f_index stj)) as [p|] eqn:E; cbn [option_map]; [|reflexivity].
    assert (In (j, p) (drop0 (f_index stj))) by (apply in_drop0; [apply sfind_in; auto|auto]).
    specialize (IB _ H). cbn [fst snd] in IB. fold dat in IB.
    rewrite Hdat, fetch_ok by tauto. reflexivity.
  - cbn [file_step f_index]. rewrite Hfi. destruct (N.eqb_spec 0 seq); [congruence|].
    rewrite C. reflexivity.
  - intros Hb. cbn [file_step f_index f_disk]. destruct (N.eqb_spec seq 0); [contradiction|].
    rewrite Hfi, N.eqb_refl, Hdat. unfold file_fetch.
    assert (0 < len b) by (unfold len; destruct b; [contradiction|cbn [length]; lia]).
    replace (N.min (len b) (len dat - len dat)) with 0 by lia.
    cbn [N.ltb N.compare]. destruct (N.eqb_spec 0 (len b)); [lia|]. reflexivity.
Qed.

(* ---- refutations and non-vacuity (evaluation of the model on one history each) ---- *)
Definition msg (l : list N) : list byte := l.

(* F31: message stored before the first control record; no crash at all (k beyond the 10 calls) *)
Definition f31_pre : list op := [OPut 1 [77; 83; 71; 45; 79; 78; 69]; OCtlPut 2 1; OPut 2 [77; 83; 71; 45; 84; 87; 79]].
Definition f31_after : list op := [OCtlGet; OGet 1; OGet 2].
Lemma c27_control_refuted_lemma :
  ops_wf (f31_pre ++ OReopen :: f31_after) = true /\ zero_free (f31_pre ++ OReopen :: f31_after) = true /\
  no_reopen f31_after = true /\ crash_between file_empty f31_pre 10 = true /\
  never_lost f31_pre = false /\
  c27_result f31_pre 10 f31_after =
    Some (3%nat, [RBool true; RBool true; RBool true],
          [RCtl (Some (2, 1)); RBytes None; RBytes (Some [77; 83; 71; 45; 84; 87; 79])]) /\
  c27_ok f31_pre f31_after (c27_result f31_pre 10 f31_after) = false.
Proof. repeat split; vm_compute; reflexivity. Qed.

(* F32: the process dies after the index write of put(2, "BBBBBB") (call 9 = 2 + 4 + 3); after the
   reopen put(2) is refused, and once put(3, "CCCCCCCC") has appended its bytes get(2) returns six
   of them: bytes never stored under 2 *)
Definition f32_pre : list op := [OCtlPut 1 1; OPut 1 [65; 65; 65; 65]; OPut 2 [66; 66; 66; 66; 66; 66]].
Definition f32_after : list op := [OGet 2; OPut 2 [68; 68]; OPut 3 [67; 67; 67; 67; 67; 67; 67; 67]; OGet 2].
Lemma c27_order_refuted_lemma :
  ops_wf (f32_pre ++ OReopen :: f32_after) = true /\ zero_free (f32_pre ++ OReopen :: f32_after) = true /\
  no_reopen f32_after = true /\ never_lost f32_pre = true /\
  crash_torn file_empty f32_pre 9 = true /\
  c27_result f32_pre 9 f32_after =
    Some (2%nat, [RBool true; RBool true],
          [RBytes None; RBool false; RBool true; RBytes (Some [67; 67; 67; 67; 67; 67])]) /\
  c27_ok f32_pre f32_after (c27_result f32_pre 9 f32_after) = false.
Proof. repeat split; vm_compute; reflexivity. Qed.

(* non-vacuity: a control-first history killed inside its second control put (after the seek,
   before the write: call 7 = 2 + 4 + 1) meets every hypothesis of c27_atomic_partial; the old
   control record, the completed message and the further stores are all there *)
Definition nv_pre : list op := [OCtlPut 3 4; OPut 1 [10; 11; 12]; OCtlPut 5 6; OPut 2 [13]].
Definition nv_after : list op := [OCtlGet; OGet 1; OGet 2; OPut 2 [14; 15]; OCtlPut 7 8; OCtlGet; OGet 2].
Lemma c27_nonvacuous_lemma :
  ops_wf (nv_pre ++ OReopen :: nv_after) = true /\ zero_free (nv_pre ++ OReopen :: nv_after) = true /\
  never_lost nv_pre = true /\ no_reopen nv_after = true /\
  crash_torn file_empty nv_pre 7 = false /\ crash_between file_empty nv_pre 7 = false /\
  c27_result nv_pre 7 nv_after =
    Some (2%nat, [RBool true; RBool true],
          [RCtl (Some (3, 4)); RBytes (Some [10; 11; 12]); RBytes None; RBool true; RBool true;
           RCtl (Some (7, 8)); RBytes (Some [14; 15])]).
Proof. repeat split; vm_compute; reflexivity. Qed.

(* control values over the whole range of `unsigned` are inside the hypotheses: target 8193 (larger
   than any message size), 2^31 (negative as the int32 _size), 2^32-1; killed between two calls *)
Definition cb_pre : list op :=
  [OCtlPut 4294967295 8193; OPut 1 [1; 2]; OCtlPut 65536 2147483648; OPut 2 [3]].
Definition cb_after : list op := [OCtlGet; OGet 1; OCtlPut 8192 4294967295; OCtlGet].
Lemma c27_control_range_nonvacuous_lemma :
  ops_wf (cb_pre ++ OReopen :: cb_after) = true /\ zero_free (cb_pre ++ OReopen :: cb_after) = true /\
  never_lost cb_pre = true /\ no_reopen cb_after = true /\
  crash_between file_empty cb_pre 8 = true /\
  c27_result cb_pre 8 cb_after =
    Some (3%nat, [RBool true; RBool true; RBool true],
          [RCtl (Some (65536, 2147483648)); RBytes (Some [1; 2]); RBool true;
           RCtl (Some (8192, 4294967295))]) /\
  c27_result cb_pre 2 cb_after =
    Some (1%nat, [RBool true],
          [RCtl (Some (4294967295, 8193)); RBytes None; RBool true; RCtl (Some (8192, 4294967295))]).
Proof. repeat split; vm_compute; reflexivity. Qed.
