(* Session group, shared utilities: bytes, decimal printing/parsing, hex, timestamps.
   No proofs in this file (see SessProofs*.v). *)
From Coq Require Import NArith ZArith List Bool.
From Coq Require Decimal DecimalN.
Import ListNotations.
Local Open Scope N_scope.

Notation byte := N (only parsing).
Notation bytes := (list N) (only parsing).

Definition SOH : N := 1.
Definition ch_eq : N := 61.       (* '=' *)
Definition ch_0 : N := 48.
Definition ch_Y : N := 89.
Definition ch_N : N := 78.

Fixpoint beq (a b : bytes) : bool :=
  match a, b with
  | [], [] => true
  | x :: a', y :: b' => (x =? y) && beq a' b'
  | _, _ => false
  end.

(* lexicographic "a > b" on byte strings (used for canonical timestamps of equal length) *)
Fixpoint bgt (a b : bytes) : bool :=
  match a, b with
  | [], _ => false
  | _ :: _, [] => true
  | x :: a', y :: b' => if x =? y then bgt a' b' else y <? x
  end.

(* ---- decimal ------------------------------------------------------------------------- *)
(* canonical decimal (itoa): through the standard library's Decimal.uint, whose conversions
   come with round-trip lemmas (DecimalN.Unsigned.of_to) *)
Fixpoint bytes_of_uint (u : Decimal.uint) : bytes :=
  match u with
  | Decimal.Nil => []
  | Decimal.D0 u' => 48 :: bytes_of_uint u'
  | Decimal.D1 u' => 49 :: bytes_of_uint u'
  | Decimal.D2 u' => 50 :: bytes_of_uint u'
  | Decimal.D3 u' => 51 :: bytes_of_uint u'
  | Decimal.D4 u' => 52 :: bytes_of_uint u'
  | Decimal.D5 u' => 53 :: bytes_of_uint u'
  | Decimal.D6 u' => 54 :: bytes_of_uint u'
  | Decimal.D7 u' => 55 :: bytes_of_uint u'
  | Decimal.D8 u' => 56 :: bytes_of_uint u'
  | Decimal.D9 u' => 57 :: bytes_of_uint u'
  end.
Definition dec (n : N) : bytes := bytes_of_uint (N.to_uint n).

Definition decZ (z : Z) : bytes :=
  match z with
  | Zneg p => 45 :: dec (Npos p)
  | _ => dec (Z.to_N z)
  end.

(* n printed with at least w digits, zero padded (format0) ; only the low w digits if longer *)
Fixpoint pad_aux (w : nat) (n : N) (acc : bytes) : bytes :=
  match w with
  | O => acc
  | S w' => pad_aux w' (n / 10) ((ch_0 + n mod 10) :: acc)
  end.
Definition pad (w : nat) (n : N) : bytes := pad_aux w n [].

Definition is_digit (b : N) : bool := (48 <=? b) && (b <=? 57).

(* digit string -> Decimal.uint; None if a non-digit occurs *)
Fixpoint uint_of_bytes (l : bytes) : option Decimal.uint :=
  match l with
  | [] => Some Decimal.Nil
  | b :: l' =>
    match uint_of_bytes l' with
    | None => None
    | Some u =>
      if b =? 48 then Some (Decimal.D0 u) else if b =? 49 then Some (Decimal.D1 u)
      else if b =? 50 then Some (Decimal.D2 u) else if b =? 51 then Some (Decimal.D3 u)
      else if b =? 52 then Some (Decimal.D4 u) else if b =? 53 then Some (Decimal.D5 u)
      else if b =? 54 then Some (Decimal.D6 u) else if b =? 55 then Some (Decimal.D7 u)
      else if b =? 56 then Some (Decimal.D8 u) else if b =? 57 then Some (Decimal.D9 u)
      else None
    end
  end.
(* plain decimal value of a digit string; None if empty or a non-digit occurs *)
Definition undec (l : bytes) : option N :=
  match l with
  | [] => None
  | _ => match uint_of_bytes l with Some u => Some (N.of_uint u) | None => None end
  end.

(* fast_atoi<unsigned>(p, term): retval = retval*10 + (signed char)c - '0'  mod 2^32, up to the
   terminator; None = the terminator does not occur (the C++ runs off the end) *)
Definition W32 : Z := 4294967296%Z.
Definition schar (b : N) : Z := if b <? 128 then Z.of_N b else (Z.of_N b - 256)%Z.
Fixpoint fast_atoi_u (l : bytes) (term : N) (acc : Z) : option N :=
  match l with
  | [] => None
  | b :: l' => if b =? term then Some (Z.to_N acc)
               else fast_atoi_u l' term ((acc * 10 + schar b - 48) mod W32)%Z
  end.
(* atoi-like for a complete value (terminated by end of list): digits only, wraps as above *)
Fixpoint atoi_u (l : bytes) (acc : Z) : N :=
  match l with
  | [] => Z.to_N acc
  | b :: l' => atoi_u l' ((acc * 10 + schar b - 48) mod W32)%Z
  end.

(* ---- hex ---------------------------------------------------------------------------------- *)
Definition hexdig (n : N) : N := if n <? 10 then 48 + n else 87 + n.
Definition hex_of_byte (b : N) : bytes := [hexdig (b / 16); hexdig (b mod 16)].
Definition hex (l : bytes) : bytes :=
  match l with [] => [45] | _ => flat_map hex_of_byte l end.
Definition unhexdig (c : N) : N :=
  if c <=? 57 then c - 48 else (N.lor c 32) - 97 + 10.
Fixpoint unhex_aux (l : bytes) : bytes :=
  match l with
  | a :: b :: l' => (unhexdig a * 16 + unhexdig b) :: unhex_aux l'
  | _ => []
  end.
Definition unhex (l : bytes) : bytes :=
  match l with [45] => [] | _ => unhex_aux l end.

(* ---- splitting ------------------------------------------------------------------------------ *)
Fixpoint split_aux (sep : N) (l cur : bytes) : list bytes :=
  match l with
  | [] => [rev cur]
  | b :: l' => if b =? sep then rev cur :: split_aux sep l' [] else split_aux sep l' (b :: cur)
  end.
Definition split_on (sep : N) (l : bytes) : list bytes := split_aux sep l [].

(* split at the first occurrence of sep: (before, Some after) or (all, None) *)
Fixpoint cut_aux (sep : N) (l cur : bytes) : bytes * option bytes :=
  match l with
  | [] => (rev cur, None)
  | b :: l' => if b =? sep then (rev cur, Some l') else cut_aux sep l' (b :: cur)
  end.
Definition cut (sep : N) (l : bytes) : bytes * option bytes := cut_aux sep l [].

(* the same functions with a linear-time reversal (List.rev is quadratic): used for parsing whole case and
   result lines, which can be hundreds of kilobytes; split_on / cut above stay as they are (proofs) *)
Fixpoint split_aux_fast (sep : N) (l cur : bytes) : list bytes :=
  match l with
  | [] => [rev_append cur []]
  | b :: l' => if b =? sep then rev_append cur [] :: split_aux_fast sep l' [] else split_aux_fast sep l' (b :: cur)
  end.
Definition split_on_fast (sep : N) (l : bytes) : list bytes := split_aux_fast sep l [].

Fixpoint cut_aux_fast (sep : N) (l cur : bytes) : bytes * option bytes :=
  match l with
  | [] => (rev_append cur [], None)
  | b :: l' => if b =? sep then (rev_append cur [], Some l') else cut_aux_fast sep l' (b :: cur)
  end.
Definition cut_fast (sep : N) (l : bytes) : bytes * option bytes := cut_aux_fast sep l [].

Fixpoint starts_with (p l : bytes) : bool :=
  match p, l with
  | [], _ => true
  | x :: p', y :: l' => (x =? y) && starts_with p' l'
  | _, [] => false
  end.

(* suffix after the first occurrence of the pattern p (std::string::find + size) *)
Fixpoint find_after (p l : bytes) : option bytes :=
  match l with
  | [] => if starts_with p [] then Some [] else None
  | _ :: l' => if starts_with p l then Some (skipn (length p) l) else find_after p l'
  end.

Fixpoint join (sep : bytes) (l : list bytes) : bytes :=
  match l with
  | [] => []
  | [x] => x
  | x :: l' => x ++ sep ++ join sep l'
  end.

(* ---- ASCII literals (kept as explicit lists: no String dependency after extraction) --------- *)
Definition str (s : list N) : bytes := s.

(* ---- time ---------------------------------------------------------------------------------- *)
Local Open Scope Z_scope.
Definition NS : Z := 1000000000.

(* days since 1970-01-01 -> (year, month 1..12, day 1..31), proleptic Gregorian (Hinnant) *)
Definition civil_of_days (d : Z) : Z * Z * Z :=
  let z := d + 719468 in
  let era := z / 146097 in
  let doe := z - era * 146097 in
  let yoe := (doe - doe / 1460 + doe / 36524 - doe / 146096) / 365 in
  let y := yoe + era * 400 in
  let doy := doe - (365 * yoe + yoe / 4 - yoe / 100) in
  let mp := (5 * doy + 2) / 153 in
  let dd := doy - (153 * mp + 2) / 5 + 1 in
  let m := if mp <? 10 then mp + 3 else mp - 9 in
  (if m <=? 2 then y + 1 else y, m, dd).

(* date_time_format(Tickval, _with_ms): "YYYYMMDD-HH:MM:SS.mmm" (UTC), for t >= 0 ns *)
Definition fmt_time (t : Z) : bytes :=
  let secs := t / NS in
  let ms := (t / 1000000) mod 1000 in
  let days := secs / 86400 in
  let sod := secs mod 86400 in
  let '(y, m, d) := civil_of_days days in
  (pad 4 (Z.to_N y) ++ pad 2 (Z.to_N m) ++ pad 2 (Z.to_N d) ++ [45%N] ++
   pad 2 (Z.to_N (sod / 3600)) ++ [58%N] ++ pad 2 (Z.to_N ((sod / 60) mod 60)) ++ [58%N] ++
   pad 2 (Z.to_N (sod mod 60)) ++ [46%N] ++ pad 3 (Z.to_N ms))%list.

(* Tickval difference .secs(): duration_cast<seconds> truncates toward zero *)
Definition secs_between (now before : Z) : Z := Z.quot (now - before) NS.
