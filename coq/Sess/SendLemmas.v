(* Session group: what send_process does for a "plain" message (no custom seqnum, no no_increment,
   not a SequenceReset, MsgSeqNum and PossDupFlag not preset), used by C16, C17 (and C25).  Proofs only. *)
From Coq Require Import NArith ZArith List Bool Lia.
From F8 Require Import Sess.Bytes Sess.Msg Sess.Persist Sess.Session Sess.SessLemmas.
Import ListNotations.
Local Open Scope N_scope.

Definition is_some {A} (o : option A) : bool := match o with Some _ => true | None => false end.

Fixpoint nodupb (l : list N) : bool :=
  match l with
  | [] => true
  | x :: l' => negb (existsb (N.eqb x) l') && nodupb l'
  end.

Lemma nodupb_NoDup : forall l, nodupb l = true -> NoDup l.
Proof.
  induction l; cbn [nodupb]; intro H; [constructor|].
  apply andb_true_iff in H. destruct H as [H1 H2]. constructor; [|apply IHl; exact H2].
  intro I. apply negb_true_iff in H1. assert (E : existsb (N.eqb a) l = true).
  { apply existsb_exists. exists a. split; [exact I|apply N.eqb_refl]. }
  congruence.
Qed.

(* the schema knows the header fields the session itself adds *)
Definition wf_schema (sc : schema) : bool :=
  nosoh (sc_begin sc) && is_some (assoc T_MsgSeqNum (sc_hdr sc)) && is_some (assoc T_SendingTime (sc_hdr sc)) &&
  is_some (assoc T_SenderCompID (sc_hdr sc)) && is_some (assoc T_TargetCompID (sc_hdr sc)).

Definition wf_sess (s : sess) : bool := nosoh (s_snd s) && nosoh (s_tgt s).

Definition plain_msg (m : msg) : bool :=
  (m_custom m =? 0) && negb (m_noinc m) && negb (beq (m_type m) mt_sequence_reset) &&
  negb (has_field T_MsgSeqNum (m_hdr m)) && negb (has_field T_PossDupFlag (m_hdr m)) &&
  negb (has_field T_MsgSeqNum (m_body m)) && negb (has_field T_PossDupFlag (m_body m)) &&
  nodupb (tags (m_hdr m)) && nosoh (m_type m) && vals_ok (m_hdr m) && vals_ok (m_body m).

Section Send.
Variable sc : schema.

(* the message as it is encoded *)
Definition filled (now : Z) (s : sess) (m : msg) : msg :=
  let m1 := if has_field T_SenderCompID (m_hdr m) then m else add_hdr' sc T_SenderCompID (s_snd s) m in
  let m2 := if has_field T_TargetCompID (m_hdr m1) then m1 else add_hdr' sc T_TargetCompID (s_tgt s) m1 in
  add_hdr' sc T_SendingTime (fmt_time now) (add_hdr' sc T_MsgSeqNum (dec (s_next_send s)) m2).

Definition wire (now : Z) (s : sess) (m : msg) : bytes := encode sc (filled now s m).

(* the persister after send_process: ptr is what is handed to put *)
Definition per_after (s : sess) (m : msg) (ptr : bytes) : persister :=
  if p_attached (s_per s) then
    p_put_ctrl (if is_admin sc (m_type m) then s_per s else p_put (s_per s) (s_next_send s) ptr)
               (s_next_send s + 1) (s_next_recv s)
  else s_per s.

Definition plain_result (now : Z) (s : sess) (m : msg) : bool * sess * list event :=
  let enc := wire now s m in
  if m_eob m then
    match s_batch s with
    | [] => (true, w_next_send (s_next_send s + 1) (w_per (per_after s m enc) (w_batch [] (w_last_sent now s))),
             out_events enc)
    | _ => (true, w_next_send (s_next_send s + 1) (w_per (per_after s m enc) (w_batch [] (w_last_sent now s))),
            out_events (s_batch s ++ enc)%list)
    end
  else (true, w_next_send (s_next_send s + 1) (w_per (per_after s m enc) (w_batch (s_batch s ++ enc)%list s)), []).

Lemma plain_fields : forall m, plain_msg m = true ->
  m_custom m = 0 /\ m_noinc m = false /\ beq (m_type m) mt_sequence_reset = false /\
  has_field T_MsgSeqNum (m_hdr m) = false /\ has_field T_PossDupFlag (m_hdr m) = false /\
  has_field T_MsgSeqNum (m_body m) = false /\ has_field T_PossDupFlag (m_body m) = false /\
  NoDup (tags (m_hdr m)) /\ nosoh (m_type m) = true /\ vals_ok (m_hdr m) = true /\ vals_ok (m_body m) = true.
Proof.
  intros m H. unfold plain_msg in H.
  repeat (apply andb_true_iff in H; destruct H as [H ?]).
  repeat match goal with X : negb _ = true |- _ => apply negb_true_iff in X end.
  apply N.eqb_eq in H. repeat split; try assumption. apply nodupb_NoDup. assumption.
Qed.

Lemma has_after_add_other : forall tag v m t, t <> tag ->
  has_field t (m_hdr (add_hdr' sc tag v m)) = has_field t (m_hdr m).
Proof. intros. unfold has_field. rewrite add_hdr'_get_other by assumption. reflexivity. Qed.

Theorem send_process_plain : forall now s m,
  plain_msg m = true -> s_closed s = false ->
  send_process sc now s m = plain_result now s m.
Proof.
  intros now s m P C. destruct (plain_fields m P) as (Hc & Hn & Ht & H34 & H43 & _ & _ & _).
  unfold send_process, plain_result, wire, filled, per_after.
  rewrite H43.
  set (m1 := if has_field T_SenderCompID (m_hdr m) then m else add_hdr' sc T_SenderCompID (s_snd s) m).
  set (m2 := if has_field T_TargetCompID (m_hdr m1) then m1 else add_hdr' sc T_TargetCompID (s_tgt s) m1).
  assert (E1 : has_field T_MsgSeqNum (m_hdr m1) = false).
  { subst m1. destruct (has_field T_SenderCompID (m_hdr m)); [exact H34|].
    rewrite has_after_add_other by discriminate. exact H34. }
  assert (E2 : has_field T_MsgSeqNum (m_hdr m2) = false).
  { subst m2. destruct (has_field T_TargetCompID (m_hdr m1)); [exact E1|].
    rewrite has_after_add_other by discriminate. exact E1. }
  rewrite E2. rewrite Hc. cbn [N.eqb]. rewrite Hn, Ht, C. cbn [negb andb].
  destruct (m_eob m).
  - destruct (s_batch s) eqn:B; reflexivity.
  - reflexivity.
Qed.

End Send.

(* ---- the wire form of a plain message ------------------------------------------------------------------- *)
Section Wire.
Variable sc : schema.

Lemma wf_schema_fields : wf_schema sc = true ->
  nosoh (sc_begin sc) = true /\ (exists p, assoc T_MsgSeqNum (sc_hdr sc) = Some p) /\
  (exists p, assoc T_SendingTime (sc_hdr sc) = Some p).
Proof.
  intro H. unfold wf_schema in H. repeat (apply andb_true_iff in H; destruct H as [H ?]).
  split; [exact H|]. split.
  - destruct (assoc T_MsgSeqNum (sc_hdr sc)) as [p|]; [exists p; reflexivity|discriminate].
  - destruct (assoc T_SendingTime (sc_hdr sc)) as [p|]; [exists p; reflexivity|discriminate].
Qed.

Record filled_facts (now : Z) (s : sess) (m : msg) : Prop := {
  ff_wf : wf_msg sc (filled sc now s m) = true;
  ff_type : m_type (filled sc now s m) = m_type m;
  ff_body : m_body (filled sc now s m) = m_body m;
  ff_seq : get_field T_MsgSeqNum (m_hdr (filled sc now s m)) = Some (dec (s_next_send s));
  ff_dup : get_field T_PossDupFlag (m_hdr (filled sc now s m)) = None
}.

Lemma filled_ok : forall now s m,
  wf_schema sc = true -> wf_sess s = true -> plain_msg m = true -> filled_facts now s m.
Proof.
  intros now s m WS WSS P.
  destruct (plain_fields m P) as (Hc & Hn & Ht & H34 & H43 & B34 & B43 & ND & Nty & Vh & Vb).
  destruct (wf_schema_fields WS) as (Nb & [p34 A34] & [p52 A52]).
  unfold wf_sess in WSS. apply andb_true_iff in WSS. destruct WSS as [Ns Ntg].
  unfold filled.
  set (m1 := if has_field T_SenderCompID (m_hdr m) then m else add_hdr' sc T_SenderCompID (s_snd s) m).
  set (m2 := if has_field T_TargetCompID (m_hdr m1) then m1 else add_hdr' sc T_TargetCompID (s_tgt s) m1).
  (* facts carried along m -> m1 -> m2 *)
  assert (F1 : m_type m1 = m_type m /\ m_body m1 = m_body m /\ NoDup (tags (m_hdr m1)) /\ vals_ok (m_hdr m1) = true /\
               get_field T_PossDupFlag (m_hdr m1) = None).
  { subst m1. destruct (has_field T_SenderCompID (m_hdr m)).
    - repeat split; try assumption. unfold has_field in H43. destruct (get_field T_PossDupFlag (m_hdr m)); [discriminate|reflexivity].
    - rewrite add_hdr'_type, add_hdr'_body. repeat split.
      + apply add_hdr'_nodup; assumption.
      + apply add_hdr'_vals; assumption.
      + rewrite add_hdr'_get_other by discriminate.
        unfold has_field in H43. destruct (get_field T_PossDupFlag (m_hdr m)); [discriminate|reflexivity]. }
  destruct F1 as (T1 & B1 & ND1 & V1 & D1).
  assert (F2 : m_type m2 = m_type m /\ m_body m2 = m_body m /\ NoDup (tags (m_hdr m2)) /\ vals_ok (m_hdr m2) = true /\
               get_field T_PossDupFlag (m_hdr m2) = None).
  { subst m2. destruct (has_field T_TargetCompID (m_hdr m1)).
    - repeat split; assumption.
    - rewrite add_hdr'_type, add_hdr'_body. repeat split; try assumption.
      + apply add_hdr'_nodup; assumption.
      + apply add_hdr'_vals; assumption.
      + rewrite add_hdr'_get_other by discriminate. exact D1. }
  destruct F2 as (T2 & B2 & ND2 & V2 & D2).
  set (m3 := add_hdr' sc T_MsgSeqNum (dec (s_next_send s)) m2).
  assert (ND3 : NoDup (tags (m_hdr m3))) by (apply add_hdr'_nodup; exact ND2).
  assert (V3 : vals_ok (m_hdr m3) = true) by (apply add_hdr'_vals; [apply clean_nosoh, dec_clean|exact V2]).
  assert (EF : filled sc now s m = add_hdr' sc T_SendingTime (fmt_time now) m3) by reflexivity.
  constructor; rewrite EF.
  - unfold wf_msg. rewrite Nb. rewrite add_hdr'_type, add_hdr'_body. unfold m3 at 1 3.
    rewrite add_hdr'_type, add_hdr'_body.
    rewrite T2, B2, Nty, Vb. rewrite add_hdr'_vals; [reflexivity|apply fmt_time_nosoh|exact V3].
  - unfold m3. rewrite !add_hdr'_type. exact T2.
  - unfold m3. rewrite !add_hdr'_body. exact B2.
  - rewrite add_hdr'_get_other by discriminate. unfold m3. eapply add_hdr'_get_same; [exact A34|exact ND2].
  - unfold m3. rewrite !add_hdr'_get_other by discriminate. exact D2.
Qed.

End Wire.
