(* Session group: the persister as the session sees it -- a map seq -> bytes plus a control
   record -- behind a small interface (p_put / p_put_ctrl / p_get_ctrl / p_get / p_range), so
   that the C26 persister models can be swapped in later.  Transcribed from runtime/persist.cpp
   (MemoryPersister) and runtime/filepersist.cpp (FilePersister) as far as the session uses them:
     put(seq, what)        : refused for seq = 0 and for a seq already stored (both persisters);
                             `what` arrives as a C string (truncated at the first NUL)
     put(sender, target)   : both persisters replace the control record (Memory: since /repo 760121b
                             key 0 is erased before the insert; before, only the FIRST put was kept, F30)
     get(sender&, target&) : the control record (Memory: since 760121b read from the string's data;
                             before, the std::string OBJECT was reinterpreted, F30 garbage).  The harness
                             still prints CTRL only for the file persister (the C16 oracle and its proofs
                             are about that one); the Memory record is observable through recovery: an
                             acceptor's second Logon recovers from it and the tie covers that
     get(from, to, cb)     : see p_range
     File, index layout    : the control record is always written at offset 0 of the index file and
                             message records are appended; a message stored BEFORE the first control
                             record therefore sits at offset 0 and is overwritten by the first control
                             put (F31): the in-memory index still has it, a re-opened persister does
                             not (p_reopen)
   No proofs in this file. *)
From Coq Require Import NArith ZArith List Bool.
From F8 Require Import Sess.Bytes.
Import ListNotations.
Local Open Scope N_scope.

Inductive pkind := PNone | PMem | PFile.

(* what the first record of the index file is *)
Inductive slot0 := S0Empty | S0Msg (s : N) | S0Ctrl.

Record persister := mkPer {
  p_kind : pkind;
  p_store : list (N * bytes);        (* ascending in seq, no duplicates, seq > 0 *)
  p_ctrl : option (N * N);
  p_slot0 : slot0;                   (* File only *)
  p_lost : list N                    (* File only: index records overwritten on disk *)
}.

Definition p_empty (k : pkind) : persister := mkPer k [] None S0Empty [].
Definition p_attached (p : persister) : bool := match p_kind p with PNone => false | _ => true end.

Fixpoint store_get (s : N) (l : list (N * bytes)) : option bytes :=
  match l with
  | [] => None
  | (k, v) :: l' => if k =? s then Some v else store_get s l'
  end.

Fixpoint store_insert (s : N) (v : bytes) (l : list (N * bytes)) : list (N * bytes) :=
  match l with
  | [] => [(s, v)]
  | (k, w) :: l' => if s <? k then (s, v) :: l
                    else if k =? s then l          (* already there: refused *)
                    else (k, w) :: store_insert s v l'
  end.

(* const char* -> f8String: cut at the first NUL *)
Fixpoint cstr (l : bytes) : bytes :=
  match l with
  | [] => []
  | b :: l' => if b =? 0 then [] else b :: cstr l'
  end.

Definition p_put (p : persister) (s : N) (what : bytes) : persister :=
  match p_kind p with
  | PNone => p
  | _ => if s =? 0 then p
         else match store_get s (p_store p) with
              | Some _ => p                                  (* already persisted: refused *)
              | None =>
                mkPer (p_kind p) (store_insert s (cstr what) (p_store p)) (p_ctrl p)
                      (match p_slot0 p with S0Empty => S0Msg s | x => x end) (p_lost p)
              end
  end.

Definition p_put_ctrl (p : persister) (snd rcv : N) : persister :=
  match p_kind p with
  | PNone => p
  | PMem => mkPer PMem (p_store p) (Some (snd, rcv)) (p_slot0 p) (p_lost p)
  | PFile => mkPer PFile (p_store p) (Some (snd, rcv)) S0Ctrl
                   (match p_slot0 p with S0Msg s => s :: p_lost p | _ => p_lost p end)
  end.

(* a new FilePersister object on the same files: the index is rebuilt from the index file *)
Definition p_reopen (p : persister) : persister :=
  match p_kind p with
  | PFile => mkPer PFile (filter (fun kv => negb (existsb (N.eqb (fst kv)) (p_lost p))) (p_store p))
                   (p_ctrl p) (p_slot0 p) []
  | _ => p
  end.

Definition p_get_ctrl (p : persister) : option (N * N) :=
  match p_kind p with PNone => None | _ => p_ctrl p end.

Definition p_get (p : persister) (s : N) : option bytes :=
  if s =? 0 then None else store_get s (p_store p).

Fixpoint store_last (l : list (N * bytes)) : N :=
  match l with
  | [] => 0
  | [(k, _)] => k
  | _ :: l' => store_last l'
  end.
(* get_last_seqnum: largest key; the Memory persister keeps the control record under key 0 in the
   same map, which does not change the maximum *)
Definition p_last (p : persister) : N := store_last (p_store p).

(* Persister::get(from, to, session, callback) is a LIVE iteration over the std::map (Memory: the
   store itself, File: the in-memory index): the callback may insert records while the loop runs
   (always_seqnum_assign: a resent message is stored again under a new number), and `++itr` then
   reaches them.  The session model therefore drives the loop itself with these two functions:
     p_first_from p from = find_nearest_highest_seqnum(from, last): the first stored key in
                           [from, last], None = "No records found";
     p_next_after p k    = the record with the smallest key > k (what ++itr reaches). *)
Fixpoint store_next (k : N) (l : list (N * bytes)) : option (N * bytes) :=
  match l with
  | [] => None
  | (a, v) :: l' => if k <? a then Some (a, v) else store_next k l'
  end.
Definition p_next_after (p : persister) (k : N) : option (N * bytes) := store_next k (p_store p).
Definition p_first_from (p : persister) (from : N) : option N :=
  if from =? 0 then None       (* not reachable from the session: Begin = 0 is rejected before *)
  else match store_next (from - 1) (p_store p) with
       | Some (a, _) => Some a
       | None => None
       end.
