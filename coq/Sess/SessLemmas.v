(* Session group: lemmas about the model (Sess.Bytes, Sess.Msg, Sess.Session) used by the
   property proofs of C16/C17 and available to C18..C25.  Proofs only. *)
From Coq Require Import NArith ZArith List Bool Lia.
From Coq Require Decimal DecimalN.
From F8 Require Import Sess.Bytes Sess.Msg Sess.Persist Sess.Session.
Import ListNotations.
Local Open Scope N_scope.

(* ---- beq ----------------------------------------------------------------------------------------- *)
Lemma beq_refl : forall a, beq a a = true.
Proof. induction a; cbn; [reflexivity|]. rewrite N.eqb_refl. exact IHa. Qed.

Lemma beq_eq : forall a b, beq a b = true <-> a = b.
Proof.
  induction a; destruct b; cbn; split; intro H; try reflexivity; try discriminate.
  - apply andb_true_iff in H. destruct H as [H1 H2]. apply N.eqb_eq in H1. apply IHa in H2. congruence.
  - inversion H; subst. rewrite N.eqb_refl. apply beq_refl.
Qed.

Lemma beq_neq : forall a b, beq a b = false <-> a <> b.
Proof.
  intros a b. split; intro H.
  - intro E. apply beq_eq in E. congruence.
  - destruct (beq a b) eqn:E; [|reflexivity]. apply beq_eq in E. contradiction.
Qed.

(* ---- decimal ------------------------------------------------------------------------------------- *)
Lemma uint_of_bytes_of_uint : forall u, uint_of_bytes (bytes_of_uint u) = Some u.
Proof. induction u; cbn [bytes_of_uint uint_of_bytes]; try rewrite IHu; reflexivity. Qed.

Lemma bytes_of_uint_inj : forall u v, bytes_of_uint u = bytes_of_uint v -> u = v.
Proof.
  intros u v H. assert (E : uint_of_bytes (bytes_of_uint u) = uint_of_bytes (bytes_of_uint v)) by (rewrite H; reflexivity).
  rewrite !uint_of_bytes_of_uint in E. congruence.
Qed.

Lemma dec_inj : forall a b, dec a = dec b -> a = b.
Proof.
  intros a b H. unfold dec in H. apply bytes_of_uint_inj in H.
  rewrite <- (DecimalN.Unsigned.of_to a), <- (DecimalN.Unsigned.of_to b). rewrite H. reflexivity.
Qed.

Lemma beq_dec : forall a b, beq (dec a) (dec b) = (a =? b).
Proof.
  intros a b. destruct (a =? b) eqn:E.
  - apply N.eqb_eq in E. subst. apply beq_refl.
  - apply beq_neq. intro H. apply dec_inj in H. apply N.eqb_neq in E. contradiction.
Qed.

Lemma dec_nonempty : forall n, dec n <> [].
Proof.
  intros n H. unfold dec in H.
  assert (U : N.to_uint n = Decimal.Nil) by (destruct (N.to_uint n); cbn in H; try discriminate; reflexivity).
  pose proof (DecimalN.Unsigned.of_to n) as E. rewrite U in E. cbn in E. subst n. cbn in U. discriminate.
Qed.

Lemma undec_dec : forall n, undec (dec n) = Some n.
Proof.
  intros n. unfold undec. pose proof (dec_nonempty n) as NE.
  destruct (dec n) eqn:E; [contradiction|]. rewrite <- E. unfold dec.
  rewrite uint_of_bytes_of_uint. rewrite DecimalN.Unsigned.of_to. reflexivity.
Qed.

(* a digit string contains neither SOH nor '=' nor NUL *)
Definition clean (b : N) : bool := negb (b =? SOH) && negb (b =? ch_eq) && negb (b =? 0).

Lemma bytes_of_uint_digits : forall u, forallb is_digit (bytes_of_uint u) = true.
Proof. induction u; cbn [bytes_of_uint forallb]; try rewrite IHu; reflexivity. Qed.

Lemma dec_digits : forall n, forallb is_digit (dec n) = true.
Proof. intros; apply bytes_of_uint_digits. Qed.

Lemma digit_clean : forall b, is_digit b = true -> clean b = true.
Proof.
  intros b H. unfold is_digit in H. apply andb_true_iff in H. destruct H as [H1 H2].
  apply N.leb_le in H1. apply N.leb_le in H2. unfold clean, SOH, ch_eq.
  destruct (b =? 1) eqn:E1; [apply N.eqb_eq in E1; lia|].
  destruct (b =? 61) eqn:E2; [apply N.eqb_eq in E2; lia|].
  destruct (b =? 0) eqn:E3; [apply N.eqb_eq in E3; lia|]. reflexivity.
Qed.

Lemma forallb_impl : forall (A : Type) (f g : A -> bool) l,
  (forall x, f x = true -> g x = true) -> forallb f l = true -> forallb g l = true.
Proof.
  induction l; cbn; intros; [reflexivity|]. apply andb_true_iff in H0. destruct H0.
  rewrite H by assumption. cbn. apply IHl; assumption.
Qed.

Lemma dec_clean : forall n, forallb clean (dec n) = true.
Proof. intros. eapply forallb_impl; [apply digit_clean|apply dec_digits]. Qed.

(* ---- splitting and tokens ------------------------------------------------------------------------ *)
Definition nosoh (l : bytes) : bool := forallb (fun b => negb (b =? SOH)) l.
Definition noeq (l : bytes) : bool := forallb (fun b => negb (b =? ch_eq)) l.

Lemma clean_nosoh : forall l, forallb clean l = true -> nosoh l = true.
Proof.
  intros l. apply forallb_impl. intros x H. unfold clean in H.
  apply andb_true_iff in H. destruct H as [H _]. apply andb_true_iff in H. tauto.
Qed.
Lemma clean_noeq : forall l, forallb clean l = true -> noeq l = true.
Proof.
  intros l. apply forallb_impl. intros x H. unfold clean in H.
  apply andb_true_iff in H. destruct H as [H _]. apply andb_true_iff in H. tauto.
Qed.

Lemma split_aux_app : forall sep a rest cur,
  forallb (fun b => negb (b =? sep)) a = true ->
  split_aux sep (a ++ sep :: rest) cur = (rev cur ++ a)%list :: split_aux sep rest [].
Proof.
  induction a as [|x a IH]; intros rest cur H; cbn [app split_aux].
  - rewrite N.eqb_refl. rewrite app_nil_r. reflexivity.
  - cbn in H. apply andb_true_iff in H. destruct H as [H1 H2].
    apply negb_true_iff in H1. rewrite H1. rewrite IH by assumption. cbn [rev]. rewrite <- app_assoc. reflexivity.
Qed.

Lemma cut_aux_app : forall sep a rest cur,
  forallb (fun b => negb (b =? sep)) a = true ->
  cut_aux sep (a ++ sep :: rest) cur = ((rev cur ++ a)%list, Some rest).
Proof.
  induction a as [|x a IH]; intros rest cur H; cbn [app cut_aux].
  - rewrite N.eqb_refl. rewrite app_nil_r. reflexivity.
  - cbn in H. apply andb_true_iff in H. destruct H as [H1 H2].
    apply negb_true_iff in H1. rewrite H1. rewrite IH by assumption. cbn [rev]. rewrite <- app_assoc. reflexivity.
Qed.

Lemma split_aux_nonempty : forall sep l cur, split_aux sep l cur <> [].
Proof. induction l; intros; cbn; [discriminate|]. destruct (a =? sep); [discriminate|apply IHl]. Qed.

Definition enc_tok (tv : bytes * bytes) : bytes := (fst tv ++ [ch_eq] ++ snd tv ++ [SOH])%list.
Definition enc_toks (l : list (bytes * bytes)) : bytes := flat_map enc_tok l.

Definition tok_ok (tv : bytes * bytes) : bool := nosoh (fst tv) && noeq (fst tv) && nosoh (snd tv).

Lemma nosoh_app : forall a b, nosoh (a ++ b) = nosoh a && nosoh b.
Proof. intros; unfold nosoh; apply forallb_app. Qed.

Lemma tokens_enc_toks : forall l, forallb tok_ok l = true -> tokens (enc_toks l) = l.
Proof.
  unfold tokens, split_on.
  induction l as [|[t v] l IH]; intro H.
  - reflexivity.
  - cbn [forallb] in H. apply andb_true_iff in H. destruct H as [H1 H2].
    unfold tok_ok in H1. cbn [fst snd] in H1. apply andb_true_iff in H1. destruct H1 as [H1 Hv].
    apply andb_true_iff in H1. destruct H1 as [Ht1 Ht2].
    cbn [enc_toks flat_map]. unfold enc_tok at 1. cbn [fst snd].
    replace ((t ++ [ch_eq] ++ v ++ [SOH]) ++ flat_map enc_tok l)%list
      with ((t ++ [ch_eq] ++ v) ++ SOH :: flat_map enc_tok l)%list
      by (rewrite <- !app_assoc; reflexivity).
    rewrite split_aux_app.
    2:{ change (nosoh (t ++ [ch_eq] ++ v) = true). rewrite !nosoh_app. rewrite Ht1, Hv. reflexivity. }
    cbn [rev app].
    pose proof (split_aux_nonempty SOH (flat_map enc_tok l) []) as NE.
    destruct (split_aux SOH (flat_map enc_tok l) []) as [|y ys] eqn:E; [contradiction|].
    specialize (IH H2). fold (enc_toks l) in E. fold (enc_toks l) in IH. rewrite E in IH.
    replace (removelast ((t ++ ch_eq :: v)%list :: y :: ys)) with ((t ++ ch_eq :: v)%list :: removelast (y :: ys)) by reflexivity.
    cbn [map]. rewrite IH.
    f_equal. unfold cut. cbn [app]. change (t ++ ch_eq :: v)%list with (t ++ ch_eq :: v)%list.
    rewrite cut_aux_app by exact Ht2. reflexivity.
Qed.

(* tok_get on a token list built from fields *)
Definition ftok (f : field) : bytes * bytes := (dec (f_tag f), f_val f).

Lemma tok_get_fields : forall t l rest,
  tok_get (dec t) (map ftok l ++ rest) =
  match get_field t l with Some v => Some v | None => tok_get (dec t) rest end.
Proof.
  induction l as [|f l IH]; intros rest; cbn [map app tok_get get_field]; [reflexivity|].
  unfold ftok at 1. rewrite beq_dec. destruct (f_tag f =? t); [reflexivity|apply IH].
Qed.

(* ---- encode as a token list ----------------------------------------------------------------------- *)
Lemma pad_aux_digits : forall w n acc, forallb is_digit acc = true -> forallb is_digit (pad_aux w n acc) = true.
Proof.
  induction w; intros n acc H; cbn [pad_aux]; [exact H|].
  apply IHw. cbn [forallb]. rewrite H. rewrite andb_true_r.
  unfold is_digit, ch_0. assert (L : n mod 10 < 10) by (apply N.mod_lt; discriminate).
  revert L. generalize (n mod 10). intros k L.
  apply andb_true_iff. split; apply N.leb_le; lia.
Qed.
Lemma pad_clean : forall w n, forallb clean (pad w n) = true.
Proof. intros. eapply forallb_impl; [apply digit_clean|]. apply pad_aux_digits. reflexivity. Qed.

Lemma pad_aux_length : forall w n acc, length (pad_aux w n acc) = (w + length acc)%nat.
Proof. induction w; intros; cbn [pad_aux]; [reflexivity|]. rewrite IHw. cbn [length]. lia. Qed.
Lemma pad_length : forall w n, length (pad w n) = w.
Proof. intros. unfold pad. rewrite pad_aux_length. cbn. lia. Qed.

Definition payload (m : msg) : bytes :=
  (enc_field T_MsgType (m_type m) ++ enc_fields (m_hdr m) ++ enc_fields (m_body m))%list.
Definition preamble (sc : schema) (m : msg) : bytes :=
  (enc_field 8 (sc_begin sc) ++ enc_field 9 (dec (N.of_nat (length (payload m)))))%list.
Definition chk_of (sc : schema) (m : msg) : N := bytesum (preamble sc m ++ payload m)%list mod 256.

Lemma encode_eq : forall sc m,
  encode sc m = (preamble sc m ++ payload m ++ enc_field 10 (pad 3 (chk_of sc m)))%list.
Proof. reflexivity. Qed.

Definition msg_toks (sc : schema) (m : msg) : list (bytes * bytes) :=
  ([(dec 8, sc_begin sc); (dec 9, dec (N.of_nat (length (payload m)))); (dec T_MsgType, m_type m)] ++
   map ftok (m_hdr m) ++ map ftok (m_body m) ++ [(dec 10, pad 3 (chk_of sc m))])%list.

Lemma enc_fields_toks : forall l, enc_fields l = enc_toks (map ftok l).
Proof.
  induction l; cbn [enc_fields enc_toks flat_map map]; [reflexivity|].
  fold (enc_fields l). fold (enc_toks (map ftok l)). rewrite IHl. reflexivity.
Qed.

Lemma enc_toks_app : forall a b, enc_toks (a ++ b) = (enc_toks a ++ enc_toks b)%list.
Proof. intros. unfold enc_toks. apply flat_map_app. Qed.

Lemma enc_tok_field : forall t v, enc_tok (dec t, v) = enc_field t v.
Proof. reflexivity. Qed.

Lemma encode_toks : forall sc m, encode sc m = enc_toks (msg_toks sc m).
Proof.
  intros. rewrite encode_eq. unfold msg_toks, preamble.
  cbn [app]. unfold enc_toks. cbn [flat_map]. fold enc_toks.
  rewrite !flat_map_app. cbn [flat_map]. rewrite !enc_tok_field.
  change (flat_map enc_tok (map ftok (m_hdr m))) with (enc_toks (map ftok (m_hdr m))).
  change (flat_map enc_tok (map ftok (m_body m))) with (enc_toks (map ftok (m_body m))).
  rewrite <- !enc_fields_toks. rewrite app_nil_r.
  unfold payload at 2. rewrite <- !app_assoc. reflexivity.
Qed.

Definition vals_ok (l : list field) : bool := forallb (fun f => nosoh (f_val f)) l.
Definition wf_msg (sc : schema) (m : msg) : bool :=
  nosoh (sc_begin sc) && nosoh (m_type m) && vals_ok (m_hdr m) && vals_ok (m_body m).

Lemma tok_ok_dec : forall t v, nosoh v = true -> tok_ok (dec t, v) = true.
Proof.
  intros. unfold tok_ok. cbn [fst snd]. rewrite (clean_nosoh _ (dec_clean t)), (clean_noeq _ (dec_clean t)), H. reflexivity.
Qed.

Lemma toks_ok_fields : forall l, vals_ok l = true -> forallb tok_ok (map ftok l) = true.
Proof.
  induction l; cbn [map forallb vals_ok]; intro H; [reflexivity|].
  apply andb_true_iff in H. destruct H as [H1 H2]. unfold ftok at 1. rewrite tok_ok_dec by exact H1.
  apply IHl. exact H2.
Qed.

Lemma msg_toks_ok : forall sc m, wf_msg sc m = true -> forallb tok_ok (msg_toks sc m) = true.
Proof.
  intros sc m H. unfold wf_msg in H.
  apply andb_true_iff in H. destruct H as [H Hb].
  apply andb_true_iff in H. destruct H as [H Hh].
  apply andb_true_iff in H. destruct H as [Hs Ht].
  unfold msg_toks. rewrite !forallb_app. cbn [forallb].
  rewrite !tok_ok_dec; try assumption.
  - rewrite (toks_ok_fields _ Hh), (toks_ok_fields _ Hb). reflexivity.
  - apply clean_nosoh, pad_clean.
  - apply clean_nosoh, dec_clean.
Qed.

Theorem tokens_encode : forall sc m, wf_msg sc m = true -> tokens (encode sc m) = msg_toks sc m.
Proof. intros. rewrite encode_toks. apply tokens_enc_toks. apply msg_toks_ok. assumption. Qed.

(* looking a tag up in the tokens of an encoded message: header first, then body *)
Lemma tok_get_encode : forall sc m t,
  wf_msg sc m = true -> t <> 8 -> t <> 9 -> t <> T_MsgType ->
  tok_get (dec t) (tokens (encode sc m)) =
  match get_field t (m_hdr m) with
  | Some v => Some v
  | None => match get_field t (m_body m) with
            | Some v => Some v
            | None => if t =? 10 then Some (pad 3 (chk_of sc m)) else None
            end
  end.
Proof.
  intros sc m t W H8 H9 H35. rewrite tokens_encode by exact W. unfold msg_toks.
  cbn [app tok_get]. rewrite !beq_dec.
  apply N.eqb_neq in H8. apply N.eqb_neq in H9. apply N.eqb_neq in H35.
  rewrite N.eqb_sym in H8. rewrite N.eqb_sym in H9. rewrite N.eqb_sym in H35.
  rewrite H8, H9, H35.
  rewrite tok_get_fields. destruct (get_field t (m_hdr m)); [reflexivity|].
  rewrite tok_get_fields. destruct (get_field t (m_body m)); [reflexivity|].
  cbn [tok_get]. rewrite beq_dec. rewrite N.eqb_sym. reflexivity.
Qed.

Lemma tok_get_encode_type : forall sc m,
  wf_msg sc m = true -> tok_get (dec T_MsgType) (tokens (encode sc m)) = Some (m_type m).
Proof.
  intros. rewrite tokens_encode by assumption. unfold msg_toks. cbn [app tok_get].
  rewrite !beq_dec. reflexivity.
Qed.

(* ---- the Positions multimap ------------------------------------------------------------------------- *)
Definition tags (l : list field) : list N := map f_tag l.

Lemma get_field_none : forall t l, ~ In t (tags l) -> get_field t l = None.
Proof.
  induction l; cbn [get_field tags map]; intro H; [reflexivity|].
  destruct (f_tag a =? t) eqn:E.
  - apply N.eqb_eq in E. exfalso. apply H. left. exact E.
  - apply IHl. intro I. apply H. right. exact I.
Qed.

Lemma get_field_in : forall t l v, get_field t l = Some v -> In t (tags l).
Proof.
  induction l; cbn [get_field tags map]; intros v H; [discriminate|].
  destruct (f_tag a =? t) eqn:E.
  - apply N.eqb_eq in E. left. exact E.
  - right. eapply IHl. exact H.
Qed.

Lemma has_field_in : forall t l, has_field t l = true <-> In t (tags l).
Proof.
  intros. unfold has_field. split.
  - destruct (get_field t l) eqn:E; [intros _; eapply get_field_in; exact E|discriminate].
  - intro I. destruct (get_field t l) eqn:E; [reflexivity|].
    exfalso. revert I E. induction l; cbn [tags map get_field]; intros I E; [destruct I|].
    destruct (f_tag a =? t) eqn:Q; [discriminate|]. destruct I as [I|I]; [apply N.eqb_neq in Q; contradiction|].
    apply IHl; assumption.
Qed.

Lemma get_insert_other : forall t f l, f_tag f <> t -> get_field t (insert_field f l) = get_field t l.
Proof.
  induction l as [|g l IH]; intro H; cbn [insert_field get_field].
  - apply N.eqb_neq in H. rewrite H. reflexivity.
  - destruct (f_pos g <=? f_pos f); cbn [get_field].
    + rewrite IH by exact H. reflexivity.
    + apply N.eqb_neq in H. rewrite H. reflexivity.
Qed.

Lemma get_insert_same : forall p t v l, ~ In t (tags l) -> get_field t (insert_field (mkF p t v) l) = Some v.
Proof.
  induction l as [|g l IH]; intro H; cbn [insert_field get_field f_tag f_val f_pos].
  - rewrite N.eqb_refl. reflexivity.
  - cbn [tags map] in H. destruct (f_pos g <=? p); cbn [get_field f_tag f_val].
    + destruct (f_tag g =? t) eqn:E; [apply N.eqb_eq in E; exfalso; apply H; left; exact E|].
      apply IH. intro I. apply H. right. exact I.
    + rewrite N.eqb_refl. reflexivity.
Qed.

Lemma tags_insert : forall f l x, In x (tags (insert_field f l)) <-> x = f_tag f \/ In x (tags l).
Proof.
  induction l as [|g l IH]; intro x; cbn [insert_field tags map].
  - cbn. intuition congruence.
  - destruct (f_pos g <=? f_pos f); cbn [map In].
    + fold (tags (insert_field f l)). fold (tags l). rewrite IH. intuition congruence.
    + fold (tags l). intuition congruence.
Qed.

Lemma nodup_insert : forall f l, ~ In (f_tag f) (tags l) -> NoDup (tags l) -> NoDup (tags (insert_field f l)).
Proof.
  induction l as [|g l IH]; intros H ND; cbn [insert_field tags map].
  - constructor; [intros []|constructor].
  - cbn [tags map] in H, ND. inversion ND as [|? ? Hn ND']; subst.
    destruct (f_pos g <=? f_pos f); cbn [map].
    + constructor.
      * fold (tags (insert_field f l)). rewrite tags_insert. intros [E|I]; [apply H; left; exact E|contradiction].
      * apply IH; [intro I; apply H; right; exact I|exact ND'].
    + constructor; [exact H|exact ND].
Qed.

Lemma get_remove_other : forall t t' l, t' <> t -> get_field t' (remove_field t l) = get_field t' l.
Proof.
  induction l as [|g l IH]; intro H; cbn [remove_field get_field]; [reflexivity|].
  destruct (f_tag g =? t) eqn:E; cbn [get_field].
  - apply N.eqb_eq in E. destruct (f_tag g =? t') eqn:E'; [apply N.eqb_eq in E'; congruence|reflexivity].
  - rewrite IH by exact H. reflexivity.
Qed.

Lemma tags_remove_sub : forall t l x, In x (tags (remove_field t l)) -> In x (tags l).
Proof.
  induction l as [|g l IH]; intros x; cbn [remove_field tags map]; [auto|].
  destruct (f_tag g =? t); cbn [map In]; [intro; right; assumption|].
  intros [H|H]; [left; exact H|right; apply IH; exact H].
Qed.

Lemma nodup_remove : forall t l, NoDup (tags l) -> NoDup (tags (remove_field t l)) /\ ~ In t (tags (remove_field t l)).
Proof.
  induction l as [|g l IH]; intro ND; cbn [remove_field tags map].
  - split; [constructor|intros []].
  - cbn [tags map] in ND. inversion ND as [|? ? Hn ND']; subst.
    destruct (f_tag g =? t) eqn:E.
    + apply N.eqb_eq in E. subst t. split; assumption.
    + destruct (IH ND') as [A B]. cbn [map]. split.
      * constructor; [intro I; apply Hn; eapply tags_remove_sub; exact I|exact A].
      * intros [I|I]; [apply N.eqb_neq in E; contradiction|contradiction].
Qed.

Lemma get_pos_some : forall t l p, get_pos t l = Some p -> In t (tags l).
Proof.
  induction l; cbn [get_pos tags map]; intros p H; [discriminate|].
  destruct (f_tag a =? t) eqn:E; [left; apply N.eqb_eq; exact E|right; eapply IHl; exact H].
Qed.
Lemma get_pos_none : forall t l, get_pos t l = None -> ~ In t (tags l).
Proof.
  induction l; cbn [get_pos tags map]; intros H; [intros []|].
  destruct (f_tag a =? t) eqn:E; [discriminate|]. intros [I|I]; [apply N.eqb_neq in E; contradiction|].
  apply IHl; assumption.
Qed.

Lemma get_add_same : forall p t v l, NoDup (tags l) -> get_field t (add_field p t v l) = Some v.
Proof.
  intros p t v l ND. unfold add_field. destruct (get_pos t l) eqn:E.
  - apply get_insert_same. apply nodup_remove. exact ND.
  - apply get_insert_same. apply get_pos_none. exact E.
Qed.

Lemma get_add_other : forall p t v l t', t' <> t -> get_field t' (add_field p t v l) = get_field t' l.
Proof.
  intros p t v l t' H. unfold add_field. destruct (get_pos t l).
  - rewrite get_insert_other by (cbn; congruence). apply get_remove_other. exact H.
  - apply get_insert_other. cbn. congruence.
Qed.

Lemma nodup_add : forall p t v l, NoDup (tags l) -> NoDup (tags (add_field p t v l)).
Proof.
  intros p t v l ND. unfold add_field. destruct (get_pos t l) eqn:E.
  - destruct (nodup_remove t l ND) as [A B]. apply nodup_insert; assumption.
  - apply nodup_insert; [apply get_pos_none; exact E|exact ND].
Qed.

Lemma vals_ok_insert : forall f l, nosoh (f_val f) = true -> vals_ok l = true -> vals_ok (insert_field f l) = true.
Proof.
  induction l as [|g l IH]; intros Hf Hl; cbn [insert_field vals_ok forallb].
  - rewrite Hf. reflexivity.
  - cbn [vals_ok forallb] in Hl. apply andb_true_iff in Hl. destruct Hl as [H1 H2].
    destruct (f_pos g <=? f_pos f); cbn [forallb].
    + rewrite H1. apply IH; assumption.
    + rewrite Hf, H1. exact H2.
Qed.
Lemma vals_ok_remove : forall t l, vals_ok l = true -> vals_ok (remove_field t l) = true.
Proof.
  induction l as [|g l IH]; intro H; cbn [remove_field]; [reflexivity|].
  cbn [vals_ok forallb] in H. apply andb_true_iff in H. destruct H as [H1 H2].
  destruct (f_tag g =? t); [exact H2|]. cbn [vals_ok forallb]. rewrite H1. apply IH. exact H2.
Qed.
Lemma vals_ok_add : forall p t v l, nosoh v = true -> vals_ok l = true -> vals_ok (add_field p t v l) = true.
Proof.
  intros. unfold add_field. destruct (get_pos t l).
  - apply vals_ok_insert; [assumption|apply vals_ok_remove; assumption].
  - apply vals_ok_insert; assumption.
Qed.

(* ---- framing ------------------------------------------------------------------------------------------ *)
Lemma cut_app : forall sep a rest,
  forallb (fun b => negb (b =? sep)) a = true -> cut sep (a ++ sep :: rest) = (a, Some rest).
Proof. intros. unfold cut. rewrite cut_aux_app by assumption. reflexivity. Qed.

Lemma encode_length : forall sc m,
  length (encode sc m) =
  (2 + length (sc_begin sc) + 1 + 2 + length (dec (N.of_nat (length (payload m)))) + 1 + length (payload m) + 7)%nat.
Proof.
  intros. rewrite encode_eq. unfold preamble, enc_field. rewrite !app_length. cbn [length].
  rewrite pad_length. change (length (dec 8)) with 1%nat. change (length (dec 9)) with 1%nat.
  change (length (dec 10)) with 2%nat. lia.
Qed.

Lemma frame_len_shape : forall b lenb n tl,
  nosoh b = true -> nosoh lenb = true -> undec lenb = Some n ->
  let raw := (56 :: 61 :: (b ++ SOH :: 57 :: 61 :: (lenb ++ SOH :: tl)))%list in
  let tot := (S (S (length b)) + 1 + 2 + length lenb + 1 + N.to_nat n + 7)%nat in
  (tot <= length raw)%nat -> frame_len raw = Some tot.
Proof.
  intros b lenb n tl Hb Hl Hu raw tot Hle. subst raw. unfold frame_len.
  assert (C1 : cut SOH (56 :: 61 :: (b ++ SOH :: 57 :: 61 :: (lenb ++ SOH :: tl)))%list
               = ((56 :: 61 :: b)%list, Some (57 :: 61 :: (lenb ++ SOH :: tl))%list)).
  { apply (cut_app SOH (56 :: 61 :: b)). cbn [forallb]. unfold SOH. cbn [N.eqb negb andb]. exact Hb. }
  rewrite C1. rewrite (cut_app SOH lenb) by exact Hl. rewrite Hu.
  cbn [length]. fold tot. apply Nat.leb_le in Hle. cbn [length] in Hle. rewrite Hle. reflexivity.
Qed.

Lemma encode_shape : forall sc m,
  encode sc m = (56 :: 61 :: (sc_begin sc ++ SOH :: 57 :: 61 :: (dec (N.of_nat (length (payload m))) ++ SOH ::
                 (payload m ++ enc_field 10 (pad 3 (chk_of sc m))))))%list.
Proof.
  intros. rewrite encode_eq. unfold preamble. unfold enc_field at 1 2.
  change (dec 8) with [56]. change (dec 9) with [57]. unfold ch_eq.
  cbn [app]. rewrite <- !app_assoc. cbn [app]. rewrite <- !app_assoc. reflexivity.
Qed.

Lemma frame_len_encode : forall sc m rest,
  nosoh (sc_begin sc) = true ->
  frame_len (encode sc m ++ rest) = Some (length (encode sc m)).
Proof.
  intros sc m rest W.
  pose proof (encode_length sc m) as EL.
  remember (length (encode sc m)) as len eqn:Hlen.
  rewrite encode_shape. cbn [app]. rewrite <- !app_assoc. cbn [app]. rewrite <- !app_assoc. cbn [app].
  rewrite <- app_assoc.
  rewrite frame_len_shape with (n := N.of_nat (length (payload m))).
  - f_equal. rewrite EL. rewrite Nat2N.id. reflexivity.
  - exact W.
  - apply clean_nosoh, dec_clean.
  - apply undec_dec.
  - cbn [length]. rewrite !app_length. cbn [length]. rewrite !app_length. cbn [length].
    rewrite !app_length. unfold enc_field. rewrite !app_length. cbn [length]. rewrite pad_length.
    rewrite Nat2N.id. change (length (dec 10)) with 2%nat. lia.
Qed.

Lemma encode_nonempty : forall sc m, (0 < length (encode sc m))%nat.
Proof. intros. rewrite encode_length. lia. Qed.

Lemma frames_aux_encodes : forall sc ms fuel acc,
  nosoh (sc_begin sc) = true ->
  (length (concat (map (encode sc) ms)) <= fuel)%nat ->
  frames_aux fuel (concat (map (encode sc) ms)) acc = ((rev acc ++ map (encode sc) ms)%list, []).
Proof.
  induction ms as [|m ms IH]; intros fuel acc W F.
  - cbn [map concat]. rewrite app_nil_r. destruct fuel; reflexivity.
  - cbn [map concat] in *. rewrite app_length in F.
    pose proof (encode_nonempty sc m) as NE.
    destruct fuel as [|fuel]; [lia|]. cbn [frames_aux].
    destruct (encode sc m ++ concat (map (encode sc) ms))%list eqn:E.
    { apply (f_equal (@length N)) in E. rewrite app_length in E. cbn in E. lia. }
    rewrite <- E. rewrite frame_len_encode by exact W.
    destruct (length (encode sc m)) eqn:LE; [lia|]. rewrite <- LE.
    rewrite firstn_app, skipn_app. rewrite Nat.sub_diag. cbn [firstn skipn].
    rewrite firstn_all, skipn_all. rewrite app_nil_r. cbn [app].
    rewrite IH by (try exact W; lia). cbn [rev]. rewrite <- app_assoc. reflexivity.
Qed.

Theorem frames_encodes : forall sc ms,
  nosoh (sc_begin sc) = true ->
  frames (concat (map (encode sc) ms)) = (map (encode sc) ms, []).
Proof. intros. unfold frames. rewrite frames_aux_encodes; [reflexivity|assumption|lia]. Qed.

(* ---- add_hdr' / add_body' ---------------------------------------------------------------------------- *)
Lemma add_hdr'_cases : forall sc tag v m,
  (add_hdr' sc tag v m = m /\ assoc tag (sc_hdr sc) = None) \/
  (exists p, assoc tag (sc_hdr sc) = Some p /\
             add_hdr' sc tag v m = mkMsg (m_type m) (add_field p tag v (m_hdr m)) (m_body m) (m_custom m) (m_noinc m) (m_eob m)).
Proof.
  intros. unfold add_hdr', add_hdr. destruct (assoc tag (sc_hdr sc)) as [p|].
  - right. exists p. split; reflexivity.
  - left. split; reflexivity.
Qed.

Lemma add_hdr'_type : forall sc tag v m, m_type (add_hdr' sc tag v m) = m_type m.
Proof. intros. destruct (add_hdr'_cases sc tag v m) as [[E _]|[p [_ E]]]; rewrite E; reflexivity. Qed.
Lemma add_hdr'_body : forall sc tag v m, m_body (add_hdr' sc tag v m) = m_body m.
Proof. intros. destruct (add_hdr'_cases sc tag v m) as [[E _]|[p [_ E]]]; rewrite E; reflexivity. Qed.
Lemma add_hdr'_custom : forall sc tag v m, m_custom (add_hdr' sc tag v m) = m_custom m.
Proof. intros. destruct (add_hdr'_cases sc tag v m) as [[E _]|[p [_ E]]]; rewrite E; reflexivity. Qed.
Lemma add_hdr'_noinc : forall sc tag v m, m_noinc (add_hdr' sc tag v m) = m_noinc m.
Proof. intros. destruct (add_hdr'_cases sc tag v m) as [[E _]|[p [_ E]]]; rewrite E; reflexivity. Qed.
Lemma add_hdr'_eob : forall sc tag v m, m_eob (add_hdr' sc tag v m) = m_eob m.
Proof. intros. destruct (add_hdr'_cases sc tag v m) as [[E _]|[p [_ E]]]; rewrite E; reflexivity. Qed.

Lemma add_hdr'_get_other : forall sc tag v m t, t <> tag ->
  get_field t (m_hdr (add_hdr' sc tag v m)) = get_field t (m_hdr m).
Proof.
  intros. destruct (add_hdr'_cases sc tag v m) as [[E _]|[p [_ E]]]; rewrite E; [reflexivity|].
  cbn [m_hdr]. apply get_add_other. assumption.
Qed.

Lemma add_hdr'_get_same : forall sc tag v m p, assoc tag (sc_hdr sc) = Some p -> NoDup (tags (m_hdr m)) ->
  get_field tag (m_hdr (add_hdr' sc tag v m)) = Some v.
Proof.
  intros sc tag v m p A ND. destruct (add_hdr'_cases sc tag v m) as [[_ E]|[q [_ E]]]; [congruence|].
  rewrite E. cbn [m_hdr]. apply get_add_same. exact ND.
Qed.

Lemma add_hdr'_nodup : forall sc tag v m, NoDup (tags (m_hdr m)) -> NoDup (tags (m_hdr (add_hdr' sc tag v m))).
Proof.
  intros. destruct (add_hdr'_cases sc tag v m) as [[E _]|[p [_ E]]]; rewrite E; [assumption|].
  cbn [m_hdr]. apply nodup_add. assumption.
Qed.

Lemma add_hdr'_vals : forall sc tag v m, nosoh v = true -> vals_ok (m_hdr m) = true ->
  vals_ok (m_hdr (add_hdr' sc tag v m)) = true.
Proof.
  intros. destruct (add_hdr'_cases sc tag v m) as [[E _]|[p [_ E]]]; rewrite E; [assumption|].
  cbn [m_hdr]. apply vals_ok_add; assumption.
Qed.

Lemma has_get : forall t l, has_field t l = match get_field t l with Some _ => true | None => false end.
Proof. reflexivity. Qed.

(* ---- time stamps are clean ---------------------------------------------------------------------------- *)
Lemma nosoh_pad : forall w n, nosoh (pad w n) = true.
Proof. intros. apply clean_nosoh, pad_clean. Qed.

Lemma fmt_time_nosoh : forall t, nosoh (fmt_time t) = true.
Proof.
  intros. unfold fmt_time. destruct (civil_of_days (t / NS / 86400)) as [[y mo] d].
  rewrite !nosoh_app. rewrite !nosoh_pad. reflexivity.
Qed.
