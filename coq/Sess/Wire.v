(* Session group: histories (the case line), traces (the result line), their concrete syntax and
   the interpreter `run_history` -- the model-side twin of harness/sess_harness.hpp.
   Syntax (see coq/Sess/READY.md):
     case   = op ('|' op)*            op tokens separated by ' '
     result = step (" | " step)*      step = events joined by ';' followed by the snapshot
   No proofs in this file. *)
From Coq Require Import NArith ZArith List Bool.
From F8 Require Import Sess.Bytes Sess.Msg Sess.Persist Sess.Session Sess.SimpleCodec.
Import ListNotations.
Local Open Scope N_scope.

(* ---- histories ------------------------------------------------------------------------------------ *)
Record msgspec := mkSpec {
  ms_type : bytes;
  ms_hdr : list (N * bytes);
  ms_body : list (N * bytes);
  ms_custom : N;
  ms_noinc : bool;
  ms_ok : bool                      (* false: the spec does not parse (the harness throws std::exception) *)
}.

Inductive op :=
| OStart (p : startp) (t : option Z)
| OIn (chunks : list bytes)
| OSend (m : msgspec)
| OBatch (l : list msgspec)
| OTick (t : Z)
| OClock (t : Z)
| ORestart
| OStop
| OPeerClose
| OEmpty
| OBad.

Definition T0 : Z := 1790035200000000000%Z.       (* VCLOCK_T0 *)

(* ---- traces --------------------------------------------------------------------------------------- *)
Record snap := mkSnap {
  sn_state : N;
  sn_send : N;
  sn_recv : N;
  sn_ctrl : option (N * N);
  sn_store : list (N * option bytes)      (* delta against the previous snapshot; None = GONE *)
}.
Record step := mkStep { st_events : list event; st_snap : option snap }.
Definition trace := list step.

(* ---- the interpreter --------------------------------------------------------------------------------- *)
Record world := mkWorld {
  w_sess : option sess;
  w_now : Z;
  w_sp : startp;
  w_disk : persister;                 (* what the FilePersister files hold (survives RESTART) *)
  w_snap : list (N * bytes)           (* store contents at the previous snapshot *)
}.

Definition default_sp : startp :=
  mkStart Initiator PMem [] [] (mkParams false true false false []) 30 0 0.
Definition world0 : world := mkWorld None T0 default_sp (p_empty PFile) [].

Section Run.
Variable sc : schema.

Definition dec_fn := simple_decode sc [].

Fixpoint add_fields (f : N -> bytes -> msg -> option msg) (l : list (N * bytes)) (m : msg) : option msg :=
  match l with
  | [] => Some m
  | (t, v) :: l' => match f t v m with Some m' => add_fields f l' m' | None => None end
  end.

(* the harness' build(): None = f8Exception (unknown message type / field not legal) *)
Definition build_msg (sp : msgspec) : option msg :=
  match find_def (ms_type sp) (sc_msgs sc) with
  | None => None
  | Some _ =>
    match add_fields (add_hdr sc) (ms_hdr sp) (new_msg (ms_type sp)) with
    | None => None
    | Some m1 => add_fields (add_body sc) (ms_body sp) m1
    end
  end.

Fixpoint build_all (l : list msgspec) : option (list msg) :=
  match l with
  | [] => Some []
  | sp :: l' =>
    match build_msg sp with
    | None => None
    | Some m =>
      match build_all l' with
      | Some ms => Some (set_noinc (ms_noinc sp) (set_custom (ms_custom sp) m) :: ms)
      | None => None
      end
    end
  end.

Definition exc_f8 : event := EExc [102;56;69;120;99;101;112;116;105;111;110].                 (* f8Exception *)
Definition exc_std : event := EExc [115;116;100;58;58;101;120;99;101;112;116;105;111;110].   (* std::exception *)
Definition note_nosession : event := ENote [78;79;83;69;83;83;73;79;78].
Definition note_badop : event := ENote [66;65;68;79;80].
Definition note_empty : event := ENote [69;77;80;84;89].

Definition do_start (w : world) : world * list event :=
  let p := w_sp w in
  let per := match sp_pk p with
             | PFile => w_disk w
             | k => p_empty k
             end in
  let '(r, s, evs) := start sc (w_now w) p (new_session p per) in
  (mkWorld (Some s) (w_now w) p (w_disk w) (w_snap w), (evs ++ [ERet r])%list).

(* harness teardown: stop, destroy; the file persister's content stays on disk *)
Definition teardown (w : world) : world :=
  match w_sess w with
  | None => w
  | Some s =>
    let disk := match p_kind (s_per s) with PFile => p_reopen (s_per s) | _ => w_disk w end in
    mkWorld None (w_now w) (w_sp w) disk (w_snap w)
  end.

Definition with_sess (w : world) (s : sess) : world :=
  mkWorld (Some s) (w_now w) (w_sp w) (w_disk w) (w_snap w).
Definition with_now (w : world) (t : Z) : world :=
  mkWorld (w_sess w) t (w_sp w) (w_disk w) (w_snap w).

Definition specs_ok (l : list msgspec) : bool := forallb ms_ok l.

Definition run_op (w : world) (o : op) : world * list event :=
  match o with
  | OStart p t =>
    let w1 := match t with Some t' => with_now w t' | None => w end in
    do_start (mkWorld (w_sess w1) (w_now w1) p (w_disk w1) (w_snap w1))
  | ORestart => do_start (teardown w)
  | OClock t => (with_now w t, [])
  | OEmpty => (w, [])
  | OBad =>
    match w_sess w with None => (w, [note_nosession]) | Some _ => (w, [note_badop]) end
  | _ =>
    match w_sess w with
    | None => (w, [note_nosession])
    | Some s =>
      match o with
      | OIn chunks => let '(s1, e1) := feed sc dec_fn [] (w_now w) chunks s in (with_sess w s1, e1)
      | OSend sp =>
        if negb (ms_ok sp) then (w, [exc_std]) else
        match build_msg sp with
        | None => (w, [exc_f8])
        | Some m =>
          let '(ok, s1, e1) := send sc (w_now w) s m (ms_custom sp) (ms_noinc sp) in
          (with_sess w s1, (e1 ++ [ERet (if ok then 1 else 0)%Z])%list)
        end
      | OBatch l =>
        if negb (specs_ok l) then (w, [exc_std]) else
        match build_all l with
        | None => (w, [exc_f8])
        | Some ms =>
          let '(n, s1, e1) := send_batch sc (w_now w) s ms in
          (with_sess w s1, (e1 ++ [ERet (Z.of_N n)])%list)
        end
      | OTick t =>
        let '(r, s1, e1) := heartbeat_service sc t s in
        (with_sess (with_now w t) s1, (e1 ++ [ERet (if r then 1 else 0)%Z])%list)
      | OStop => (with_sess w (stop s), [])
      | OPeerClose =>
        (* EOF: FIXReader::read throws PeerResetConnection; execute() marks the session terminated
           unless it is shutting down already, and the reader thread ends *)
        let s1 := if s_reader s && negb (is_shutdown s) then w_state st_session_terminated s else s in
        (with_sess w (w_down (s_shutdown s1) true false s1), [])
      | _ => (w, [note_badop])
      end
    end
  end.

Fixpoint store_delta_new (now old : list (N * bytes)) : list (N * option bytes) :=
  match now with
  | [] => []
  | (k, v) :: now' =>
    match store_get k old with
    | Some v' => if beq v v' then store_delta_new now' old else (k, Some v) :: store_delta_new now' old
    | None => (k, Some v) :: store_delta_new now' old
    end
  end.
Fixpoint store_delta_gone (now old : list (N * bytes)) : list (N * option bytes) :=
  match old with
  | [] => []
  | (k, _) :: old' =>
    match store_get k now with
    | Some _ => store_delta_gone now old'
    | None => (k, None) :: store_delta_gone now old'
    end
  end.

Definition snapshot (w : world) : world * option snap :=
  match w_sess w with
  | None => (w, None)
  | Some s =>
    let per := s_per s in
    let ctrl := match p_kind per with PFile => p_get_ctrl per | _ => None end in
    match p_kind per with
    | PNone => (w, Some (mkSnap (s_state s) (s_next_send s) (s_next_recv s) ctrl []))
    | _ =>
      let d := (store_delta_new (p_store per) (w_snap w) ++ store_delta_gone (p_store per) (w_snap w))%list in
      (mkWorld (w_sess w) (w_now w) (w_sp w) (w_disk w) (p_store per),
       Some (mkSnap (s_state s) (s_next_send s) (s_next_recv s) ctrl d))
    end
  end.

Fixpoint run_ops (w : world) (l : list op) : trace :=
  match l with
  | [] => []
  | o :: l' =>
    let '(w1, evs) := run_op w o in
    let '(w2, sn) := snapshot w1 in
    mkStep evs sn :: run_ops w2 l'
  end.

Definition run_history (l : list op) : trace := run_ops world0 l.

End Run.

(* ---- concrete syntax: case line -> history ------------------------------------------------------------ *)
Definition words (l : bytes) : list bytes := filter (fun t => match t with [] => false | _ => true end) (split_on_fast 32 l).

Definition parse_num (l : bytes) : option N := undec l.
Definition parse_Z (l : bytes) : option Z :=
  match l with
  | 45 :: l' => match undec l' with Some n => Some (- Z.of_N n)%Z | None => None end
  | _ => match undec l with Some n => Some (Z.of_N n) | None => None end
  end.

Definition parse_kv (t : bytes) : option (bytes * bytes) :=
  match cut_fast ch_eq t with (k, Some v) => Some (k, v) | _ => None end.

Fixpoint parse_fieldlist (l : list bytes) : option (list (N * bytes)) :=
  match l with
  | [] => Some []
  | [] :: l' => parse_fieldlist l'
  | fv :: l' =>
    match cut_fast ch_eq fv with
    | (t, Some v) =>
      match parse_num t, parse_fieldlist l' with
      | Some tag, Some r => Some ((tag, unhex v) :: r)
      | _, _ => None
      end
    | _ => None
    end
  end.

Fixpoint parse_spec_parts (l : list bytes) (sp : msgspec) : msgspec :=
  match l with
  | [] => sp
  | [] :: l' => parse_spec_parts l' sp
  | (c :: rest) :: l' =>
    let bad := mkSpec (ms_type sp) (ms_hdr sp) (ms_body sp) (ms_custom sp) (ms_noinc sp) false in
    if c =? 99 then
      match parse_num rest with
      | Some n => parse_spec_parts l' (mkSpec (ms_type sp) (ms_hdr sp) (ms_body sp) n (ms_noinc sp) (ms_ok sp))
      | None => bad
      end
    else if c =? 110 then parse_spec_parts l' (mkSpec (ms_type sp) (ms_hdr sp) (ms_body sp) (ms_custom sp) true (ms_ok sp))
    else if c =? 72 then
      match parse_fieldlist (split_on_fast 44 rest) with
      | Some fl => parse_spec_parts l' (mkSpec (ms_type sp) (ms_hdr sp ++ fl)%list (ms_body sp) (ms_custom sp) (ms_noinc sp) (ms_ok sp))
      | None => bad
      end
    else if c =? 66 then
      match parse_fieldlist (split_on_fast 44 rest) with
      | Some fl => parse_spec_parts l' (mkSpec (ms_type sp) (ms_hdr sp) (ms_body sp ++ fl)%list (ms_custom sp) (ms_noinc sp) (ms_ok sp))
      | None => bad
      end
    else parse_spec_parts l' sp
  end.

Definition parse_spec (l : bytes) : msgspec :=
  match split_on_fast 47 l with
  | t :: parts => parse_spec_parts parts (mkSpec t [] [] 0 false true)
  | [] => mkSpec [] [] [] 0 false false
  end.

Definition k_sid : bytes := [115;105;100].
Definition k_asa : bytes := [97;115;97].
Definition k_ec : bytes := [101;99].
Definition k_sd : bytes := [115;100].
Definition k_rsn : bytes := [114;115;110].
Definition k_hb : bytes := [104;98].
Definition k_ss : bytes := [115;115].
Definition k_rs : bytes := [114;115].
Definition k_t : bytes := [116].
Definition k_clients : bytes := [99;108;105;101;110;116;115].
Definition v_mem : bytes := [109;101;109].
Definition v_file : bytes := [102;105;108;101].
Definition s_CLI : bytes := [67;76;73].
Definition s_SRV : bytes := [83;82;86].

Definition is1 (v : bytes) : bool := beq v [49].

Fixpoint parse_start_kvs (l : list bytes) (p : startp) (t : option Z) : startp * option Z :=
  match l with
  | [] => (p, t)
  | tok :: l' =>
    match parse_kv tok with
    | None => parse_start_kvs l' p t
    | Some (k, v) =>
      let par := sp_par p in
      let setpar q := mkStart (sp_role p) (sp_pk p) (sp_snd p) (sp_tgt p) q (sp_hb p) (sp_ss p) (sp_rs p) in
      if beq k k_sid then
        let '(a, b) := cut_fast 58 v in
        parse_start_kvs l' (mkStart (sp_role p) (sp_pk p) a (match b with Some x => x | None => [] end) par (sp_hb p) (sp_ss p) (sp_rs p)) t
      else if beq k k_asa then parse_start_kvs l' (setpar (mkParams (is1 v) (pr_ec par) (pr_sd par) (pr_rsn par) (pr_clients par))) t
      else if beq k k_ec then parse_start_kvs l' (setpar (mkParams (pr_asa par) (is1 v) (pr_sd par) (pr_rsn par) (pr_clients par))) t
      else if beq k k_sd then parse_start_kvs l' (setpar (mkParams (pr_asa par) (pr_ec par) (is1 v) (pr_rsn par) (pr_clients par))) t
      else if beq k k_rsn then parse_start_kvs l' (setpar (mkParams (pr_asa par) (pr_ec par) (pr_sd par) (is1 v) (pr_clients par))) t
      else if beq k k_clients then
        parse_start_kvs l' (setpar (mkParams (pr_asa par) (pr_ec par) (pr_sd par) (pr_rsn par)
                                             (filter (fun c => match c with [] => false | _ => true end) (split_on_fast 44 v)))) t
      else if beq k k_hb then
        parse_start_kvs l' (mkStart (sp_role p) (sp_pk p) (sp_snd p) (sp_tgt p) par (match parse_num v with Some n => n | None => 0 end) (sp_ss p) (sp_rs p)) t
      else if beq k k_ss then
        parse_start_kvs l' (mkStart (sp_role p) (sp_pk p) (sp_snd p) (sp_tgt p) par (sp_hb p) (match parse_num v with Some n => n | None => 0 end) (sp_rs p)) t
      else if beq k k_rs then
        parse_start_kvs l' (mkStart (sp_role p) (sp_pk p) (sp_snd p) (sp_tgt p) par (sp_hb p) (sp_ss p) (match parse_num v with Some n => n | None => 0 end)) t
      else if beq k k_t then parse_start_kvs l' p (parse_Z v)
      else parse_start_kvs l' p t           (* pm= and unknown keys: ignored (the model is pm_thread) *)
    end
  end.

Definition parse_op (l : bytes) : op :=
  match words l with
  | [] => OEmpty
  | name :: args =>
    if beq name [83;84;65;82;84] then                              (* START *)
      match args with
      | (r :: _) :: pk :: kvs =>
        let role := if r =? 73 then Initiator else Acceptor in
        let kind := if beq pk v_mem then PMem else if beq pk v_file then PFile else PNone in
        let p0 := match role with
                  | Initiator => mkStart role kind s_CLI s_SRV (mkParams false true false false []) 30 0 0
                  | Acceptor => mkStart role kind s_SRV s_CLI (mkParams false true false false []) 30 0 0
                  end in
        let '(p, t) := parse_start_kvs kvs p0 None in
        OStart p t
      | _ => OBad
      end
    else if beq name [82;69;83;84;65;82;84] then ORestart          (* RESTART *)
    else if beq name [67;76;79;67;75] then                         (* CLOCK *)
      match args with a :: _ => match parse_Z a with Some t => OClock t | None => OBad end | _ => OBad end
    else if beq name [84;73;67;75] then                            (* TICK *)
      match args with a :: _ => match parse_Z a with Some t => OTick t | None => OBad end | _ => OBad end
    else if beq name [73;78] then                                  (* IN *)
      match args with a :: _ => OIn (map unhex (split_on_fast 44 a)) | _ => OBad end
    else if beq name [83;69;78;68] then                            (* SEND *)
      match args with a :: _ => OSend (parse_spec a) | _ => OBad end
    else if beq name [66;65;84;67;72] then                         (* BATCH *)
      match args with a :: _ => OBatch (map parse_spec (split_on_fast 59 a)) | _ => OBad end
    else if beq name [83;84;79;80] then OStop                      (* STOP *)
    else if beq name [80;69;69;82;67;76;79;83;69] then OPeerClose  (* PEERCLOSE *)
    else OBad
  end.

Definition parse_history (line : bytes) : list op := map parse_op (split_on_fast 124 line).

(* ---- concrete syntax: trace -> result line ---------------------------------------------------------- *)
Definition sp : bytes := [32].
Definition render_event (e : event) : bytes :=
  match e with
  | EOut b => ([79;85;84;32] ++ hex b)%list
  | EOutRaw b => ([79;85;84;82;65;87;32] ++ hex b)%list
  | EDeliver t s pd => ([68;69;76;73;86;69;82;32] ++ t ++ sp ++ dec s ++ sp ++ [if pd then 49 else 48])%list
  | ERet z => ([82;69;84;32] ++ decZ z)%list
  | EExc b => ([69;88;67;32] ++ b)%list
  | ENote b => b
  end.

Definition render_store_entry (kv : N * option bytes) : bytes :=
  (sp ++ dec (fst kv) ++ sp ++ match snd kv with Some v => hex v | None => [71;79;78;69] end)%list.

Definition render_snap (s : snap) : bytes :=
  ([83;84;65;84;69;32] ++ dec (sn_state s) ++ [59;83;69;81;32] ++ dec (sn_send s) ++ sp ++ dec (sn_recv s) ++
   [59;67;84;82;76;32] ++ match sn_ctrl s with Some (a, b) => (dec a ++ sp ++ dec b)%list | None => [45] end ++
   match sn_store s with
   | [] => []
   | l => ([59;83;84;79;82;69] ++ flat_map render_store_entry l)%list
   end)%list.

Definition render_step (s : step) : bytes :=
  let evs := join [59] (map render_event (st_events s)) in
  match st_snap s with
  | None => evs
  | Some sn => match evs with
               | [] => render_snap sn
               | _ => (evs ++ [59] ++ render_snap sn)%list
               end
  end.

Definition render_trace (t : trace) : bytes := join [32;124;32] (map render_step t).

(* the whole model run on a case line *)
Definition run_line (sc : schema) (line : bytes) : bytes :=
  render_trace (run_history sc (parse_history line)).

(* ---- concrete syntax: result line -> trace (for the oracles, applied to either side's output) --------- *)
Fixpoint parse_store (l : list bytes) : list (N * option bytes) :=
  match l with
  | k :: v :: l' =>
    match parse_num k with
    | Some n => (n, if beq v [71;79;78;69] then None else Some (unhex v)) :: parse_store l'
    | None => []
    end
  | _ => []
  end.

(* an event or a snapshot component *)
Inductive item :=
| IEvent (e : event)
| IState (n : N)
| ISeq (a b : N)
| ICtrl (c : option (N * N))
| IStore (l : list (N * option bytes)).

Definition parse_item (l : bytes) : item :=
  match words l with
  | name :: args =>
    if beq name [79;85;84] then match args with [h] => IEvent (EOut (unhex h)) | _ => IEvent (ENote l) end
    else if beq name [79;85;84;82;65;87] then match args with [h] => IEvent (EOutRaw (unhex h)) | _ => IEvent (ENote l) end
    else if beq name [68;69;76;73;86;69;82] then
      match args with
      | [t; s; pd] => match parse_num s with Some n => IEvent (EDeliver t n (beq pd [49])) | None => IEvent (ENote l) end
      | _ => IEvent (ENote l)
      end
    else if beq name [82;69;84] then
      match args with [z] => match parse_Z z with Some v => IEvent (ERet v) | None => IEvent (ENote l) end | _ => IEvent (ENote l) end
    else if beq name [69;88;67] then IEvent (EExc (join sp args))
    else if beq name [83;84;65;84;69] then
      match args with [n] => match parse_num n with Some v => IState v | None => IEvent (ENote l) end | _ => IEvent (ENote l) end
    else if beq name [83;69;81] then
      match args with
      | [a; b] => match parse_num a, parse_num b with Some x, Some y => ISeq x y | _, _ => IEvent (ENote l) end
      | _ => IEvent (ENote l)
      end
    else if beq name [67;84;82;76] then
      match args with
      | [a; b] => match parse_num a, parse_num b with Some x, Some y => ICtrl (Some (x, y)) | _, _ => IEvent (ENote l) end
      | _ => ICtrl None
      end
    else if beq name [83;84;79;82;69] then IStore (parse_store args)
    else IEvent (ENote l)
  | [] => IEvent (ENote l)
  end.

(* a step is well-formed when its items are events followed by STATE, SEQ, CTRL [, STORE] *)
Fixpoint split_items (l : list item) (evs : list event) : step :=
  match l with
  | [] => mkStep (rev evs) None
  | IEvent e :: l' => split_items l' (e :: evs)
  | IState n :: ISeq a b :: ICtrl c :: IStore st :: _ => mkStep (rev evs) (Some (mkSnap n a b c st))
  | IState n :: ISeq a b :: ICtrl c :: _ => mkStep (rev evs) (Some (mkSnap n a b c []))
  | _ :: l' => split_items l' (ENote [63] :: evs)
  end.

Definition parse_step (l : bytes) : step :=
  match l with
  | [] => mkStep [] None
  | _ => split_items (map parse_item (split_on_fast 59 l)) []
  end.

Definition parse_trace (line : bytes) : trace := map parse_step (split_on_fast 124 line).
