(* Session group: messages as position-ordered tag/value lists, the schema positions dumped
   from the generated code, MessageBase::add_field/replace/remove, Message::encode, the
   BodyLength framing.  Transcribed from include/fix8/message.hpp and runtime/message.cpp.
   No proofs in this file. *)
From Coq Require Import NArith ZArith List Bool.
From F8 Require Import Sess.Bytes.
Import ListNotations.
Local Open Scope N_scope.

(* One field of a message part.  f_pos is the key of the Positions multimap (schema position
   for fields added with operator<< / add_field, decode order for decoded messages). *)
Record field := mkF { f_pos : N; f_tag : N; f_val : bytes }.

Record msg := mkMsg {
  m_type : bytes;            (* MsgType *)
  m_hdr : list field;        (* header without 8, 9, 35 (positions 1..3, produced by encode) *)
  m_body : list field;
  m_custom : N;              (* custom_seqnum, 0 = none *)
  m_noinc : bool;            (* no_increment *)
  m_eob : bool               (* end_of_batch (default true) *)
}.

(* Schema metadata (harness --meta): tag -> position tables and the admin flag. *)
Record msgdef := mkDef {
  d_type : bytes;
  d_admin : bool;
  d_pos : list (N * N);              (* body: (tag, position) *)
  d_mand : list N                    (* mandatory body tags, ascending (order of FieldTraits::find_missing) *)
}.
Record schema := mkSchema {
  sc_begin : bytes;                      (* BeginString, e.g. FIX.4.2 *)
  sc_hdr : list (N * N);                 (* header: (tag, position) *)
  sc_hdr_mand : list N;                  (* mandatory header tags, ascending *)
  sc_names : list (N * bytes);           (* field names (text of MissingMandatoryField) *)
  sc_msgs : list msgdef;
  sc_routed : list bytes;                (* message types the application router handles (returns true) *)
  sc_factory_empty : bytes               (* what() of Message::factory(ctx, "") -- carries FILE_LINE *)
}.

Fixpoint assoc (k : N) (l : list (N * N)) : option N :=
  match l with
  | [] => None
  | (a, b) :: l' => if a =? k then Some b else assoc k l'
  end.

Fixpoint find_def (t : bytes) (l : list msgdef) : option msgdef :=
  match l with
  | [] => None
  | d :: l' => if beq (d_type d) t then Some d else find_def t l'
  end.

Definition is_admin (sc : schema) (t : bytes) : bool :=
  match find_def t (sc_msgs sc) with Some d => d_admin d | None => false end.

Fixpoint mem_bytes (t : bytes) (l : list bytes) : bool :=
  match l with [] => false | x :: l' => beq x t || mem_bytes t l' end.

(* ---- Positions multimap --------------------------------------------------------------------- *)
Fixpoint get_field (tag : N) (l : list field) : option bytes :=
  match l with
  | [] => None
  | f :: l' => if f_tag f =? tag then Some (f_val f) else get_field tag l'
  end.
Definition has_field (tag : N) (l : list field) : bool :=
  match get_field tag l with Some _ => true | None => false end.

Fixpoint get_pos (tag : N) (l : list field) : option N :=
  match l with
  | [] => None
  | f :: l' => if f_tag f =? tag then Some (f_pos f) else get_pos tag l'
  end.

(* multimap::insert: after every element whose key is <= the new key *)
Fixpoint insert_field (f : field) (l : list field) : list field :=
  match l with
  | [] => [f]
  | g :: l' => if f_pos g <=? f_pos f then g :: insert_field f l' else f :: l
  end.

Fixpoint remove_field (tag : N) (l : list field) : list field :=
  match l with
  | [] => []
  | f :: l' => if f_tag f =? tag then l' else f :: remove_field tag l'
  end.

(* add_field(fnum, itr, pos, what, check=true): replace (same key, re-inserted) when present *)
Definition add_field (pos tag : N) (v : bytes) (l : list field) : list field :=
  match get_pos tag l with
  | Some p => insert_field (mkF p tag v) (remove_field tag l)
  | None => insert_field (mkF pos tag v) l
  end.

(* operator<< on the header / on the body of message type t: None = InvalidField *)
Definition add_hdr (sc : schema) (tag : N) (v : bytes) (m : msg) : option msg :=
  match assoc tag (sc_hdr sc) with
  | Some p => Some (mkMsg (m_type m) (add_field p tag v (m_hdr m)) (m_body m) (m_custom m) (m_noinc m) (m_eob m))
  | None => None
  end.
Definition add_body (sc : schema) (tag : N) (v : bytes) (m : msg) : option msg :=
  match find_def (m_type m) (sc_msgs sc) with
  | Some d =>
    match assoc tag (d_pos d) with
    | Some p => Some (mkMsg (m_type m) (m_hdr m) (add_field p tag v (m_body m)) (m_custom m) (m_noinc m) (m_eob m))
    | None => None
    end
  | None => None
  end.
(* the session only adds fields that are legal in every FIX version; if the dump lacks one the
   field is dropped (cannot happen with the UTEST schema; visible in the tie if it ever does) *)
Definition add_hdr' sc tag v m := match add_hdr sc tag v m with Some m' => m' | None => m end.
Definition add_body' sc tag v m := match add_body sc tag v m with Some m' => m' | None => m end.
Definition del_hdr (tag : N) (m : msg) : msg :=
  mkMsg (m_type m) (remove_field tag (m_hdr m)) (m_body m) (m_custom m) (m_noinc m) (m_eob m).

Definition new_msg (t : bytes) : msg := mkMsg t [] [] 0 false true.
Definition set_custom (c : N) (m : msg) : msg :=
  mkMsg (m_type m) (m_hdr m) (m_body m) c (m_noinc m) (m_eob m).
Definition set_noinc (b : bool) (m : msg) : msg :=
  mkMsg (m_type m) (m_hdr m) (m_body m) (m_custom m) b (m_eob m).
Definition set_eob (b : bool) (m : msg) : msg :=
  mkMsg (m_type m) (m_hdr m) (m_body m) (m_custom m) (m_noinc m) b.

(* ---- tags ------------------------------------------------------------------------------------ *)
Definition T_BeginSeqNo : N := 7.
Definition T_EndSeqNo : N := 16.
Definition T_MsgSeqNum : N := 34.
Definition T_MsgType : N := 35.
Definition T_NewSeqNo : N := 36.
Definition T_PossDupFlag : N := 43.
Definition T_RefSeqNum : N := 45.
Definition T_SenderCompID : N := 49.
Definition T_SendingTime : N := 52.
Definition T_TargetCompID : N := 56.
Definition T_Text : N := 58.
Definition T_EncryptMethod : N := 98.
Definition T_HeartBtInt : N := 108.
Definition T_TestReqID : N := 112.
Definition T_OrigSendingTime : N := 122.
Definition T_GapFillFlag : N := 123.
Definition T_ResetSeqNumFlag : N := 141.
Definition T_RefMsgType : N := 372.

(* ---- encode ------------------------------------------------------------------------------------ *)
Definition enc_field (tag : N) (v : bytes) : bytes := (dec tag ++ [ch_eq] ++ v ++ [SOH])%list.
Definition enc_fields (l : list field) : bytes := flat_map (fun f => enc_field (f_tag f) (f_val f)) l.

Definition bytesum (l : bytes) : N := fold_left N.add l 0.

(* Message::encode: header (35 first: position 3), body, then 8= and 9= in front, 10= behind *)
Definition encode (sc : schema) (m : msg) : bytes :=
  let payload := (enc_field T_MsgType (m_type m) ++ enc_fields (m_hdr m) ++ enc_fields (m_body m))%list in
  let pre := (enc_field 8 (sc_begin sc) ++ enc_field 9 (dec (N.of_nat (length payload))))%list in
  let chk := bytesum (pre ++ payload)%list mod 256 in
  (pre ++ payload ++ enc_field 10 (pad 3 chk))%list.

(* ---- generic tag=value scanning (used by the oracles and by the simple decoder) -------------- *)
(* all "tag=value" tokens of a message, in wire order; tokens without '=' get tag None *)
Definition tokens (raw : bytes) : list (bytes * bytes) :=
  let toks := split_on SOH raw in
  (* the piece after the last SOH is empty for a well-formed message *)
  map (fun t => match cut ch_eq t with (a, Some b) => (a, b) | (a, None) => (a, []) end)
      (removelast toks).

Fixpoint tok_get (tag : bytes) (l : list (bytes * bytes)) : option bytes :=
  match l with
  | [] => None
  | (a, b) :: l' => if beq a tag then Some b else tok_get tag l'
  end.

(* ---- BodyLength framing of a byte stream (what split_fix does in the harness) ----------------- *)
(* returns the length of the first complete message, if the stream starts with one *)
Definition frame_len (raw : bytes) : option nat :=
  match raw with
  | 56 :: 61 :: _ =>
    match cut SOH raw with
    | (f8, Some rest) =>
      match rest with
      | 57 :: 61 :: r9 =>
        match cut SOH r9 with
        | (lenb, Some rest2) =>
          match undec lenb with
          | Some n =>
            let tot := (length f8 + 1 + 2 + length lenb + 1 + N.to_nat n + 7)%nat in
            if (tot <=? length raw)%nat then Some tot else None
          | None => None
          end
        | _ => None
        end
      | _ => None
      end
    | _ => None
    end
  | _ => None
  end.

Fixpoint frames_aux (fuel : nat) (raw : bytes) (acc : list bytes) : list bytes * bytes :=
  match fuel with
  | O => (rev acc, raw)
  | S f =>
    match raw with
    | [] => (rev acc, [])
    | _ =>
      match frame_len raw with
      | Some (S n) => frames_aux f (skipn (S n) raw) (firstn (S n) raw :: acc)
      | _ => (rev acc, raw)
      end
    end
  end.
(* complete messages at the front of a stream and the unframed remainder *)
Definition frames (raw : bytes) : list bytes * bytes := frames_aux (length raw) raw [].
