(* Session group: a deliberately simple stand-in for Message::factory(ctx, raw, false, false),
   valid for WELL-FORMED messages of the dumped schema whose mandatory fields are present
   (what the C16/C17 generators feed and what the session itself stored):
     * "8=..|9=..|35=T|" preamble, T known to the schema, else InvalidMessage;
     * header = the longest run of following tokens whose tag is a header tag (positions 4, 5, ...
       in decode order: the header already holds 8, 9, 35), body = the following run of tokens legal
       for T (positions 1, 2, ...), everything after that up to the trailer is ignored, as the real
       strict decoder does (F10, F12);
     * "10=ccc|" must be the last 7 bytes and ccc the byte sum mod 256 of everything before it, else
       BadCheckSum / InvalidMessage;
     * the empty string (what F21 leaves in the store) gives the InvalidMessage text obtained from
       the real factory by the harness (it carries __FILE__:__LINE__).
     * the first mandatory header field that is absent, else the first mandatory body field that is
       absent (ascending tag order, FieldTraits::find_missing) gives MissingMandatoryField with the
       text "Missing Mandatory Field: <Name> (<tag>)";
   NOT reproduced: duplicate fields, repeating groups, data fields,
   tags >= 65536, values >= 2048 bytes (all C01..C06/C19 business: plug the Codec model in there).
   No proofs in this file. *)
From Coq Require Import NArith ZArith List Bool.
From F8 Require Import Sess.Bytes Sess.Msg Sess.Persist Sess.Session.
Import ListNotations.
Local Open Scope N_scope.

Definition txt_chk : bytes :=       (* "Checksum failure" *)
  [67;104;101;99;107;115;117;109;32;102;97;105;108;117;114;101].

Definition tag_of (t : bytes) : option N := undec t.

(* longest prefix of tokens whose tag is in the table; positions counted from `pos0 + 1` *)
Fixpoint take_part (tbl : list (N * N)) (pos : N) (l : list (bytes * bytes)) (acc : list field)
  : list field * list (bytes * bytes) :=
  match l with
  | [] => (rev acc, [])
  | (t, v) :: l' =>
    match tag_of t with
    | Some tag =>
      match assoc tag tbl with
      | Some _ => take_part tbl (pos + 1) l' (mkF (pos + 1) tag v :: acc)
      | None => (rev acc, l)
      end
    | None => (rev acc, l)
    end
  end.

Definition txt_missing : bytes :=   (* "Missing Mandatory Field" *)
  [77;105;115;115;105;110;103;32;77;97;110;100;97;116;111;114;121;32;70;105;101;108;100].

Fixpoint first_missing (mand : list N) (l : list field) : option N :=
  match mand with
  | [] => None
  | t :: mand' => if has_field t l then first_missing mand' l else Some t
  end.

Fixpoint name_of (t : N) (l : list (N * bytes)) : bytes :=
  match l with
  | [] => []
  | (k, v) :: l' => if k =? t then v else name_of t l'
  end.

Definition missing_text (sc : schema) (t : N) : bytes :=
  fmt1 txt_missing (name_of t (sc_names sc) ++ [32; 40] ++ dec t ++ [41])%list.

Definition simple_decode (sc : schema) (fl_factory : bytes) (raw : bytes) : decode_result :=
  match raw with
  | [] => DecExc (sc_factory_empty sc) false
  | _ =>
    match tokens raw with
    | (t8, _) :: (t9, _) :: (t35, mt) :: rest =>
      if beq t8 [56] && beq t9 [57] && beq t35 [51; 53] then
        match find_def mt (sc_msgs sc) with
        | None => DecExc (fmt2 txt_invmsg mt txt_at fl_factory) false
        | Some d =>
          let '(hdr, rest1) := take_part (sc_hdr sc) 3 rest [] in
          (* 8, 9, 35 are present through add_preamble *)
          match first_missing (filter (fun t => negb ((t =? 8) || (t =? 9) || (t =? 35))) (sc_hdr_mand sc)) hdr with
          | Some t => DecExc (missing_text sc t) false
          | None =>
          let '(body, _) := take_part (d_pos d) 0 rest1 [] in
          match first_missing (d_mand d) body with
          | Some t => DecExc (missing_text sc t) false
          | None =>
          let n := length raw in
          let front := firstn (n - 7) raw in
          let tail := skipn (n - 7) raw in
          match tail with
          | [49; 48; 61; a; b; c; _] =>
            let mchk := bytesum front mod 256 in
            if atoi_u [a; b; c] 0 =? mchk then DecOk (mkMsg mt hdr body 0 false true)
            else DecExc (fmt1 txt_chk (dec mchk)) false
          | _ => DecExc (fmt2 txt_invmsg raw txt_at fl_factory) false
          end
          end
          end
        end
      else DecExc (fmt2 txt_invmsg raw txt_at fl_factory) false
    | _ => DecExc (fmt2 txt_invmsg raw txt_at fl_factory) false
    end
  end.
