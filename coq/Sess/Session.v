(* Session group: the session model.  Statement-by-statement transcription of
   runtime/session.cpp (start, stop, enforce, update_persist_seqnums, process, compid_check,
   sequence_check, handle_logon/logout/sequence_reset/resend_request/test_request/heartbeat,
   retrans_callback, handle_outbound_reject, heartbeat_service, generate_*, send, send_batch,
   send_process, recover_seqnums), of FIXWriter::write/write_batch (pm_thread) and of the loop of
   FIXReader::execute (pm_thread), INCLUDING the defects that are still in the code (F22, F25, F26, F27 ...;
   F20, F21 and F28 were repaired in /repo: send_process_orig / neq_orig keep the old behaviour for witnesses).
   What is observable is emitted as events.  No proofs in this file. *)
From Coq Require Import NArith ZArith List Bool.
From F8 Require Import Sess.Bytes Sess.Msg Sess.Persist.
Import ListNotations.
Local Open Scope N_scope.

(* ---- states (include/fix8/session.hpp, States::SessionStates) ---------------------------------- *)
Definition st_none : N := 0.
Definition st_continuous : N := 1.
Definition st_session_terminated : N := 2.
Definition st_wait_for_logon : N := 3.
Definition st_not_logged_in : N := 4.
Definition st_logon_sent : N := 5.
Definition st_logon_received : N := 6.
Definition st_logoff_sent : N := 7.
Definition st_logoff_received : N := 8.
Definition st_test_request_sent : N := 9.
Definition st_sequence_reset_sent : N := 10.
Definition st_sequence_reset_received : N := 11.
Definition st_resend_request_sent : N := 12.
Definition st_resend_request_received : N := 13.

Definition is_live (st : N) : bool := negb (st =? st_none) && negb (st =? st_session_terminated).
Definition is_established (st : N) : bool :=
  negb (st =? st_wait_for_logon) && negb (st =? st_not_logged_in) && negb (st =? st_logon_sent) && is_live st.

Inductive role := Initiator | Acceptor.

Record params := mkParams {
  pr_asa : bool;               (* always_seqnum_assign *)
  pr_ec : bool;                (* enforce_compids *)
  pr_sd : bool;                (* silent_disconnect *)
  pr_rsn : bool;               (* reset_sequence_numbers *)
  pr_clients : list bytes      (* keys of LoginParameters::_clients *)
}.

Record sess := mkSess {
  s_state : N;
  s_next_send : N;
  s_next_recv : N;
  s_active : bool;
  s_last_sent : Z;             (* Tickval, ns; 0 = never *)
  s_last_recv : Z;
  s_hb : N;                    (* Connection::_hb_interval *)
  s_role : role;
  s_snd : bytes;               (* _sid sender comp id *)
  s_tgt : bytes;               (* _sid target comp id *)
  s_sci : bytes;               (* acceptor: own comp id *)
  s_par : params;
  s_batch : bytes;             (* _batchmsgs_buffer *)
  s_per : persister;
  s_shutdown : bool;           (* _control & shutdown *)
  s_closed : bool;             (* the socket has been shut down (or the peer closed) *)
  s_reader : bool;             (* the reader thread is still in its loop *)
  s_req_send : N;
  s_req_recv : N
}.

(* field updates *)
Definition w_state v s := mkSess v (s_next_send s) (s_next_recv s) (s_active s) (s_last_sent s) (s_last_recv s) (s_hb s) (s_role s) (s_snd s) (s_tgt s) (s_sci s) (s_par s) (s_batch s) (s_per s) (s_shutdown s) (s_closed s) (s_reader s) (s_req_send s) (s_req_recv s).
Definition w_next_send v s := mkSess (s_state s) v (s_next_recv s) (s_active s) (s_last_sent s) (s_last_recv s) (s_hb s) (s_role s) (s_snd s) (s_tgt s) (s_sci s) (s_par s) (s_batch s) (s_per s) (s_shutdown s) (s_closed s) (s_reader s) (s_req_send s) (s_req_recv s).
Definition w_next_recv v s := mkSess (s_state s) (s_next_send s) v (s_active s) (s_last_sent s) (s_last_recv s) (s_hb s) (s_role s) (s_snd s) (s_tgt s) (s_sci s) (s_par s) (s_batch s) (s_per s) (s_shutdown s) (s_closed s) (s_reader s) (s_req_send s) (s_req_recv s).
Definition w_last_sent v s := mkSess (s_state s) (s_next_send s) (s_next_recv s) (s_active s) v (s_last_recv s) (s_hb s) (s_role s) (s_snd s) (s_tgt s) (s_sci s) (s_par s) (s_batch s) (s_per s) (s_shutdown s) (s_closed s) (s_reader s) (s_req_send s) (s_req_recv s).
Definition w_last_recv v s := mkSess (s_state s) (s_next_send s) (s_next_recv s) (s_active s) (s_last_sent s) v (s_hb s) (s_role s) (s_snd s) (s_tgt s) (s_sci s) (s_par s) (s_batch s) (s_per s) (s_shutdown s) (s_closed s) (s_reader s) (s_req_send s) (s_req_recv s).
Definition w_hb v s := mkSess (s_state s) (s_next_send s) (s_next_recv s) (s_active s) (s_last_sent s) (s_last_recv s) v (s_role s) (s_snd s) (s_tgt s) (s_sci s) (s_par s) (s_batch s) (s_per s) (s_shutdown s) (s_closed s) (s_reader s) (s_req_send s) (s_req_recv s).
Definition w_sid a b s := mkSess (s_state s) (s_next_send s) (s_next_recv s) (s_active s) (s_last_sent s) (s_last_recv s) (s_hb s) (s_role s) a b (s_sci s) (s_par s) (s_batch s) (s_per s) (s_shutdown s) (s_closed s) (s_reader s) (s_req_send s) (s_req_recv s).
Definition w_batch v s := mkSess (s_state s) (s_next_send s) (s_next_recv s) (s_active s) (s_last_sent s) (s_last_recv s) (s_hb s) (s_role s) (s_snd s) (s_tgt s) (s_sci s) (s_par s) v (s_per s) (s_shutdown s) (s_closed s) (s_reader s) (s_req_send s) (s_req_recv s).
Definition w_per v s := mkSess (s_state s) (s_next_send s) (s_next_recv s) (s_active s) (s_last_sent s) (s_last_recv s) (s_hb s) (s_role s) (s_snd s) (s_tgt s) (s_sci s) (s_par s) (s_batch s) v (s_shutdown s) (s_closed s) (s_reader s) (s_req_send s) (s_req_recv s).
Definition w_down sh cl rd s := mkSess (s_state s) (s_next_send s) (s_next_recv s) (s_active s) (s_last_sent s) (s_last_recv s) (s_hb s) (s_role s) (s_snd s) (s_tgt s) (s_sci s) (s_par s) (s_batch s) (s_per s) sh cl rd (s_req_send s) (s_req_recv s).

Inductive event :=
| EOut (b : bytes)                         (* one framed FIX message handed to the socket *)
| EOutRaw (b : bytes)                      (* bytes handed to the socket that cannot be framed *)
| EDeliver (t : bytes) (seq : N) (pd : bool)
| ERet (z : Z)
| EExc (b : bytes)
| ENote (b : bytes).

Inductive decode_result := DecOk (m : msg) | DecExc (text : bytes) (force : bool).

(* ASCII *)
Definition s_Y : bytes := [89].
Definition s_0 : bytes := [48].
Definition mt_heartbeat : bytes := [48].
Definition mt_test_request : bytes := [49].
Definition mt_resend_request : bytes := [50].
Definition mt_reject : bytes := [51].
Definition mt_sequence_reset : bytes := [52].
Definition mt_logout : bytes := [53].
Definition mt_logon : bytes := [65].
Definition txt_already : bytes :=       (* "Already logged on" *)
  [65;108;114;101;97;100;121;32;108;111;103;103;101;100;32;111;110].
Definition txt_test : bytes := [84;69;83;84].     (* "TEST" *)
Definition txt_ignored : bytes :=       (* "Remote has ignored my test request. Aborting session..." *)
  [82;101;109;111;116;101;32;104;97;115;32;105;103;110;111;114;101;100;32;109;121;32;116;101;115;116;32;
   114;101;113;117;101;115;116;46;32;65;98;111;114;116;105;110;103;32;115;101;115;115;105;111;110;46;46;46].
Definition txt_badrange : bytes :=      (* "Invalid resend range: Begin > End or Begin = 0" *)
  [73;110;118;97;108;105;100;32;114;101;115;101;110;100;32;114;97;110;103;101;58;32;66;101;103;105;110;32;62;32;
   69;110;100;32;111;114;32;66;101;103;105;110;32;61;32;48].
Definition txt_invseq : bytes :=        (* "Invalid Sequence number, received" *)
  [73;110;118;97;108;105;100;32;83;101;113;117;101;110;99;101;32;110;117;109;98;101;114;44;32;114;101;99;101;105;118;101;100].
Definition txt_toolow : bytes :=        (* "Message Sequence too low, received" *)
  [77;101;115;115;97;103;101;32;83;101;113;117;101;110;99;101;32;116;111;111;32;108;111;119;44;32;114;101;99;101;105;118;101;100].
Definition txt_expected : bytes := [32;101;120;112;101;99;116;101;100].    (* " expected" *)
Definition txt_badtime : bytes :=       (* "Bad Sending Time" *)
  [66;97;100;32;83;101;110;100;105;110;103;32;84;105;109;101].
Definition txt_badcompid : bytes :=     (* "Invalid CompId" *)
  [73;110;118;97;108;105;100;32;67;111;109;112;73;100].
Definition txt_invmsg : bytes :=        (* "Invalid FIX Message" *)
  [73;110;118;97;108;105;100;32;70;73;88;32;77;101;115;115;97;103;101].
Definition colon_sp : bytes := [58;32].
Definition txt_at : bytes := [32;97;116].           (* " at" *)
Definition pat_34 : bytes := [1;51;52;61].          (* SOH "34=": the MsgSeqNum tag itself (since /repo 57dfe06: F24 repaired) *)
Definition pat_34_orig : bytes := [51;52;61].       (* "34=" anywhere, also inside another tag or value (F24) *)

(* f8Exception::format(msg, a, msg2, b) = msg ": " a msg2 ": " b *)
Definition fmt2 (m1 a m2 b : bytes) : bytes := (m1 ++ colon_sp ++ a ++ m2 ++ colon_sp ++ b)%list.
Definition fmt1 (m1 a : bytes) : bytes := (m1 ++ colon_sp ++ a)%list.

(* SessionID::operator!= on (sender, target) pairs: the repaired one and the original (F28) *)
Definition sid_neq (a_snd a_tgt b_snd b_tgt : bytes) : bool := negb (beq a_snd b_snd) || negb (beq a_tgt b_tgt).
Definition neq_orig (a_snd a_tgt b_snd b_tgt : bytes) : bool := negb (beq a_snd b_snd) && negb (beq a_tgt b_tgt).

Definition bool_field (v : option bytes) : bool :=
  match v with
  | Some (c :: _) => (c =? 89) || (c =? 121)
  | _ => false
  end.
Definition int_field (v : option bytes) : N :=
  match v with Some l => atoi_u l 0 | None => 0 end.

Section Model.
Variable sc : schema.
Variable decode : bytes -> decode_result.       (* Message::factory(ctx, raw, false, false) *)
Variable fl_process : bytes.                    (* FILE_LINE of the InvalidMessage throw in Session::process *)

(* ================================================================================================= *)
(* send side                                                                                         *)
(* ================================================================================================= *)

Definition out_events (buf : bytes) : list event :=
  let '(ms, rest) := frames buf in
  (map EOut ms ++ match rest with [] => [] | _ => [EOutRaw rest] end)%list.

(* Session::send_process, the code as it is (after the repairs d862447: the persister receives optr, the
   message's own bytes, and 8a992cc: the control record is the number that will be used next). *)
Definition send_process (now : Z) (s : sess) (m : msg) : bool * sess * list event :=
  let asa := pr_asa (s_par s) in
  let is_dup0 := has_field T_PossDupFlag (m_hdr m) in
  let m1 := if has_field T_SenderCompID (m_hdr m) then m else add_hdr' sc T_SenderCompID (s_snd s) m in
  let m2 := if has_field T_TargetCompID (m_hdr m1) then m1 else add_hdr' sc T_TargetCompID (s_tgt s) m1 in
  let seqv := dec (if m_custom m =? 0 then s_next_send s else m_custom m) in
  let '(m3, is_dup) :=
    if has_field T_MsgSeqNum (m_hdr m2) then
      let '(m3a, dup) :=
        if is_dup0 then ((if asa then del_hdr T_PossDupFlag m2 else m2), true)
        else if asa then (m2, false) else (add_hdr' sc T_PossDupFlag s_Y m2, true) in
      let sendtime := match get_field T_SendingTime (m_hdr m3a) with Some v => v | None => fmt_time now end in
      let m3b := add_hdr' sc T_OrigSendingTime sendtime m3a in
      ((if asa then add_hdr' sc T_MsgSeqNum seqv m3b else m3b), dup)
    else (add_hdr' sc T_MsgSeqNum seqv m2, is_dup0) in
  let m4 := add_hdr' sc T_SendingTime (fmt_time now) m3 in
  let enc := encode sc m4 in
  (* batching and the socket; ptr = what is handed to the persister afterwards *)
  let step :=
    if m_eob m then
      let '(tosend, appended) :=
        match s_batch s with
        | [] => (enc, false)
        | _ => ((s_batch s ++ enc)%list, true)
        end in
      if s_closed s then
        (* Connection::send throws (Poco::IOException), caught below: return false; the batch
           buffer keeps what was appended *)
        (false, (if appended then w_batch tosend s else s), [], [])
      else
        (true, w_batch [] (w_last_sent now s), out_events tosend, enc)
    else
      (true, w_batch (s_batch s ++ enc)%list s, [], enc) in
  let '(ok, s1, evs, ptr) := step in
  if negb ok then (false, s1, evs)
  else if is_dup then (true, s1, evs)
  else
    let increment := (m_custom m =? 0) && negb (m_noinc m) && negb (beq (m_type m) mt_sequence_reset) in
    let per1 :=
      if p_attached (s_per s1) then
        let p0 := if is_admin sc (m_type m) then s_per s1 else p_put (s_per s1) (s_next_send s1) ptr in
        p_put_ctrl p0 (if increment then s_next_send s1 + 1 else s_next_send s1) (s_next_recv s1)
      else s_per s1 in
    let s2 := w_per per1 s1 in
    let s3 := if increment then w_next_send (s_next_send s2 + 1) s2 else s2 in
    (true, s3, evs).

(* Session::send_process as it was BEFORE those repairs (F21: `ptr`, which points into the cleared batch
   buffer for the flushing message of a non-empty buffer, went to the persister; F20: the control record
   was always next_send + 1); kept only for the ..._orig_refuted witnesses. *)
Definition send_process_orig (now : Z) (s : sess) (m : msg) : bool * sess * list event :=
  let asa := pr_asa (s_par s) in
  let is_dup0 := has_field T_PossDupFlag (m_hdr m) in
  let m1 := if has_field T_SenderCompID (m_hdr m) then m else add_hdr' sc T_SenderCompID (s_snd s) m in
  let m2 := if has_field T_TargetCompID (m_hdr m1) then m1 else add_hdr' sc T_TargetCompID (s_tgt s) m1 in
  let seqv := dec (if m_custom m =? 0 then s_next_send s else m_custom m) in
  let '(m3, is_dup) :=
    if has_field T_MsgSeqNum (m_hdr m2) then
      let '(m3a, dup) :=
        if is_dup0 then ((if asa then del_hdr T_PossDupFlag m2 else m2), true)
        else if asa then (m2, false) else (add_hdr' sc T_PossDupFlag s_Y m2, true) in
      let sendtime := match get_field T_SendingTime (m_hdr m3a) with Some v => v | None => fmt_time now end in
      let m3b := add_hdr' sc T_OrigSendingTime sendtime m3a in
      ((if asa then add_hdr' sc T_MsgSeqNum seqv m3b else m3b), dup)
    else (add_hdr' sc T_MsgSeqNum seqv m2, is_dup0) in
  let m4 := add_hdr' sc T_SendingTime (fmt_time now) m3 in
  let enc := encode sc m4 in
  (* batching and the socket; ptr = what is handed to the persister afterwards *)
  let step :=
    if m_eob m then
      let '(tosend, appended) :=
        match s_batch s with
        | [] => (enc, false)
        | _ => ((s_batch s ++ enc)%list, true)
        end in
      if s_closed s then
        (* Connection::send throws (Poco::IOException), caught below: return false; the batch
           buffer keeps what was appended *)
        (false, (if appended then w_batch tosend s else s), [], [])
      else
        (true, w_batch [] (w_last_sent now s), out_events tosend, (if appended then [] else enc))
    else
      (true, w_batch (s_batch s ++ enc)%list s, [], enc) in
  let '(ok, s1, evs, ptr) := step in
  if negb ok then (false, s1, evs)
  else if is_dup then (true, s1, evs)
  else
    let increment := (m_custom m =? 0) && negb (m_noinc m) && negb (beq (m_type m) mt_sequence_reset) in
    let per1 :=
      if p_attached (s_per s1) then
        let p0 := if is_admin sc (m_type m) then s_per s1 else p_put (s_per s1) (s_next_send s1) ptr in
        p_put_ctrl p0 (s_next_send s1 + 1) (s_next_recv s1)
      else s_per s1 in
    let s2 := w_per per1 s1 in
    let s3 := if increment then w_next_send (s_next_send s2 + 1) s2 else s2 in
    (true, s3, evs).

(* Session::send(Message*, destroy, custom_seqnum, no_increment) -> Connection::write -> FIXWriter::write *)
Definition send (now : Z) (s : sess) (m : msg) (custom : N) (noinc : bool) : bool * sess * list event :=
  let m1 := if custom =? 0 then m else set_custom custom m in
  let m2 := if noinc then set_noinc true m1 else m1 in
  send_process now s m2.

(* FIXWriter::write_batch, pm_thread *)
Fixpoint send_batch_loop (now : Z) (s : sess) (l : list msg) (cnt : N) (evs : list event) : N * sess * list event :=
  match l with
  | [] => (cnt, s, evs)
  | m :: l' =>
    let last := match l' with [] => true | _ => false end in
    let '(ok, s1, e1) := send_process now s (set_eob last m) in
    send_batch_loop now s1 l' (if ok then cnt + 1 else cnt) (evs ++ e1)%list
  end.
Definition send_batch (now : Z) (s : sess) (l : list msg) : N * sess * list event :=
  match l with
  | [] => (0, s, [])
  | [m] => let '(ok, s1, e1) := send_process now s m in ((if ok then 1 else 0), s1, e1)
  | _ => send_batch_loop now s l 0 []
  end.

(* ---- message builders: the generate_ functions --------------------------- *)
Definition generate_heartbeat (testReqID : bytes) : msg :=
  let m := new_msg mt_heartbeat in
  match testReqID with [] => m | _ => add_body' sc T_TestReqID testReqID m end.
Definition generate_test_request (testReqID : bytes) : msg :=
  add_body' sc T_TestReqID testReqID (new_msg mt_test_request).
Definition generate_reject (seqnum : N) (what : option bytes) (msgtype : option bytes) : msg :=
  let m0 := add_body' sc T_RefSeqNum (dec seqnum) (new_msg mt_reject) in
  let m1 := match what with Some t => add_body' sc T_Text t m0 | None => m0 end in
  match msgtype with Some t => add_body' sc T_RefMsgType t m1 | None => m1 end.
Definition generate_logon (hb : N) (rsn : bool) : msg :=
  let m0 := add_body' sc T_HeartBtInt (dec hb) (new_msg mt_logon) in
  let m1 := add_body' sc T_EncryptMethod s_0 m0 in
  if rsn then add_body' sc T_ResetSeqNumFlag s_Y m1 else m1.
Definition generate_logout (text : option bytes) : msg :=
  match text with Some t => add_body' sc T_Text t (new_msg mt_logout) | None => new_msg mt_logout end.
Definition generate_resend_request (b e : N) : msg :=
  add_body' sc T_EndSeqNo (dec e) (add_body' sc T_BeginSeqNo (dec b) (new_msg mt_resend_request)).
Definition generate_sequence_reset (newseq : N) (gapfill : bool) : msg :=
  let m0 := add_body' sc T_NewSeqNo (dec newseq) (new_msg mt_sequence_reset) in
  if gapfill then add_body' sc T_GapFillFlag s_Y m0 else m0.

(* ---- persister housekeeping ----------------------------------------------------------------------- *)
Definition update_persist_seqnums (s : sess) : sess :=
  if p_attached (s_per s) then w_per (p_put_ctrl (s_per s) (s_next_send s) (s_next_recv s)) s else s.

Definition recover_seqnums (s : sess) : sess :=
  match p_get_ctrl (s_per s) with
  | Some (a, b) => w_next_recv b (w_next_send a s)
  | None => s
  end.

(* Session::stop: Connection::stop closes the socket; the reader leaves its loop *)
Definition stop (s : sess) : sess :=
  if s_shutdown s then s else w_down true true false s.

Definition is_shutdown (s : sess) : bool := s_shutdown s || (s_state s =? st_session_terminated).

(* ================================================================================================= *)
(* inbound side: a state + event-writer + exception monad                                             *)
(* ================================================================================================= *)
Inductive exc := Exc (text : bytes) (force : bool).
Definition M (A : Type) : Type := sess -> (A + exc) * sess * list event.
Definition ret {A} (a : A) : M A := fun s => (inl a, s, []).
Definition throw {A} (text : bytes) (force : bool) : M A := fun s => (inr (Exc text force), s, []).
Definition bind {A B} (x : M A) (f : A -> M B) : M B :=
  fun s => match x s with
           | (inl a, s1, e1) => match f a s1 with (r, s2, e2) => (r, s2, (e1 ++ e2)%list) end
           | (inr e, s1, e1) => (inr e, s1, e1)
           end.
Definition get : M sess := fun s => (inl s, s, []).
Definition modify (f : sess -> sess) : M unit := fun s => (inl tt, f s, []).
Definition emit (e : event) : M unit := fun s => (inl tt, s, [e]).
Notation "x <- a ;; b" := (bind a (fun x => b)) (at level 61, a at next level, right associativity).
Notation "a ;;; b" := (bind a (fun _ => b)) (at level 61, right associativity).

Section Inbound.
Variable now : Z.

Definition do_send (m : msg) (custom : N) (noinc : bool) : M bool :=
  fun s => let '(ok, s1, e1) := send now s m custom noinc in (inl ok, s1, e1).
Definition set_state (st : N) : M unit := modify (w_state st).

(* Session::compid_check *)
Definition compid_check (m : msg) : M unit :=
  s <- get ;;
  if pr_ec (s_par s) then
    let tci := match get_field T_TargetCompID (m_hdr m) with Some v => v | None => [] end in
    let sci := match get_field T_SenderCompID (m_hdr m) with Some v => v | None => [] end in
    if negb (beq tci (s_snd s)) then throw (fmt1 txt_badcompid tci) true
    else if negb (beq sci (s_tgt s)) then throw (fmt1 txt_badcompid sci) true
    else ret tt
  else ret tt.

(* Session::sequence_check *)
Definition sequence_check (seqnum : N) (m : msg) : M bool :=
  s <- get ;;
  if s_next_recv s <? seqnum then
    (if s_state s =? st_continuous then
       do_send (generate_resend_request (s_next_recv s) 0) 0 false ;;;
       set_state st_resend_request_sent ;;;
       ret false
     else
       (* no SessionConfig in the modelled set-up: wrong logon sequence is checked *)
       throw (fmt2 txt_invseq (dec seqnum) txt_expected (dec (s_next_recv s))) true)
  else if seqnum <? s_next_recv s then
    (if negb (bool_field (get_field T_PossDupFlag (m_hdr m))) then
       throw (fmt2 txt_toolow (dec seqnum) txt_expected (dec (s_next_recv s))) true
     else
       match get_field T_OrigSendingTime (m_hdr m), get_field T_SendingTime (m_hdr m) with
       | Some ost, Some st => if bgt ost st then throw (fmt1 txt_badtime ost) true else ret true
       | _, _ => ret true
       end)
  else ret true.

(* Session::enforce: true = the message FAILS the rules *)
Definition enforce (seqnum : N) (m : msg) : M bool :=
  s <- get ;;
  if is_established (s_state s) then
    (if negb (s_state s =? st_logon_received) then compid_check m else ret tt) ;;;
    (if negb (beq (m_type m) mt_sequence_reset) then
       b <- sequence_check seqnum m ;; ret (negb b)
     else ret true)
  else ret true.

Definition handle_outbound_reject (seqnum : N) (mt : option bytes) (text : bytes) : M bool :=
  do_send (generate_reject seqnum (Some text) (match mt with Some [] => None | x => x end)) 0 false.

(* Session::handle_logon *)
Definition handle_logon (seqnum : N) (m : msg) : M bool :=
  s <- get ;;
  if s_state s =? st_continuous then
    (* send(generate_reject(seqnum, "Already logged on"), msgtype.c_str()): the string is the destroy flag *)
    do_send (generate_reject seqnum (Some txt_already) None) 0 false ;;; ret true
  else
    set_state st_logon_received ;;;
    let reset_given := bool_field (get_field T_ResetSeqNumFlag (m_body m)) in
    let sci := match get_field T_SenderCompID (m_hdr m) with Some v => v | None => [] end in
    let tci := match get_field T_TargetCompID (m_hdr m) with Some v => v | None => [] end in
    (* SessionID id(beginStr, tci, sci) *)
    match s_role s with
    | Initiator =>
      (* id != _sid: since ce3496a the negation of operator== (before: the conjunction of the two
         inequalities, F28 -- see neq_orig) *)
      if sid_neq tci sci (s_snd s) (s_tgt s) && pr_ec (s_par s) then
        modify stop ;;; set_state st_session_terminated ;;; ret false
      else
        enforce seqnum m ;;; set_state st_continuous ;;; ret true
    | Acceptor =>
      if negb (beq (s_sci s) tci) && pr_ec (s_par s) then
        modify stop ;;; set_state st_session_terminated ;;; ret false
      else if (match pr_clients (s_par s) with [] => false | _ => negb (mem_bytes sci (pr_clients (s_par s))) end) then
        modify stop ;;; set_state st_session_terminated ;;; ret false
      else
        (if reset_given then modify (fun s => w_next_recv 1 (w_next_send 1 s))
         else modify (fun s => let s1 := recover_seqnums s in
                               let s2 := if s_req_send s1 =? 0 then s1 else w_next_send (s_req_send s1) s1 in
                               if s_req_recv s2 =? 0 then s2 else w_next_recv (s_req_recv s2) s2)) ;;;
        (* authenticate() is true *)
        modify (w_sid tci sci) ;;;
        enforce seqnum m ;;;
        let hbi := int_field (get_field T_HeartBtInt (m_body m)) in
        modify (w_hb hbi) ;;;
        do_send (generate_logon hbi (pr_rsn (s_par s))) 0 false ;;;
        set_state st_continuous ;;;
        ret true
    end.

Definition handle_logout (seqnum : N) (m : msg) : M bool := enforce seqnum m ;;; ret true.

Definition handle_sequence_reset (seqnum : N) (m : msg) : M bool :=
  enforce seqnum m ;;;
  s <- get ;;
  (match get_field T_NewSeqNo (m_body m) with
   | Some v =>
     let nsn := atoi_u v 0 in
     if s_next_recv s <=? nsn then modify (w_next_recv (nsn - 1))
     else throw (fmt2 txt_toolow (dec nsn) txt_expected (dec (s_next_recv s))) true
   | None => ret tt
   end) ;;;
  s' <- get ;;
  (if s_state s' =? st_resend_request_sent then set_state st_continuous else ret tt) ;;;
  ret true.

(* Session::retrans_callback for one stored record (since /repo 930506b the gap fills of scenarios #2/#3
   carry the first number of the gap as custom sequence number) *)
Definition retrans_record (begin : N) (last : N) (seq : N) (raw : bytes) : M bool :=
  (if negb (last =? 0) then
     (if last + 1 <? seq
      then do_send (generate_sequence_reset seq true) (last + 1) false ;;; ret tt    (* scenario #2 *)
      else ret tt)
   else
     (if begin <? seq
      then do_send (generate_sequence_reset seq true) begin false ;;; ret tt         (* scenario #3 *)
      else ret tt)) ;;;
  match decode raw with
  | DecOk m => do_send m 0 false
  | DecExc text force => throw text force
  end.

(* the callback BEFORE /repo 930506b (F22): the gap fill of scenario #2 carried the CURRENT next_send as
   custom sequence number and the one of scenario #3 no custom number at all (again next_send), instead
   of the first number of the gap; kept only for an ..._orig_refuted witness *)
Definition retrans_record_orig (begin : N) (last : N) (seq : N) (raw : bytes) : M bool :=
  s <- get ;;
  (if negb (last =? 0) then
     (if last + 1 <? seq
      then do_send (generate_sequence_reset seq true) (s_next_send s) false ;;; ret tt
      else ret tt)
   else
     (if begin <? seq
      then do_send (generate_sequence_reset seq true) 0 false ;;; ret tt
      else ret tt)) ;;;
  match decode raw with
  | DecOk m => do_send m 0 false
  | DecExc text force => throw text force
  end.

(* the do/while loop of Persister::get over the live map; cur = key of the record handled last
   (the first record is the one after start-1); fuel bounds the number of records visited *)
Fixpoint retrans_loop (fuel : nat) (begin finish last cur : N) : M N :=
  match fuel with
  | O => emit (ENote [70;85;69;76]) ;;; ret last
  | S f =>
    s <- get ;;
    match p_next_after (s_per s) cur with
    | None => ret last
    | Some (seq, raw) =>
      if finish <? seq then ret last
      else
        ok <- retrans_record begin last seq raw ;;
        if ok then retrans_loop f begin finish seq seq else ret seq
    end
  end.

(* the final callback (no_more_records) *)
Definition retrans_final (begin interrupted last : N) : M unit :=
  (if last =? 0 then
     let nseq := if interrupted <=? begin then begin + 1 else interrupted in
     do_send (generate_sequence_reset nseq true) begin false ;;;              (* scenarios #4 / #5 *)
     modify (w_next_send nseq)
   else
     let nseq := if interrupted <=? last + 1 then last + 2 else interrupted in
     do_send (generate_sequence_reset nseq true) (last + 1) false ;;;         (* scenarios #1 / #6 *)
     modify (w_next_send nseq)) ;;;
  set_state st_continuous.

Definition handle_resend_request (seqnum : N) (m : msg) : M bool :=
  enforce seqnum m ;;;
  s <- get ;;
  if negb (s_state s =? st_resend_request_received) then
    let b := int_field (get_field T_BeginSeqNo (m_body m)) in
    let e := int_field (get_field T_EndSeqNo (m_body m)) in
    (if ((e <? b) && negb (e =? 0)) || (b =? 0) then
       handle_outbound_reject seqnum (Some (m_type m)) txt_badrange ;;; ret tt
     else if negb (p_attached (s_per s)) then
       let nxt := s_next_send s in
       let nseq := if nxt <=? b then b + 1 else nxt in
       do_send (generate_sequence_reset nseq true) b false ;;;                 (* scenarios #7 / #8 *)
       modify (w_next_send nseq)
     else
       set_state st_resend_request_received ;;;
       let interrupted := s_next_send s in
       let last_seq := p_last (s_per s) in
       let finish := if e =? 0 then last_seq else e in
       match p_first_from (s_per s) b with
       | None => retrans_final b interrupted 0                          (* "No records found" *)
       | Some start =>
         if finish <? b then retrans_final b interrupted 0
         else
           last <- retrans_loop (S (N.to_nat (N.min (finish + 1 - start) 100000))) b finish 0 (start - 1) ;;
           retrans_final b interrupted last
       end) ;;;
    ret true
  else ret true.

Definition handle_test_request (seqnum : N) (m : msg) : M bool :=
  enforce seqnum m ;;;
  let id := match get_field T_TestReqID (m_body m) with Some v => v | None => [] end in
  do_send (generate_heartbeat id) 0 false ;;; ret true.

Definition handle_heartbeat (seqnum : N) (m : msg) : M bool :=
  enforce seqnum m ;;;
  s <- get ;;
  (if s_state s =? st_test_request_sent then set_state st_continuous else ret tt) ;;;
  ret true.

(* the canonical handle_application: enforce(seqnum, msg) || msg->process(router) *)
Definition handle_application (seqnum : N) (m : msg) : M bool :=
  e <- enforce seqnum m ;;
  if e then ret true
  else
    emit (EDeliver (m_type m) seqnum (bool_field (get_field T_PossDupFlag (m_hdr m)))) ;;;
    ret (mem_bytes (m_type m) (sc_routed sc)).

Definition dispatch (seqnum : N) (m : msg) : M (bool * bool) :=        (* (result, remote_logged_out) *)
  let app := s <- get ;; (if s_active s then handle_application seqnum m else ret false) in
  match m_type m with
  | [c] =>
    if c =? 48 then r <- handle_heartbeat seqnum m ;; ret (r, false)
    else if c =? 49 then r <- handle_test_request seqnum m ;; ret (r, false)
    else if c =? 50 then r <- handle_resend_request seqnum m ;; ret (r, false)
    else if c =? 51 then ret (false, false)                               (* handle_reject: default false *)
    else if c =? 52 then r <- handle_sequence_reset seqnum m ;; ret (r, false)
    else if c =? 53 then r <- handle_logout seqnum m ;; ret (r, true)
    else if c =? 65 then r <- handle_logon seqnum m ;; ret (r, false)
    else r <- app ;; ret (r, false)
  | _ => r <- app ;; ret (r, false)
  end.

(* the try block of Session::process after the factory call *)
Definition process_body (seqnum : N) (m : msg) : M bool :=
  rr <- dispatch seqnum m ;;
  modify (fun s => w_next_recv (s_next_recv s + 1) s) ;;;
  modify update_persist_seqnums ;;;
  (if snd rr then modify stop else ret tt) ;;;
  ret (fst rr).

(* the catch (f8Exception&) block *)
Definition process_catch (seqnum : N) (mt : option bytes) (r : (bool + exc) * sess * list event)
  : bool * sess * list event :=
  match r with
  | (inl b, s1, e1) => (b, s1, e1)
  | (inr (Exc text true), s1, e1) =>
    let '(s2, e2) :=
      if (s_state s1 =? st_logon_received) && negb (pr_sd (s_par s1)) then
        let sa := w_state st_session_terminated s1 in
        let '(_, sb, eb) := send now sa (generate_logout (Some text)) 0 true in
        (w_state st_logoff_sent sb, eb)
      else (s1, []) in
    (false, stop s2, (e1 ++ e2)%list)
  | (inr (Exc text false), s1, e1) =>
    let '(_, s2, e2) := handle_outbound_reject seqnum mt text s1 in
    (* since /repo beb4ce7 the control record is updated on this path too *)
    (true, update_persist_seqnums (w_next_recv (s_next_recv s2 + 1) s2), (e1 ++ e2)%list)
  end.

(* the catch block BEFORE /repo beb4ce7: the Reject path incremented next_recv without updating the control
   record; kept only for an ..._orig_refuted witness *)
Definition process_catch_orig (seqnum : N) (mt : option bytes) (r : (bool + exc) * sess * list event)
  : bool * sess * list event :=
  match r with
  | (inr (Exc text false), s1, e1) =>
    let '(_, s2, e2) := handle_outbound_reject seqnum mt text s1 in
    (true, w_next_recv (s_next_recv s2 + 1) s2, (e1 ++ e2)%list)
  | _ => process_catch seqnum mt r
  end.

(* Session::process.  UNDEF = the raw 34= scan runs off the end of the string (no SOH follows) *)
Definition process (raw : bytes) (s : sess) : bool * sess * list event :=
  match find_after pat_34 raw with
  | None => process_catch 0 None (throw (fmt2 txt_invmsg raw txt_at fl_process) false s)
  | Some rest =>
    match fast_atoi_u rest SOH 0 with
    | None => (false, s, [ENote [85;78;68;69;70]])
    | Some seqnum =>
      match decode raw with
      | DecExc text force => process_catch seqnum None (throw text force s)
      | DecOk m => process_catch seqnum (Some (m_type m)) (process_body seqnum m s)
      end
    end
  end.

End Inbound.

(* FIXReader::execute, pm_thread, for a stream that is a sequence of complete, correctly framed
   messages (the framing itself is C15's subject): each message updates last_received, is
   processed, the process() result is reported (the harness' process override logs RET), and the
   loop ends when the session is shut down.  Bytes that cannot be framed: the reader waits for more
   if they are a proper prefix of a frame; this simple model reports them with a note. *)
Fixpoint reader_loop (now : Z) (l : list bytes) (s : sess) (evs : list event) : sess * list event :=
  match l with
  | [] => (s, evs)
  | raw :: l' =>
    if negb (s_reader s) || is_shutdown s then (w_down (s_shutdown s) (s_closed s) false s, evs)
    else
      let '(r, s1, e1) := process now raw (w_last_recv now s) in
      let s2 := if is_shutdown s1 then w_down (s_shutdown s1) (s_closed s1) false s1 else s1 in
      reader_loop now l' s2 (evs ++ e1 ++ [ERet (if r then 1 else 0)%Z])%list
  end.

Definition feed (now : Z) (chunks : list bytes) (s : sess) : sess * list event :=
  if negb (s_reader s) then (s, [])
  else
    let '(ms, rest) := frames (concat chunks) in
    let '(s1, e1) := reader_loop now ms s [] in
    (s1, (e1 ++ match rest with [] => [] | _ => [ENote [85;78;70;82;65;77;69;68]] end)%list).

(* Session::heartbeat_service *)
Definition heartbeat_service (now : Z) (s : sess) : bool * sess * list event :=
  if is_shutdown s then (false, s, [])
  else
    let '(s1, e1) :=
      if (Z.of_N (s_hb s) <=? secs_between now (s_last_sent s))%Z
      then let '(_, sa, ea) := send now s (generate_heartbeat []) 0 false in (sa, ea)
      else (s, []) in
    let hb20 := s_hb s1 + s_hb s1 / 5 in
    if (Z.of_N hb20 <? secs_between now (s_last_recv s1))%Z then
      if s_state s1 =? st_test_request_sent then
        let text := if pr_sd (s_par s1) then None else Some txt_ignored in
        let '(_, s2, e2) := send now s1 (generate_logout text) 0 true in
        let s3 := w_state st_logoff_sent s2 in
        let s4 := stop s3 in
        (true, w_state st_session_terminated s4, (e1 ++ e2)%list)
      else if negb (s_state s1 =? st_session_terminated) then
        let '(_, s2, e2) := send now s1 (generate_test_request txt_test) 0 false in
        (true, w_state st_test_request_sent s2, (e1 ++ e2)%list)
      else (true, s1, e1)
    else (true, s1, e1).

(* ---- construction and Session::start -------------------------------------------------------------- *)
Record startp := mkStart {
  sp_role : role;
  sp_pk : pkind;
  sp_snd : bytes;
  sp_tgt : bytes;
  sp_par : params;
  sp_hb : N;
  sp_ss : N;
  sp_rs : N
}.

Definition new_session (p : startp) (per : persister) : sess :=
  match sp_role p with
  | Initiator => mkSess st_none 0 0 false 0 0 (sp_hb p) Initiator (sp_snd p) (sp_tgt p) [] (sp_par p) [] per false false false 0 0
  | Acceptor => mkSess st_none 0 0 false 0 0 (sp_hb p) Acceptor [] [] (sp_snd p) (sp_par p) [] per false false false 0 0
  end.

(* atomic_init *)
Definition atomic_init (st : N) (s : sess) : sess :=
  let s1 := w_next_recv 1 (w_next_send 1 (w_state st s)) in
  mkSess (s_state s1) (s_next_send s1) (s_next_recv s1) true (s_last_sent s1) (s_last_recv s1) (s_hb s1) (s_role s1)
         (s_snd s1) (s_tgt s1) (s_sci s1) (s_par s1) (s_batch s1) (s_per s1) (s_shutdown s1) (s_closed s1) (s_reader s1)
         (s_req_send s1) (s_req_recv s1).

Definition start (now : Z) (p : startp) (s : sess) : Z * sess * list event :=
  let s0 := w_down false (s_closed s) true s in                 (* _control.clear(shutdown); Connection::start *)
  match sp_role p with
  | Acceptor =>
    let s1 := atomic_init st_wait_for_logon s0 in
    (0%Z, mkSess (s_state s1) (s_next_send s1) (s_next_recv s1) (s_active s1) (s_last_sent s1) (s_last_recv s1) (s_hb s1)
                 (s_role s1) (s_snd s1) (s_tgt s1) (s_sci s1) (s_par s1) (s_batch s1) (s_per s1) (s_shutdown s1) (s_closed s1)
                 (s_reader s1) (sp_ss p) (sp_rs p), [])
  | Initiator =>
    let s1 := atomic_init st_not_logged_in s0 in
    let s2 :=
      if pr_rsn (sp_par p) then w_next_recv 1 (w_next_send 1 s1)
      else
        let sa := recover_seqnums s1 in
        let sb := if sp_ss p =? 0 then sa else w_next_send (sp_ss p) sa in
        if sp_rs p =? 0 then sb else w_next_recv (sp_rs p) sb in
    let '(_, s3, e3) := send now s2 (generate_logon (s_hb s2) (pr_rsn (sp_par p))) 0 false in
    (0%Z, w_state st_logon_sent s3, e3)
  end.

End Model.
