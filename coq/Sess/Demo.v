(* Session group: a small concrete schema (a FIX.4.2 subset with the positions of the UTEST dump) and
   helpers to write witness histories inside Coq (refutation / non-vacuity theorems).  Data only. *)
From Coq Require Import NArith ZArith List Bool.
From F8 Require Import Sess.Bytes Sess.Msg Sess.Persist Sess.Session Sess.SimpleCodec Sess.Wire.
Import ListNotations.
Local Open Scope N_scope.

Definition s_CLI' : bytes := [67;76;73].
Definition s_SRV' : bytes := [83;82;86].

Definition demo_schema : schema :=
  mkSchema
    [70;73;88;46;52;46;50]                                         (* FIX.4.2 *)
    [(34,10); (43,19); (49,4); (52,21); (56,5); (122,22)]
    [34; 49; 52; 56]
    [(11, [67;108;79;114;100;73;68]); (55, [83;121;109;98;111;108])]
    [ mkDef [48] true [(112,1)] [];                                 (* 0 Heartbeat *)
      mkDef [49] true [(112,1)] [112];                              (* 1 TestRequest *)
      mkDef [50] true [(7,1); (16,2)] [7; 16];                      (* 2 ResendRequest *)
      mkDef [51] true [(45,1); (372,2); (58,3)] [45];               (* 3 Reject *)
      mkDef [52] true [(123,1); (36,2)] [36];                       (* 4 SequenceReset *)
      mkDef [53] true [(58,1)] [];                                  (* 5 Logout *)
      mkDef [65] true [(98,1); (108,2); (141,3)] [98; 108];         (* A Logon *)
      mkDef [68] false [(11,1); (55,2); (58,3)] [11; 55] ]          (* D NewOrderSingle *)
    [[68]]
    [73;110;118;97;108;105;100;32;70;73;88;32;77;101;115;115;97;103;101;58;32;32;97;116;58;32;109;46;99;112;112;58;49].

Definition demo_params : params := mkParams false true false false [].
Definition demo_init (pk : pkind) : startp := mkStart Initiator pk s_CLI' s_SRV' demo_params 30 0 0.
Definition demo_acc (pk : pkind) : startp := mkStart Acceptor pk s_SRV' s_CLI' demo_params 30 0 0.

(* an application message spec: NewOrderSingle with ClOrdID and Symbol *)
Definition demo_order (id : bytes) : msgspec := mkSpec [68] [] [(11, id); (55, [73;66;77])] 0 false true.
Definition demo_admin (t : bytes) : msgspec := mkSpec t [] [] 0 false true.

(* an inbound message from the counterparty SRV -> CLI, well formed *)
Definition demo_inbound (t : bytes) (seq : N) (body : list field) : bytes :=
  encode demo_schema
    (mkMsg t [mkF 4 49 s_SRV'; mkF 5 56 s_CLI'; mkF 10 34 (dec seq); mkF 21 52 (fmt_time T0)] body 0 false true).

Definition demo_logon_in (seq : N) : bytes := demo_inbound [65] seq [mkF 1 98 [48]; mkF 2 108 [51;48]].
