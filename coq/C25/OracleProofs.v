(* C25: the oracle (C25/Spec_C25.v) on the model -- what `expect` puts on the wire is numbered consecutively, carries
   exactly the submitted type and body, and the greedy interleaving check of the oracle accepts every linearisation
   of pairwise different submissions. *)
From Coq Require Import NArith ZArith List Bool Lia Arith.
From F8 Require Import Sess.Bytes Sess.Msg Sess.Persist Sess.Session Sess.SimpleCodec Sess.Wire
  Sess.SessLemmas Sess.SendLemmas C16.Spec_C16 C16.C16Proofs C17.Spec_C17 C17.C17Proofs
  C25.Conc C25.Syntax C25.Spec_C25 C25.ConcProofs.
Import ListNotations.
Local Open Scope N_scope.

(* ---- the linear tokenizer is the tokenizer -------------------------------------------------------------------------- *)
Lemma fsplit_aux_eq : forall sep l cur, fsplit_aux sep l cur = split_aux sep l cur.
Proof.
  intros sep l. induction l as [|b l IH]; intro cur; cbn [fsplit_aux split_aux]; rewrite <- !rev_alt; [reflexivity|].
  destruct (b =? sep); rewrite ?IH; reflexivity.
Qed.
Lemma ftokens_eq : forall raw, ftokens raw = tokens raw.
Proof. intro raw. unfold ftokens, tokens, fsplit, split_on. rewrite fsplit_aux_eq. reflexivity. Qed.
Lemma fnew_msg_of_eq : forall raw, fnew_msg_of raw = new_msg_of raw.
Proof. intro raw. unfold fnew_msg_of, new_msg_of. rewrite ftokens_eq. reflexivity. Qed.

(* ---- items ----------------------------------------------------------------------------------------------------- *)
Definition body_item (m : msg) : item := (m_type m, map ftok (m_body m)).

Lemma tok_eqb_refl : forall x, tok_eqb x x = true.
Proof. intros [a b]. unfold tok_eqb. cbn. rewrite !beq_refl. reflexivity. Qed.

Lemma toks_perm_refl : forall l, toks_perm l l = true.
Proof.
  intros l. unfold toks_perm. rewrite Nat.eqb_refl. cbn [andb]. apply forallb_forall. intros x _. apply Nat.eqb_refl.
Qed.

Lemma item_eqb_refl : forall x, item_eqb x x = true.
Proof. intros [t b]. unfold item_eqb. cbn. rewrite beq_refl, toks_perm_refl. reflexivity. Qed.

(* ---- what is in a wire message ------------------------------------------------------------------------------------ *)
Definition std_tag (t : N) : bool := existsb (N.eqb t) HDR_TAGS.

Lemma is_hdr_tok_dec : forall t, is_hdr_tok (dec t) = std_tag t.
Proof.
  intros t. unfold is_hdr_tok, std_tag. induction HDR_TAGS as [|h l IH]; [reflexivity|].
  cbn [existsb]. rewrite beq_dec, IH, N.eqb_sym. reflexivity.
Qed.

(* header fields are standard header fields, body fields are not *)
Definition sorted_out (m : msg) : Prop :=
  (forall x, In x (tags (m_hdr m)) -> std_tag x = true) /\ (forall x, In x (tags (m_body m)) -> std_tag x = false).

Lemma filter_ftok_none : forall l, (forall x, In x (tags l) -> std_tag x = true) ->
  filter (fun tv => negb (is_hdr_tok (fst tv))) (map ftok l) = [].
Proof.
  induction l as [|f l IH]; intro H; [reflexivity|]. cbn [map filter ftok fst].
  rewrite is_hdr_tok_dec, (H (f_tag f)) by (left; reflexivity). cbn [negb]. apply IH. intros x I. apply H. right. exact I.
Qed.

Lemma filter_ftok_all : forall l, (forall x, In x (tags l) -> std_tag x = false) ->
  filter (fun tv => negb (is_hdr_tok (fst tv))) (map ftok l) = map ftok l.
Proof.
  induction l as [|f l IH]; intro H; [reflexivity|]. cbn [map filter ftok fst].
  rewrite is_hdr_tok_dec, (H (f_tag f)) by (left; reflexivity). cbn [negb]. f_equal. apply IH. intros x I. apply H. right. exact I.
Qed.

Lemma wire_item_encode : forall sc M, wf_msg sc M = true -> sorted_out M -> wire_item (encode sc M) = body_item M.
Proof.
  intros sc M W [SH SB]. unfold wire_item, body_item. rewrite ftokens_eq.
  rewrite (tok_get_encode_type sc M W). rewrite (tokens_encode sc M W). unfold msg_toks.
  rewrite !filter_app. cbn [filter fst]. rewrite !is_hdr_tok_dec.
  change (std_tag 8) with true. change (std_tag 9) with true. change (std_tag T_MsgType) with true. change (std_tag 10) with true.
  cbn [negb app]. rewrite (filter_ftok_none _ SH), (filter_ftok_all _ SB). rewrite app_nil_r. reflexivity.
Qed.

Lemma tags_add_field : forall p t v l x, In x (tags (add_field p t v l)) -> x = t \/ In x (tags l).
Proof.
  intros p t v l x H. unfold add_field in H. destruct (get_pos t l).
  - apply tags_insert in H. cbn [f_tag] in H. destruct H as [H|H]; [left; exact H|right]. eapply tags_remove_sub. exact H.
  - apply tags_insert in H. cbn [f_tag] in H. exact H.
Qed.

Lemma add_hdr'_std : forall sc tag v m, std_tag tag = true ->
  (forall x, In x (tags (m_hdr m)) -> std_tag x = true) ->
  forall x, In x (tags (m_hdr (add_hdr' sc tag v m))) -> std_tag x = true.
Proof.
  intros sc tag v m ST H x I. destruct (add_hdr'_cases sc tag v m) as [[E _]|[p [_ E]]]; rewrite E in I; [apply H; exact I|].
  cbn [m_hdr] in I. apply tags_add_field in I. destruct I as [->|I]; [exact ST|apply H; exact I].
Qed.

Lemma filled_sorted : forall sc now s m, sorted_out m -> sorted_out (filled sc now s m).
Proof.
  intros sc now s m [SH SB]. unfold filled.
  set (m1 := if has_field T_SenderCompID (m_hdr m) then m else add_hdr' sc T_SenderCompID (s_snd s) m).
  assert (H1 : forall x, In x (tags (m_hdr m1)) -> std_tag x = true).
  { subst m1. destruct (has_field T_SenderCompID (m_hdr m)); [exact SH|]. apply add_hdr'_std; [reflexivity|exact SH]. }
  assert (B1 : m_body m1 = m_body m).
  { subst m1. destruct (has_field T_SenderCompID (m_hdr m)); [reflexivity|apply add_hdr'_body]. }
  set (m2 := if has_field T_TargetCompID (m_hdr m1) then m1 else add_hdr' sc T_TargetCompID (s_tgt s) m1).
  assert (H2 : forall x, In x (tags (m_hdr m2)) -> std_tag x = true).
  { subst m2. destruct (has_field T_TargetCompID (m_hdr m1)); [exact H1|]. apply add_hdr'_std; [reflexivity|exact H1]. }
  assert (B2 : m_body m2 = m_body m).
  { subst m2. destruct (has_field T_TargetCompID (m_hdr m1)); [exact B1|]. rewrite add_hdr'_body. exact B1. }
  split.
  - apply add_hdr'_std; [reflexivity|]. apply add_hdr'_std; [reflexivity|exact H2].
  - rewrite !add_hdr'_body, B2. exact SB.
Qed.

Section Oracle.
Variable sc : schema.
Variable now : Z.
Hypothesis WS : wf_schema sc = true.
Hypothesis NB : nonul (sc_begin sc) = true.
Variable s0 : sess.
Hypothesis W0 : wf_sess s0 = true.

Lemma wf_sess_next : forall n, wf_sess (w_next_send n s0) = true.
Proof. intro n. exact W0. Qed.

Lemma wire_at_item : forall n m, plain_msg m = true -> sorted_out m -> wire_item (wire_at sc now s0 n m) = body_item m.
Proof.
  intros n m P SO. unfold wire_at, wire.
  destruct (filled_ok sc now (w_next_send n s0) m WS (wf_sess_next n) P) as [W Ty Bo _ _].
  rewrite (wire_item_encode sc _ W (filled_sorted sc now _ m SO)). unfold body_item. rewrite Ty, Bo. reflexivity.
Qed.

Lemma wire_at_new : forall n m, plain_msg m = true ->
  new_msg_of (wire_at sc now s0 n m) = Some (session_type (m_type m), n, wire_at sc now s0 n m).
Proof.
  intros n m P. unfold wire_at. rewrite (new_msg_of_wire sc WS now (w_next_send n s0) m (wf_sess_next n) P). reflexivity.
Qed.

Lemma expect_numbered : forall ms n, Forall (fun m => plain_msg m = true) ms ->
  numbered_from n (expect sc now s0 n ms) = true.
Proof.
  induction ms as [|m r IH]; intros n H; [reflexivity|]. inversion H; subst. cbn [expect numbered_from].
  rewrite fnew_msg_of_eq, wire_at_new by assumption. rewrite N.eqb_refl. apply IH. assumption.
Qed.

Lemma expect_items : forall ms n, Forall (fun m => plain_msg m = true /\ sorted_out m) ms ->
  map wire_item (expect sc now s0 n ms) = map body_item ms.
Proof.
  induction ms as [|m r IH]; intros n H; [reflexivity|]. inversion H as [|? ? [P SO] H']; subst. cbn [expect map].
  rewrite wire_at_item by assumption. rewrite IH by assumption. reflexivity.
Qed.

Lemma expect_stored : forall ms n, sentrel n (infos_of sc now s0 n ms) (apps sc now s0 n ms) ->
  stored_ok true (apps sc now s0 n ms) (expect sc now s0 n ms) = true.
Proof.
  intros ms n SR. unfold stored_ok. cbn [negb orb].
  pose proof (sentrel_ok _ _ _ SR) as OK. destruct (sentrel_facts _ _ _ SR) as (F & _).
  rewrite <- infos_of_snd. rewrite forallb_forall in OK. rewrite Forall_forall in F.
  apply forallb_forall. intros w I. apply in_map_iff in I. destruct I as (x & <- & IX).
  destruct (F x IX) as [_ Q]. rewrite fnew_msg_of_eq, Q. apply OK. exact IX.
Qed.

End Oracle.

(* ---- the greedy interleaving check accepts every linearisation of pairwise different items --------------------- *)
Definition distinct (ths : list (list item)) : Prop :=
  forall t1 t2 l1 l2 i1 i2 a b,
    nth_error ths t1 = Some l1 -> nth_error ths t2 = Some l2 -> nth_error l1 i1 = Some a -> nth_error l2 i2 = Some b ->
    (t1 <> t2 \/ i1 <> i2) -> item_eqb a b = false.

Lemma take_first_found : forall ths i t x tail,
  nth_error ths t = Some (x :: tail) ->
  (forall u y r, (u < t)%nat -> nth_error ths u = Some (y :: r) -> item_eqb x y = false) ->
  take_first x ths i = Some ((i + t)%nat, upd ths t tail).
Proof.
  induction ths as [|th ths IH]; intros i t x tail E H; [destruct t; discriminate|].
  destruct t as [|t'].
  - cbn in E. inversion E; subst th. cbn [take_first]. rewrite item_eqb_refl. rewrite Nat.add_0_r. reflexivity.
  - cbn [nth_error] in E. cbn [take_first upd].
    assert (R : take_first x ths (S i) = Some ((S i + t')%nat, upd ths t' tail)).
    { apply IH; [exact E|]. intros u y r L EU. apply (H (S u) y r); [lia|exact EU]. }
    rewrite R. replace (S i + t')%nat with (i + S t')%nat by lia.
    destruct th as [|y r]; [reflexivity|].
    rewrite (H 0%nat y r) by (try lia; reflexivity). reflexivity.
Qed.

Lemma distinct_tail : forall ths t x tail, distinct ths -> nth_error ths t = Some (x :: tail) -> distinct (upd ths t tail).
Proof.
  intros ths t x tail D E t1 t2 l1 l2 i1 i2 a b E1 E2 A B NE.
  destruct (Nat.eq_dec t t1) as [<-|N1]; destruct (Nat.eq_dec t t2) as [<-|N2].
  - rewrite (nth_error_upd_same _ _ _ _ _ E) in E1, E2. inversion E1; inversion E2; subst l1 l2.
    apply (D t t _ _ (S i1) (S i2) a b E E); try assumption. right. destruct NE as [NE|NE]; [contradiction|lia].
  - rewrite (nth_error_upd_same _ _ _ _ _ E) in E1. inversion E1; subst l1.
    rewrite nth_error_upd_other in E2 by exact N2.
    apply (D t t2 _ _ (S i1) i2 a b E E2); try assumption. left. exact N2.
  - rewrite (nth_error_upd_same _ _ _ _ _ E) in E2. inversion E2; subst l2.
    rewrite nth_error_upd_other in E1 by exact N1.
    apply (D t1 t _ _ i1 (S i2) a b E1 E); try assumption. left. congruence.
  - rewrite nth_error_upd_other in E1 by exact N1. rewrite nth_error_upd_other in E2 by exact N2.
    apply (D t1 t2 _ _ i1 i2 a b E1 E2); assumption.
Qed.

Definition items_by (t : nat) (lin : list (nat * item)) : list item :=
  map snd (filter (fun x => Nat.eqb (fst x) t) lin).

Lemma merge_complete : forall lin ths,
  distinct ths ->
  (forall t l, nth_error ths t = Some l -> l = items_by t lin) ->
  Forall (fun x : nat * item => (fst x < length ths)%nat) lin ->
  is_merge (map snd lin) ths = true.
Proof.
  induction lin as [|[t x] lin IH]; intros ths D TH LT.
  - cbn [map is_merge]. apply forallb_forall. intros l I. apply In_nth_error in I. destruct I as [t E].
    rewrite (TH t l E). reflexivity.
  - inversion LT as [|? ? L0 LT']; subst. cbn [fst] in L0.
    destruct (nth_error ths t) as [l|] eqn:E; [|apply nth_error_None in E; lia].
    pose proof (TH t l E) as EL. unfold items_by in EL. cbn [filter fst] in EL. rewrite Nat.eqb_refl in EL. cbn [map snd] in EL.
    fold (items_by t lin) in EL. subst l.
    cbn [map snd is_merge].
    rewrite (take_first_found ths 0 t x (items_by t lin) E).
    + apply IH.
      * eapply distinct_tail; eassumption.
      * intros u l EU. destruct (Nat.eq_dec t u) as [<-|NE].
        -- rewrite (nth_error_upd_same _ _ _ _ _ E) in EU. inversion EU. reflexivity.
        -- rewrite nth_error_upd_other in EU by exact NE. rewrite (TH u l EU). unfold items_by. cbn [filter fst].
           destruct (Nat.eqb t u) eqn:Q; [apply Nat.eqb_eq in Q; contradiction|reflexivity].
      * rewrite length_upd. exact LT'.
    + intros u y r LU EU. apply (D t u _ _ 0%nat 0%nat x y E EU); try reflexivity. left. lia.
Qed.

(* ---- the oracle accepts what the model produces ----------------------------------------------------------------------- *)
Definition all_msgs (progs : list (list call)) : list msg := flat_map prog_msgs progs.
Definition subm (progs : list (list call)) : list (list item) := map (fun p => map body_item (prog_msgs p)) progs.

Lemma items_by_map : forall (g : msg -> item) t l,
  items_by t (map (fun x : nat * msg => (fst x, g (snd x))) l) = map g (sent_by t l).
Proof.
  intros g t l. unfold items_by, sent_by. induction l as [|[u m] l IH]; [reflexivity|].
  cbn [map filter fst snd]. destruct (Nat.eqb u t); cbn [map snd]; rewrite IH; reflexivity.
Qed.

Lemma in_sent_by : forall t m lin, In (t, m) lin -> In m (sent_by t lin).
Proof.
  intros t m lin I. unfold sent_by. apply in_map_iff. exists (t, m). split; [reflexivity|].
  apply filter_In. split; [exact I|]. cbn. apply Nat.eqb_refl.
Qed.

Lemma progs_ok_all : forall sc progs, progs_ok sc progs -> Forall (msg_ok25 sc) (all_msgs progs).
Proof.
  intros sc progs H. unfold all_msgs. apply Forall_forall. intros m I. apply in_flat_map in I. destruct I as (p & IP & IM).
  unfold progs_ok in H. rewrite Forall_forall in H. specialize (H p IP). unfold prog_msgs in IM. apply in_flat_map in IM.
  destruct IM as (c & IC & IM). rewrite Forall_forall in H. specialize (H c IC). destruct c as [m' cu ni|m' cu ni|l]; cbn [call_ok call_msgs] in *.
  - destruct IM as [<-|[]]. destruct H as (_ & _ & H). exact H.
  - destruct IM as [<-|[]]. destruct H as (_ & _ & H). exact H.
  - rewrite Forall_forall in H. apply H. exact IM.
Qed.

Section OracleModel.
Variable sc : schema.
Variable now : Z.
Hypothesis WS : wf_schema sc = true.
Hypothesis NB : nonul (sc_begin sc) = true.
Variable s0 : sess.
Notation n0 := (s_next_send s0).

Lemma oracle_from_lin : forall progs (lin : list (nat * msg)) nxt,
  wf_sess s0 = true ->
  progs_ok sc progs -> Forall sorted_out (all_msgs progs) -> distinct (subm progs) ->
  Forall (fun x : nat * msg => (fst x < length progs)%nat) lin ->
  (forall t p, nth_error progs t = Some p -> prog_msgs p = map norm (sent_by t lin)) ->
  sentrel n0 (infos_of sc now s0 n0 (map snd lin)) (apps sc now s0 n0 (map snd lin)) ->
  nxt = n0 + N.of_nat (length lin) ->
  forall att,
  c25_phase_ok n0 (subm progs) (expect sc now s0 n0 (map snd lin)) nxt att (apps sc now s0 n0 (map snd lin)) = true.
Proof.
  intros progs lin nxt W0 PO SO DI LT TH SR NX att.
  pose proof (progs_ok_all sc progs PO) as OKA. rewrite Forall_forall in OKA, SO.
  (* every message of the linearisation is, up to its end_of_batch flag, one of the submitted ones *)
  assert (IN : forall x, In x lin -> In (norm (snd x)) (all_msgs progs)).
  { intros [t m] I. cbn [snd]. rewrite Forall_forall in LT. specialize (LT _ I). cbn [fst] in LT.
    destruct (nth_error progs t) as [p|] eqn:EP; [|apply nth_error_None in EP; lia].
    unfold all_msgs. apply in_flat_map. exists p. split; [eapply nth_error_In; exact EP|].
    rewrite (TH t p EP). apply in_map. apply in_sent_by. exact I. }
  assert (PL : Forall (fun m => plain_msg m = true /\ sorted_out m) (map snd lin)).
  { apply Forall_forall. intros m I. apply in_map_iff in I. destruct I as (x & <- & IX).
    specialize (IN x IX). destruct (OKA _ IN) as [P _]. specialize (SO _ IN).
    split; [|exact SO]. destruct (plain17_fields sc _ P) as (Pm & _). exact Pm. }
  unfold c25_phase_ok. rewrite !andb_true_iff. split; [split; [split|]|].
  - apply expect_numbered; try assumption. eapply Forall_impl; [|exact PL]. intros a [A _]. exact A.
  - rewrite expect_length, map_length, NX. apply N.eqb_refl.
  - rewrite (expect_items sc now WS s0 W0 _ _ PL).
    replace (map body_item (map snd lin)) with (map snd (map (fun x : nat * msg => (fst x, body_item (snd x))) lin))
      by (rewrite !map_map; reflexivity).
    apply merge_complete.
    + exact DI.
    + intros t l E. unfold subm in E. rewrite nth_error_map in E. destruct (nth_error progs t) as [p|] eqn:EP; [|discriminate].
      cbn in E. inversion E; subst l. rewrite items_by_map, (TH t p EP), map_map. reflexivity.
    + unfold subm. rewrite map_length. apply Forall_forall. intros x I. apply in_map_iff in I. destruct I as (y & <- & IY).
      cbn [fst]. rewrite Forall_forall in LT. apply LT. exact IY.
  - destruct att; [|reflexivity]. apply (expect_stored sc now s0). exact SR.
Qed.

(* pm_thread, every thread has finished *)
Theorem c25_oracle_threaded_lemma : forall progs sched,
  good s0 -> s_batch s0 = [] -> progs_ok sc progs -> Forall sorted_out (all_msgs progs) -> distinct (subm progs) ->
  let c := trun sc now sched (tinit s0 progs) in
  (forall t th, nth_error (t_threads c) t = Some th -> tt_prog th = []) ->
  exists wire,
    t_wire c = map EOut wire /\
    c25_phase_ok n0 (subm progs) wire (s_next_send (t_sess c)) (p_attached (s_per s0))
                 (apps sc now s0 n0 (map snd (t_lin c))) = true.
Proof.
  intros progs sched G B PO SO DI c DONE.
  destruct (tinv_run sc now WS NB s0 progs sched G B PO) as [[G' FR' B' SR NS S1 S0' OUT FL] IW IL IT ID].
  fold c in G', FR', B', SR, NS, S1, S0', IW, IL, IT, ID.
  exists (expect sc now s0 n0 (map snd (t_lin c))). split; [exact IW|].
  apply oracle_from_lin; try assumption.
  - apply (g_wf _ G).
  - intros t p EP.
    assert (LT : (t < length (t_threads c))%nat) by (rewrite IL; apply nth_error_Some; rewrite EP; discriminate).
    destruct (nth_error (t_threads c) t) as [th|] eqn:E; [|apply nth_error_None in E; lia].
    destruct (IT t th E) as (p' & EP' & PM & _ & _). rewrite EP in EP'. inversion EP'; subst p'.
    rewrite PM, (DONE t th E). cbn [prog_msgs flat_map]. rewrite app_nil_r. reflexivity.
  - rewrite NS, map_length. reflexivity.
Qed.

(* pm_pipeline, all threads done and the queue drained *)
Theorem c25_oracle_pipelined_lemma : forall progs sched,
  good s0 -> s_batch s0 = [] -> progs_okp sc progs -> Forall sorted_out (all_msgs progs) -> distinct (subm progs) ->
  let c := prun sc now sched (pinit s0 progs) in
  quiescent c = true ->
  exists wire,
    p_wire c = map EOut wire /\
    c25_phase_ok n0 (subm progs) wire (s_next_send (p_sess c)) (p_attached (s_per s0))
                 (apps sc now s0 n0 (map snd (p_pushed c))) = true.
Proof.
  intros progs sched G B POP SO DI c Q. pose proof (progs_okp_ok sc progs POP) as PO.
  destruct (c25_pipelined_lemma sc now WS NB s0 progs sched G B POP) as (IQ & _ & NS & SR & _ & _ & IL & _ & QF).
  fold c in IQ, NS, SR, IL, QF. destruct (QF Q) as (PP & WI & _ & TH).
  destruct (pinv_run sc now WS NB s0 progs sched G B POP) as [_ _ _ _ _ _ ID]. fold c in ID.
  exists (expect sc now s0 n0 (map snd (p_pushed c))). split; [exact WI|].
  rewrite PP in NS, SR.
  apply oracle_from_lin; try assumption.
  - apply (g_wf _ G).
  - rewrite NS, map_length. reflexivity.
Qed.

End OracleModel.

(* ---- what acceptance by the oracle means for the numbers ------------------------------------------------------------ *)
Lemma numbered_nth : forall ws n i w, numbered_from n ws = true -> nth_error ws i = Some w ->
  exists adm, new_msg_of w = Some (adm, n + N.of_nat i, w).
Proof.
  induction ws as [|w0 ws IH]; intros n i w H E; [destruct i; discriminate|].
  cbn [numbered_from] in H. rewrite fnew_msg_of_eq in H. destruct (new_msg_of w0) as [[[adm k] raw]|] eqn:Q; [|discriminate].
  apply andb_true_iff in H. destruct H as [H1 H2]. apply N.eqb_eq in H1. subst k.
  destruct i as [|i'].
  - cbn in E. inversion E; subst w0. exists adm. rewrite N.add_0_r.
    unfold new_msg_of in Q |- *. destruct (flag_y _); [discriminate|].
    destruct (tok_get (dec T_MsgType) (tokens w)); [|discriminate]. destruct (tok_get (dec T_MsgSeqNum) (tokens w)); [|discriminate].
    destruct (undec l0); [|discriminate]. inversion Q; subst. reflexivity.
  - cbn [nth_error] in E. destruct (IH (n + 1) i' w H2 E) as [a Q']. exists a. rewrite Q'.
    replace (n + 1 + N.of_nat i') with (n + N.of_nat (S i')) by lia. reflexivity.
Qed.

(* two different positions of an accepted wire carry different numbers, the later one the larger *)
Theorem c25_numbers_lemma : forall start subm wire next att stored i j wi wj,
  c25_phase_ok start subm wire next att stored = true ->
  nth_error wire i = Some wi -> nth_error wire j = Some wj -> (i < j)%nat ->
  exists ai aj, new_msg_of wi = Some (ai, start + N.of_nat i, wi) /\ new_msg_of wj = Some (aj, start + N.of_nat j, wj) /\
                start + N.of_nat i < start + N.of_nat j /\ next = start + N.of_nat (length wire).
Proof.
  intros start sb wire next att stored i j wi wj H Ei Ej L. unfold c25_phase_ok in H.
  rewrite !andb_true_iff in H. destruct H as [[[H1 H2] _] _]. apply N.eqb_eq in H2.
  destruct (numbered_nth _ _ _ _ H1 Ei) as [ai Qi]. destruct (numbered_nth _ _ _ _ H1 Ej) as [aj Qj].
  exists ai, aj. repeat split; try assumption. lia.
Qed.

(* ---- a session right after START satisfies the hypotheses of the theorems ------------------------------------------ *)
Theorem c25_after_start_lemma : forall sc p t,
  wf_schema sc = true -> nonul (sc_begin sc) = true -> wf_admin sc = true -> wf_start17 p = true ->
  exists s, w_sess (fst (snapshot (fst (run_op sc world0 (OStart p t))))) = Some s /\ good s /\ s_batch s = [].
Proof.
  intros sc p t WS NB WA WP. destruct (start17 sc WS NB WA p t WP) as [_ (s & E & G & B & _)].
  exists s. split; [exact E|split; [exact G|exact B]].
Qed.

(* ---- witnesses on the demo schema ------------------------------------------------------------------------------------ *)
From F8 Require Import Sess.Demo.

Definition d_s0 : sess :=
  match w_sess (fst (run_op demo_schema world0 (OStart (demo_init PMem) None))) with
  | Some s => s
  | None => new_session (demo_init PMem) (p_empty PMem)
  end.
Definition d_msg (sp : msgspec) : msg := match build_msg demo_schema sp with Some m => m | None => new_msg [] end.
Definition d_o (c : N) : msg := d_msg (demo_order [c]).
Definition d_hb : msg := d_msg (mkSpec [48] [] [(112, [104])] 0 false true).
(* thread 0: one batch of three orders; thread 1: an order, then a Heartbeat *)
Definition d_progs : list (list call) := [[CBatch [d_o 97; d_o 98; d_o 99]]; [CSend (d_o 120) 0 false; CSend d_hb 0 false]].
(* the same with the by-reference overload for thread 1 (pm_thread) *)
Definition d_progs_ref : list (list call) := [[CBatch [d_o 97; d_o 98; d_o 99]]; [CSendRef (d_o 120) 0 false; CSendRef d_hb 0 false]].
(* pm_pipeline: thread 1's order is queued between the first and the second message of thread 0's batch *)
Definition d_sched_pipe : list actor :=
  [App 0; App 0; App 1; Writer; Writer; App 0; App 0; App 0; App 1; Writer; Writer; Writer].
(* pm_thread: thread 1, thread 0 (the whole batch in one critical section), thread 1 *)
Definition d_sched_thread : list nat := [1; 0; 1]%nat.

Definition seqs_of (evs : list event) : list N :=
  flat_map (fun e => match e with EOut b => match new_msg_of b with Some (_, n, _) => [n] | None => [] end | _ => [] end) evs.

Lemma d_good : good d_s0 /\ s_batch d_s0 = [].
Proof.
  split; [|reflexivity]. constructor; try reflexivity.
  - vm_compute. constructor.
  - vm_compute. constructor.
  - vm_compute. discriminate.
Qed.

Lemma d_progs_ok : progs_okp demo_schema d_progs /\ progs_ok demo_schema d_progs_ref.
Proof.
  split; [unfold d_progs, progs_okp|unfold d_progs_ref, progs_ok]; repeat constructor; vm_compute; reflexivity.
Qed.

Lemma c25_nonvacuous_lemma :
  wf_schema demo_schema = true /\ nonul (sc_begin demo_schema) = true /\
  good d_s0 /\ s_batch d_s0 = [] /\ progs_okp demo_schema d_progs /\ progs_ok demo_schema d_progs_ref /\ s_next_send d_s0 = 2 /\
  (* pm_pipeline: the queue order has the foreign order inside the batch; five messages 2..6 go out, the four
     application messages are stored, nothing stays buffered *)
  (let c := prun demo_schema T0 d_sched_pipe (pinit d_s0 d_progs) in
   quiescent c = true /\
   map (fun m => (m_body m, m_eob m)) (p_popped c) =
     [(m_body (d_o 97), false); (m_body (d_o 120), true); (m_body (d_o 98), false); (m_body (d_o 99), true); (m_body d_hb, true)] /\
   map fst (p_pushed c) = [0; 1; 0; 0; 1]%nat /\
   seqs_of (p_wire c) = [2; 3; 4; 5; 6] /\ map fst (p_store (s_per (p_sess c))) = [2; 3; 4; 5] /\
   s_next_send (p_sess c) = 7 /\ s_batch (p_sess c) = [] /\ map pt_rets (p_threads c) = [[Some 3]; [Some 1; Some 1]]) /\
  (* pm_thread *)
  (let c := trun demo_schema T0 d_sched_thread (tinit d_s0 d_progs_ref) in
   map fst (t_lin c) = [1; 0; 0; 0; 1]%nat /\ seqs_of (t_wire c) = [2; 3; 4; 5; 6] /\
   map fst (p_store (s_per (t_sess c))) = [2; 3; 4; 5] /\ map tt_rets (t_threads c) = [[3]; [1; 1]]).
Proof.
  split; [reflexivity|]. split; [reflexivity|]. destruct d_good as [G B]. split; [exact G|]. split; [exact B|].
  destruct d_progs_ok as [O1 O2]. split; [exact O1|]. split; [exact O2|]. split; [reflexivity|]. split; vm_compute; repeat split; reflexivity.
Qed.

Lemma c25_wire_content_lemma : forall (sc : schema) (now : Z), wf_schema sc = true ->
  forall (s0 : sess), wf_sess s0 = true ->
  forall (n : N) (m : msg), plain_msg m = true ->
  new_msg_of (wire_at sc now s0 n m) = Some (session_type (m_type m), n, wire_at sc now s0 n m) /\
  (sorted_out m -> wire_item (wire_at sc now s0 n m) = body_item m).
Proof.
  intros sc now WS s0 W0 n m P. split; [exact (wire_at_new sc now WS s0 W0 n m P)|exact (wire_at_item sc now WS s0 W0 n m P)].
Qed.
