(* C25: the model side of the tie -- runs a case line of h_c25 (a session history with CONC operations) on the
   session model (Sess.Wire) and the interleaving model (C25.Conc).

   The OS decides the schedule of the real threads, so the linearisation is an INPUT of the model run: it is
   read off the wire the implementation produced (`owners`: which thread's next unsent message each wire
   message is) and turned into a schedule of the interleaving model (`sched_thread`, `sched_pipe`); the model
   run under that schedule must then reproduce the implementation's trace byte for byte (wire, return values,
   numbers, state, store).  If the wire cannot be read as an interleaving the schedule stops early and the
   traces differ.  `canon_line` is the schedule-independent summary h_c25 prints in front of " ## ".
   No proofs in this file. *)
From Coq Require Import NArith ZArith List Bool.
From F8 Require Import Sess.Bytes Sess.Msg Sess.Persist Sess.Session Sess.SimpleCodec Sess.Wire
  C17.Spec_C17 C25.Conc C25.Syntax C25.Spec_C25.
Import ListNotations.
Local Open Scope N_scope.

Section Run.
Variable sc : schema.

(* ---- building the messages (main thread of the harness, in order; the first failure ends the operation) ---- *)
Definition build_one (sp : msgspec) : msg + event :=
  if negb (ms_ok sp) then inr exc_std
  else match build_msg sc sp with Some m => inl m | None => inr exc_f8 end.

Fixpoint build_batch (l : list msgspec) : list msg + event :=
  match l with
  | [] => inl []
  | sp :: r =>
    match build_one sp with
    | inr e => inr e
    | inl m =>
      match build_batch r with
      | inr e => inr e
      | inl ms => inl (set_noinc (ms_noinc sp) (set_custom (ms_custom sp) m) :: ms)
      end
    end
  end.

Definition build_call (c : cspec) : call + event :=
  match c with
  | SBad => inr exc_std
  | SSend sp => match build_one sp with inl m => inl (CSend m (ms_custom sp) (ms_noinc sp)) | inr e => inr e end
  | SRef sp => match build_one sp with inl m => inl (CSendRef m (ms_custom sp) (ms_noinc sp)) | inr e => inr e end
  | SBatch l => match build_batch l with inl ms => inl (CBatch ms) | inr e => inr e end
  end.

Fixpoint build_prog (l : list cspec) : list call + event :=
  match l with
  | [] => inl []
  | c :: r =>
    match build_call c with
    | inr e => inr e
    | inl x => match build_prog r with inr e => inr e | inl xs => inl (x :: xs) end
    end
  end.

Fixpoint build_progs (l : list (list cspec)) : list (list call) + event :=
  match l with
  | [] => inl []
  | p :: r =>
    match build_prog p with
    | inr e => inr e
    | inl x => match build_progs r with inr e => inr e | inl xs => inl (x :: xs) end
    end
  end.

(* ---- from the observed wire to a schedule ------------------------------------------------------------------- *)
Definition msg_item (m : msg) : item := (m_type m, map (fun f => (dec (f_tag f), f_val f)) (m_body m)).

(* pm_thread: one schedule entry per call; the messages of a batch follow each other on the wire *)
Fixpoint sched_thread (fuel : nat) (own : list nat) (progs : list (list call)) : list nat :=
  match fuel with
  | O => []
  | S f =>
    match own with
    | [] => []
    | t :: own' =>
      match nth_error progs t with
      | Some (cl :: rest) => t :: sched_thread f (skipn (pred (length (call_msgs cl))) own') (upd progs t rest)
      | _ => []
      end
    end
  end.

(* pm_pipeline: per wire message the owner's push (preceded by taking _con_spl for the first message of a
   batch, followed by its release after the last one), then the writer's pop + send_process.  A by-reference send
   throws in this mode: it is one step of its thread and puts nothing on the wire; it is taken as soon as the thread's
   next wire message (or the end of the wire) shows that the thread has got past it. *)
Definition is_ref (c : call) : bool := match c with CSendRef _ _ _ => true | _ => false end.
Fixpoint drop_refs (prog : list call) : list call :=
  match prog with c :: r => if is_ref c then drop_refs r else prog | [] => [] end.
Fixpoint ref_steps (t : nat) (prog : list call) : list actor :=
  match prog with c :: r => if is_ref c then App t :: ref_steps t r else [] | [] => [] end.

Fixpoint sched_pipe (own : list nat) (st : list (list call * nat)) : list actor :=
  match own with
  | [] => []
  | t :: own' =>
    match nth_error st t with
    | Some (prog, S r) =>
      (App t :: Writer :: (match r with O => [App t] | _ => [] end) ++ sched_pipe own' (upd st t (prog, r)))%list
    | Some (prog0, O) =>
      match drop_refs prog0 with
      | cl :: rest =>
        (ref_steps t prog0 ++
         match cl with
         | CBatch ((_ :: _ :: _) as l) => App t :: App t :: Writer :: sched_pipe own' (upd st t (rest, pred (length l)))
         | _ => App t :: Writer :: sched_pipe own' (upd st t (rest, O))
         end)%list
      | [] => []
      end
    | None => []
    end
  end.

(* the threads as they stand when the wire has been replayed (same bookkeeping as sched_pipe) *)
Fixpoint after_pipe (own : list nat) (st : list (list call * nat)) : list (list call * nat) :=
  match own with
  | [] => st
  | t :: own' =>
    match nth_error st t with
    | Some (prog, S r) => after_pipe own' (upd st t (prog, r))
    | Some (prog0, O) =>
      match drop_refs prog0 with
      | cl :: rest =>
        match cl with
        | CBatch ((_ :: _ :: _) as l) => after_pipe own' (upd st t (rest, pred (length l)))
        | _ => after_pipe own' (upd st t (rest, O))
        end
      | [] => st
      end
    | None => st
    end
  end.
(* by-reference sends after a thread's last wire message *)
Fixpoint tail_refs (t : nat) (st : list (list call * nat)) : list actor :=
  match st with
  | [] => []
  | (prog, _) :: st' => (ref_steps t prog ++ tail_refs (S t) st')%list
  end.

(* what a thread contributes to the wire in pm_pipeline *)
Definition pipe_msgs (p : list call) : list msg := prog_msgs (filter (fun c => negb (is_ref c)) p).

(* ---- the CONC operation ------------------------------------------------------------------------------------------ *)
Definition render_ret (r : option N) : bytes := match r with Some n => dec n | None => [88] end.      (* X = threw *)
Definition render_rets (l : list (option N)) : bytes :=
  match l with [] => [45] | _ => join [44] (map render_ret l) end.
Fixpoint tret_events (i : nat) (l : list (list (option N))) : list event :=
  match l with
  | [] => []
  | r :: l' => ENote ([84;82;69;84;32] ++ dec (N.of_nat i) ++ [32] ++ render_rets r)%list :: tret_events (S i) l'
  end.

(* the inbound messages are processed by the reader thread while the senders run; the model takes them after the sends
   (they touch next_recv, the time stamps and the control record only -- with a memory persister, which these cases use,
   the interleaving is not observable); no two persister puts overlap in the code as it is: OVERLAP 0 *)
Definition note_overlap0 : event := ENote [79;86;69;82;76;65;80;32;48].
Definition inbound_step (w : world) (s : sess) (inbound : list bytes) : sess * list event :=
  let '(s1, e1) := match inbound with [] => (s, []) | _ => feed sc (dec_fn sc) [] (w_now w) inbound s end in
  (s1, (e1 ++ if p_attached (s_per s) then [note_overlap0] else [])%list).

Definition run_conc (pipe : bool) (w : world) (progs : list (list cspec)) (inbound : list bytes) (impl_wire : list bytes) : world * list event :=
  match w_sess w with
  | None => (w, [note_nosession])
  | Some s =>
    match build_progs progs with
    | inr e => (w, [e])
    | inl calls =>
      if pipe then
        let own := owners (map wire_item impl_wire) (map (fun p => map msg_item (pipe_msgs p)) calls) in
        let st0 := map (fun p => (p, O)) calls in
        let c := prun sc (w_now w) (sched_pipe own st0 ++ tail_refs O (after_pipe own st0)) (pinit s calls) in
        let '(s1, e1) := inbound_step w (p_sess c) inbound in
        (with_sess w s1, (p_wire c ++ e1 ++ tret_events O (map pt_rets (p_threads c)))%list)
      else
        let own := owners (map wire_item impl_wire) (map (fun p => map msg_item (prog_msgs p)) calls) in
        let c := trun sc (w_now w) (sched_thread (length own) own calls) (tinit s calls) in
        let '(s1, e1) := inbound_step w (t_sess c) inbound in
        (with_sess w s1, (t_wire c ++ e1 ++ tret_events O (map (fun th => map Some (tt_rets th)) (t_threads c)))%list)
    end
  end.

(* ---- a whole line --------------------------------------------------------------------------------------------------- *)
Fixpoint run_cops (w : world) (pipe : bool) (ops : list cop) (impl : trace) : trace :=
  match ops with
  | [] => []
  | o :: ops' =>
    let ist := match impl with st :: _ => st | [] => mkStep [] None end in
    let pipe' := match o with CPlain _ (Some b) => b | _ => pipe end in
    let '(w1, evs) := match o with
                      | CPlain oper _ => run_op sc w oper
                      | CConc progs inbound => run_conc pipe' w progs inbound (outs_of (st_events ist))
                      end in
    let '(w2, sn) := snapshot w1 in
    mkStep evs sn :: run_cops w2 pipe' ops' (tl impl)
  end.

Definition model_line (case impl : bytes) : bytes :=
  render_trace (run_cops world0 false (parse_cline case) (fparse_trace impl)).

End Run.

(* ---- the canonical summary ------------------------------------------------------------------------------------------ *)
Definition is_digits (l : bytes) : bool := match l with [] => false | _ => forallb is_digit l end.

Definition canon_tret (it : bytes) : bytes :=
  match fsplit 32 it with
  | [_; t; l] =>
    let rs := if beq l [45] then [] else fsplit 44 l in
    let bad := negb (forallb is_digits rs) in
    let sum := fold_left (fun a r => a + atoi_u r 0) rs 0 in
    ([84;82;69;84;32] ++ t ++ [32] ++ dec (N.of_nat (length rs)) ++ [32] ++ (if bad then [88] else dec sum))%list
  | _ :: t :: _ => ([84;82;69;84;32] ++ t ++ [32;48;32;48])%list
  | _ => [84;82;69;84;32;63;32;48;32;48]
  end.

Definition seq_text (h : bytes) : bytes :=
  match tok_get (dec T_MsgSeqNum) (ftokens (unhex h)) with
  | Some (c :: v) => c :: v
  | _ => [45]
  end.

Definition canon_conc (step : bytes) : bytes :=
  let items := fsplit 59 step in
  let outs := filter (has_prefix [79;85;84;32]) items in
  let first := match outs with o :: _ => seq_text (skipn 4 o) | [] => [45] end in
  let last_ := match rev outs with o :: _ => seq_text (skipn 4 o) | [] => [45] end in
  let rest := flat_map (fun it =>
      if has_prefix [79;85;84;32] it then []
      else if has_prefix [84;82;69;84;32] it then (59 :: canon_tret it)
      else if has_prefix [83;84;79;82;69] it then
        (59 :: [83;84;79;82;69;32] ++ dec (N.of_nat (Nat.div (pred (length (fwords it))) 2)))%list
      else 59 :: it) items in
  ([67;79;78;67;32;79;85;84;32] ++ dec (N.of_nat (length outs)) ++ [32] ++ first ++ [32] ++ last_ ++ rest)%list.

Fixpoint canon_steps (ops : list bytes) (steps : list bytes) : list bytes :=
  match steps with
  | [] => []
  | st :: steps' =>
    let is_conc := match ops with o :: _ => match fwords o with n :: _ => beq n k_CONC | [] => false end | [] => false end in
    (if is_conc then canon_conc st else st) :: canon_steps (tl ops) steps'
  end.

Definition canon_line (case raw : bytes) : bytes :=
  join [32;124;32] (canon_steps (fsplit 124 case) (split_steps raw)).
