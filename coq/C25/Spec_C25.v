(* Property C25 "Concurrent senders get unique consecutive sequence numbers" as an executable predicate on
   observables.  Written from the property text:

     "When any number of application threads send messages through one session concurrently, in any process
      model, the messages on the wire carry unique consecutive MsgSeqNums, every message sent is transmitted
      exactly once, the stored copy under each number is the transmitted message, and no data race occurs."

   Observables of one concurrent phase (one CONC operation of the harness):
     start    next_send before the threads were started (SEQ of the preceding snapshot)
     subm     what each thread submitted, in program order: (MsgType, body fields as tag/value tokens)
     wire     the FIX messages handed to the socket, in order (bytes)
     next     next_send after all threads have finished and the writer is idle
     stored   the entries that appeared in the persister during the phase (seq, bytes); attached = a persister exists
   Clauses:
     (numbers)   the k-th message on the wire is a new message (no PossDupFlag) with MsgSeqNum = start + k;
                 hence the numbers are pairwise different and consecutive, and next = start + number of messages
     (once)      the wire, read as (MsgType, body) items, is an interleaving of the threads' submission sequences:
                 every submitted message appears exactly once, each thread's messages in its program order, and
                 nothing else appears.  (Body = every field of the wire message that is not a standard header /
                 trailer field; the generated cases make all bodies pairwise different.)
     (overlap)   with a persister: no two put() calls on it overlapped (the harness counts them: OVERLAP 0) -- the
                 observable part of "no data race occurs" for the non-thread-safe persisters
     (store)     with a persister: every application message on the wire is stored under its own number with
                 exactly its wire bytes; an administrative message is not stored (C17's msg_ok, per message)
   "No data race occurs" is not a function of these observables: the TSan tier reports it (see the suite).
   This file does not mention the model (C25/Conc.v); C25/Syntax.v is the concrete syntax of case and result lines. *)
From Coq Require Import NArith ZArith List Bool.
From F8 Require Import Sess.Bytes Sess.Msg Sess.Persist Sess.Session Sess.Wire C17.Spec_C17 C25.Syntax.
Import ListNotations.
Local Open Scope N_scope.

(* ---- (MsgType, body) items ------------------------------------------------------------------------------- *)
Definition item := (bytes * list (bytes * bytes))%type.

(* standard header and trailer tags of FIX 4.x *)
Definition HDR_TAGS : list N :=
  [8; 9; 35; 49; 56; 115; 128; 90; 91; 34; 50; 142; 57; 143; 116; 144; 129; 145; 43; 97; 52; 122; 212; 213; 347; 369; 370;
   627; 628; 629; 630; 93; 89; 10].

Definition is_hdr_tok (t : bytes) : bool := existsb (fun h => beq (dec h) t) HDR_TAGS.

Definition wire_item (raw : bytes) : item :=
  let t := ftokens raw in
  (match tok_get (dec T_MsgType) t with Some x => x | None => [] end,
   filter (fun tv => negb (is_hdr_tok (fst tv))) t).

Definition tok_eqb (a b : bytes * bytes) : bool := beq (fst a) (fst b) && beq (snd a) (snd b).
Definition count_tok (x : bytes * bytes) (l : list (bytes * bytes)) : nat := length (filter (tok_eqb x) l).
(* the same fields, in any order (the wire lists them by schema position, a submission in the order given) *)
Definition toks_perm (a b : list (bytes * bytes)) : bool :=
  Nat.eqb (length a) (length b) && forallb (fun x => Nat.eqb (count_tok x a) (count_tok x b)) a.
Definition item_eqb (a b : item) : bool := beq (fst a) (fst b) && toks_perm (snd a) (snd b).

(* what a thread submits, read off the case line: the message type and the body fields of the msgspec *)
Definition spec_item (sp : msgspec) : item := (ms_type sp, map (fun tv => (dec (fst tv), snd tv)) (ms_body sp)).

(* ---- interleavings ----------------------------------------------------------------------------------------- *)
(* the first thread (lowest index >= i) whose next unsent item is x: its index and the threads with that item taken *)
Fixpoint take_first (x : item) (ths : list (list item)) (i : nat) : option (nat * list (list item)) :=
  match ths with
  | [] => None
  | th :: ths' =>
    match th with
    | y :: r =>
      if item_eqb x y then Some (i, r :: ths')
      else match take_first x ths' (S i) with Some (k, l) => Some (k, th :: l) | None => None end
    | [] => match take_first x ths' (S i) with Some (k, l) => Some (k, th :: l) | None => None end
    end
  end.

(* the owner thread of every wire item, as far as the wire can be read as an interleaving *)
Fixpoint owners (w : list item) (ths : list (list item)) : list nat :=
  match w with
  | [] => []
  | x :: w' => match take_first x ths 0 with Some (k, ths') => k :: owners w' ths' | None => [] end
  end.

Fixpoint is_merge (w : list item) (ths : list (list item)) : bool :=
  match w with
  | [] => forallb (fun th => match th with [] => true | _ => false end) ths
  | x :: w' => match take_first x ths 0 with Some (_, ths') => is_merge w' ths' | None => false end
  end.

(* ---- numbers ------------------------------------------------------------------------------------------------ *)
(* C17's new_msg_of (classification of a wire message: None = PossDup or not a numbered message; Some (administrative?,
   MsgSeqNum, bytes)) over the linear tokenizer *)
Definition fnew_msg_of (raw : bytes) : option (bool * N * bytes) :=
  let t := ftokens raw in
  if flag_y (tok_get (dec T_PossDupFlag) t) then None
  else match tok_get (dec T_MsgType) t, tok_get (dec T_MsgSeqNum) t with
       | Some ty, Some v => match undec v with Some n => Some (session_type ty, n, raw) | None => None end
       | _, _ => None
       end.

Fixpoint numbered_from (n : N) (ws : list bytes) : bool :=
  match ws with
  | [] => true
  | w :: ws' => match fnew_msg_of w with
                | Some (_, k, _) => (k =? n) && numbered_from (n + 1) ws'
                | None => false
                end
  end.

(* ---- store ---------------------------------------------------------------------------------------------------- *)
Definition stored_ok (attached : bool) (stored : list (N * bytes)) (ws : list bytes) : bool :=
  negb attached ||
  forallb (fun w => match fnew_msg_of w with Some x => msg_ok stored x | None => false end) ws.

(* ---- the oracle for one concurrent phase -------------------------------------------------------------------- *)
Definition c25_phase_ok (start : N) (subm : list (list item)) (wire : list bytes) (next : N)
                        (attached : bool) (stored : list (N * bytes)) : bool :=
  numbered_from start wire && (next =? start + N.of_nat (length wire)) &&
  is_merge (map wire_item wire) subm &&
  stored_ok attached stored wire.

(* ---- on a case line and a result line (of either side) ------------------------------------------------------- *)
(* pipe: pm_pipeline, where the by-reference send throws and submits nothing *)
Definition cspec_items (pipe : bool) (c : cspec) : list item :=
  match c with
  | SSend sp => [spec_item sp]
  | SRef sp => if pipe then [] else [spec_item sp]
  | SBatch l => map spec_item l
  | SBad => []
  end.

Definition is_tret (b : bytes) : bool := has_prefix [84;82;69;84;32] b.          (* "TRET " *)

Fixpoint outs_of (evs : list event) : list bytes :=
  match evs with
  | [] => []
  | EOut b :: r => b :: outs_of r
  | _ :: r => outs_of r
  end.

(* nothing but complete FIX messages and the per-thread return values: no unframed bytes, no exception, no
   harness note (NOTQUIET = the writer did not drain in time, NOSESSION, ...) *)
Definition clean_events (evs : list event) : bool :=
  forallb (fun e => match e with
                     | EOut _ => true
                     | ERet _ => true                                 (* the reader thread's answers to the inbound messages *)
                     | ENote b => is_tret b || beq b [79;86;69;82;76;65;80;32;48]     (* "OVERLAP 0": no two persister puts overlapped *)
                     | _ => false end) evs.
Definition has_exc (evs : list event) : bool :=
  existsb (fun e => match e with EExc _ => true | _ => false end) evs.

Definition c25_step_ok (pipe : bool) (prev : option N) (pk : pkind) (progs : list (list cspec)) (st : step) : bool :=
  if has_exc (st_events st) then
    (* the operation was rejected before any thread was started: nothing may have been sent *)
    match outs_of (st_events st) with [] => true | _ => false end
  else
    match prev, st_snap st with
    | None, None =>
      (* no session (the harness notes NOSESSION): nothing can have been sent *)
      match outs_of (st_events st) with [] => true | _ => false end
    | Some start, Some sn =>
      clean_events (st_events st) &&
      c25_phase_ok start (map (flat_map (cspec_items pipe)) progs) (outs_of (st_events st)) (sn_send sn)
                   (match pk with PNone => false | _ => true end) (stored_now (sn_store sn))
    | _, _ => false
    end.

Fixpoint c25_steps (pipe : bool) (prev : option N) (pk : pkind) (ops : list cop) (tr : trace) : bool :=
  match ops, tr with
  | [], [] => true
  | o :: ops', st :: tr' =>
    let pk' := match o with CPlain (OStart p _) _ => sp_pk p | _ => pk end in
    let pipe' := match o with CPlain _ (Some b) => b | _ => pipe end in
    let ok := match o with CConc progs _ => c25_step_ok pipe' prev pk' progs st | _ => true end in
    let prev' := match st_snap st with Some sn => Some (sn_send sn) | None => prev end in
    ok && c25_steps pipe' prev' pk' ops' tr'
  | _, _ => false
  end.

Definition c25_ok (ops : list cop) (tr : trace) : bool := c25_steps false None PNone ops tr.

Definition c25_ok_line (case result : bytes) : bool := c25_ok (parse_cline case) (fparse_trace result).
