(* C25: proofs about the interleaving model (C25/Conc.v).

   Structure: every schedule of either process model does to the session exactly what the SEQUENTIAL run of
   Session::send_process over the linearisation does (`seq_run` over t_lin / p_popped); the sequential run of
   plain messages with ARBITRARY end_of_batch flags is analysed once (`seq17`, by induction with C17's `step17`):
   numbers n, n+1, ..., store = wire bytes for application messages, and -- bytes-level bookkeeping of the batch
   buffer -- flushed ++ pending = everything processed, in order, nothing lost, nothing twice. *)
From Coq Require Import NArith ZArith List Bool Lia Permutation.
From F8 Require Import Sess.Bytes Sess.Msg Sess.Persist Sess.Session Sess.SimpleCodec Sess.Wire
  Sess.SessLemmas Sess.SendLemmas C16.Spec_C16 C16.C16Proofs C17.Spec_C17 C17.C17Proofs C25.Conc.
Import ListNotations.
Local Open Scope N_scope.

(* ---- small list facts ------------------------------------------------------------------------------------------ *)
Lemma nth_error_upd_same : forall (A : Type) (l : list A) i x y, nth_error l i = Some y -> nth_error (upd l i x) i = Some x.
Proof.
  induction l as [|a l IH]; intros i x y H; destruct i; cbn in *; try discriminate; [reflexivity|]. eapply IH; exact H.
Qed.

Lemma nth_error_upd_other : forall (A : Type) (l : list A) i j x, i <> j -> nth_error (upd l i x) j = nth_error l j.
Proof.
  induction l as [|a l IH]; intros i j x H; destruct i, j; cbn; try reflexivity; [contradiction|]. apply IH. congruence.
Qed.

Lemma length_upd : forall (A : Type) (l : list A) i x, length (upd l i x) = length l.
Proof. induction l as [|a l IH]; intros i x; destruct i; cbn; try reflexivity. rewrite IH. reflexivity. Qed.

Lemma upd_out : forall (A : Type) (l : list A) i x, nth_error l i = None -> upd l i x = l.
Proof.
  induction l as [|a l IH]; intros i x H; destruct i; cbn in *; try reflexivity; [discriminate|]. rewrite IH by exact H. reflexivity.
Qed.

Section Seq.
Variable sc : schema.
Variable now : Z.
Hypothesis WS : wf_schema sc = true.
Hypothesis NB : nonul (sc_begin sc) = true.

(* ---- the sequential run --------------------------------------------------------------------------------------- *)
Fixpoint seq_run (s : sess) (ms : list msg) : N * sess * list event :=
  match ms with
  | [] => (0, s, [])
  | m :: r =>
    let '(ok, s1, e1) := send_process sc now s m in
    let '(n, s2, e2) := seq_run s1 r in
    ((if ok then 1 else 0) + n, s2, (e1 ++ e2)%list)
  end.

(* the k-th message goes out as `wire_at s0 (n + k) m`: m with the session's CompIDs, MsgSeqNum n + k, SendingTime now *)
Definition wire_at (s0 : sess) (n : N) (m : msg) : bytes := wire sc now (w_next_send n s0) m.

Fixpoint expect (s0 : sess) (n : N) (ms : list msg) : list bytes :=
  match ms with
  | [] => []
  | m :: r => wire_at s0 n m :: expect s0 (n + 1) r
  end.

(* the application messages among them, keyed by their numbers: what has to be in the store *)
Fixpoint apps (s0 : sess) (n : N) (ms : list msg) : list (N * bytes) :=
  match ms with
  | [] => []
  | m :: r => ((if session_type (m_type m) then [] else [(n, wire_at s0 n m)]) ++ apps s0 (n + 1) r)%list
  end.

Lemma wire_frame : forall s0 s m, s_snd s = s_snd s0 -> s_tgt s = s_tgt s0 -> wire sc now s m = wire_at s0 (s_next_send s) m.
Proof.
  intros s0 s m A B. unfold wire_at, wire, filled. cbn [w_next_send s_snd s_tgt s_next_send]. rewrite A, B. reflexivity.
Qed.

Lemma wire_at_frame : forall s0 s n m, s_snd s = s_snd s0 -> s_tgt s = s_tgt s0 -> wire_at s n m = wire_at s0 n m.
Proof.
  intros s0 s n m A B. unfold wire_at, wire, filled. cbn [w_next_send s_snd s_tgt s_next_send]. rewrite A, B. reflexivity.
Qed.

Lemma expect_frame : forall s0 s ms n, s_snd s = s_snd s0 -> s_tgt s = s_tgt s0 -> expect s n ms = expect s0 n ms.
Proof.
  intros s0 s ms. induction ms as [|m r IH]; intros n A B; cbn [expect]; [reflexivity|].
  rewrite (wire_at_frame s0 s n m A B), IH by assumption. reflexivity.
Qed.

Lemma apps_frame : forall s0 s ms n, s_snd s = s_snd s0 -> s_tgt s = s_tgt s0 -> apps s n ms = apps s0 n ms.
Proof.
  intros s0 s ms. induction ms as [|m r IH]; intros n A B; cbn [apps]; [reflexivity|].
  rewrite (wire_at_frame s0 s n m A B), IH by assumption. reflexivity.
Qed.

Lemma expect_app : forall s0 a b n, expect s0 n (a ++ b) = (expect s0 n a ++ expect s0 (n + N.of_nat (length a)) b)%list.
Proof.
  intros s0 a. induction a as [|m r IH]; intros b n; cbn [expect app length].
  - rewrite N.add_0_r. reflexivity.
  - rewrite IH. replace (n + 1 + N.of_nat (length r)) with (n + N.of_nat (S (length r))) by lia. reflexivity.
Qed.

Lemma apps_app : forall s0 a b n, apps s0 n (a ++ b) = (apps s0 n a ++ apps s0 (n + N.of_nat (length a)) b)%list.
Proof.
  intros s0 a. induction a as [|m r IH]; intros b n; cbn [apps app length].
  - rewrite N.add_0_r. reflexivity.
  - rewrite IH. replace (n + 1 + N.of_nat (length r)) with (n + N.of_nat (S (length r))) by lia.
    rewrite app_assoc. reflexivity.
Qed.

Lemma expect_length : forall s0 ms n, length (expect s0 n ms) = length ms.
Proof. intros s0 ms. induction ms; intros; cbn; [reflexivity|]. rewrite IHms. reflexivity. Qed.

(* the end_of_batch flag is not part of what is encoded *)
Lemma add_hdr'_set_eob : forall tag v b m, add_hdr' sc tag v (set_eob b m) = set_eob b (add_hdr' sc tag v m).
Proof. intros. unfold add_hdr', add_hdr. cbn [set_eob m_hdr m_type m_body m_custom m_noinc m_eob]. destruct (assoc tag (sc_hdr sc)); reflexivity. Qed.

Lemma filled_set_eob : forall s b m, filled sc now s (set_eob b m) = set_eob b (filled sc now s m).
Proof.
  intros s b m. unfold filled. cbn [set_eob m_hdr].
  destruct (has_field T_SenderCompID (m_hdr m)).
  - cbn [set_eob m_hdr]. destruct (has_field T_TargetCompID (m_hdr m)); rewrite !add_hdr'_set_eob; reflexivity.
  - rewrite add_hdr'_set_eob. cbn [set_eob m_hdr].
    destruct (has_field T_TargetCompID (m_hdr (add_hdr' sc T_SenderCompID (s_snd s) m))); rewrite !add_hdr'_set_eob; reflexivity.
Qed.

Lemma wire_eob : forall s b m, wire sc now s (set_eob b m) = wire sc now s m.
Proof. intros. unfold wire. rewrite filled_set_eob. reflexivity. Qed.

Lemma wire_at_eob : forall s0 n b m, wire_at s0 n (set_eob b m) = wire_at s0 n m.
Proof. intros. unfold wire_at. apply wire_eob. Qed.

(* the classification C17's `sentrel` speaks about: (administrative?, number, wire bytes) *)
Fixpoint infos_of (s0 : sess) (n : N) (ms : list msg) : list info :=
  match ms with
  | [] => []
  | m :: r => (session_type (m_type m), n, wire_at s0 n m) :: infos_of s0 (n + 1) r
  end.

Lemma infos_of_snd : forall s0 ms n, map (fun x : info => snd x) (infos_of s0 n ms) = expect s0 n ms.
Proof. intros s0 ms. induction ms as [|m r IH]; intros n; cbn [infos_of expect map snd]; [reflexivity|]. rewrite IH. reflexivity. Qed.

Lemma infos_of_frame : forall s0 s ms n, s_snd s = s_snd s0 -> s_tgt s = s_tgt s0 -> infos_of s n ms = infos_of s0 n ms.
Proof.
  intros s0 s ms. induction ms as [|m r IH]; intros n A B; cbn [infos_of]; [reflexivity|].
  rewrite (wire_at_frame s0 s n m A B), IH by assumption. reflexivity.
Qed.

Lemma infos_of_length : forall s0 ms n, length (infos_of s0 n ms) = length ms.
Proof. intros s0 ms. induction ms; intros; cbn; [reflexivity|]. rewrite IHms. reflexivity. Qed.

Lemma infos_of_app : forall s0 a b n, infos_of s0 n (a ++ b) = (infos_of s0 n a ++ infos_of s0 (n + N.of_nat (length a)) b)%list.
Proof.
  intros s0 a. induction a as [|m r IH]; intros b n; cbn [infos_of app length].
  - rewrite N.add_0_r. reflexivity.
  - rewrite IH. replace (n + 1 + N.of_nat (length r)) with (n + N.of_nat (S (length r))) by lia. reflexivity.
Qed.

Lemma last_cons2 : forall (A : Type) (a b : A) l d, last (a :: b :: l) d = last (b :: l) d.
Proof. reflexivity. Qed.

(* THE sequential lemma: plain messages with arbitrary end_of_batch flags, from any state whose batch buffer holds
   the encodings of `pend`.  Every call succeeds; the numbers are consecutive; application messages are stored
   under their numbers with their wire bytes; and what has been flushed followed by what is still buffered is
   exactly what was buffered before followed by the new messages -- nothing lost, nothing duplicated, order kept.
   If the last message has end_of_batch = true nothing stays buffered. *)
Lemma seq17 : forall ms s pend infos adds n0,
  Forall (fun m => plain17 sc m = true) ms -> good s -> s_batch s = concat (map (encode sc) pend) ->
  sentrel n0 infos adds -> s_next_send s = n0 + N.of_nat (length infos) ->
  exists s' pend' out,
    seq_run s ms = (N.of_nat (length ms), s', map EOut out) /\ frame s s' /\ good s' /\
    s_batch s' = concat (map (encode sc) pend') /\
    sentrel n0 (infos ++ infos_of s (s_next_send s) ms) (adds ++ apps s (s_next_send s) ms) /\
    (map (encode sc) pend ++ expect s (s_next_send s) ms)%list = (out ++ map (encode sc) pend')%list /\
    s_next_send s' = s_next_send s + N.of_nat (length ms) /\
    (p_attached (s_per s) = true -> p_store (s_per s') = (p_store (s_per s) ++ apps s (s_next_send s) ms)%list) /\
    (p_attached (s_per s) = false -> p_store (s_per s') = p_store (s_per s)) /\
    (ms <> [] -> m_eob (last ms (new_msg [])) = true -> pend' = []) /\
    (ms = [] -> pend' = pend).
Proof.
  induction ms as [|m r IH]; intros s pend infos adds n0 FP G B SR NS.
  - exists s, pend, []. cbn [seq_run length infos_of apps expect map app]. rewrite !app_nil_r, N.add_0_r.
    split; [reflexivity|]. split; [apply frame_refl|]. split; [exact G|]. split; [exact B|]. split; [exact SR|].
    split; [reflexivity|]. split; [reflexivity|]. split; [intros _; reflexivity|]. split; [intros _; reflexivity|].
    split; [intro H; contradiction|intros _; reflexivity].
  - inversion FP as [|? ? Pm FP']; subst.
    destruct (step17 sc WS NB now s m pend infos adds n0 Pm G B SR NS) as
      (s1 & evs & E & FR & G1 & SR1 & NS1 & ST1 & ST0 & FL).
    pose proof FR as (F1 & F2 & F3 & F4 & F5).
    assert (WE : wire sc now s m = wire_at s (s_next_send s) m) by (apply wire_frame; reflexivity).
    set (pend1 := if m_eob m then [] else (pend ++ [filled sc now s m])%list).
    set (out1 := if m_eob m then (map (encode sc) pend ++ [wire sc now s m])%list else []).
    assert (B1 : s_batch s1 = concat (map (encode sc) pend1) /\ evs = map EOut out1).
    { subst pend1 out1. destruct (m_eob m); destruct FL as [Q1 Q2]; split; try assumption; try reflexivity.
      rewrite Q2. rewrite map_app. reflexivity. }
    destruct B1 as [B1 EV].
    assert (NS1' : s_next_send s1 = n0 + N.of_nat (length (infos ++ [(session_type (m_type m), s_next_send s, wire sc now s m)]))).
    { rewrite app_length. cbn [length]. rewrite NS1, NS. lia. }
    destruct (IH s1 pend1 _ _ n0 FP' G1 B1 SR1 NS1') as (s' & pend' & out' & ER & FR' & G' & B' & SR' & EQ & NS' & ST1' & ST0' & LE & NE).
    exists s', pend', (out1 ++ out')%list.
    rewrite (expect_frame s s1) in EQ by assumption.
    rewrite (infos_of_frame s s1) in SR' by assumption.
    rewrite (apps_frame s s1) in SR', ST1' by assumption.
    rewrite NS1 in *.
    cbn [seq_run]. rewrite E, ER. cbn [infos_of apps expect length].
    rewrite <- WE.
    split; [|split; [|split; [|split; [|split; [|split; [|split; [|split; [|split; [|split]]]]]]]]].
    + rewrite EV, map_app. f_equal. f_equal. lia.
    + apply (frame_trans s s1 s'); assumption.
    + exact G'.
    + exact B'.
    + rewrite <- !app_assoc in SR'. cbn [app] in SR'. exact SR'.
    + subst pend1 out1. destruct (m_eob m).
      * cbn [map app] in EQ. rewrite <- app_assoc. cbn [app]. rewrite <- EQ. rewrite <- app_assoc. reflexivity.
      * cbn [app]. rewrite map_app in EQ. cbn [map] in EQ. rewrite <- app_assoc in EQ. cbn [app] in EQ.
        exact EQ.
    + rewrite NS'. lia.
    + intro A. rewrite ST1' by (rewrite (p_attached_kind _ _ F4); exact A). rewrite (ST1 A). rewrite <- app_assoc. reflexivity.
    + intro A. rewrite ST0' by (rewrite (p_attached_kind _ _ F4); exact A). apply ST0. exact A.
    + intros _ L. destruct r as [|m' r'].
      * cbn [last] in L. rewrite (NE eq_refl). subst pend1. rewrite L. reflexivity.
      * rewrite last_cons2 in L. apply LE; [discriminate|exact L].
    + intro Z. discriminate.
Qed.

(* ---- send / send_batch are sequential runs -------------------------------------------------------------------- *)
Lemma batch_loop_seq : forall l s cnt evs,
  send_batch_loop sc now s l cnt evs =
  (let '(n, s', e) := seq_run s (mark_eob l) in (cnt + n, s', (evs ++ e)%list)).
Proof.
  induction l as [|m r IH]; intros s cnt evs; cbn [send_batch_loop mark_eob seq_run].
  - rewrite N.add_0_r, app_nil_r. reflexivity.
  - change (match r with [] => true | _ :: _ => false end) with (is_last r).
    destruct (send_process sc now s (set_eob (is_last r) m)) as [[ok s1] e1].
    rewrite IH. destruct (seq_run s1 (mark_eob r)) as [[n s2] e2].
    rewrite app_assoc. destruct ok; f_equal; f_equal; lia.
Qed.

Lemma send_batch_seq : forall s l, send_batch sc now s l = seq_run s (batch_msgs l).
Proof.
  intros s l. destruct l as [|m1 [|m2 r]].
  - reflexivity.
  - cbn [send_batch batch_msgs seq_run]. destruct (send_process sc now s m1) as [[ok s1] e1].
    rewrite N.add_0_r, app_nil_r. reflexivity.
  - change (send_batch sc now s (m1 :: m2 :: r)) with (send_batch_loop sc now s (m1 :: m2 :: r) 0 []).
    rewrite batch_loop_seq. change (batch_msgs (m1 :: m2 :: r)) with (mark_eob (m1 :: m2 :: r)).
    destruct (seq_run s (mark_eob (m1 :: m2 :: r))) as [[n s'] e]. reflexivity.
Qed.

Lemma seq_run_single : forall s m s' e, seq_run s [m] = (1, s', e) -> send_process sc now s m = (true, s', e).
Proof.
  intros s m s' e H. cbn [seq_run] in H. destruct (send_process sc now s m) as [[ok s1] e1].
  rewrite N.add_0_r, app_nil_r in H. destruct ok; inversion H; reflexivity.
Qed.

(* flags do not matter for what is expected on the wire and in the store *)
Lemma expect_mark : forall s0 l n, expect s0 n (mark_eob l) = expect s0 n l.
Proof. intros s0 l. induction l as [|m r IH]; intros n; cbn [mark_eob expect]; [reflexivity|]. rewrite wire_at_eob, IH. reflexivity. Qed.

Lemma mark_eob_length : forall l, length (mark_eob l) = length l.
Proof. induction l; cbn; [reflexivity|]. rewrite IHl. reflexivity. Qed.

Lemma batch_msgs_length : forall l, length (batch_msgs l) = length l.
Proof. intros [|a [|b r]]; try reflexivity. apply (mark_eob_length (a :: b :: r)). Qed.

Lemma mark_eob_plain : forall l, Forall (fun m => plain17 sc m = true) l -> Forall (fun m => plain17 sc m = true) (mark_eob l).
Proof. induction l; intro H; cbn [mark_eob]; [constructor|]. inversion H; subst. constructor; [assumption|]. apply IHl. assumption. Qed.

Lemma mark_eob_last : forall l d, l <> [] -> m_eob (last (mark_eob l) d) = true.
Proof.
  induction l as [|m r IH]; intros d H; [contradiction|]. destruct r as [|m' r'].
  - reflexivity.
  - cbn [mark_eob]. rewrite last_cons2. specialize (IH d). cbn [mark_eob] in IH. apply IH. discriminate.
Qed.

Definition norm (m : msg) : msg := set_eob true m.
Lemma norm_id : forall m, m_eob m = true -> norm m = m.
Proof. intros [t h b c n e] H. cbn in H. subst. reflexivity. Qed.
Lemma norm_mark : forall l, map norm (mark_eob l) = map norm l.
Proof. induction l; cbn [mark_eob map]; [reflexivity|]. rewrite IHl. reflexivity. Qed.
Lemma norm_batch : forall l, map norm (batch_msgs l) = map norm l.
Proof. intros [|a [|b r]]; try reflexivity. apply (norm_mark (a :: b :: r)). Qed.

(* ---- the session after `done` has gone through send_process ---------------------------------------------------- *)
Variable s0 : sess.                       (* the session when the threads are started *)
Notation n0 := (s_next_send s0).

(* done: the messages processed so far, in order; pend: those whose bytes sit in the batch buffer; out: the wire *)
Record sinv (s : sess) (done pend : list msg) (out : list bytes) : Prop := {
  si_good : good s;
  si_frame : frame s0 s;
  si_batch : s_batch s = concat (map (encode sc) pend);
  si_rel : sentrel n0 (infos_of s0 n0 done) (apps s0 n0 done);
  si_next : s_next_send s = n0 + N.of_nat (length done);
  si_st1 : p_attached (s_per s0) = true -> p_store (s_per s) = (p_store (s_per s0) ++ apps s0 n0 done)%list;
  si_st0 : p_attached (s_per s0) = false -> p_store (s_per s) = p_store (s_per s0);
  si_out : (out ++ map (encode sc) pend)%list = expect s0 n0 done;
  si_flush : done = [] \/ m_eob (last done (new_msg [])) = true -> pend = []
}.

Lemma sinv_init : good s0 -> s_batch s0 = [] -> sinv s0 [] [] [].
Proof.
  intros G B. constructor; try assumption; try reflexivity.
  - apply frame_refl.
  - constructor.
  - cbn. lia.
  - intros _. cbn. rewrite app_nil_r. reflexivity.
Qed.

Lemma last_app_ne : forall (A : Type) (a b : list A) d, b <> [] -> last (a ++ b) d = last b d.
Proof.
  induction a as [|x a IH]; intros b d H; [reflexivity|]. cbn [app].
  destruct (a ++ b) eqn:E; [destruct a; [contradiction|discriminate]|]. rewrite last_cons2. rewrite <- E. apply IH. exact H.
Qed.

Lemma sinv_run : forall ms s done pend out,
  sinv s done pend out -> Forall (fun m => plain17 sc m = true) ms ->
  exists s' pend' out',
    seq_run s ms = (N.of_nat (length ms), s', map EOut out') /\ sinv s' (done ++ ms) pend' (out ++ out').
Proof.
  intros ms s done pend out [G FR B SR NS S1 S0 OUT FL] FP.
  pose proof FR as (F1 & F2 & F3 & F4 & F5).
  assert (NS' : s_next_send s = n0 + N.of_nat (length (infos_of s0 n0 done))) by (rewrite infos_of_length; exact NS).
  destruct (seq17 ms s pend _ _ n0 FP G B SR NS') as (s' & pend' & out' & ER & FR' & G' & B' & SR' & EQ & NX & T1 & T0 & LE & NE).
  rewrite (expect_frame s0 s) in EQ by assumption.
  rewrite (infos_of_frame s0 s) in SR' by assumption.
  rewrite (apps_frame s0 s) in SR', T1 by assumption.
  rewrite NS in *.
  exists s', pend', out'. split; [exact ER|]. constructor.
  - exact G'.
  - apply (frame_trans s0 s s'); assumption.
  - exact B'.
  - rewrite infos_of_app, apps_app. exact SR'.
  - rewrite NX, app_length. lia.
  - intro A. rewrite T1 by (rewrite (p_attached_kind _ _ F4); exact A). rewrite (S1 A), apps_app, app_assoc. reflexivity.
  - intro A. rewrite T0 by (rewrite (p_attached_kind _ _ F4); exact A). apply S0. exact A.
  - rewrite expect_app, <- OUT, <- !app_assoc. f_equal. symmetry. exact EQ.
  - intro H. destruct ms as [|m r].
    + rewrite (NE eq_refl). apply FL. rewrite app_nil_r in H. exact H.
    + apply LE; [discriminate|]. destruct H as [H|H]; [destruct done; discriminate|].
      rewrite last_app_ne in H by discriminate. exact H.
Qed.

(* a critical section: the buffer is empty before and after *)
Lemma cs17 : forall ms s done out,
  sinv s done [] out -> Forall (fun m => plain17 sc m = true) ms ->
  (ms <> [] -> m_eob (last ms (new_msg [])) = true) ->
  exists s',
    seq_run s ms = (N.of_nat (length ms), s', map EOut (expect s0 (n0 + N.of_nat (length done)) ms)) /\
    sinv s' (done ++ ms) [] (out ++ expect s0 (n0 + N.of_nat (length done)) ms).
Proof.
  intros ms s done out I FP L.
  destruct ms as [|m r].
  { exists s. cbn [seq_run expect length map]. rewrite !app_nil_r. split; [reflexivity|exact I]. }
  destruct (sinv_run (m :: r) s done [] out I FP) as (s' & pend' & out' & ER & I').
  assert (P : pend' = []).
  { apply (si_flush _ _ _ _ I'). right. rewrite last_app_ne by discriminate. apply L. discriminate. }
  subst pend'.
  assert (O : out' = expect s0 (n0 + N.of_nat (length done)) (m :: r)).
  { pose proof (si_out _ _ _ _ I') as O'. pose proof (si_out _ _ _ _ I) as O. cbn [map] in O, O'. rewrite app_nil_r in O, O'.
    rewrite expect_app, <- O in O'. apply app_inv_head in O'. exact O'. }
  subst out'. exists s'. split; assumption.
Qed.

(* ================================================================================================================= *)
(* pm_thread                                                                                                         *)
(* ================================================================================================================= *)
Definition sent_by (t : nat) (lin : list (nat * msg)) : list msg :=
  map snd (filter (fun x => Nat.eqb (fst x) t) lin).

Lemma sent_by_app : forall t a b, sent_by t (a ++ b) = (sent_by t a ++ sent_by t b)%list.
Proof. intros. unfold sent_by. rewrite filter_app, map_app. reflexivity. Qed.

Lemma sent_by_same : forall t ms, sent_by t (map (pair t) ms) = ms.
Proof.
  intros t ms. unfold sent_by. induction ms as [|m r IH]; [reflexivity|].
  cbn [map filter fst]. rewrite Nat.eqb_refl. cbn [map snd]. rewrite IH. reflexivity.
Qed.

Lemma sent_by_other : forall t u ms, u <> t -> sent_by t (map (pair u) ms) = [].
Proof.
  intros t u ms H. unfold sent_by. induction ms as [|m r IH]; [reflexivity|].
  cbn [map filter fst]. destruct (Nat.eqb u t) eqn:E; [apply Nat.eqb_eq in E; contradiction|]. exact IH.
Qed.

Lemma map_snd_pair : forall (t : nat) (ms : list msg), map snd (map (pair t) ms) = ms.
Proof. intros. rewrite map_map. cbn. apply map_id. Qed.

(* what a call returns when all goes well: the number of its messages *)
Definition call_ret (c : call) : N := N.of_nat (length (call_msgs c)).

(* the programs the theorems are about: plain messages (no custom sequence number, no no_increment, no SequenceReset,
   MsgSeqNum / PossDupFlag not preset, SOH- and NUL-free values) with end_of_batch at its default *)
Definition msg_ok25 (m : msg) : Prop := plain17 sc m = true /\ m_eob m = true.
Definition call_ok (c : call) : Prop :=
  match c with
  | CSend m custom noinc => custom = 0 /\ noinc = false /\ msg_ok25 m
  | CSendRef m custom noinc => custom = 0 /\ noinc = false /\ msg_ok25 m
  | CBatch l => Forall msg_ok25 l
  end.
Definition progs_ok (progs : list (list call)) : Prop := Forall (Forall call_ok) progs.
(* pm_pipeline: the by-reference overload throws there; the programs of the pipelined theorems do not use it *)
Definition no_ref (c : call) : Prop := match c with CSendRef _ _ _ => False | _ => True end.
Definition call_okp (c : call) : Prop := call_ok c /\ no_ref c.
Definition progs_okp (progs : list (list call)) : Prop := Forall (Forall call_okp) progs.
Lemma progs_okp_ok : forall progs, progs_okp progs -> progs_ok progs.
Proof.
  intros progs H. unfold progs_okp, progs_ok in *. eapply Forall_impl; [|exact H]. intros p HP.
  eapply Forall_impl; [|exact HP]. intros c [A _]. exact A.
Qed.

Lemma batch_ok : forall l, Forall msg_ok25 l ->
  Forall (fun m => plain17 sc m = true) (batch_msgs l) /\
  (batch_msgs l <> [] -> m_eob (last (batch_msgs l) (new_msg [])) = true) /\
  map norm (batch_msgs l) = l.
Proof.
  intros l H.
  assert (P : Forall (fun m => plain17 sc m = true) l) by (eapply Forall_impl; [|exact H]; intros a [A _]; exact A).
  assert (NI : map norm l = l).
  { clear P. induction H as [|m r [_ E] _ IH]; [reflexivity|]. cbn [map]. rewrite (norm_id m E), IH. reflexivity. }
  split; [|split].
  - destruct l as [|a [|b r]]; [constructor|exact P|]. apply (mark_eob_plain (a :: b :: r)). exact P.
  - intros _. destruct l as [|a [|b r]].
    + reflexivity.
    + cbn. inversion H as [|? ? [_ E] _]; exact E.
    + apply (mark_eob_last (a :: b :: r)). discriminate.
  - rewrite norm_batch. exact NI.
Qed.

Record tinv (progs : list (list call)) (c : tcfg) : Prop := {
  ti_sess : sinv (t_sess c) (map snd (t_lin c)) [] (expect s0 n0 (map snd (t_lin c)));
  ti_wire : t_wire c = map EOut (expect s0 n0 (map snd (t_lin c)));
  ti_len : length (t_threads c) = length progs;
  ti_thr : forall t th, nth_error (t_threads c) t = Some th ->
    exists p, nth_error progs t = Some p /\
              prog_msgs p = (map norm (sent_by t (t_lin c)) ++ prog_msgs (tt_prog th))%list /\
              Forall call_ok (tt_prog th) /\
              map call_ret p = (tt_rets th ++ map call_ret (tt_prog th))%list;
  ti_tid : Forall (fun x : nat * msg => (fst x < length progs)%nat) (t_lin c)
}.

Lemma tinv_init : forall progs, good s0 -> s_batch s0 = [] -> progs_ok progs -> tinv progs (tinit s0 progs).
Proof.
  intros progs G B PO. constructor; cbn [tinit t_sess t_wire t_threads t_lin map expect].
  - apply sinv_init; assumption.
  - reflexivity.
  - apply map_length.
  - intros t th E. rewrite nth_error_map in E. destruct (nth_error progs t) as [p|] eqn:EP; [|discriminate].
    cbn in E. inversion E; subst. exists p. cbn [tt_prog tt_rets sent_by filter map app].
    split; [reflexivity|]. split; [reflexivity|]. split; [|reflexivity].
    unfold progs_ok in PO. rewrite Forall_forall in PO. apply PO. eapply nth_error_In. exact EP.
  - constructor.
Qed.

(* what one critical section does to the configuration *)
Lemma tinv_cs : forall progs c t cl rest rets ms n s' evs,
  tinv progs c -> nth_error (t_threads c) t = Some (mkTT (cl :: rest) rets) ->
  Forall (fun m => plain17 sc m = true) ms -> (ms <> [] -> m_eob (last ms (new_msg [])) = true) ->
  map norm ms = call_msgs cl ->
  seq_run (t_sess c) ms = (n, s', evs) ->
  n = call_ret cl /\
  tinv progs (mkT s' (t_wire c ++ evs) (upd (t_threads c) t (mkTT rest (rets ++ [n]))) (t_lin c ++ map (pair t) ms)).
Proof.
  intros progs c t cl rest rets ms n s' evs [IS IW IL IT ID] E FP LE NM ER.
  destruct (cs17 ms (t_sess c) _ _ IS FP LE) as (s2 & ER2 & IS2).
  rewrite ER in ER2. inversion ER2; subst n s2 evs. clear ER2.
  assert (LM : length ms = length (call_msgs cl)) by (rewrite <- NM, map_length; reflexivity).
  split; [unfold call_ret; rewrite LM; reflexivity|].
  constructor; cbn [t_sess t_wire t_threads t_lin].
  - rewrite map_app, map_snd_pair, expect_app. exact IS2.
  - rewrite IW, map_app, map_snd_pair, expect_app, map_app. reflexivity.
  - rewrite length_upd. exact IL.
  - intros u th EU. destruct (Nat.eq_dec t u) as [->|NE].
    + rewrite (nth_error_upd_same _ _ _ _ _ E) in EU. inversion EU; subst th. clear EU.
      destruct (IT u _ E) as (p & EP & PM & CO & RT). exists p. cbn [tt_prog tt_rets] in *.
      split; [exact EP|]. split; [|split].
      * rewrite sent_by_app, sent_by_same, map_app, NM, <- app_assoc. exact PM.
      * inversion CO; assumption.
      * rewrite RT. cbn [map]. rewrite <- app_assoc. cbn [app]. unfold call_ret at 2. rewrite LM. reflexivity.
    + rewrite nth_error_upd_other in EU by exact NE.
      destruct (IT u th EU) as (p & EP & PM & CO & RT). exists p.
      split; [exact EP|]. split; [|split; assumption].
      rewrite sent_by_app, sent_by_other by exact NE. rewrite app_nil_r. exact PM.
  - apply Forall_app. split; [exact ID|]. apply Forall_forall. intros x IX. apply in_map_iff in IX.
    destruct IX as (m' & <- & _). cbn [fst]. rewrite <- IL. apply nth_error_Some. rewrite E. discriminate.
Qed.

Lemma tinv_step : forall progs c t, tinv progs c -> tinv progs (tstep sc now c t).
Proof.
  intros progs c t I. unfold tstep.
  destruct (nth_error (t_threads c) t) as [[[|cl rest] rets]|] eqn:E; try exact I.
  destruct (ti_thr _ _ I t _ E) as (p & EP & PM & CO & RT). cbn [tt_prog] in CO.
  inversion CO as [|? ? OK CO']; subst.
  destruct cl as [m custom noinc|m custom noinc|l].
  - destruct OK as (-> & -> & [P EB]).
    unfold send. cbn [N.eqb prep_send].
    destruct (seq_run (t_sess c) [m]) as [[n s'] evs] eqn:ER.
    destruct (tinv_cs progs c t _ rest rets [m] n s' evs I E) as [NR I']; try assumption.
    + constructor; [exact P|constructor].
    + intros _. exact EB.
    + cbn [map call_msgs]. rewrite (norm_id m EB). reflexivity.
    + cbn [call_ret call_msgs length] in NR. subst n.
      rewrite (seq_run_single _ _ _ _ ER). exact I'.
  - destruct OK as (-> & -> & [P EB]).
    unfold send. cbn [N.eqb prep_send].
    destruct (seq_run (t_sess c) [m]) as [[n s'] evs] eqn:ER.
    destruct (tinv_cs progs c t _ rest rets [m] n s' evs I E) as [NR I']; try assumption.
    + constructor; [exact P|constructor].
    + intros _. exact EB.
    + cbn [map call_msgs]. rewrite (norm_id m EB). reflexivity.
    + cbn [call_ret call_msgs length] in NR. subst n.
      rewrite (seq_run_single _ _ _ _ ER). exact I'.
  - destruct (batch_ok l OK) as (FP & LE & NM).
    rewrite send_batch_seq.
    destruct (seq_run (t_sess c) (batch_msgs l)) as [[n s'] evs] eqn:ER.
    destruct (tinv_cs progs c t _ rest rets (batch_msgs l) n s' evs I E FP LE NM ER) as [_ I']. exact I'.
Qed.

Theorem tinv_run : forall progs sched, good s0 -> s_batch s0 = [] -> progs_ok progs ->
  tinv progs (trun sc now sched (tinit s0 progs)).
Proof.
  intros progs sched G B PO. unfold trun.
  assert (H : forall sched c, tinv progs c -> tinv progs (fold_left (tstep sc now) sched c)).
  { induction sched0 as [|t r IH]; intros c I; [exact I|]. cbn [fold_left]. apply IH. apply tinv_step. exact I. }
  apply H. apply tinv_init; assumption.
Qed.

(* ================================================================================================================= *)
(* pm_pipeline                                                                                                       *)
(* ================================================================================================================= *)
Definition pc_rest (pc : ppc) : list msg := match pc with PIdle => [] | PLocked r _ => r end.

Record pinv (progs : list (list call)) (c : pcfg) : Prop := {
  pi_sess : exists pend out, sinv (p_sess c) (p_popped c) pend out /\ p_wire c = map EOut out;
  pi_queue : map snd (p_pushed c) = (p_popped c ++ p_queue c)%list;
  pi_plain : Forall (fun m => plain17 sc m = true) (p_queue c);
  pi_len : length (p_threads c) = length progs;
  pi_thr : forall t th, nth_error (p_threads c) t = Some th ->
    exists p, nth_error progs t = Some p /\
              prog_msgs p = (map norm (sent_by t (p_pushed c)) ++ pc_rest (pt_pc th) ++ prog_msgs (pt_prog th))%list /\
              Forall call_okp (pt_prog th) /\ Forall msg_ok25 (pc_rest (pt_pc th));
  (* unless some thread is in the middle of a batch, the last message pushed closes a batch *)
  pi_last : (forall t th, nth_error (p_threads c) t = Some th -> pc_rest (pt_pc th) = []) ->
            map snd (p_pushed c) = [] \/ m_eob (last (map snd (p_pushed c)) (new_msg [])) = true;
  pi_tid : Forall (fun x : nat * msg => (fst x < length progs)%nat) (p_pushed c)
}.

Lemma pinv_init : forall progs, good s0 -> s_batch s0 = [] -> progs_okp progs -> pinv progs (pinit s0 progs).
Proof.
  intros progs G B PO. constructor; cbn [pinit p_sess p_wire p_threads p_queue p_pushed p_popped map app].
  - exists [], []. split; [apply sinv_init; assumption|reflexivity].
  - reflexivity.
  - constructor.
  - apply map_length.
  - intros t th E. rewrite nth_error_map in E. destruct (nth_error progs t) as [p|] eqn:EP; [|discriminate].
    cbn in E. inversion E; subst. exists p. cbn [pt_prog pt_pc pc_rest sent_by filter map app].
    split; [reflexivity|]. split; [reflexivity|]. split; [|constructor].
    unfold progs_okp in PO. rewrite Forall_forall in PO. apply PO. eapply nth_error_In. exact EP.
  - intros _. left. reflexivity.
  - constructor.
Qed.

Lemma pinv_lock : forall progs c l, pinv progs c -> pinv progs (with_lock c l).
Proof. intros progs c l [A B C D E F H]. constructor; assumption. Qed.

(* thread t pushes q and moves on to th' *)
Lemma pinv_push : forall progs c t th th' q,
  pinv progs c -> nth_error (p_threads c) t = Some th ->
  plain17 sc q = true ->
  (pc_rest (pt_pc th) ++ prog_msgs (pt_prog th) = norm q :: pc_rest (pt_pc th') ++ prog_msgs (pt_prog th'))%list ->
  Forall call_okp (pt_prog th') -> Forall msg_ok25 (pc_rest (pt_pc th')) ->
  (pc_rest (pt_pc th') = [] -> m_eob q = true) ->
  pinv progs (with_thread (push c t q) t th').
Proof.
  intros progs c t th th' q [IS IQ IP IL IT ILA ID] E PQ EQ CO RO LQ.
  constructor; cbn [with_thread push p_sess p_wire p_threads p_queue p_pushed p_popped].
  - exact IS.
  - rewrite map_app, IQ, <- app_assoc. reflexivity.
  - apply Forall_app. split; [exact IP|]. constructor; [exact PQ|constructor].
  - rewrite length_upd. exact IL.
  - intros u thu EU. destruct (Nat.eq_dec t u) as [->|NE].
    + rewrite (nth_error_upd_same _ _ _ _ _ E) in EU. inversion EU; subst thu. clear EU.
      destruct (IT u _ E) as (p & EP & PM & _ & _). exists p.
      split; [exact EP|]. split; [|split; assumption].
      rewrite PM, EQ. change ((u, q) :: nil) with (map (pair u) [q]).
      rewrite sent_by_app, sent_by_same, map_app. cbn [map]. rewrite <- app_assoc. reflexivity.
    + rewrite nth_error_upd_other in EU by exact NE.
      destruct (IT u thu EU) as (p & EP & PM & CO' & RO'). exists p.
      split; [exact EP|]. split; [|split; assumption].
      change ((t, q) :: nil) with (map (pair t) [q]).
      rewrite sent_by_app, sent_by_other by exact NE. rewrite app_nil_r. exact PM.
  - intros AL. right. rewrite map_app. cbn [map snd]. rewrite last_app_ne by discriminate. cbn [last].
    apply LQ. apply (AL t). eapply nth_error_upd_same. exact E.
  - apply Forall_app. split; [exact ID|]. constructor; [|constructor]. cbn [fst]. rewrite <- IL.
    apply nth_error_Some. rewrite E. discriminate.
Qed.

(* thread t moves on to th' without pushing *)
Lemma pinv_move : forall progs c t th th',
  pinv progs c -> nth_error (p_threads c) t = Some th ->
  (pc_rest (pt_pc th) ++ prog_msgs (pt_prog th) = pc_rest (pt_pc th') ++ prog_msgs (pt_prog th'))%list ->
  Forall call_okp (pt_prog th') -> Forall msg_ok25 (pc_rest (pt_pc th')) ->
  (pc_rest (pt_pc th') = [] -> pc_rest (pt_pc th) = []) ->
  pinv progs (with_thread c t th').
Proof.
  intros progs c t th th' [IS IQ IP IL IT ILA ID] E EQ CO RO LQ.
  constructor; cbn [with_thread p_sess p_wire p_threads p_queue p_pushed p_popped]; try assumption.
  - rewrite length_upd. exact IL.
  - intros u thu EU. destruct (Nat.eq_dec t u) as [->|NE].
    + rewrite (nth_error_upd_same _ _ _ _ _ E) in EU. inversion EU; subst thu. clear EU.
      destruct (IT u _ E) as (p & EP & PM & _ & _). exists p.
      split; [exact EP|]. split; [|split; assumption]. rewrite PM, EQ. reflexivity.
    + rewrite nth_error_upd_other in EU by exact NE. apply IT. exact EU.
  - intros AL. apply ILA. intros u thu EU. destruct (Nat.eq_dec t u) as [->|NE].
    + rewrite E in EU. inversion EU; subst thu. apply LQ. apply (AL u). eapply nth_error_upd_same. exact E.
    + apply (AL u). rewrite nth_error_upd_other by exact NE. exact EU.
Qed.

Lemma norm_set_eob : forall b m, norm (set_eob b m) = norm m.
Proof. reflexivity. Qed.

Lemma app_step_inv : forall progs c t, pinv progs c -> pinv progs (app_step c t).
Proof.
  intros progs c t I. unfold app_step.
  destruct (nth_error (p_threads c) t) as [[prog pc rets]|] eqn:E; [|exact I].
  destruct (pi_thr _ _ I t _ E) as (p & EP & PM & CO & RO). cbn [pt_prog pt_pc] in CO, RO.
  destruct pc as [|[|m r] cnt].
  - (* between calls *)
    destruct prog as [|[m custom noinc|m custom noinc|l] rest]; [exact I| | |].
    + inversion CO as [|? ? [OK _] CO']; subst. cbn [call_ok] in OK. destruct OK as (-> & -> & [P EB]).
      apply (pinv_push progs c t _ _ _ I E); cbn [pt_pc pt_prog pc_rest prog_msgs flat_map call_msgs app prep_send N.eqb].
      * exact P.
      * rewrite (norm_id m EB). reflexivity.
      * exact CO'.
      * constructor.
      * intros _. exact EB.
    + inversion CO as [|? ? [_ NR] CO']. destruct NR.
    + inversion CO as [|? ? [OK _] CO']; subst. cbn [call_ok] in OK.
      destruct l as [|m1 [|m2 l']].
      * apply (pinv_move progs c t _ _ I E); cbn [pt_pc pt_prog pc_rest prog_msgs flat_map call_msgs app].
        -- reflexivity.
        -- exact CO'.
        -- constructor.
        -- intros _. reflexivity.
      * inversion OK as [|? ? [P EB] _]; subst.
        apply (pinv_push progs c t _ _ _ I E); cbn [pt_pc pt_prog pc_rest prog_msgs flat_map call_msgs app].
        -- exact P.
        -- rewrite (norm_id m1 EB). reflexivity.
        -- exact CO'.
        -- constructor.
        -- intros _. exact EB.
      * destruct (p_lock c); [exact I|]. apply pinv_lock.
        apply (pinv_move progs c t _ _ I E); cbn [pt_pc pt_prog pc_rest prog_msgs flat_map call_msgs app].
        -- reflexivity.
        -- exact CO'.
        -- exact OK.
        -- intro Z; discriminate.
  - (* leaving write_batch *)
    apply pinv_lock.
    apply (pinv_move progs c t _ _ I E); cbn [pt_pc pt_prog pc_rest app].
    + reflexivity.
    + exact CO.
    + constructor.
    + intros _. reflexivity.
  - (* one push inside write_batch *)
    cbn [pc_rest] in RO. inversion RO as [|? ? [P EB] RO']; subst.
    apply (pinv_push progs c t _ _ _ I E); cbn [pt_pc pt_prog pc_rest app].
    + exact P.
    + rewrite norm_set_eob, (norm_id m EB). reflexivity.
    + exact CO.
    + exact RO'.
    + intro Z. subst r. reflexivity.
Qed.

Lemma writer_step_inv : forall progs c, pinv progs c -> pinv progs (writer_step sc now c).
Proof.
  intros progs c [IS IQ IP IL IT ILA ID]. unfold writer_step.
  destruct (p_queue c) as [|m q] eqn:Q; [constructor; try assumption; rewrite Q; assumption|].
  destruct IS as (pend & out & SI & WI).
  inversion IP as [|? ? Pm IP']; subst.
  destruct (sinv_run [m] (p_sess c) _ _ _ SI) as (s' & pend' & out' & ER & SI'); [constructor; [exact Pm|constructor]|].
  cbn [length N.of_nat Pos.of_succ_nat] in ER. rewrite (seq_run_single _ _ _ _ ER).
  constructor; cbn [p_sess p_wire p_threads p_queue p_pushed p_popped]; try assumption.
  - exists pend', (out ++ out')%list. split; [exact SI'|]. rewrite WI, map_app. reflexivity.
  - rewrite IQ, <- app_assoc. reflexivity.
Qed.

Lemma pstep_inv : forall progs c a, pinv progs c -> pinv progs (pstep sc now c a).
Proof. intros progs c [|t] I; [apply writer_step_inv|apply app_step_inv]; exact I. Qed.

Theorem pinv_run : forall progs sched, good s0 -> s_batch s0 = [] -> progs_okp progs ->
  pinv progs (prun sc now sched (pinit s0 progs)).
Proof.
  intros progs sched G B PO. unfold prun.
  assert (H : forall sched c, pinv progs c -> pinv progs (fold_left (pstep sc now) sched c)).
  { induction sched0 as [|t r IH]; intros c I; [exact I|]. cbn [fold_left]. apply IH. apply pstep_inv. exact I. }
  apply H. apply pinv_init; assumption.
Qed.

(* ---- the statements ------------------------------------------------------------------------------------------------ *)
Theorem c25_threaded_lemma : forall progs sched, good s0 -> s_batch s0 = [] -> progs_ok progs ->
  let c := trun sc now sched (tinit s0 progs) in
  let lin := map snd (t_lin c) in
  t_wire c = map EOut (expect s0 n0 lin) /\
  s_next_send (t_sess c) = n0 + N.of_nat (length lin) /\
  s_batch (t_sess c) = [] /\
  sentrel n0 (infos_of s0 n0 lin) (apps s0 n0 lin) /\
  (p_attached (s_per s0) = true -> p_store (s_per (t_sess c)) = (p_store (s_per s0) ++ apps s0 n0 lin)%list) /\
  (p_attached (s_per s0) = false -> p_store (s_per (t_sess c)) = p_store (s_per s0)) /\
  length (t_threads c) = length progs /\
  (forall t th, nth_error (t_threads c) t = Some th ->
     exists p, nth_error progs t = Some p /\
               prog_msgs p = (map norm (sent_by t (t_lin c)) ++ prog_msgs (tt_prog th))%list /\
               map call_ret p = (tt_rets th ++ map call_ret (tt_prog th))%list).
Proof.
  intros progs sched G B PO c lin. destruct (tinv_run progs sched G B PO) as [[G' FR' B' SR NS S1 S0 OUT FL] IW IL IT _].
  fold c in G', FR', B', SR, NS, S1, S0, IW, IL, IT. fold lin in SR, NS, S1, S0, IW.
  split; [exact IW|]. split; [exact NS|]. split; [exact B'|]. split; [exact SR|]. split; [exact S1|]. split; [exact S0|].
  split; [exact IL|]. intros t th E. destruct (IT t th E) as (p & EP & PM & _ & RT). exists p. repeat split; assumption.
Qed.

Lemma quiescent_threads : forall c, quiescent c = true ->
  p_queue c = [] /\ forall t th, nth_error (p_threads c) t = Some th -> pt_prog th = [] /\ pt_pc th = PIdle.
Proof.
  intros c Q. unfold quiescent in Q. apply andb_true_iff in Q. destruct Q as [Q1 Q2].
  split; [destruct (p_queue c); [reflexivity|discriminate]|].
  intros t th E. rewrite forallb_forall in Q1. specialize (Q1 th (nth_error_In _ _ E)).
  unfold pt_done in Q1. destruct (pt_prog th); [|discriminate]. destruct (pt_pc th); [split; reflexivity|discriminate].
Qed.

Theorem c25_pipelined_lemma : forall progs sched, good s0 -> s_batch s0 = [] -> progs_okp progs ->
  let c := prun sc now sched (pinit s0 progs) in
  (* what the writer has popped is a prefix of what has been pushed: wire order = queue order *)
  map snd (p_pushed c) = (p_popped c ++ p_queue c)%list /\
  (exists pend out,
     p_wire c = map EOut out /\ s_batch (p_sess c) = concat (map (encode sc) pend) /\
     (out ++ map (encode sc) pend)%list = expect s0 n0 (p_popped c) /\
     (p_popped c = [] \/ m_eob (last (p_popped c) (new_msg [])) = true -> pend = [])) /\
  s_next_send (p_sess c) = n0 + N.of_nat (length (p_popped c)) /\
  sentrel n0 (infos_of s0 n0 (p_popped c)) (apps s0 n0 (p_popped c)) /\
  (p_attached (s_per s0) = true -> p_store (s_per (p_sess c)) = (p_store (s_per s0) ++ apps s0 n0 (p_popped c))%list) /\
  (p_attached (s_per s0) = false -> p_store (s_per (p_sess c)) = p_store (s_per s0)) /\
  length (p_threads c) = length progs /\
  (forall t th, nth_error (p_threads c) t = Some th ->
     exists p, nth_error progs t = Some p /\
               prog_msgs p = (map norm (sent_by t (p_pushed c)) ++ pc_rest (pt_pc th) ++ prog_msgs (pt_prog th))%list) /\
  (* all threads done and the queue drained: everything submitted is on the wire, nothing is buffered *)
  (quiescent c = true ->
     p_popped c = map snd (p_pushed c) /\
     p_wire c = map EOut (expect s0 n0 (map snd (p_pushed c))) /\ s_batch (p_sess c) = [] /\
     forall t p, nth_error progs t = Some p -> prog_msgs p = map norm (sent_by t (p_pushed c))).
Proof.
  intros progs sched G B PO c. destruct (pinv_run progs sched G B PO) as [IS IQ IP IL IT ILA _].
  fold c in IS, IQ, IP, IL, IT, ILA. destruct IS as (pend & out & [G' FR' B' SR NS S1 S0 OUT FL] & WI).
  split; [exact IQ|]. split; [exists pend, out; repeat split; assumption|].
  split; [exact NS|]. split; [exact SR|]. split; [exact S1|]. split; [exact S0|]. split; [exact IL|].
  split; [intros t th E; destruct (IT t th E) as (p & EP & PM & _ & _); exists p; split; assumption|].
  intro Q. destruct (quiescent_threads c Q) as [QE TH].
  assert (PP : p_popped c = map snd (p_pushed c)) by (rewrite IQ, QE, app_nil_r; reflexivity).
  assert (PE : pend = []).
  { apply FL. rewrite PP. apply ILA. intros t th E. destruct (TH t th E) as [_ PC]. rewrite PC. reflexivity. }
  subst pend. cbn [map concat] in *. rewrite app_nil_r in OUT.
  split; [exact PP|]. split; [rewrite WI, OUT, PP; reflexivity|]. split; [exact B'|].
  intros t p EP.
  assert (LT : (t < length (p_threads c))%nat) by (rewrite IL; apply nth_error_Some; rewrite EP; discriminate).
  destruct (nth_error (p_threads c) t) as [th|] eqn:E; [|apply nth_error_None in E; lia].
  destruct (IT t th E) as (p' & EP' & PM & _ & _). rewrite EP in EP'. inversion EP'; subst p'.
  destruct (TH t th E) as [PR PC]. rewrite PM, PR, PC. cbn [pc_rest prog_msgs flat_map app]. rewrite app_nil_r. reflexivity.
Qed.

(* the non-obvious case as a statement of its own: a batch b1..bk (k >= 2) of one thread into which a single
   message x of another thread has been queued after the first i messages (0 < i < k, or i = 0).  The writer
   buffers b1..bi, x (end_of_batch = true) flushes the buffer with b1..bi in front of it, the rest of the batch is
   buffered and flushed by bk: all k + 1 messages go out, each once, in queue order, numbered consecutively, and the
   application messages among them are stored under their numbers with their wire bytes. *)
Theorem c25_foreign_in_batch_lemma : forall s l1 l2 x,
  good s -> s_batch s = [] -> frame s0 s ->
  Forall msg_ok25 (l1 ++ l2) -> msg_ok25 x -> l2 <> [] ->
  let queue := (map (set_eob false) l1 ++ [x] ++ mark_eob l2)%list in
  let n := s_next_send s in
  exists s',
    seq_run s queue = (N.of_nat (length l1 + 1 + length l2), s', map EOut (expect s0 n (l1 ++ [x] ++ l2))) /\
    s_batch s' = [] /\ s_next_send s' = n + N.of_nat (length l1 + 1 + length l2) /\
    (p_attached (s_per s) = true -> p_store (s_per s') = (p_store (s_per s) ++ apps s0 n (l1 ++ [x] ++ l2))%list).
Proof.
  intros s l1 l2 x G B FR OK [Px Ex] NE queue n. subst n.
  pose proof FR as (F1 & F2 & F3 & F4 & F5).
  apply Forall_app in OK. destruct OK as [OK1 OK2].
  assert (P1 : Forall (fun m => plain17 sc m = true) (map (set_eob false) l1)).
  { clear - OK1. induction OK1 as [|m r [P _] _ IH]; cbn [map]; constructor; [exact P|exact IH]. }
  assert (P2 : Forall (fun m => plain17 sc m = true) (mark_eob l2)).
  { apply mark_eob_plain. eapply Forall_impl; [|exact OK2]. intros a [A _]. exact A. }
  assert (FP : Forall (fun m => plain17 sc m = true) queue).
  { subst queue. apply Forall_app. split; [exact P1|]. constructor; [exact Px|exact P2]. }
  assert (B0 : s_batch s = concat (map (encode sc) [])) by (rewrite B; reflexivity).
  destruct (seq17 queue s [] [] [] (s_next_send s) FP G B0 (sr_nil _)) as (s' & pend' & out & ER & _ & _ & B' & _ & EQ & NX & T1 & _ & LE & _);
    [cbn; lia|].
  assert (LQ : length queue = (length l1 + 1 + length l2)%nat).
  { subst queue. rewrite !app_length, map_length, mark_eob_length. cbn [length]. lia. }
  assert (PE : pend' = []).
  { apply LE.
    - subst queue. destruct (map (set_eob false) l1); discriminate.
    - subst queue. rewrite app_assoc. rewrite last_app_ne by (destruct l2; [contradiction|discriminate]).
      apply mark_eob_last. exact NE. }
  subst pend'. cbn [map app] in EQ. rewrite app_nil_r in EQ.
  assert (EX : expect s (s_next_send s) queue = expect s0 (s_next_send s) (l1 ++ [x] ++ l2)).
  { rewrite (expect_frame s0 s) by assumption. subst queue. rewrite !expect_app. rewrite map_length. cbn [length].
    rewrite expect_mark. f_equal.
    clear. generalize (s_next_send s). induction l1 as [|m r IH]; intro k; cbn [map expect]; [reflexivity|]. rewrite wire_at_eob, IH. reflexivity. }
  exists s'. rewrite LQ in ER, NX. rewrite <- EQ, EX in ER.
  split; [exact ER|]. split; [exact B'|]. split; [exact NX|].
  intro A. rewrite (T1 A). f_equal. rewrite (apps_frame s0 s) by assumption.
  subst queue. rewrite !apps_app. rewrite map_length. cbn [length]. f_equal; [|f_equal].
  - clear. generalize (s_next_send s). induction l1 as [|m r IH]; intro k; cbn [map apps]; [reflexivity|].
    cbn [set_eob m_type]. rewrite wire_at_eob, IH. reflexivity.
  - clear. generalize (s_next_send s + N.of_nat (length l1) + N.of_nat 1). induction l2 as [|m r IH]; intro k; cbn [mark_eob apps]; [reflexivity|].
    cbn [set_eob m_type]. rewrite wire_at_eob, IH. reflexivity.
Qed.

End Seq.
