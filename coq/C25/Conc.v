(* C25: concurrent senders on one session -- the interleaving model of DESIGN section 4, "Concurrency
   group".  A thread is a program counter plus locals; `step` executes the next ATOMIC action of one
   thread; a schedule is a list of thread names; `run sched c = fold_left step sched c`.  The theorems
   (C25/ConcProofs.v) quantify over all schedules, thread counts and programs.

   Transcribed from include/fix8/connection.hpp (FIXWriter::write, write_batch), runtime/connection.cpp
   (FIXWriter::execute), runtime/session.cpp (Session::send, send_batch; send_process is Sess.Session's).

   pm_thread (and pm_coro: the writer side is the same code):
       write(m)        = { f8_scoped_spin_lock guard(_con_spl); return _session.send_process(m); }
       write_batch(v)  = size 0: return 0; size 1: write(front);
                         else { guard(_con_spl); for each m: m->set_end_of_batch(last); send_process(m) }
     Everything a call does to shared state happens inside ONE critical section of _con_spl, so a call is one
     atomic step: `tstep` applies Sess.Session.send / send_batch.
   pm_pipeline:
       write(m)        = _msg_queue.try_push(m)                     -- NO lock
       write_batch(v)  = size 0: return 0; size 1: write(front);
                         else { guard(_con_spl); for each m: m->set_end_of_batch(last); _msg_queue.try_push(m) }
       writer thread   = loop { pop(m) (blocks); send_process(m) }
     Atomic actions: taking _con_spl (a thread that finds it taken spins: its step changes nothing), ONE push,
     releasing _con_spl, and the writer's pop + send_process (the send state of the session is touched by the
     writer thread only in this mode, so the pop and the call that follows it are one step).  The queue is an
     abstract FIFO with atomic push / pop: C30 (Props/Properties_C30.v: c30_ticket_order, c30_reservation_order,
     c30_no_loss, c30_at_most_once) is the licence -- elements leave in the order in which their pushes reserved
     a slot, each exactly once; the push of this model is that reservation.
     Single writes do not take _con_spl: a foreign message can land between the messages of a batch.

   The batch buffer (Session::_batchmsgs_buffer, s_batch of Sess.Session) is a plain byte LIST here: appending and
   handing it to the socket have no capacity, no reallocation and no pointers.  That the std::string behind it is used
   correctly when an append makes it reallocate (reserve(10 * (FIX8_MAX_MSG_LENGTH + HEADER_CALC_OFFSET)) = 82,240 bytes in
   the constructors, doubling afterwards) is a fact about the C++ the tie has to show: the generators of the suite read
   the reserve expression from runtime/session.cpp and build batches whose total size is just below / exactly at / just
   above that capacity (and twice it), with the crossing on the last or on an inner message.

   NOT modelled / not provable here (ASSUMPTIONS of the suite): that pthread_spin_lock gives mutual exclusion,
   that the queue primitives are atomic, that there are no data races.

   t_lin / p_pushed / p_popped are ghost components (the order in which messages went through send_process /
   the queue); nothing reads them.  No proofs in this file. *)
From Coq Require Import NArith ZArith List Bool.
From F8 Require Import Sess.Bytes Sess.Msg Sess.Persist Sess.Session.
Import ListNotations.
Local Open Scope N_scope.

(* One call of an application thread.  The PUBLIC send entry points of Session (include/fix8/session.hpp) and the
   atomic step each of them is in pm_thread / pm_coro -- every one of them reaches send_process through FIXWriter and
   takes FIXWriter::_con_spl first, so every one is ONE critical section; a path into send_process that does not take
   the lock contradicts this model and shows up in the tie as numbers used twice / skipped:
     send(Message*, destroy, custom_seqnum, no_increment)  -> Connection::write(Message*, destroy) -> FIXWriter::write(Message*, bool)
                                                              = { guard(_con_spl); send_process }            CSend   (destroy only
                                                              decides who deletes the message afterwards: not observable here)
     send(Message&, custom_seqnum, no_increment)           -> Connection::write(Message&) -> FIXWriter::write(Message&)
                                                              = { guard(_con_spl); send_process }            CSendRef
     send_batch(vector<Message*>, destroy)                 -> Connection::write_batch -> FIXWriter::write_batch
                                                              = size 0 / size 1 -> write / { guard(_con_spl); loop } CBatch
   (send_process itself is public too -- "called from the connection" -- but is not an application entry point.)
   In pm_pipeline send(Message* ..) and send_batch push to the queue (see below) and FIXWriter::write(Message&) throws
   f8Exception("cannot send message directly if pipelining"): nothing is queued, the caller gets the exception. *)
Inductive call :=
| CSend (m : msg) (custom : N) (noinc : bool)        (* Session::send(Message*, destroy, custom_seqnum, no_increment) *)
| CSendRef (m : msg) (custom : N) (noinc : bool)     (* Session::send(Message&, custom_seqnum, no_increment) *)
| CBatch (l : list msg).                             (* Session::send_batch(vector, destroy) *)

Definition call_msgs (c : call) : list msg :=
  match c with CSend m _ _ => [m] | CSendRef m _ _ => [m] | CBatch l => l end.

Definition prog_msgs (p : list call) : list msg := flat_map call_msgs p.

(* Session::send: the flags are put on the message before Connection::write *)
Definition prep_send (m : msg) (custom : N) (noinc : bool) : msg :=
  let m1 := if custom =? 0 then m else set_custom custom m in
  if noinc then set_noinc true m1 else m1.

Fixpoint upd {A : Type} (l : list A) (i : nat) (x : A) : list A :=
  match l, i with
  | [], _ => []
  | _ :: r, O => x :: r
  | a :: r, S j => a :: upd r j x
  end.

Definition is_last {A : Type} (r : list A) : bool := match r with [] => true | _ => false end.

(* write_batch: msg->set_end_of_batch(itr == litr) for every message of a vector of two or more *)
Fixpoint mark_eob (l : list msg) : list msg :=
  match l with
  | [] => []
  | m :: r => set_eob (is_last r) m :: mark_eob r
  end.
(* the messages of a send_batch call as they reach send_process / the queue *)
Definition batch_msgs (l : list msg) : list msg :=
  match l with
  | [] => []
  | [m] => [m]
  | _ => mark_eob l
  end.

Section Model.
Variable sc : schema.
Variable now : Z.                (* the clock is frozen while the threads run *)

(* ================================================================================================= *)
(* pm_thread                                                                                         *)
(* ================================================================================================= *)
Record tthread := mkTT { tt_prog : list call; tt_rets : list N }.

Record tcfg := mkT {
  t_sess : sess;
  t_wire : list event;                 (* what reached the socket, in order *)
  t_threads : list tthread;
  t_lin : list (nat * msg)             (* ghost: (thread, message as handed to send_process) in the order of the
                                          critical sections *)
}.

Definition tinit (s : sess) (progs : list (list call)) : tcfg :=
  mkT s [] (map (fun p => mkTT p []) progs) [].

Definition tstep (c : tcfg) (t : nat) : tcfg :=
  match nth_error (t_threads c) t with
  | Some (mkTT (cl :: rest) rets) =>
    match cl with
    | CSend m custom noinc =>
      let '(ok, s', evs) := send sc now (t_sess c) m custom noinc in
      mkT s' (t_wire c ++ evs) (upd (t_threads c) t (mkTT rest (rets ++ [if ok then 1 else 0]))) (t_lin c ++ [(t, prep_send m custom noinc)])
    | CSendRef m custom noinc =>
      (* the by-reference overload: same flags, same lock, same send_process *)
      let '(ok, s', evs) := send sc now (t_sess c) m custom noinc in
      mkT s' (t_wire c ++ evs) (upd (t_threads c) t (mkTT rest (rets ++ [if ok then 1 else 0]))) (t_lin c ++ [(t, prep_send m custom noinc)])
    | CBatch l =>
      let '(n, s', evs) := send_batch sc now (t_sess c) l in
      mkT s' (t_wire c ++ evs) (upd (t_threads c) t (mkTT rest (rets ++ [n]))) (t_lin c ++ map (pair t) (batch_msgs l))
    end
  | _ => c                              (* no such thread, or it has finished *)
  end.

Definition trun (sched : list nat) (c : tcfg) : tcfg := fold_left tstep sched c.

(* ================================================================================================= *)
(* pm_pipeline                                                                                       *)
(* ================================================================================================= *)
Inductive actor := Writer | App (t : nat).

(* where an application thread stands: between calls, or inside write_batch holding _con_spl with
   `rest` still to push and `cnt` pushed *)
Inductive ppc := PIdle | PLocked (rest : list msg) (cnt : N).

(* pt_rets: what the calls returned; None = the call threw (send(Message&) while pipelining) *)
Record pthread := mkPT { pt_prog : list call; pt_pc : ppc; pt_rets : list (option N) }.

Record pcfg := mkP {
  p_sess : sess;
  p_wire : list event;
  p_threads : list pthread;
  p_queue : list msg;                  (* head = next to pop *)
  p_lock : option nat;                 (* holder of _con_spl *)
  p_pushed : list (nat * msg);         (* ghost: (thread, message as queued) in push order *)
  p_popped : list msg                  (* ghost: messages in pop order, as they were queued *)
}.

Definition pinit (s : sess) (progs : list (list call)) : pcfg :=
  mkP s [] (map (fun p => mkPT p PIdle []) progs) [] None [] [].

Definition with_thread (c : pcfg) (t : nat) (th : pthread) : pcfg :=
  mkP (p_sess c) (p_wire c) (upd (p_threads c) t th) (p_queue c) (p_lock c) (p_pushed c) (p_popped c).
Definition push (c : pcfg) (t : nat) (queued : msg) : pcfg :=
  mkP (p_sess c) (p_wire c) (p_threads c) (p_queue c ++ [queued]) (p_lock c) (p_pushed c ++ [(t, queued)]) (p_popped c).
Definition with_lock (c : pcfg) (l : option nat) : pcfg :=
  mkP (p_sess c) (p_wire c) (p_threads c) (p_queue c) l (p_pushed c) (p_popped c).

Definition app_step (c : pcfg) (t : nat) : pcfg :=
  match nth_error (p_threads c) t with
  | None => c
  | Some (mkPT prog pc rets) =>
    match pc with
    | PLocked [] cnt =>
      (* leaving write_batch: the guard releases _con_spl, the count is returned *)
      with_lock (with_thread c t (mkPT prog PIdle (rets ++ [Some cnt]))) None
    | PLocked (m :: r) cnt =>
      (* msg->set_end_of_batch(itr == litr); _msg_queue.try_push(msg); ++result *)
      with_thread (push c t (set_eob (is_last r) m)) t (mkPT prog (PLocked r (cnt + 1)) rets)
    | PIdle =>
      match prog with
      | [] => c
      | CSend m custom noinc :: rest =>
        with_thread (push c t (prep_send m custom noinc)) t (mkPT rest PIdle (rets ++ [Some 1]))
      | CSendRef _ _ _ :: rest => with_thread c t (mkPT rest PIdle (rets ++ [None]))     (* throws; nothing queued *)
      | CBatch [] :: rest => with_thread c t (mkPT rest PIdle (rets ++ [Some 0]))
      | CBatch [m] :: rest => with_thread (push c t m) t (mkPT rest PIdle (rets ++ [Some 1]))
      | CBatch l :: rest =>
        match p_lock c with
        | None => with_lock (with_thread c t (mkPT rest (PLocked l 0) rets)) (Some t)
        | Some _ => c                    (* spins on _con_spl *)
        end
      end
    end
  end.

Definition writer_step (c : pcfg) : pcfg :=
  match p_queue c with
  | [] => c                              (* pop blocks *)
  | m :: q =>
    let '(_, s', evs) := send_process sc now (p_sess c) m in
    mkP s' (p_wire c ++ evs) (p_threads c) q (p_lock c) (p_pushed c) (p_popped c ++ [m])
  end.

Definition pstep (c : pcfg) (a : actor) : pcfg :=
  match a with
  | Writer => writer_step c
  | App t => app_step c t
  end.

Definition prun (sched : list actor) (c : pcfg) : pcfg := fold_left pstep sched c.

(* every application thread has run to completion and the writer has drained the queue *)
Definition pt_done (th : pthread) : bool :=
  match pt_prog th, pt_pc th with [], PIdle => true | _, _ => false end.
Definition quiescent (c : pcfg) : bool :=
  forallb pt_done (p_threads c) && match p_queue c with [] => true | _ => false end.

End Model.
