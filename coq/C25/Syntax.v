(* C25: concrete syntax of the case line (harness/h_c25.cpp): a session history (coq/Sess/Wire.v) extended by
     CONC [y=<seed>] [tick=<n>] <prog> <prog> ...        prog = call ('+' call)* | '-'
        call = S:<msgspec>                send(Message*, destroy = true, custom, no_increment)
             | P:<msgspec>                send(Message*, destroy = false, custom, no_increment)
             | R:<msgspec>                send(Message&, custom, no_increment)          (the by-reference overload)
             | B:<msgspec>(;<msgspec>)*   send_batch(vector, destroy = true)
             | C:<msgspec>(;<msgspec>)*   send_batch(vector, destroy = false)
        (destroy only decides who deletes the message: S/P and B/C are the same call for the model)
   and of the result line (steps separated by " | ").  No proofs in this file. *)
From Coq Require Import NArith ZArith List Bool.
From F8 Require Import Sess.Bytes Sess.Msg Sess.Persist Sess.Session Sess.Wire.
Import ListNotations.
Local Open Scope N_scope.

(* Linear-time splitting.  (Sess.Bytes.split_on reverses every token with List.rev, which is quadratic: fine for the
   tokens of a session history, not for a CONC operation or a STORE item of a megabyte.)  Same results. *)
Fixpoint fsplit_aux (sep : N) (l cur : bytes) : list bytes :=
  match l with
  | [] => [rev_append cur []]
  | b :: l' => if b =? sep then rev_append cur [] :: fsplit_aux sep l' [] else fsplit_aux sep l' (b :: cur)
  end.
Definition fsplit (sep : N) (l : bytes) : list bytes := fsplit_aux sep l [].
(* Msg.tokens with the linear splitting (a Text field of several kilobytes is one token) *)
Definition ftokens (raw : bytes) : list (bytes * bytes) :=
  map (fun t => match cut ch_eq t with (a, Some b) => (a, b) | (a, None) => (a, []) end) (removelast (fsplit SOH raw)).
Definition fwords (l : bytes) : list bytes := filter (fun t => match t with [] => false | _ => true end) (fsplit 32 l).

(* Wire.parse_spec with the linear splitting (a msgspec can carry a Text field of several kilobytes) *)
Fixpoint fparse_spec_parts (l : list bytes) (sp : msgspec) : msgspec :=
  match l with
  | [] => sp
  | [] :: l' => fparse_spec_parts l' sp
  | (c :: rest) :: l' =>
    let bad := mkSpec (ms_type sp) (ms_hdr sp) (ms_body sp) (ms_custom sp) (ms_noinc sp) false in
    if c =? 99 then
      match parse_num rest with
      | Some n => fparse_spec_parts l' (mkSpec (ms_type sp) (ms_hdr sp) (ms_body sp) n (ms_noinc sp) (ms_ok sp))
      | None => bad
      end
    else if c =? 110 then fparse_spec_parts l' (mkSpec (ms_type sp) (ms_hdr sp) (ms_body sp) (ms_custom sp) true (ms_ok sp))
    else if c =? 72 then
      match parse_fieldlist (fsplit 44 rest) with
      | Some fl => fparse_spec_parts l' (mkSpec (ms_type sp) (ms_hdr sp ++ fl)%list (ms_body sp) (ms_custom sp) (ms_noinc sp) (ms_ok sp))
      | None => bad
      end
    else if c =? 66 then
      match parse_fieldlist (fsplit 44 rest) with
      | Some fl => fparse_spec_parts l' (mkSpec (ms_type sp) (ms_hdr sp) (ms_body sp ++ fl)%list (ms_custom sp) (ms_noinc sp) (ms_ok sp))
      | None => bad
      end
    else fparse_spec_parts l' sp
  end.

Definition fparse_spec (l : bytes) : msgspec :=
  match fsplit 47 l with
  | t :: parts => fparse_spec_parts parts (mkSpec t [] [] 0 false true)
  | [] => mkSpec [] [] [] 0 false false
  end.

Inductive cspec :=
| SSend (sp : msgspec)
| SRef (sp : msgspec)
| SBatch (l : list msgspec)
| SBad.                                  (* not "S:.." / "B:..": the harness throws std::invalid_argument *)

Inductive cop :=
| CPlain (o : op) (pipeline : option bool)      (* a START says which process model follows: Some true = pm_pipeline *)
| CConc (progs : list (list cspec)) (inbound : list bytes).    (* inbound: what the counterparty streams in meanwhile *)

Definition k_CONC : bytes := [67;79;78;67].
Definition k_START : bytes := [83;84;65;82;84].
Definition k_pm_pipeline : bytes := [112;109;61;112;105;112;101;108;105;110;101].     (* pm=pipeline *)

Fixpoint has_prefix (p l : bytes) : bool :=
  match p, l with
  | [], _ => true
  | a :: p', b :: l' => (a =? b) && has_prefix p' l'
  | _ :: _, [] => false
  end.

(* <kind>@<n>:...  the release point is for the harness only (when the thread makes the call, not what the call is) *)
Fixpoint drop_to_colon (l : bytes) : bytes :=
  match l with
  | [] => []
  | 58 :: _ => l
  | _ :: r => drop_to_colon r
  end.
Definition strip_release (t : bytes) : bytes :=
  match t with
  | k :: 64 :: rest => k :: drop_to_colon rest
  | _ => t
  end.

Definition parse_call (t0 : bytes) : cspec :=
  match strip_release t0 with
  | 83 :: 58 :: rest => SSend (fparse_spec rest)                        (* S: *)
  | 80 :: 58 :: rest => SSend (fparse_spec rest)                        (* P: *)
  | 82 :: 58 :: rest => SRef (fparse_spec rest)                         (* R: *)
  | 66 :: 58 :: rest => SBatch (map fparse_spec (fsplit 59 rest))       (* B: *)
  | 67 :: 58 :: rest => SBatch (map fparse_spec (fsplit 59 rest))       (* C: *)
  | _ => SBad
  end.

Definition is_opt (t : bytes) : bool := has_prefix [121;61] t || has_prefix [116;105;99;107;61] t || has_prefix [105;110;61] t.   (* y=  tick=  in= *)
Definition inbound_of (args : list bytes) : list bytes :=
  flat_map (fun t => if has_prefix [105;110;61] t
                     then map unhex (filter (fun h => match h with [] => false | _ => true end) (fsplit 44 (skipn 3 t)))
                     else []) args.

Definition parse_prog (t : bytes) : list cspec :=
  if beq t [45] then [] else map parse_call (fsplit 43 t).

Definition parse_cop (l : bytes) : cop :=
  match fwords l with
  | name :: args =>
    if beq name k_CONC then CConc (map parse_prog (filter (fun t => negb (is_opt t)) args)) (inbound_of args)
    else if beq name k_START then CPlain (parse_op l) (Some (existsb (beq k_pm_pipeline) args))
    else if beq name [83;69;78;68] then                            (* SEND: Wire.parse_op's reading, linear *)
      CPlain (match args with a :: _ => OSend (fparse_spec a) | _ => OBad end) None
    else if beq name [66;65;84;67;72] then                         (* BATCH *)
      CPlain (match args with a :: _ => OBatch (map fparse_spec (fsplit 59 a)) | _ => OBad end) None
    else CPlain (parse_op l) None
  | [] => CPlain (parse_op l) None
  end.

Definition parse_cline (line : bytes) : list cop := map parse_cop (fsplit 124 line).

(* the steps of a result line as text: split on '|' and drop the blanks around it *)
Definition drop_sp_front (l : bytes) : bytes := match l with 32 :: r => r | _ => l end.
Definition drop_sp_back (l : bytes) : bytes :=
  match rev_append l [] with 32 :: r => rev_append r [] | _ => l end.
Fixpoint trim_steps (l : list bytes) (first : bool) : list bytes :=
  match l with
  | [] => []
  | [x] => [if first then x else drop_sp_front x]
  | x :: r => drop_sp_back (if first then x else drop_sp_front x) :: trim_steps r false
  end.
Definition split_steps (raw : bytes) : list bytes := trim_steps (fsplit 124 raw) true.

(* Wire.parse_trace with the linear splitting (same grammar: Wire.parse_item / split_items / parse_store) *)
Definition fparse_item (l : bytes) : item :=
  match fwords l with
  | name :: args =>
    if beq name [79;85;84] then match args with [h] => IEvent (EOut (unhex h)) | _ => IEvent (ENote l) end
    else if beq name [83;84;79;82;69] then IStore (parse_store args)
    else if beq name [79;85;84;82;65;87] then match args with [h] => IEvent (EOutRaw (unhex h)) | _ => IEvent (ENote l) end
    else parse_item l
  | [] => IEvent (ENote l)
  end.

Fixpoint fsplit_items (l : list item) (evs : list event) : step :=
  match l with
  | [] => mkStep (rev_append evs []) None
  | IEvent e :: l' => fsplit_items l' (e :: evs)
  | IState n :: ISeq a b :: ICtrl c :: IStore st :: _ => mkStep (rev_append evs []) (Some (mkSnap n a b c st))
  | IState n :: ISeq a b :: ICtrl c :: _ => mkStep (rev_append evs []) (Some (mkSnap n a b c []))
  | _ :: l' => fsplit_items l' (ENote [63] :: evs)
  end.

Definition fparse_step (l0 : bytes) : step :=
  let l := drop_sp_back (drop_sp_front l0) in        (* the blanks around the '|' that separates steps *)
  match l with
  | [] => mkStep [] None
  | _ => fsplit_items (map fparse_item (fsplit 59 l)) []
  end.

Definition fparse_trace (line : bytes) : trace := map fparse_step (fsplit 124 line).
