(* Types and arithmetic every extracted model must contain so that ocaml/prelude.ml type-checks. *)
From Coq Require Import NArith ZArith List.
Definition keep_types (p : positive) (n : N) (z : Z) (k : nat) (l : list N) (o : option Z) (b : bool)
  : positive * N * Z * nat :=
  (Pos.succ p, N.add (N.mul n n) (N.div n (N.modulo n n)),
   Z.opp (Z.add (Z.mul z z) (Z.div z (Z.modulo z z))), S k).
