(* C03 proofs, part 2: the decoding loops.
   One induction on the fuel for the three mutually recursive functions of decode_group (dg_all)
   and one for MessageBase::decode's loop (dec_loop_good) establish at the same time
     - no extract_element call returns XOOB (repaired code: any input, ExtractProofs),
     - OOB site_null_group is excluded by the closedness of the schema tables,
     - Diverge is never returned (repaired decode_group),
     - the fixed-width extractor (repaired by ce1e2cc) returns no OOB and terminates the tag, so the
       tag buffer always reads as a C string (no uninitialised read),
     - Fuel is never returned when the fuel covers the remaining input
       (every turn of every loop consumes at least two bytes of it). *)
From Coq Require Import NArith ZArith List Bool Lia.
From F8 Require Import Codec.Bytes Codec.Meta Codec.Extract Codec.Decode
                       C03.Bounds C03.ExtractProofs.
Import ListNotations.
Local Open Scope N_scope.

(* ------------------------------------------------------------------ schema tables *)
Lemma gm_ok_unfold ts subs d :
  gm_ok (GM ts subs d) = closed_b ts subs && negb (existsb t_present ts) && subs_ok subs.
Proof.
  cbn [gm_ok]. f_equal. unfold subs_ok.
  induction subs as [|[k g] r IH]; [reflexivity|]. cbn [forallb snd]. rewrite <- IH. reflexivity.
Qed.

Lemma find_sub_ok : forall ss f g, subs_ok ss = true -> find_sub ss f = Some g -> gm_ok g = true.
Proof.
  unfold subs_ok. induction ss as [|[k g'] r IH]; intros f g H Hf; [discriminate|].
  cbn [forallb snd] in H. apply andb_true_iff in H. destruct H as [H1 H2].
  cbn [find_sub] in Hf. destruct (k =? f); [injection Hf as <-; exact H1|]. exact (IH _ _ H2 Hf).
Qed.

Lemma find_trait_in : forall ts f tr, find_trait ts f = Some tr -> In tr ts /\ t_fnum tr = f.
Proof.
  induction ts as [|x r IH]; intros f tr H; [discriminate|].
  cbn [find_trait] in H. destruct (t_fnum x =? f) eqn:E.
  - injection H as <-. apply N.eqb_eq in E. split; [left; reflexivity|exact E].
  - destruct (IH _ _ H) as [H1 H2]. split; [right; exact H1|exact H2].
Qed.

Lemma closed_find ts subs f tr :
  closed_b ts subs = true -> find_trait ts f = Some tr -> t_group tr = true ->
  is_some (find_sub subs f) = true.
Proof.
  intros Hc Hf Hg. destruct (find_trait_in _ _ _ Hf) as [Hin Hn].
  unfold closed_b in Hc. rewrite forallb_forall in Hc. specialize (Hc _ Hin).
  rewrite Hg, Hn in Hc. exact Hc.
Qed.

Lemma present_find ts f tr : find_trait ts f = Some tr -> t_present tr = true -> existsb t_present ts = true.
Proof.
  intros Hf Hp. destruct (find_trait_in _ _ _ Hf) as [Hin _].
  apply existsb_exists. exists tr. auto.
Qed.

Lemma closed_upd v subs : forall ts f, closed_b (upd_trait (set_present v) ts f) subs = closed_b ts subs.
Proof.
  unfold closed_b. induction ts as [|x r IH]; intros f; [reflexivity|].
  cbn [upd_trait]. destruct (t_fnum x =? f); cbn [forallb]; [reflexivity|]. rewrite IH. reflexivity.
Qed.

(* the object invariant: its trait table is closed w.r.t. its nested classes, these are ok *)
Definition mb_ok (m : mbase) : bool := closed_b (mb_fp m) (mb_subs m) && subs_ok (mb_subs m).

Lemma mb_ok_same m m' : mb_fp m' = mb_fp m -> mb_subs m' = mb_subs m -> mb_ok m' = mb_ok m.
Proof. unfold mb_ok. intros -> ->. reflexivity. Qed.

Lemma mb_ok_field m f p v : mb_ok (mark_present (add_field_decoder m f p v) f) = mb_ok m.
Proof.
  destruct m. unfold mb_ok, mark_present, add_field_decoder.
  cbn [mb_fp mb_subs with_fp with_pos with_fields mb_fields mb_pos]. rewrite closed_upd. reflexivity.
Qed.

Lemma mb_ok_unknown m u : mb_ok (with_unknown m u) = mb_ok m.
Proof. destruct m. reflexivity. Qed.

Lemma mb_ok_groups m g : mb_ok (with_groups m g) = mb_ok m.
Proof. destruct m. reflexivity. Qed.

Lemma fp_field m f p v : mb_subs (mark_present (add_field_decoder m f p v) f) = mb_subs m.
Proof. destruct m. reflexivity. Qed.

Lemma mb_ok_closed m f tr : mb_ok m = true -> find_trait (mb_fp m) f = Some tr ->
  t_group tr = true -> is_some (find_sub (mb_subs m) f) = true.
Proof.
  unfold mb_ok. intros H. apply andb_true_iff in H. destruct H as [H _]. apply closed_find. exact H.
Qed.

Lemma mb_ok_group_elem gm : gm_ok gm = true ->
  mb_ok (create_group gm false) = true /\
  existsb t_present (mb_fp (create_group gm false)) = false.
Proof.
  destruct gm as [ts subs d]. rewrite gm_ok_unfold. intros H.
  apply andb_true_iff in H. destruct H as [H H4]. apply andb_true_iff in H. destruct H as [H1 H2].
  unfold mb_ok, create_group. cbn [mb_fp mb_subs g_traits g_subs].
  rewrite H1, H4. split; [reflexivity|]. apply negb_true_iff in H2. exact H2.
Qed.

(* ------------------------------------------------------------------ results *)
Section Good.
Variable bd : bool.   (* are the sizes assumed sane (fsize <= |from|)? *)

Definition rgood {A} (nofuel : Prop) (post : A -> Prop) (r : res A) : Prop :=
  match r with
  | Ok a => post a
  | Exc _ => True
  | OOB s => bd = false
  | Diverge => False
  | Fuel => ~ nofuel
  end.

Lemma rgood_weaken {A} (P P' : Prop) (Q Q' : A -> Prop) r :
  rgood P Q r -> (P' -> P) -> (forall a, Q a -> Q' a) -> rgood P' Q' r.
Proof. destruct r; cbn; auto. Qed.
End Good.

(* the offset advances, by no more than what remains of an input of L bytes *)
Definition adv (L off off' : N) : Prop := off <= off' /\ off' - off <= L - off.
Definition post_elem (L : N) (grp : mbase) (off : N) (x : mbase * N * N * stop) : Prop :=
  let '(_, _, off', why) := x in
  adv L off off' /\ (why = SDup -> off + 2 <= off' \/ existsb t_present (mb_fp grp) = true).
Definition post_grp (L : N) (m : mbase) (off : N) (x : mbase * N) : Prop :=
  let '(m', off') := x in adv L off off' /\ mb_fp m' = mb_fp m /\ mb_subs m' = mb_subs m.
Definition post_opt (m : mbase) (off : N) (x : mbase * N) : Prop :=
  let '(m', off') := x in off <= off' /\ mb_fp m' = mb_fp m /\ mb_subs m' = mb_subs m.
Ltac rg := cbv beta iota delta [rgood post_elem post_grp post_opt snd fst].
Tactic Notation "rg" "in" hyp(H) := cbv beta iota delta [rgood post_elem post_grp post_opt snd fst] in H.

(* ------------------------------------------------------------------ the loops *)
Section Loops.
Variable c : ctx.
Variable cp : caps.
Variable from : list N.
Variable fsize : N.
Hypothesis Hct : MAX_FLD_LENGTH <= cap_tag cp.
Hypothesis Hcv : MAX_FLD_LENGTH <= cap_val cp.
Variable bd : bool.     (* are the sizes sane (fsize <= |from|)?  false: statements about Fuel only *)
Hypothesis Hfs : bd = true -> fsize <= lenN from.

Notation adv := (adv (lenN from)).

Lemma adv_refl off : adv off off.
Proof. unfold adv. lia. Qed.
Lemma adv_trans a b d : adv a b -> adv b d -> adv a d.
Proof. unfold adv. lia. Qed.

Lemma tok_at_cases off :
  (exists tag val r, tok_at cp from fsize off = XOk tag val r /\ 2 <= r /\ r <= lenN from - off)
  \/ (exists t v, tok_at cp from fsize off = XFail t v)
  \/ (bd = false /\ exists s, tok_at cp from fsize off = XOOB s).
Proof.
  unfold tok_at. destruct (extract_element (skipN off from) (fsize - off) (cap_tag cp) (cap_val cp)) as [t v r|t v|s] eqn:E.
  - left. exists t, v, r. split; [reflexivity|]. apply extract_element_ok in E. rewrite lenN_skipN in E. lia.
  - right. left. eauto.
  - right. right. destruct bd eqn:Eb; [|eauto]. exfalso. revert E.
    apply extract_element_safe.
    + unfold MAX_FLD_LENGTH in *. lia.
    + unfold MAX_FLD_LENGTH in *. lia.
    + rewrite lenN_skipN. pose proof (Hfs eq_refl). lia.
Qed.

Notation post_elem := (post_elem (lenN from)).
Notation post_grp := (post_grp (lenN from)).

(* one-step unfoldings of the mutual fixpoint (cbn does not refold its recursive calls) *)
Notation dgE := (dg_elem c cp from fsize).
Notation dgL := (dg_loop c cp from fsize).
Notation dgG := (decode_group c cp from fsize).
Lemma dg_elem_S fuel' grp pos off : dgE (S fuel') grp pos off =
  if off <? fsize then
    match tok_at cp from fsize off with
    | XOOB s => OOB s
    | XFail _ _ => Ok (grp, pos, off, SStall)
    | XOk tag val result =>
      let tv32 := fast_atoi_u32 tag in
      let tv := tv32 mod 65536 in
      match find_trait (mb_fp grp) tv with
      | None => if pos =? 0 then Exc (EMissingGroupField tv32) else Ok (grp, pos, off, SForeign)
      | Some tr =>
          if t_present tr then Ok (grp, pos, off, SDup)
          else if (pos =? 0) && negb (getPos tr =? 1) then Exc (EMissingGroupField tv32)
          else match find_be (c_fields c) tv with
          | None => Ok (grp, pos, off, SForeign)
          | Some _ =>
            let off1 := off + result in
            let pos1 := pos + 1 in
            let v := cstr val in
            let g1 := mark_present (add_field_decoder grp tv pos1 v) tv in
            if t_group tr && has_group_count_c c tv v then
              match dgG fuel' g1 tv off1 with
              | Ok (g2, off2) => dgE fuel' g2 pos1 off2
              | Exc e => Exc e | OOB s => OOB s | Diverge => Diverge | Fuel => Fuel
              end
            else dgE fuel' g1 pos1 off1
          end
      end
    end
  else Ok (grp, pos, off, SEnd).
Proof. reflexivity. Qed.

Lemma dg_loop_S fuel' gm els off : dgL (S fuel') gm els off =
  if off <? fsize then
    match dgE fuel' (create_group gm false) 0 off with
    | Exc e => Exc e | OOB s => OOB s | Diverge => Diverge | Fuel => Fuel
    | Ok (grp, pos, off', why) =>
      match mb_fields grp with
      | [] => Ok (els, off')
      | _ :: _ =>
        match find_missing (mb_fp grp) with
        | Some f => Exc (EMissingMandatory f)
        | None =>
          let els' := els ++ [grp] in
          match why with
          | SForeign => Ok (els', off')
          | SEnd => Ok (els', off')
          | SDup => dgL fuel' gm els' off'
          | SStall => Ok (els', off')
          end
        end
      end
    end
  else Ok (els, off).
Proof. reflexivity. Qed.

Lemma decode_group_S fuel' m f off : dgG (S fuel') m f off =
  match find_add_group m f with
  | Exc e => Exc e | OOB s => OOB s | Diverge => Diverge | Fuel => Fuel
  | Ok (m1, gm) =>
    let els0 := match map_find f (mb_groups m1) with Some l => l | None => [] end in
    match dgL fuel' gm els0 off with
    | Ok (els, off') => Ok (with_groups m1 (map_set f els (mb_groups m1)), off')
    | Exc e => Exc e | OOB s => OOB s | Diverge => Diverge | Fuel => Fuel
    end
  end.
Proof. reflexivity. Qed.

Lemma dg_all : forall fuel,
  (forall grp pos off, mb_ok grp = true ->
     rgood bd (2 * (lenN from - off) + 1 <= N.of_nat fuel) (post_elem grp off)
           (dg_elem c cp from fsize fuel grp pos off)) /\
  (forall gm els off, gm_ok gm = true ->
     rgood bd (2 * (lenN from - off) + 2 <= N.of_nat fuel) (fun x => adv off (snd x))
           (dg_loop c cp from fsize fuel gm els off)) /\
  (forall m f off, mb_ok m = true -> is_some (find_sub (mb_subs m) f) = true ->
     rgood bd (2 * (lenN from - off) + 3 <= N.of_nat fuel) (post_grp m off)
           (decode_group c cp from fsize fuel m f off)).
Proof.
  induction fuel as [|fuel' IH].
  { repeat split; intros; cbn [dg_elem dg_loop decode_group]; rg; lia. }
  destruct IH as (IH1 & IH2 & IH3).
  split; [|split].
  - (* dg_elem *)
    intros grp pos off Hok. rewrite dg_elem_S; cbv zeta.
    destruct (off <? fsize); [|rg; split; [apply adv_refl|discriminate]].
    destruct (tok_at_cases off) as [(tag & val & r & Ht & Hr2 & HrR)|[(t & v & Ht)|(Hbd & s & Ht)]]; rewrite Ht;
      [|rg; split; [apply adv_refl|discriminate]|rg; exact Hbd].
    destruct (find_trait (mb_fp grp) (fast_atoi_u32 tag mod 65536)) as [tr|] eqn:Ef.
    2:{ destruct (pos =? 0); rg; [exact I|split; [apply adv_refl|discriminate]]. }
    destruct (t_present tr) eqn:Ep.
    { rg. split; [apply adv_refl|]. intros _. right. exact (present_find _ _ _ Ef Ep). }
    destruct ((pos =? 0) && negb (getPos tr =? 1)); [exact I|].
    destruct (find_be (c_fields c) (fast_atoi_u32 tag mod 65536)); [|rg; split; [apply adv_refl|discriminate]].
    set (tv := fast_atoi_u32 tag mod 65536) in *.
    set (g1 := mark_present (add_field_decoder grp tv (pos + 1) (cstr val)) tv).
    assert (Hg1 : mb_ok g1 = true) by (unfold g1; rewrite mb_ok_field; exact Hok).
    assert (Hadv1 : adv off (off + r)) by (unfold DecodeProofs.adv; lia).
    destruct (t_group tr && has_group_count_c c tv (cstr val)) eqn:Eg.
    + apply andb_true_iff in Eg. destruct Eg as [Eg _].
      assert (Hsub : is_some (find_sub (mb_subs g1) tv) = true).
      { unfold g1. rewrite fp_field. exact (mb_ok_closed _ _ _ Hok Ef Eg). }
      specialize (IH3 g1 tv (off + r) Hg1 Hsub).
      destruct (decode_group c cp from fsize fuel' g1 tv (off + r)) as [[g2 off2]| | | |]; rg in IH3; rg; try exact IH3.
      * destruct IH3 as (Ha2 & Hfp & Hsb).
        assert (Hg2 : mb_ok g2 = true) by (rewrite (mb_ok_same g1 g2 Hfp Hsb); exact Hg1).
        specialize (IH1 g2 (pos + 1) off2 Hg2).
        destruct (dg_elem c cp from fsize fuel' g2 (pos + 1) off2) as [[[[g3 p3] o3] w3]| | | |]; rg in IH1; rg; try exact IH1.
        { destruct IH1 as [Ha3 _]. split; [exact (adv_trans _ _ _ Hadv1 (adv_trans _ _ _ Ha2 Ha3))|].
          intros _. left. unfold DecodeProofs.adv in *. lia. }
        { unfold DecodeProofs.adv in *. lia. }
      * lia.
    + specialize (IH1 g1 (pos + 1) (off + r) Hg1).
      destruct (dg_elem c cp from fsize fuel' g1 (pos + 1) (off + r)) as [[[[g3 p3] o3] w3]| | | |]; rg in IH1; rg; try exact IH1.
      * destruct IH1 as [Ha3 _]. split; [exact (adv_trans _ _ _ Hadv1 Ha3)|].
        intros _. left. unfold DecodeProofs.adv in *. lia.
      * lia.
  - (* dg_loop *)
    intros gm els off Hgm. rewrite dg_loop_S; cbv zeta.
    destruct (off <? fsize); [|rg; apply adv_refl].
    destruct (mb_ok_group_elem gm Hgm) as (Hok & Hnp).
    specialize (IH1 (create_group gm false) 0 off Hok).
    destruct (dg_elem c cp from fsize fuel' (create_group gm false) 0 off) as [[[[grp pos] off'] why]| | | |];
      rg in IH1; rg; try exact IH1; [|lia].
    destruct IH1 as [Ha Hd].
    destruct (mb_fields grp); [exact Ha|].
    destruct (find_missing (mb_fp grp)); [exact I|].
    destruct why; rg; try exact Ha.
    destruct (Hd eq_refl) as [Hd2|Hd2]; [|rewrite Hnp in Hd2; discriminate].
    specialize (IH2 gm (els ++ [grp]) off' Hgm).
    destruct (dg_loop c cp from fsize fuel' gm (els ++ [grp]) off') as [[els2 off2]| | | |]; rg in IH2; rg; try exact IH2.
    + exact (adv_trans _ _ _ Ha IH2).
    + unfold DecodeProofs.adv in *. lia.
  - (* decode_group *)
    intros m f off Hok Hsub. rewrite decode_group_S; cbv zeta. unfold find_add_group.
    destruct (find_sub (mb_subs m) f) as [gm|] eqn:Es; [|discriminate].
    assert (Hgm : gm_ok gm = true).
    { unfold mb_ok in Hok. apply andb_true_iff in Hok. destruct Hok as [_ Hok]. exact (find_sub_ok _ _ _ Hok Es). }
    match goal with |- context [dg_loop c cp from fsize fuel' gm ?e off] => specialize (IH2 gm e off Hgm);
      destruct (dg_loop c cp from fsize fuel' gm e off) as [[els off']| | | |] end; rg in IH2; rg; try exact IH2; [|lia].
    destruct m. cbn. auto.
Qed.

Lemma decode_group_good fuel m f off :
  mb_ok m = true -> is_some (find_sub (mb_subs m) f) = true ->
  rgood bd (2 * (lenN from - off) + 3 <= N.of_nat fuel) (post_grp m off)
        (decode_group c cp from fsize fuel m f off).
Proof. intros H1 H2. exact (proj2 (proj2 (dg_all fuel)) m f off H1 H2). Qed.

(* ------------------------------------------------------------------ MessageBase::decode *)
Variable permissive : bool.
Variable gfuel : nat.
Hypothesis Hg : 2 * lenN from <= N.of_nat gfuel + 1.

Lemma dec_finish_good P pm m off pos lvp lvo :
  rgood bd P (fun _ : mbase * N => True) (dec_finish pm m off pos lvp lvo).
Proof. unfold dec_finish. destruct (find_missing (mb_fp m)); rg; exact I. Qed.

Lemma opt_group_good m tr tv v off :
  mb_ok m = true -> (t_group tr = true -> is_some (find_sub (mb_subs m) tv) = true) ->
  lenN from - off + 2 <= lenN from ->
  rgood bd True (post_opt m off) (opt_group c cp from fsize gfuel m tr tv v off).
Proof.
  intros Hok Hsub Hoff. unfold opt_group.
  destruct (t_group tr && has_group_count_c c tv v) eqn:Eg; [|rg; auto using N.le_refl].
  apply andb_true_iff in Eg. destruct Eg as [Eg _].
  pose proof (decode_group_good gfuel m tv off Hok (Hsub Eg)) as H.
  destruct (decode_group c cp from fsize gfuel m tv off) as [[m' off']| | | |]; rg in H; rg.
  - unfold DecodeProofs.adv in H. tauto.
  - exact I.
  - exact H.
  - exact H.
  - lia.
Qed.

Lemma dec_loop_good : forall fuel m off pos lvp lvo tb,
  mb_ok m = true ->
  rgood bd (lenN from - off + 1 <= N.of_nat fuel) (fun _ => True)
        (dec_loop c cp from fsize permissive gfuel fuel m off pos lvp lvo tb).
Proof.
  induction fuel as [|fuel' IH]; intros m off pos lvp lvo tb Hok; [cbn [dec_loop]; rg; lia|].
  cbn [dec_loop].
  destruct (off <=? fsize); [|apply dec_finish_good].
  destruct (tok_at_cases off) as [(tag & val & r & Ht & Hr2 & HrR)|[(t & v & Ht)|(Hbd & s & Ht)]]; rewrite Ht;
    [|apply dec_finish_good|rg; exact Hbd].
  (* every continuation of the loop starts at an offset >= off + r *)
  assert (Hnext : forall m' off' pos' lvp' lvo' tb', mb_ok m' = true -> off + r <= off' ->
            rgood bd (lenN from - off + 1 <= N.of_nat (S fuel')) (fun _ => True)
                  (dec_loop c cp from fsize permissive gfuel fuel' m' off' pos' lvp' lvo' tb')).
  { intros m' off' pos' lvp' lvo' tb' Hm' Ho'.
    eapply rgood_weaken; [apply (IH m' off' pos' lvp' lvo' tb' Hm')| |auto]. lia. }
  set (tv := fast_atoi_u16 tag) in *.
  destruct (find_trait (mb_fp m) tv) as [tr|] eqn:Ef.
  2:{ destruct permissive; [|apply dec_finish_good].
      destruct lvp; apply Hnext; try (rewrite mb_ok_unknown; exact Hok); lia. }
  destruct (t_present tr).
  { destruct (t_auto tr); [apply Hnext; [exact Hok|lia]|exact I]. }
  destruct (find_be (c_fields c) tv); [|exact I].
  set (pos1 := (pos + 1) mod 4294967296).
  set (m1 := mark_present (add_field_decoder m tv pos1 (cstr val)) tv).
  assert (Hm1 : mb_ok m1 = true) by (unfold m1; rewrite mb_ok_field; exact Hok).
  assert (Hs1 : t_group tr = true -> is_some (find_sub (mb_subs m1) tv) = true).
  { intros Eg. unfold m1. rewrite fp_field. exact (mb_ok_closed _ _ _ Hok Ef Eg). }
  pose proof (opt_group_good m1 tr tv (cstr val) (off + r) Hm1 Hs1 ltac:(lia)) as Ho.
  destruct (opt_group c cp from fsize gfuel m1 tr tv (cstr val) (off + r)) as [[m2 off2]| | | |];
    rg in Ho; try (rg; first [exact Ho | exact I | tauto]).
  destruct Ho as (Ho2 & Hfp2 & Hsb2).
  assert (Hm2 : mb_ok m2 = true) by (rewrite (mb_ok_same m1 m2 Hfp2 Hsb2); exact Hm1).
  destruct (negb (t_ftype tr =? ft_Length) || (tv =? Common_BodyLength)) eqn:El.
  { apply Hnext; [exact Hm2|lia]. }
  destruct (MAX_FLD_LENGTH - 1 <? fast_atoi_u32 val) eqn:Evs; [exact I|].
  destruct (extract_element_fixed_width (skipN off2 from) (fsize - off2) (fast_atoi_u32 val) (cap_tag cp) (cap_val cp))
    as [tag2 val2 result2|t2 v2|s2] eqn:Efw.
  3:{ rg. destruct bd eqn:Eb; [|reflexivity]. exfalso. revert Efw. apply extract_fw_safe.
      - unfold MAX_FLD_LENGTH in *. lia.
      - unfold MAX_FLD_LENGTH in *. lia.
      - rewrite lenN_skipN. pose proof (Hfs eq_refl). lia. }
  2:{ exact I. }
  destruct (cstr_known (tagbuf_after_fw tag2 (tagbuf_after tag tb))) as [tagstr|] eqn:Eck;
    [|exfalso; exact (cstr_known_terminated _ _ Eck)].
  set (tv2 := fast_atoi_u16 tagstr).
  destruct (find_trait (mb_fp m2) tv2) as [tr2|] eqn:Ef2.
  2:{ destruct permissive; [|apply dec_finish_good].
      destruct lvp; apply Hnext; try (rewrite mb_ok_unknown; exact Hm2); lia. }
  destruct (negb (t_ftype tr2 =? ft_data) || negb (tv + 1 =? tv2)).
  { apply Hnext; [exact Hm2|lia]. }
  destruct (find_be (c_fields c) tv2); [|exact I].
  set (pos2 := (pos1 + 1) mod 4294967296).
  set (m3 := mark_present (add_field_decoder m2 tv2 pos2 (cstr val2)) tv2).
  assert (Hm3 : mb_ok m3 = true) by (unfold m3; rewrite mb_ok_field; exact Hm2).
  assert (Hs3 : t_group tr2 = true -> is_some (find_sub (mb_subs m3) tv2) = true).
  { intros Eg. unfold m3. rewrite fp_field. exact (mb_ok_closed _ _ _ Hm2 Ef2 Eg). }
  pose proof (opt_group_good m3 tr2 tv2 (cstr val2) (off2 + result2) Hm3 Hs3 ltac:(lia)) as Ho3.
  destruct (opt_group c cp from fsize gfuel m3 tr2 tv2 (cstr val2) (off2 + result2)) as [[m4 off4]| | | |];
    rg in Ho3; try (rg; first [exact Ho3 | exact I | tauto]).
  destruct Ho3 as (Ho4 & Hfp4 & Hsb4).
  apply Hnext; [rewrite (mb_ok_same m3 m4 Hfp4 Hsb4); exact Hm3|lia].
Qed.

End Loops.
