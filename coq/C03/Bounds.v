(* C03 -- memory safety and totality of the codec: the executable side.

   The instrumented codec itself is coq/Codec (extract_element & co. take the capacities of the
   caller's buffers, the decoders return Ok / Exc / OOB site / Diverge / Fuel).  Since /repo d48d8ce
   extract_element fails instead of writing past its buffers, since a0d41df decode_group leaves its
   loop on an empty element, since ce1e2cc extract_element_fixed_width is bounded and terminates the
   tag; the pre-repair functions are kept in coq/Codec as *_orig.
   This file adds what C03 needs on top of the codec model, no proofs:

     is_bytes                           hypothesis on the input
     gm_ok, part_ok, c03_wf             the schema conditions (checked on the dumped metadata by the
                                        driver at every run)
     safe                               the result class the theorems speak about
     atoi_ub, dt_ub, msg_ub ...         standing UB sites (F09, date/time parsers) as predicates on the
                                        texts the decoder converts
     dec_class / enc_class              the class of a run in the vocabulary of the tie

   Capacities (verified against the pinned source):
     extract_header   char tag[MAX_MSGTYPE_FIELD_LEN = 32], val[FIX8_MAX_FLD_LENGTH = 2048]  message.cpp:58
     Message::factory char mtype[32] {}, len[32] {}                                         message.cpp:229
     decode           char tag[2048], val[2048]                                             message.cpp:95
     decode_group     char tag[2048], val[2048]                                             message.cpp:177
     encode(f8String&) char output[FIX8_MAX_MSG_LENGTH + HEADER_CALC_OFFSET = 8224]         message.cpp:503 *)
From Coq Require Import NArith ZArith List Bool.
From F8 Require Import Codec.Bytes Codec.Meta Codec.Extract Codec.Decode Codec.Encode.
Import ListNotations.
Local Open Scope N_scope.

(* ------------------------------------------------------------------ inputs *)
(* a string of bytes *)
Definition is_bytes (l : list N) : bool := forallb (fun b => b <? 256) l.

(* ------------------------------------------------------------------ schema conditions *)
Definition is_some {A} (o : option A) : bool := match o with Some _ => true | None => false end.
(* every group trait of the table has its nested class (create_nested_group != 0) *)
Definition closed_b (ts : list trait) (subs : list (N * gmeta)) : bool :=
  forallb (fun t => negb (t_group t) || is_some (find_sub subs (t_fnum t))) ts.
(* a group class: closed, no trait statically present, recursively *)
Fixpoint gm_ok (g : gmeta) : bool :=
  match g with
  | GM ts subs _ =>
    closed_b ts subs && negb (existsb t_present ts) &&
    (fix sl (ss : list (N * gmeta)) : bool :=
       match ss with [] => true | (_, sg) :: r => gm_ok sg && sl r end) subs
  end.
Definition subs_ok (ss : list (N * gmeta)) : bool := forallb (fun p => gm_ok (snd p)) ss.
(* header / trailer / message body tables *)
Definition part_ok (g : gmeta) : bool := closed_b (g_traits g) (g_subs g) && subs_ok (g_subs g).
Definition nonnil {A} (l : list A) : bool := match l with [] => false | _ => true end.
(* well-formed schema: closed tables, and no message class with an empty MsgType *)
Definition c03_wf (c : ctx) : bool :=
  part_ok (c_header c) && part_ok (c_trailer c) &&
  forallb (fun md => part_ok (md_meta md) && nonnil (md_type md)) (c_msgs c).
(* ------------------------------------------------------------------ the pseudo entries of the message table
   The generated table ctx._bme that Message::factory searches with the received MsgType text also
   holds two rows that are not messages: "header" and "trailer", whose creator is
   reinterpret_cast<Message *>(new header / new trailer) (Minst::_gen::_make<T, R>; F8MetaCntx takes
   _mk_hdr / _mk_trl from them).  A received 35=header / 35=trailer makes factory create such an
   object and call Message::decode on it (msg->_header->... on a MessageBase that has no _header):
   type confusion, observed as heap-buffer-overflow reads or runaway loops.  Repaired by /repo 408434c:
   factory refuses the two texts with InvalidMessage like any unknown type.  The codec model's message
   table (c_msgs, from the metadata dump) lists real messages only, i.e. Codec.Decode.factory IS the
   repaired behaviour; c03_factory_orig puts the old lookup of the two pseudo rows in front of it. *)
Definition pseudo_header : list N := [104; 101; 97; 100; 101; 114].          (* "header" *)
Definition pseudo_trailer : list N := [116; 114; 97; 105; 108; 101; 114].    (* "trailer" *)
Definition is_pseudo (mtype : list N) : bool := list_eqb mtype pseudo_header || list_eqb mtype pseudo_trailer.
Definition site_pseudo_entry : N := 10.
(* does factory find a pseudo row for this input?  (the MsgType text extract_header delivers) *)
Definition c03_pseudo (cp : caps) (bytes : list N) : bool :=
  match extract_header bytes (cap_htag cp) (cap_hval cp) (cap_len cp) (cap_mtype cp) with
  | Ok (hlen, _, mtype) => negb (hlen =? 0) && is_pseudo (cstr mtype)
  | _ => false
  end.
Definition c03_factory_orig (c : ctx) (cp : caps) (bytes : list N) (no_chksum permissive : bool) : res message :=
  if c03_pseudo cp bytes then OOB site_pseudo_entry else factory c cp bytes no_chksum permissive.
Definition c03_factory : ctx -> caps -> list N -> bool -> bool -> res message := factory.

(* ------------------------------------------------------------------ results *)
Definition safe {A} (r : res A) : Prop := match r with Ok _ | Exc _ => True | _ => False end.
(* ------------------------------------------------------------------ fast_atoi<int> UB (F09)
   Since /repo 1965750 fast_atoi accumulates in the UNSIGNED type of the same width
   (retval = retval * 10 + (U)(ch - '0'), the sign applied at the end as U(0) - retval): unsigned
   arithmetic wraps, nothing is left that UBSan could report; the value is Codec.Bytes.fast_atoi_i32.
   Before (a8219b1 .. 1965750), kept as *_orig: the accumulation was done in int,
     after a leading '-':  retval = retval * 10 - (ch - '0'),  otherwise  retval = retval * 10 + (ch - '0'),
   and retval * 10 or the addition / subtraction leaving [-2^31, 2^31) was signed overflow (UB),
   reachable with 10 or more digits (2147483648, -2147483649, 99999999999). *)
Local Open Scope Z_scope.
Definition in_i32 (z : Z) : bool := (-2147483648 <=? z) && (z <? 2147483648).
Definition atoi_ub_step (neg : bool) (st : bool * Z) (ch : N) : bool * Z :=
  let '(ub, r) := st in
  if ub then (true, r)
  else
    let m := r * 10 in
    if negb (in_i32 m) then (true, r)
    else let d := schar ch - 48 in
         let s := if neg then m - d else m + d in
         if in_i32 s then (false, s) else (true, r).
Definition atoi_run_orig (s : list N) : bool * Z :=
  match cstr s with
  | c :: rest => if (c =? 45)%N then fold_left (atoi_ub_step true) rest (false, 0)
                 else fold_left (atoi_ub_step false) (c :: rest) (false, 0)
  | [] => (false, 0)
  end.
Definition atoi_ub_orig (s : list N) : bool := fst (atoi_run_orig s).
Definition atoi_val_orig (s : list N) : Z := snd (atoi_run_orig s).
(* the repaired routine: no UB on any text *)
Definition atoi_ub (s : list N) : bool := false.
Definition atoi_val (s : list N) : Z := fast_atoi_i32 s.
(* canonical int texts: an optional '-' and at most 9 digits (c03_fast_atoi_safe_partial) *)
Definition small_int_text (s : list N) : bool :=
  match cstr s with
  | c :: rest => if (c =? 45)%N then forallb is_digit rest && (lenN rest <=? 9)%N
                 else forallb is_digit (c :: rest) && (lenN (c :: rest) <=? 9)%N
  | [] => true
  end.
Local Open Scope N_scope.

(* calc_chksum (F09 / D4): *reinterpret_cast<const uint32_t*>(from + ii), ii = 0, 4, .. < elen - elen % 8:
   a misaligned load (UB) as soon as one word is read from a buffer that is not 4-aligned.
   Message::encode calls it on output + 32 - hlen, i.e. practically always misaligned; the alignment
   check is switched off in the harness builds except for the CHKSUM op of h_c03. *)
Definition chksum_ub_orig (misalign len : N) : bool := negb (misalign mod 4 =? 0) && (8 <=? len).
(* since /repo 9d9ce26 the words are loaded with memcpy: no alignment requirement any more *)
Definition chksum_ub (misalign len : N) : bool := false.

(* ------------------------------------------------------------------ date/time parsers (field.hpp)
   parse_decimal(begin, len, to):  while (len-- > 0) to = to * 10 + (next char - '0');   (since /repo
   da4ab8c; before: (to << 3) + (to << 1) + ..., a shift of a negative value after a char below '0').
   It reads len chars whatever they are.  date_time_parse / time_parse / date_parse read FIXED
   positions of the text (beyond its NUL when it is too short: stale bytes of val[], not modelled
   -> None); time_to_epoch clamps the month to 0..11 for the mon_days lookup since da4ab8c (before:
   index out of bounds for a month outside 01..13) and computes the seconds in time_t since 4d1009d.
   What remains: the product with Tickval::billion is a signed 64-bit multiplication.
   dt_ub ty v = Some true: UBSan reports UB; Some false: none; None: not determined by v alone.
   The *_orig versions are the parsers before da4ab8c. *)
Local Open Scope Z_scope.
Definition pd_step_orig (st : bool * Z) (ch : N) : bool * Z :=
  let '(ub, r) := st in
  if ub then (true, r)
  else if r <? 0 then (true, r)
  else let s := r * 10 + (schar ch - 48) in
       if in_i32 s && (r * 8 <? 4294967296) then (false, s) else (true, r).
Definition pd_step_new (st : bool * Z) (ch : N) : bool * Z :=
  let '(ub, r) := st in
  if ub then (true, r)
  else let s := r * 10 + (schar ch - 48) in
       if in_i32 (r * 10) && in_i32 s then (false, s) else (true, r).
Definition pd_step (orig : bool) := if orig then pd_step_orig else pd_step_new.
Definition pd (orig : bool) (chars : list N) : bool * Z := fold_left (pd_step orig) chars (false, 0).

Definition mon_days : list Z := [0; 31; 59; 90; 120; 151; 181; 212; 243; 273; 304; 334; 365].
Definition in_i64 (z : Z) : bool := (-9223372036854775808 <=? z) && (z <? 9223372036854775808).
(* time_to_epoch(ltm) * Tickval::billion (+ the millisecond ticks already in result):
   UB?  arguments: tm_year, tm_mon, tm_mday, tm_hour, tm_min, tm_sec, ticks accumulated so far.
   The seconds are computed in time_t since the repair 4d1009d (before: in int, signed overflow
   from 2038-01-19 on); the product with 10^9 is a 64-bit signed multiplication (overflow for
   years before 1678 / after 2262) *)
Definition tte_ub (orig : bool) (year mon mday hour min sec acc : Z) : bool :=
  if orig && ((mon <? 0) || (12 <? mon)) then true
  else
    let cmon := if orig then mon else if mon <? 0 then 0 else if 11 <? mon then 11 else mon in
    let tyears := if year =? 0 then 0 else year - 70 in
    let t0 := nth (Z.to_nat cmon) mon_days 0 + (if mday =? 0 then 0 else mday - 1) in
    let t1 := t0 + tyears * 365 in
    let t2 := t1 + Z.quot (tyears + 2) 4 in
    let tdays := if negb (year =? 0) && (Z.rem year 4 =? 0) && (mon <? 2) then t2 - 1 else t2 in
    let e := tdays * 86400 + hour * 3600 + min * 60 + sec in
    negb (in_i32 (tyears * 365) && in_i32 t1 && in_i32 t2 && in_i32 tdays && in_i64 (e * 1000000000)
          && in_i64 (acc + e * 1000000000)).
Local Open Scope N_scope.

Definition sub (l : list N) (off n : N) : list N := firstN n (skipN off l).
Definition is_now (s : list N) : bool :=
  match s with [110; 111; 119] => true | _ => false end.       (* "now" *)

Definition dt_ub_gen (orig : bool) (ty : N) (v : list N) : option bool :=
  let s := cstr v in
  let len := lenN s in
  if (len =? 0) || is_now s then Some false                     (* "initialise to now" *)
  else if ty =? ft_UTCTimestamp then
    if len <? 17 then None
    else
      let '(u1, y) := pd orig (sub s 0 4) in let '(u2, mo) := pd orig (sub s 4 2) in let '(u3, d) := pd orig (sub s 6 2) in
      let '(u4, h) := pd orig (sub s 9 2) in let '(u5, mi) := pd orig (sub s 12 2) in let '(u6, se) := pd orig (sub s 15 2) in
      let '(u7, ms) := if len =? 21 then pd orig (sub s 18 3) else (false, 0%Z) in
      let ut := if (len =? 21) || (len =? 17) then tte_ub orig (y - 1900) (mo - 1) d h mi se (ms * 1000000) else false in
      Some (u1 || u2 || u3 || u4 || u5 || u6 || u7 || ut)
  else if ty =? ft_UTCTimeOnly then
    if len <? 8 then None
    else
      let u1 := fst (pd orig (sub s 0 2)) in let u2 := fst (pd orig (sub s 3 2)) in let u3 := fst (pd orig (sub s 6 2)) in
      let u4 := if len =? 12 then fst (pd orig (sub s 9 3)) else false in
      Some (u1 || u2 || u3 || u4)
  else if (ty =? ft_UTCDateOnly) || (ty =? ft_LocalMktDate) || (ty =? ft_MonthYear) then
    if len <? 6 then None
    else
      let '(u1, y) := pd orig (sub s 0 4) in let '(u2, mo) := pd orig (sub s 4 2) in
      let '(u3, d) := if len =? 8 then pd orig (sub s 6 2) else (false, 1%Z) in
      Some (u1 || u2 || u3 || tte_ub orig (y - 1900)%Z (mo - 1)%Z d 0%Z 0%Z 0%Z 0%Z)
  else Some false.
Definition dt_ub := dt_ub_gen false.
Definition dt_ub_orig := dt_ub_gen true.

(* Field<int> built from a C string is what decode builds for the int classes ft_int .. ft_end_int *)
(* BodyLength is the exception: decode starts after the preamble and a repeated 9= is skipped
   (automatic trait); the object's value is set by factory from fast_atoi<unsigned>(len) *)
Definition val_ub (c : ctx) (f : N) (v : list N) : bool :=
  match find_be (c_fields c) f with
  | Some ty => is_int_type ty && negb (f =? Common_BodyLength) && atoi_ub v
  | None => false
  end.
(* every field object of a decoded message: _pos entries of the parts and, recursively, of the
   group elements.  Exact for runs that end in Ok: each object decode built is in the result
   (a data field decoded twice has two _pos entries). *)
Fixpoint mb_ub (c : ctx) (m : mbase) : bool :=
  match m with
  | MB _ _ _ pos groups _ =>
    existsb (fun e => val_ub c (fst (snd e)) (snd (snd e))) pos ||
    (fix gl (gs : list (N * list mbase)) : bool :=
       match gs with
       | [] => false
       | (_, els) :: r =>
         (fix el (es : list mbase) : bool :=
            match es with [] => false | e :: r' => mb_ub c e || el r' end) els || gl r
       end) groups
  end.
Definition msg_ub (c : ctx) (m : message) : bool :=
  mb_ub c (m_hdr m) || mb_ub c (m_body m) || mb_ub c (m_trl m).

(* the same walk for the date/time classes *)
Definition val_dt_ub (c : ctx) (f : N) (v : list N) : bool :=
  match find_be (c_fields c) f with
  | Some ty => match dt_ub ty v with Some true => true | _ => false end
  | None => false
  end.
Fixpoint mb_dt_ub (c : ctx) (m : mbase) : bool :=
  match m with
  | MB _ _ _ pos groups _ =>
    existsb (fun e => val_dt_ub c (fst (snd e)) (snd (snd e))) pos ||
    (fix gl (gs : list (N * list mbase)) : bool :=
       match gs with
       | [] => false
       | (_, els) :: r =>
         (fix el (es : list mbase) : bool :=
            match es with [] => false | e :: r' => mb_dt_ub c e || el r' end) els || gl r
       end) groups
  end.
Definition msg_dt_ub (c : ctx) (m : message) : bool :=
  mb_dt_ub c (m_hdr m) || mb_dt_ub c (m_body m) || mb_dt_ub c (m_trl m).

(* ------------------------------------------------------------------ classes for the tie
   DOk     the run returns a message (the driver prints its dump)
   DExc    a library exception
   DHdr    buffer overrun in extract_element called from extract_header (tag/val/len/mtype)
   DDec    buffer overrun in extract_element[_fixed_width] called from decode / decode_group
   DOther  any other OOB site of the codec model
   DHang   decode_group appends empty elements for ever
   DUb     fast_atoi<int> UB while building a field (message otherwise accepted)
   DUbDate UB in a date/time parser (parse_decimal / time_to_epoch) while building a field
   DPseudo the MsgType text names a pseudo row of the message table (type confusion in factory)
   DFuel   model artefact *)
Inductive dclass := DOk (m : message) | DExc (e : exc) | DHdr | DDec | DOther (s : N) | DHang | DUb | DUbDate | DPseudo | DFuel.

Definition is_xe_site (s : N) : bool := (s =? site_tag_write) || (s =? site_val_write) || (s =? site_read).

(* ubsan = true: the sanitized build (UB sites abort the run); false: the build without sanitizers,
   where fast_atoi<int> wraps exactly as fast_atoi_i32 does (DECW cases of the tie) *)
Definition dec_class_gen (ubsan : bool) (c : ctx) (bytes : list N) (no_chksum permissive : bool) : dclass :=
  match c03_factory c real_caps bytes no_chksum permissive with
  | Ok m => if ubsan && msg_ub c m then DUb else if ubsan && msg_dt_ub c m then DUbDate else DOk m
  | Exc e => DExc e
  | OOB s =>
      if is_xe_site s then
        match extract_header bytes (cap_htag real_caps) (cap_hval real_caps) (cap_len real_caps)
                             (cap_mtype real_caps) with
        | OOB _ => DHdr
        | _ => DDec
        end
      else if s =? site_pseudo_entry then DPseudo else DOther s
  | Diverge => DHang
  | Fuel => DFuel
  end.
Definition dec_class := dec_class_gen true.

(* encode(f8String&): EOk bytes | EExc | EOut (output[] overrun) | EOther *)
Inductive eclass := EOk (b : list N) (m : message) | EExc (e : exc) | EOut | EOther (s : N) | EHang | EFuel.
Definition enc_class (c : ctx) (m : message) : eclass :=
  match msg_encode_str c real_caps m with
  | Ok (b, m') => EOk b m'
  | Exc e => EExc e
  | OOB s => if s =? site_encode_buf then EOut else EOther s
  | Diverge => EHang
  | Fuel => EFuel
  end.
