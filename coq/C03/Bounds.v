(* C03 -- memory safety and totality of the codec: the executable side.

   The instrumented codec itself is coq/Codec (extract_element & co. take the capacities of the
   caller's buffers and return XOOB, the decoders return OOB / Diverge / Fuel).  This file adds
   what C03 needs on top of it, no proofs:

     run_ok, tok_bounded, hdr_bounded, tokens_bounded   the boolean hypothesis of the safety theorem
     gm_ok, part_ok, c03_wf                             the schema conditions (checked on the dumped
                                                        metadata by the driver at every run)
     atoi_ub, msg_ub                                    the standing UB of fast_atoi<int> (F09), as a
                                                        predicate on the texts the decoder converts
     dec_class / enc_class                              the class of a run in the vocabulary of the tie

   Capacities (verified against the pinned source):
     extract_header   char tag[MAX_MSGTYPE_FIELD_LEN = 32], val[FIX8_MAX_FLD_LENGTH = 2048]  message.cpp:58
     Message::factory char mtype[32] {}, len[32] {}                                         message.cpp:229
     decode           char tag[2048], val[2048]                                             message.cpp:95
     decode_group     char tag[2048], val[2048]                                             message.cpp:177
     encode(f8String&) char output[FIX8_MAX_MSG_LENGTH + HEADER_CALC_OFFSET = 8224]         message.cpp:503 *)
From Coq Require Import NArith ZArith List Bool.
From F8 Require Import Codec.Bytes Codec.Meta Codec.Extract Codec.Decode Codec.Encode.
Import ListNotations.
Local Open Scope N_scope.

(* ------------------------------------------------------------------ bounded token streams *)

(* Position independent bound: MessageBase::decode may restart tokenising anywhere (after a
   fixed-width data field), so the tag and the value seen from ANY offset have to fit:
     - every run of digits is shorter than tcap (a tag read from any offset is a suffix of one),
     - from every '=' fewer than vcap bytes follow before the next SOH / the end (a value read
       from any offset starts after some '=' of its SOH-free segment; the first one is the worst).
   dk = length of the digit run ending here, vk = bytes since the first '=' of the segment. *)
Fixpoint run_ok (tcap vcap dk : N) (vk : option N) (l : list N) : bool :=
  match l with
  | [] => true
  | c :: r =>
    if c =? SOH then run_ok tcap vcap 0 None r
    else
      let dk' := if is_digit c then dk + 1 else 0 in
      let vk' := match vk with
                 | Some k => Some (k + 1)
                 | None => if c =? EQC then Some 0 else None
                 end in
      (dk' <? tcap) && match vk' with Some k => k <? vcap | None => true end && run_ok tcap vcap dk' vk' r
  end.

(* the first three tokens go through extract_header's small buffers: an independent scanner *)
Fixpoint digit_run (l : list N) : N * list N :=
  match l with
  | c :: r => if is_digit c then let '(n, r') := digit_run r in (n + 1, r') else (0, l)
  | [] => (0, [])
  end.
(* length of the prefix before the first SOH, and what follows that SOH (None: no SOH) *)
Fixpoint upto_soh (l : list N) : N * option (list N) :=
  match l with
  | c :: r => if c =? SOH then (0, Some r) else let '(n, x) := upto_soh r in (n + 1, x)
  | [] => (0, None)
  end.
(* one token "digits = value SOH" at the head of l: are the digits fewer than tcap and the value
   bytes fewer than vcap; the rest after the token when there is a complete one *)
Definition tok_bounded (tcap vcap : N) (l : list N) : bool * option (list N) :=
  let '(n, r) := digit_run l in
  match r with
  | c :: r' =>
      if c =? EQC then let '(m, nx) := upto_soh r' in ((n <? tcap) && (m <? vcap), nx)
      else (n <? tcap, None)
  | [] => (n <? tcap, None)
  end.
Definition hdr_bounded (l : list N) : bool :=
  let '(b1, n1) := tok_bounded MAX_MSGTYPE_FIELD_LEN MAX_FLD_LENGTH l in
  b1 && match n1 with
        | None => true
        | Some l2 =>
          let '(b2, n2) := tok_bounded MAX_MSGTYPE_FIELD_LEN MAX_MSGTYPE_FIELD_LEN l2 in
          b2 && match n2 with
                | None => true
                | Some l3 => fst (tok_bounded MAX_MSGTYPE_FIELD_LEN MAX_MSGTYPE_FIELD_LEN l3)
                end
        end.

(* the hypothesis of c03_decode_safe_partial:
     - the input is a string of bytes shorter than 2^32 with at least the 7 trailing bytes
       "10=ddd|" factory addresses unconditionally;
     - BeginString / BodyLength / MsgType tokens: tag < 32 digits, values < 2048 / 32 / 32 bytes;
     - everywhere: every run of digits < 2048 and every value (from the first '=' after an SOH
       to the next SOH) < 2048 bytes. *)
Definition tokens_bounded (bytes : list N) : bool :=
  forallb (fun b => b <? 256) bytes && (7 <=? lenN bytes) && (lenN bytes <? 4294967296) &&
  hdr_bounded bytes && run_ok MAX_FLD_LENGTH MAX_FLD_LENGTH 0 None bytes.

(* ------------------------------------------------------------------ schema conditions *)
Definition is_some {A} (o : option A) : bool := match o with Some _ => true | None => false end.
(* every group trait of the table has its nested class (create_nested_group != 0) *)
Definition closed_b (ts : list trait) (subs : list (N * gmeta)) : bool :=
  forallb (fun t => negb (t_group t) || is_some (find_sub subs (t_fnum t))) ts.
(* a group class: closed, no trait statically present, recursively; with nh = true also: it has
   a mandatory member (the condition under which decode_group cannot hang, F08) *)
Fixpoint gm_ok (nh : bool) (g : gmeta) : bool :=
  match g with
  | GM ts subs _ =>
    closed_b ts subs && negb (existsb t_present ts) && (negb nh || is_some (find_missing ts)) &&
    (fix sl (ss : list (N * gmeta)) : bool :=
       match ss with [] => true | (_, sg) :: r => gm_ok nh sg && sl r end) subs
  end.
Definition subs_ok (nh : bool) (ss : list (N * gmeta)) : bool := forallb (fun p => gm_ok nh (snd p)) ss.
(* header / trailer / message body tables *)
Definition part_ok (nh : bool) (g : gmeta) : bool := closed_b (g_traits g) (g_subs g) && subs_ok nh (g_subs g).
Definition c03_wf_gen (nh : bool) (c : ctx) : bool :=
  part_ok nh (c_header c) && part_ok nh (c_trailer c) && forallb (fun md => part_ok nh (md_meta md)) (c_msgs c).
Definition c03_wf : ctx -> bool := c03_wf_gen false.
(* no group class without a mandatory member *)
Definition c03_nohang : ctx -> bool := c03_wf_gen true.
(* no Length-typed field other than BodyLength in a header / trailer / body table: decode never
   calls extract_element_fixed_width (whose tag buffer is not NUL-terminated) *)
Definition nolen_b (ts : list trait) : bool :=
  forallb (fun t => negb (t_ftype t =? ft_Length) || (t_fnum t =? Common_BodyLength)) ts.
Definition c03_nodata (c : ctx) : bool :=
  nolen_b (g_traits (c_header c)) && nolen_b (g_traits (c_trailer c)) &&
  forallb (fun md => nolen_b (g_traits (md_meta md))) (c_msgs c).

(* ------------------------------------------------------------------ results *)
Definition safe {A} (r : res A) : Prop := match r with Ok _ | Exc _ => True | _ => False end.
(* no access outside a buffer and no exhausted fuel.  What remains possible under tokens_bounded
   alone is named: Diverge (F08) and OOB site_uninit_tag (the fixed-width extractor leaves tag[]
   unterminated, decode then reads stack bytes never written: C06's Length/data defect) *)
Definition classified {A} (r : res A) : Prop :=
  match r with
  | Ok _ | Exc _ | Diverge => True
  | OOB s => s = site_uninit_tag
  | Fuel => False
  end.

(* ------------------------------------------------------------------ fast_atoi<int> UB (F09)
   retval = (retval << 3) + (retval << 1) + *str - '0'   on int, evaluated left to right.
   UBSan (-fsanitize=shift,signed-integer-overflow, C++11) reports
     - a left shift of a negative retval,
     - retval << 3 whose mathematical value needs more than 32 bits (C++11: a shift INTO the sign
       bit is allowed, i.e. values up to 2^32 - 1 are "representable in the unsigned type"),
     - any of the three additions leaving [-2^31, 2^31).
   Model: ub flag and the wrapped value actually computed. *)
Local Open Scope Z_scope.
Definition in_i32 (z : Z) : bool := (-2147483648 <=? z) && (z <? 2147483648).
Definition atoi_ub_step (st : bool * Z) (ch : N) : bool * Z :=
  let '(ub, r) := st in
  if ub then (true, r)
  else if r <? 0 then (true, r)
  else if 4294967296 <=? r * 8 then (true, r)
  else
    let a := to_i32 (r * 8) in
    let b := to_i32 (r * 2) in       (* r*2 < 2^32 follows *)
    let s1 := a + b in
    if negb (in_i32 s1) then (true, r)
    else let s2 := s1 + schar ch in
      if negb (in_i32 s2) then (true, r)
      else let s3 := s2 - 48 in
        if negb (in_i32 s3) then (true, r) else (false, s3).
Definition atoi_ub (s : list N) : bool := fst (fold_left atoi_ub_step (cstr s) (false, 0)).
Local Open Scope N_scope.

(* calc_chksum (F09 / D4): *reinterpret_cast<const uint32_t*>(from + ii), ii = 0, 4, .. < elen - elen % 8:
   a misaligned load (UB) as soon as one word is read from a buffer that is not 4-aligned.
   Message::encode calls it on output + 32 - hlen, i.e. practically always misaligned; the alignment
   check is switched off in the harness builds except for the CHKSUM op of h_c03. *)
Definition chksum_ub (misalign len : N) : bool := negb (misalign mod 4 =? 0) && (8 <=? len).

(* ------------------------------------------------------------------ date/time parsers (field.hpp)
   parse_decimal(begin, len, to):  while (len-- > 0) to = (to << 3) + (to << 1) + (next char - '0');
   reads len chars whatever they are; a char below '0' makes [to] negative and the next turn
   shifts a negative value (UB).  date_time_parse / time_parse / date_parse read FIXED positions
   of the text (beyond its NUL when it is too short: stale bytes of val[], not modelled -> None),
   time_to_epoch indexes mon_days[tm_mon] without a range test (index out of bounds for a month
   outside 01..13).
   dt_ub ty v = Some true: UBSan reports UB; Some false: none; None: not determined by v alone. *)
Local Open Scope Z_scope.
Definition pd_step (st : bool * Z) (ch : N) : bool * Z :=
  let '(ub, r) := st in
  if ub then (true, r)
  else if r <? 0 then (true, r)
  else let s := r * 10 + (schar ch - 48) in
       if in_i32 s && (r * 8 <? 4294967296) then (false, s) else (true, r).
Definition pd (chars : list N) : bool * Z := fold_left pd_step chars (false, 0).

Definition mon_days : list Z := [0; 31; 59; 90; 120; 151; 181; 212; 243; 273; 304; 334; 365].
Definition in_i64 (z : Z) : bool := (-9223372036854775808 <=? z) && (z <? 9223372036854775808).
(* time_to_epoch(ltm) * Tickval::billion (+ the millisecond ticks already in result):
   UB?  arguments: tm_year, tm_mon, tm_mday, tm_hour, tm_min, tm_sec, ticks accumulated so far.
   The seconds are computed in time_t since the repair 4d1009d (before: in int, signed overflow
   from 2038-01-19 on); the product with 10^9 is a 64-bit signed multiplication (overflow for
   years before 1678 / after 2262) *)
Definition tte_ub (year mon mday hour min sec acc : Z) : bool :=
  if (mon <? 0) || (12 <? mon) then true
  else
    let tyears := if year =? 0 then 0 else year - 70 in
    let t0 := nth (Z.to_nat mon) mon_days 0 + (if mday =? 0 then 0 else mday - 1) in
    let t1 := t0 + tyears * 365 in
    let t2 := t1 + Z.quot (tyears + 2) 4 in
    let tdays := if negb (year =? 0) && (Z.rem year 4 =? 0) && (mon <? 2) then t2 - 1 else t2 in
    let e := tdays * 86400 + hour * 3600 + min * 60 + sec in
    negb (in_i32 (tyears * 365) && in_i32 t1 && in_i32 t2 && in_i32 tdays && in_i64 (e * 1000000000)
          && in_i64 (acc + e * 1000000000)).
Local Open Scope N_scope.

Definition sub (l : list N) (off n : N) : list N := firstN n (skipN off l).
Definition is_now (s : list N) : bool :=
  match s with [110; 111; 119] => true | _ => false end.       (* "now" *)

Definition dt_ub (ty : N) (v : list N) : option bool :=
  let s := cstr v in
  let len := lenN s in
  if (len =? 0) || is_now s then Some false                     (* "initialise to now" *)
  else if ty =? ft_UTCTimestamp then
    if len <? 17 then None
    else
      let '(u1, y) := pd (sub s 0 4) in let '(u2, mo) := pd (sub s 4 2) in let '(u3, d) := pd (sub s 6 2) in
      let '(u4, h) := pd (sub s 9 2) in let '(u5, mi) := pd (sub s 12 2) in let '(u6, se) := pd (sub s 15 2) in
      let '(u7, ms) := if len =? 21 then pd (sub s 18 3) else (false, 0%Z) in
      let ut := if (len =? 21) || (len =? 17) then tte_ub (y - 1900) (mo - 1) d h mi se (ms * 1000000) else false in
      Some (u1 || u2 || u3 || u4 || u5 || u6 || u7 || ut)
  else if ty =? ft_UTCTimeOnly then
    if len <? 8 then None
    else
      let u1 := fst (pd (sub s 0 2)) in let u2 := fst (pd (sub s 3 2)) in let u3 := fst (pd (sub s 6 2)) in
      let u4 := if len =? 12 then fst (pd (sub s 9 3)) else false in
      Some (u1 || u2 || u3 || u4)
  else if (ty =? ft_UTCDateOnly) || (ty =? ft_LocalMktDate) || (ty =? ft_MonthYear) then
    if len <? 6 then None
    else
      let '(u1, y) := pd (sub s 0 4) in let '(u2, mo) := pd (sub s 4 2) in
      let '(u3, d) := if len =? 8 then pd (sub s 6 2) else (false, 1%Z) in
      Some (u1 || u2 || u3 || tte_ub (y - 1900)%Z (mo - 1)%Z d 0%Z 0%Z 0%Z 0%Z)
  else Some false.

(* Field<int> built from a C string is what decode builds for the int classes ft_int .. ft_end_int *)
(* BodyLength is the exception: decode starts after the preamble and a repeated 9= is skipped
   (automatic trait); the object's value is set by factory from fast_atoi<unsigned>(len) *)
Definition val_ub (c : ctx) (f : N) (v : list N) : bool :=
  match find_be (c_fields c) f with
  | Some ty => is_int_type ty && negb (f =? Common_BodyLength) && atoi_ub v
  | None => false
  end.
(* every field object of a decoded message: _pos entries of the parts and, recursively, of the
   group elements.  Exact for runs that end in Ok: each object decode built is in the result
   (a data field decoded twice has two _pos entries). *)
Fixpoint mb_ub (c : ctx) (m : mbase) : bool :=
  match m with
  | MB _ _ _ pos groups _ =>
    existsb (fun e => val_ub c (fst (snd e)) (snd (snd e))) pos ||
    (fix gl (gs : list (N * list mbase)) : bool :=
       match gs with
       | [] => false
       | (_, els) :: r =>
         (fix el (es : list mbase) : bool :=
            match es with [] => false | e :: r' => mb_ub c e || el r' end) els || gl r
       end) groups
  end.
Definition msg_ub (c : ctx) (m : message) : bool :=
  mb_ub c (m_hdr m) || mb_ub c (m_body m) || mb_ub c (m_trl m).

(* the same walk for the date/time classes *)
Definition val_dt_ub (c : ctx) (f : N) (v : list N) : bool :=
  match find_be (c_fields c) f with
  | Some ty => match dt_ub ty v with Some true => true | _ => false end
  | None => false
  end.
Fixpoint mb_dt_ub (c : ctx) (m : mbase) : bool :=
  match m with
  | MB _ _ _ pos groups _ =>
    existsb (fun e => val_dt_ub c (fst (snd e)) (snd (snd e))) pos ||
    (fix gl (gs : list (N * list mbase)) : bool :=
       match gs with
       | [] => false
       | (_, els) :: r =>
         (fix el (es : list mbase) : bool :=
            match es with [] => false | e :: r' => mb_dt_ub c e || el r' end) els || gl r
       end) groups
  end.
Definition msg_dt_ub (c : ctx) (m : message) : bool :=
  mb_dt_ub c (m_hdr m) || mb_dt_ub c (m_body m) || mb_dt_ub c (m_trl m).

(* ------------------------------------------------------------------ classes for the tie
   DOk     the run returns a message (the driver prints its dump)
   DExc    a library exception
   DHdr    buffer overrun in extract_element called from extract_header (tag/val/len/mtype)
   DDec    buffer overrun in extract_element[_fixed_width] called from decode / decode_group
   DOther  any other OOB site of the codec model
   DHang   decode_group appends empty elements for ever
   DUb     fast_atoi<int> UB while building a field (message otherwise accepted)
   DUbDate UB in a date/time parser (parse_decimal / time_to_epoch) while building a field
   DFuel   model artefact *)
Inductive dclass := DOk (m : message) | DExc (e : exc) | DHdr | DDec | DOther (s : N) | DHang | DUb | DUbDate | DFuel.

Definition is_xe_site (s : N) : bool := (s =? site_tag_write) || (s =? site_val_write) || (s =? site_read).

(* ubsan = true: the sanitized build (UB sites abort the run); false: the build without sanitizers,
   where fast_atoi<int> wraps exactly as fast_atoi_i32 does (DECW cases of the tie) *)
Definition dec_class_gen (ubsan : bool) (c : ctx) (bytes : list N) (no_chksum permissive : bool) : dclass :=
  match factory c real_caps bytes no_chksum permissive with
  | Ok m => if ubsan && msg_ub c m then DUb else if ubsan && msg_dt_ub c m then DUbDate else DOk m
  | Exc e => DExc e
  | OOB s =>
      if is_xe_site s then
        match extract_header bytes (cap_htag real_caps) (cap_hval real_caps) (cap_len real_caps)
                             (cap_mtype real_caps) with
        | OOB _ => DHdr
        | _ => DDec
        end
      else DOther s
  | Diverge => DHang
  | Fuel => DFuel
  end.
Definition dec_class := dec_class_gen true.

(* encode(f8String&): EOk bytes | EExc | EOut (output[] overrun) | EOther *)
Inductive eclass := EOk (b : list N) (m : message) | EExc (e : exc) | EOut | EOther (s : N) | EHang | EFuel.
Definition enc_class (c : ctx) (m : message) : eclass :=
  match msg_encode_str c real_caps m with
  | Ok (b, m') => EOk b m'
  | Exc e => EExc e
  | OOB s => if s =? site_encode_buf then EOut else EOther s
  | Diverge => EHang
  | Fuel => EFuel
  end.
