(* Property C03 as an executable predicate on observables, written from the property text:
   "the factory either returns a decoded message or throws a library exception; it never reads or
   writes outside its buffers, triggers undefined behaviour, crashes or hangs; encoding either
   produces the bytes or throws".  The observable of a run is the first word of its result line
   (harness and model use the same vocabulary):
     OK ...      a message / the encoded bytes were returned
     EXC ...     a library exception was thrown
     OOB ...     a sanitizer reported an access outside a buffer   (model: OOB site)
     UB ...      UBSan reported undefined behaviour
     HANG        no result within the CPU / memory budget           (model: Diverge)
     CRASH ...   any other abnormal termination
   c03_ok accepts exactly the first two.  Independent of the codec model. *)
From Coq Require Import NArith List Bool.
Import ListNotations.
Local Open Scope N_scope.

Inductive obs := ObsOk | ObsExc | ObsOob | ObsUb | ObsHang | ObsCrash | ObsOther.

Fixpoint word_eqb (a b : list N) : bool :=
  match a, b with
  | [], [] => true
  | x :: a', y :: b' => (x =? y) && word_eqb a' b'
  | _, _ => false
  end.

(* the first word of a result line, as bytes *)
Definition obs_of_word (w : list N) : obs :=
  if word_eqb w [79; 75] then ObsOk                        (* OK *)
  else if word_eqb w [69; 88; 67] then ObsExc              (* EXC *)
  else if word_eqb w [79; 79; 66] then ObsOob              (* OOB *)
  else if word_eqb w [85; 66] then ObsUb                   (* UB *)
  else if word_eqb w [72; 65; 78; 71] then ObsHang         (* HANG *)
  else if word_eqb w [67; 82; 65; 83; 72] then ObsCrash    (* CRASH *)
  else ObsOther.

Definition c03_ok (o : obs) : bool :=
  match o with ObsOk | ObsExc => true | _ => false end.

(* History independence (SEQ cases): Message::factory is a function of its input, so whatever an
   answer mentions must come from that input:
     - the text an InvalidMessage exception carries is the input itself (up to its first NUL) or a
       piece of it (the MsgType text) -- stack bytes left by earlier calls are not;
     - a returned message has the type the input names in a "35=<type>|" token. *)
Fixpoint is_prefix (a l : list N) : bool :=
  match a, l with
  | [], _ => true
  | x :: a', y :: l' => (x =? y) && is_prefix a' l'
  | _ :: _, [] => false
  end.
Fixpoint is_infix (a l : list N) : bool :=
  is_prefix a l || match l with [] => false | _ :: l' => is_infix a l' end.
Definition c03_seq_exc_ok (input arg : list N) : bool := is_infix arg input.
Definition c03_seq_msg_ok (input msgtype : list N) : bool := is_infix ([51; 53; 61] ++ msgtype ++ [1]) input.
