(* C03 proofs, part 1: the tokenising primitives.
     xe_safe / extract_element_safe      the repaired extract_element never returns XOOB (any input)
     xe_consumed / extract_element_ok    a successful extraction consumes between 2 and |from| bytes,
                                         at least |tag| + 2
     xfw_safe / extract_fw_safe          the repaired extract_element_fixed_width never returns XOOB
     extract_header_safe / _len          extract_header: no OOB; a MsgType text implies >= 7 bytes *)
From Coq Require Import NArith ZArith List Bool Lia.
From F8 Require Import Codec.Bytes Codec.Meta Codec.Extract Codec.Decode C03.Bounds.
Import ListNotations.
Local Open Scope N_scope.

(* ------------------------------------------------------------------ N-indexed list helpers *)
Lemma lenN_cons {A} (x : A) l : lenN (x :: l) = N.succ (lenN l).
Proof. reflexivity. Qed.

Lemma lenN_length {A} (l : list A) : lenN l = N.of_nat (length l).
Proof. induction l; [reflexivity|]. rewrite lenN_cons, IHl. cbn [length]. lia. Qed.

Lemma lenN_app {A} (a b : list A) : lenN (a ++ b) = lenN a + lenN b.
Proof. rewrite !lenN_length, app_length. lia. Qed.

Lemma skipN_0 {A} (l : list A) : skipN 0 l = l.
Proof. destruct l; reflexivity. Qed.

Lemma skipN_nil {A} n : @skipN A n [] = [].
Proof. reflexivity. Qed.

Lemma skipN_cons_pos {A} n (x : A) r : 0 < n -> skipN n (x :: r) = skipN (n - 1) r.
Proof. intros H. cbn [skipN]. destruct (n =? 0) eqn:E; [apply N.eqb_eq in E; lia|reflexivity]. Qed.

Lemma skipN_add {A} (l : list A) : forall a b, skipN (a + b) l = skipN b (skipN a l).
Proof.
  induction l as [|x r IH]; intros a b; [reflexivity|].
  destruct (N.eq_dec a 0) as [->|Ha].
  - rewrite N.add_0_l. reflexivity.
  - rewrite (skipN_cons_pos a) by lia. rewrite skipN_cons_pos by lia.
    replace (a + b - 1) with ((a - 1) + b) by lia. apply IH.
Qed.

Lemma lenN_skipN {A} (l : list A) : forall n, lenN (skipN n l) = lenN l - n.
Proof.
  induction l as [|x r IH]; intros n; [reflexivity|].
  destruct (N.eq_dec n 0) as [->|Hn].
  - rewrite skipN_0. lia.
  - rewrite skipN_cons_pos by lia. rewrite IH, lenN_cons. lia.
Qed.

Lemma lenN_firstN {A} (l : list A) : forall n, n <= lenN l -> lenN (firstN n l) = n.
Proof.
  induction l as [|x r IH]; intros n Hn.
  - cbn in *. lia.
  - cbn [firstN]. destruct (n =? 0) eqn:E.
    + apply N.eqb_eq in E. subst. reflexivity.
    + apply N.eqb_neq in E. rewrite lenN_cons in *. rewrite IH by lia. lia.
Qed.

(* ------------------------------------------------------------------ extract_element *)
Lemma zero_write_ok nt nv tcap vcap k : nt < tcap -> nv < vcap -> zero_write nt nv tcap vcap k = k.
Proof.
  intros H1 H2. unfold zero_write.
  destruct (nt <? tcap) eqn:E1; [|apply N.ltb_ge in E1; lia].
  destruct (nv <? vcap) eqn:E2; [|apply N.ltb_ge in E2; lia]. reflexivity.
Qed.

Lemma zero_write_not_ok nt nv tcap vcap t v t' v' r : zero_write nt nv tcap vcap (XFail t v) <> XOk t' v' r.
Proof. unfold zero_write. destruct (negb (nt <? tcap)); [discriminate|]. destruct (negb (nv <? vcap)); discriminate. Qed.

Lemma zero_write_ok_inv nt nv tcap vcap t v r t' v' r' :
  zero_write nt nv tcap vcap (XOk t v r) = XOk t' v' r' -> r' = r /\ t' = t.
Proof.
  unfold zero_write. destruct (negb (nt <? tcap)); [discriminate|].
  destruct (negb (nv <? vcap)); [discriminate|]. intros H. injection H. auto.
Qed.

(* the repaired loop: every write stays below the capacity, whatever the input *)
Lemma xe_safe tcap vcap : forall from sz ii inval tag val nt nv,
  nt < tcap -> nv < vcap -> sz <= ii + lenN from ->
  forall s, xe_loop from sz ii inval tag val nt nv tcap vcap <> XOOB s.
Proof.
  induction from as [|c rest IH]; intros sz ii inval tag val nt nv Hnt Hnv Hsz s.
  - cbn [xe_loop]. destruct (ii <? sz) eqn:E.
    + apply N.ltb_lt in E. cbn in Hsz. lia.
    + rewrite zero_write_ok by lia. discriminate.
  - cbn [xe_loop]. destruct (ii <? sz) eqn:E; [|rewrite zero_write_ok by lia; discriminate].
    rewrite lenN_cons in Hsz.
    destruct inval.
    + destruct (c =? SOH); [rewrite zero_write_ok by lia; discriminate|].
      destruct (nv + 1 <? vcap) eqn:En; [|rewrite zero_write_ok by lia; discriminate].
      apply N.ltb_lt in En. apply IH; lia.
    + destruct (is_digit c).
      * destruct (nt + 1 <? tcap) eqn:En; [|rewrite zero_write_ok by lia; discriminate].
        apply N.ltb_lt in En. apply IH; lia.
      * destruct (c =? EQC); [|rewrite zero_write_ok by lia; discriminate].
        apply IH; lia.
Qed.

Lemma lenN_rev {A} (l : list A) : lenN (rev l) = lenN l.
Proof. rewrite !lenN_length, rev_length. reflexivity. Qed.

Lemma xe_consumed : forall from sz ii inval tag val nt nv tcap vcap t v r,
  xe_loop from sz ii inval tag val nt nv tcap vcap = XOk t v r ->
  (if inval then ii + 1 else ii + 2) <= r /\ r <= ii + lenN from /\ r <= sz /\
  ii + lenN t + (if inval then 1 else 2) <= r + lenN tag.
Proof.
  induction from as [|c rest IH]; intros sz ii inval tag val nt nv tcap vcap t v r H.
  - cbn [xe_loop] in H. destruct (ii <? sz); [discriminate|]. exfalso. exact (zero_write_not_ok _ _ _ _ _ _ _ _ _ H).
  - cbn [xe_loop] in H. destruct (ii <? sz) eqn:E; [|exfalso; exact (zero_write_not_ok _ _ _ _ _ _ _ _ _ H)].
    apply N.ltb_lt in E. rewrite lenN_cons.
    destruct inval.
    + destruct (c =? SOH).
      * apply zero_write_ok_inv in H. destruct H as [-> ->]. rewrite lenN_rev. lia.
      * destruct (nv + 1 <? vcap); [|exfalso; exact (zero_write_not_ok _ _ _ _ _ _ _ _ _ H)].
        apply IH in H. cbn beta iota in H. lia.
    + destruct (is_digit c).
      * destruct (nt + 1 <? tcap); [|exfalso; exact (zero_write_not_ok _ _ _ _ _ _ _ _ _ H)].
        apply IH in H. cbn beta iota in H. rewrite lenN_cons in H. lia.
      * destruct (c =? EQC); [|exfalso; exact (zero_write_not_ok _ _ _ _ _ _ _ _ _ H)].
        apply IH in H. cbn beta iota in H. lia.
Qed.

Lemma extract_element_ok from sz tcap vcap t v r :
  extract_element from sz tcap vcap = XOk t v r -> 2 <= r /\ r <= lenN from /\ r <= sz /\ lenN t + 2 <= r.
Proof. unfold extract_element. intros H. apply xe_consumed in H. cbn beta iota in H. cbn [lenN] in H. lia. Qed.

Lemma extract_element_safe tcap vcap from sz :
  0 < tcap -> 0 < vcap -> sz <= lenN from -> forall s, extract_element from sz tcap vcap <> XOOB s.
Proof. intros Ht Hv Hsz. unfold extract_element. apply xe_safe; lia. Qed.

Lemma extract_element_nil sz tcap vcap t v : extract_element [] sz tcap vcap = XFail t v -> v = [].
Proof.
  unfold extract_element. cbn [xe_loop]. destruct (0 <? sz); [discriminate|].
  unfold zero_write. destruct (negb (0 <? tcap)); [discriminate|]. destruct (negb (0 <? vcap)); [discriminate|].
  intros H. injection H as _ <-. reflexivity.
Qed.

(* ------------------------------------------------------------------ extract_element_fixed_width
   (repaired by /repo ce1e2cc: bounded digits, val_sz test, terminated tag) *)
Lemma xfw_safe tcap vcap val_sz : forall from sz ii tag nt,
  sz <= ii + lenN from -> forall s, xfw_loop from sz ii val_sz tag nt tcap vcap <> XOOB s.
Proof.
  induction from as [|c rest IH]; intros sz ii tag nt Hsz s.
  - cbn [xfw_loop]. destruct (ii <? sz) eqn:E; [|discriminate].
    apply N.ltb_lt in E. cbn in Hsz. lia.
  - cbn [xfw_loop]. destruct (ii <? sz) eqn:E; [|discriminate].
    rewrite lenN_cons in Hsz.
    destruct (is_digit c).
    + destruct (nt + 1 <? tcap); [|discriminate]. apply IH. lia.
    + destruct (negb (c =? EQC) || negb (val_sz <? vcap) || (sz <? ii + 1 + val_sz)) eqn:Eb; [discriminate|].
      apply orb_false_iff in Eb. destruct Eb as [_ Eb]. apply N.ltb_ge in Eb.
      rewrite lenN_firstN by lia. rewrite N.ltb_irrefl. discriminate.
Qed.

Lemma extract_fw_safe tcap vcap from sz val_sz :
  0 < tcap -> 0 < vcap -> sz <= lenN from ->
  forall s, extract_element_fixed_width from sz val_sz tcap vcap <> XOOB s.
Proof.
  intros Ht Hv Hsz s. unfold extract_element_fixed_width.
  destruct (0 <? tcap) eqn:E1; [|apply N.ltb_ge in E1; lia].
  destruct (0 <? vcap) eqn:E2; [|apply N.ltb_ge in E2; lia]. cbn [andb].
  apply xfw_safe. lia.
Qed.

(* the terminated tag buffer always reads as a C string *)
Lemma cstr_known_terminated : forall d r, cstr_known (d ++ 0 :: r) <> None.
Proof.
  induction d as [|x d IH]; intros r; cbn [app cstr_known].
  - rewrite N.eqb_refl. discriminate.
  - destruct (x =? 0); [discriminate|]. specialize (IH r). destruct (cstr_known (d ++ 0 :: r)); [discriminate|contradiction].
Qed.

(* ------------------------------------------------------------------ extract_header *)
Lemma extract_header_safe bytes :
  forall s, extract_header bytes (cap_htag real_caps) (cap_hval real_caps) (cap_len real_caps)
                           (cap_mtype real_caps) <> OOB s.
Proof.
  intros s. cbn [real_caps cap_htag cap_hval cap_len cap_mtype]. unfold extract_header.
  destruct (extract_element bytes (lenN bytes) MAX_MSGTYPE_FIELD_LEN MAX_FLD_LENGTH) as [tag1 val1 r1| |s1] eqn:E1;
    [|discriminate|exfalso; revert E1; apply extract_element_safe; [reflexivity|reflexivity|lia]].
  destruct (negb (hd_is tag1 56)); [discriminate|].
  destruct (extract_element (skipN r1 bytes) (lenN bytes - r1) MAX_MSGTYPE_FIELD_LEN MAX_MSGTYPE_FIELD_LEN)
    as [tag2 val2 r2| |s2] eqn:E2;
    [|discriminate|exfalso; revert E2; apply extract_element_safe; [reflexivity|reflexivity|rewrite lenN_skipN; lia]].
  destruct (negb (hd_is tag2 57)); [discriminate|].
  destruct (extract_element (skipN (r1 + r2) bytes) (lenN bytes - (r1 + r2)) MAX_MSGTYPE_FIELD_LEN MAX_MSGTYPE_FIELD_LEN)
    as [tag3 val3 r3| |s3] eqn:E3;
    [|discriminate|exfalso; revert E3; apply extract_element_safe; [reflexivity|reflexivity|rewrite lenN_skipN; lia]].
  destruct (negb (hd_is tag3 51 && hd_is (tl tag3) 53)); discriminate.
Qed.

Lemma hd_is_len l c : hd_is l c = true -> 1 <= lenN l.
Proof. destruct l; [discriminate|]. intros _. rewrite lenN_cons. lia. Qed.

(* a MsgType text (even a partial one) comes from a third token: the input has >= 7 bytes *)
Lemma extract_header_len bytes tcap vcap lencap mtcap hlen len mtype :
  extract_header bytes tcap vcap lencap mtcap = Ok (hlen, len, mtype) -> mtype <> [] -> 7 <= lenN bytes.
Proof.
  unfold extract_header. intros H Hm.
  destruct (extract_element bytes (lenN bytes) tcap vcap) as [tag1 val1 r1| |s1] eqn:E1; try discriminate.
  2:{ injection H as _ _ <-. contradiction. }
  destruct (hd_is tag1 56) eqn:H1; cbn [negb] in H; [|injection H as _ _ <-; contradiction].
  apply extract_element_ok in E1. apply hd_is_len in H1.
  destruct (extract_element (skipN r1 bytes) (lenN bytes - r1) tcap lencap) as [tag2 val2 r2| |s2] eqn:E2; try discriminate.
  2:{ injection H as _ _ <-. contradiction. }
  destruct (hd_is tag2 57) eqn:H2; cbn [negb] in H; [|injection H as _ _ <-; contradiction].
  apply extract_element_ok in E2. apply hd_is_len in H2. rewrite lenN_skipN in E2.
  destruct (extract_element (skipN (r1 + r2) bytes) (lenN bytes - (r1 + r2)) tcap mtcap) as [tag3 val3 r3|t3 v3|s3] eqn:E3;
    try discriminate.
  - apply extract_element_ok in E3. rewrite lenN_skipN in E3. lia.
  - injection H as _ _ <-.
    destruct (skipN (r1 + r2) bytes) as [|x rest] eqn:Es.
    + apply extract_element_nil in E3. contradiction.
    + assert (Hl : lenN (skipN (r1 + r2) bytes) = N.succ (lenN rest)) by (rewrite Es; reflexivity).
      rewrite lenN_skipN in Hl. lia.
Qed.
