(* C03 proofs, part 1: the tokenising primitives never leave their buffers on bounded input.
     xe_safe / extract_element_safe      position-independent bound (run_ok) => no XOOB
     xe_consumed / extract_element_ok    a successful extraction consumes between 2 and |from| bytes
     xfw_safe                            the same for extract_element_fixed_width
     xe_tok / extract_header_safe        the three header tokens under hdr_bounded *)
From Coq Require Import NArith ZArith List Bool Lia.
From F8 Require Import Codec.Bytes Codec.Meta Codec.Extract Codec.Decode C03.Bounds.
Import ListNotations.
Local Open Scope N_scope.

(* ------------------------------------------------------------------ N-indexed list helpers *)
Lemma lenN_cons {A} (x : A) l : lenN (x :: l) = N.succ (lenN l).
Proof. reflexivity. Qed.

Lemma lenN_length {A} (l : list A) : lenN l = N.of_nat (length l).
Proof. induction l; [reflexivity|]. rewrite lenN_cons, IHl. cbn [length]. lia. Qed.

Lemma lenN_app {A} (a b : list A) : lenN (a ++ b) = lenN a + lenN b.
Proof. rewrite !lenN_length, app_length. lia. Qed.

Lemma skipN_0 {A} (l : list A) : skipN 0 l = l.
Proof. destruct l; reflexivity. Qed.

Lemma skipN_nil {A} n : @skipN A n [] = [].
Proof. reflexivity. Qed.

Lemma skipN_cons_pos {A} n (x : A) r : 0 < n -> skipN n (x :: r) = skipN (n - 1) r.
Proof. intros H. cbn [skipN]. destruct (n =? 0) eqn:E; [apply N.eqb_eq in E; lia|reflexivity]. Qed.

Lemma skipN_add {A} (l : list A) : forall a b, skipN (a + b) l = skipN b (skipN a l).
Proof.
  induction l as [|x r IH]; intros a b; [reflexivity|].
  destruct (N.eq_dec a 0) as [->|Ha].
  - rewrite N.add_0_l. reflexivity.
  - rewrite (skipN_cons_pos a) by lia. rewrite skipN_cons_pos by lia.
    replace (a + b - 1) with ((a - 1) + b) by lia. apply IH.
Qed.

Lemma lenN_skipN {A} (l : list A) : forall n, lenN (skipN n l) = lenN l - n.
Proof.
  induction l as [|x r IH]; intros n; [reflexivity|].
  destruct (N.eq_dec n 0) as [->|Hn].
  - rewrite skipN_0. lia.
  - rewrite skipN_cons_pos by lia. rewrite IH, lenN_cons. lia.
Qed.

Lemma lenN_firstN {A} (l : list A) : forall n, n <= lenN l -> lenN (firstN n l) = n.
Proof.
  induction l as [|x r IH]; intros n Hn.
  - cbn in *. lia.
  - cbn [firstN]. destruct (n =? 0) eqn:E.
    + apply N.eqb_eq in E. subst. reflexivity.
    + apply N.eqb_neq in E. rewrite lenN_cons in *. rewrite IH by lia. lia.
Qed.

(* ------------------------------------------------------------------ run_ok *)
Definition vle (a b : option N) : Prop :=
  match a, b with
  | None, _ => True
  | Some x, Some y => x <= y
  | Some _, None => False
  end.

Definition step_dk (dk c : N) : N := if is_digit c then dk + 1 else 0.
Definition step_vk (vk : option N) (c : N) : option N :=
  match vk with Some k => Some (k + 1) | None => if c =? EQC then Some 0 else None end.
Definition vk_lt (vk : option N) (vcap : N) : bool := match vk with Some k => k <? vcap | None => true end.

Lemma run_ok_cons tcap vcap dk vk c r :
  run_ok tcap vcap dk vk (c :: r) =
  if c =? SOH then run_ok tcap vcap 0 None r
  else (step_dk dk c <? tcap) && vk_lt (step_vk vk c) vcap && run_ok tcap vcap (step_dk dk c) (step_vk vk c) r.
Proof. reflexivity. Qed.

Lemma step_vk_mono vk vk' c : vle vk' vk -> vle (step_vk vk' c) (step_vk vk c).
Proof.
  unfold vle, step_vk. destruct vk' as [k'|], vk as [k|]; try tauto; intros H;
    destruct (c =? EQC); try lia; exact I.
Qed.

Lemma vk_lt_mono vk vk' vcap : vle vk' vk -> vk_lt vk vcap = true -> vk_lt vk' vcap = true.
Proof.
  unfold vle, vk_lt. destruct vk' as [k'|], vk as [k|]; try tauto; intros H H1; try reflexivity.
  apply N.ltb_lt in H1. apply N.ltb_lt. lia.
Qed.

Lemma run_ok_mono tcap vcap : forall l dk vk dk' vk',
  run_ok tcap vcap dk vk l = true -> dk' <= dk -> vle vk' vk -> run_ok tcap vcap dk' vk' l = true.
Proof.
  induction l as [|c r IH]; intros dk vk dk' vk' H Hd Hv; [reflexivity|].
  rewrite run_ok_cons in *. destruct (c =? SOH); [exact H|].
  apply andb_true_iff in H. destruct H as [H H3]. apply andb_true_iff in H. destruct H as [H1 H2].
  apply N.ltb_lt in H1.
  assert (Hs : step_dk dk' c <= step_dk dk c) by (unfold step_dk; destruct (is_digit c); lia).
  pose proof (step_vk_mono vk vk' c Hv) as Hv'.
  apply andb_true_iff. split; [apply andb_true_iff; split|].
  - apply N.ltb_lt. lia.
  - exact (vk_lt_mono _ _ _ Hv' H2).
  - exact (IH _ _ _ _ H3 Hs Hv').
Qed.

Lemma run_ok_tail tcap vcap c r dk vk : run_ok tcap vcap dk vk (c :: r) = true -> run_ok tcap vcap 0 None r = true.
Proof.
  rewrite run_ok_cons. destruct (c =? SOH); [auto|].
  intros H. apply andb_true_iff in H. destruct H as [_ H].
  apply (run_ok_mono tcap vcap r _ _ 0 None H); [lia|exact I].
Qed.

Lemma run_ok_skip tcap vcap : forall l n, run_ok tcap vcap 0 None l = true -> run_ok tcap vcap 0 None (skipN n l) = true.
Proof.
  induction l as [|c r IH]; intros n H; [reflexivity|].
  destruct (N.eq_dec n 0) as [->|Hn]; [rewrite skipN_0; exact H|].
  rewrite skipN_cons_pos by lia. apply IH. exact (run_ok_tail _ _ c r 0 None H).
Qed.

Lemma run_ok_step tcap vcap c r dk vk : run_ok tcap vcap dk vk (c :: r) = true -> (c =? SOH) = false ->
  step_dk dk c < tcap /\ vk_lt (step_vk vk c) vcap = true /\ run_ok tcap vcap (step_dk dk c) (step_vk vk c) r = true.
Proof.
  rewrite run_ok_cons. intros H E. rewrite E in H. apply andb_true_iff in H. destruct H as [H H3].
  apply andb_true_iff in H. destruct H as [H1 H2]. apply N.ltb_lt in H1. auto.
Qed.

Lemma digit_not_soh c : is_digit c = true -> (c =? SOH) = false.
Proof.
  unfold is_digit, SOH. intros H. apply andb_true_iff in H. destruct H as [H _].
  apply N.leb_le in H. apply N.eqb_neq. lia.
Qed.

Lemma eqc_not_soh c : (c =? EQC) = true -> (c =? SOH) = false.
Proof. unfold EQC, SOH. intros H. apply N.eqb_eq in H. apply N.eqb_neq. lia. Qed.

Lemma eqc_not_digit c : (c =? EQC) = true -> is_digit c = false.
Proof.
  unfold EQC, is_digit. intros H. apply N.eqb_eq in H. subst c. reflexivity.
Qed.

(* ------------------------------------------------------------------ extract_element *)
Lemma zero_write_ok nt nv tcap vcap k : nt < tcap -> nv < vcap -> zero_write nt nv tcap vcap k = k.
Proof.
  intros H1 H2. unfold zero_write.
  destruct (nt <? tcap) eqn:E1; [|apply N.ltb_ge in E1; lia].
  destruct (nv <? vcap) eqn:E2; [|apply N.ltb_ge in E2; lia]. reflexivity.
Qed.

Lemma zero_write_not_ok nt nv tcap vcap t v t' v' r : zero_write nt nv tcap vcap (XFail t v) <> XOk t' v' r.
Proof. unfold zero_write. destruct (negb (nt <? tcap)); [discriminate|]. destruct (negb (nv <? vcap)); discriminate. Qed.

Lemma zero_write_ok_inv nt nv tcap vcap t v r t' v' r' :
  zero_write nt nv tcap vcap (XOk t v r) = XOk t' v' r' -> r' = r.
Proof.
  unfold zero_write. destruct (negb (nt <? tcap)); [discriminate|].
  destruct (negb (nv <? vcap)); [discriminate|]. intros H. injection H. auto.
Qed.

(* the value-phase invariant: our value started at or after the first '=' of the segment *)
Definition val_inv (inval : bool) (vk : option N) (nv vcap : N) : Prop :=
  if inval then exists k, vk = Some k /\ nv <= k /\ k < vcap else nv = 0.

Section XeSafe.
Variables tc vc tcap vcap : N.
Hypothesis Ht : tc <= tcap.
Hypothesis Hv : vc <= vcap.
Hypothesis Hv0 : 0 < vc.

Lemma xe_safe : forall from sz ii (inval : bool) tag val nt nv dk vk,
  run_ok tc vc dk vk from = true -> dk < tc -> (if inval then nt < tc else nt <= dk) ->
  val_inv inval vk nv vc -> sz <= ii + lenN from ->
  forall s, xe_loop from sz ii inval tag val nt nv tcap vcap <> XOOB s.
Proof.
  induction from as [|c rest IH]; intros sz ii inval tag val nt nv dk vk Hr Hk Hnt Hnv Hsz s.
  - assert (nv < vcap) by (destruct inval; cbn in Hnv; [destruct Hnv as (k & _ & ? & ?)|]; lia).
    assert (nt < tcap) by (destruct inval; lia).
    cbn [xe_loop]. destruct (ii <? sz) eqn:E.
    + apply N.ltb_lt in E. cbn in Hsz. lia.
    + rewrite zero_write_ok by lia. discriminate.
  - assert (Hnvc : nv < vcap) by (destruct inval; cbn in Hnv; [destruct Hnv as (k & _ & ? & ?)|]; lia).
    assert (Hntc : nt < tcap) by (destruct inval; lia).
    cbn [xe_loop]. destruct (ii <? sz) eqn:E; [|rewrite zero_write_ok by lia; discriminate].
    rewrite lenN_cons in Hsz.
    destruct inval.
    + destruct (c =? SOH) eqn:Es; [rewrite zero_write_ok by lia; discriminate|].
      destruct (run_ok_step _ _ _ _ _ _ Hr Es) as (Hk1 & Hv1 & Hr1).
      destruct (nv <? vcap) eqn:En; [|apply N.ltb_ge in En; lia].
      destruct Hnv as (k & -> & Hnk & Hkv). cbn [step_vk vk_lt] in Hv1, Hr1. apply N.ltb_lt in Hv1.
      apply (IH _ _ true _ _ _ _ (step_dk dk c) (Some (k + 1))); try assumption; try lia.
      exists (k + 1). repeat split; lia.
    + destruct (is_digit c) eqn:Ed.
      * destruct (run_ok_step _ _ _ _ _ _ Hr (digit_not_soh _ Ed)) as (Hk1 & Hv1 & Hr1).
        unfold step_dk in Hk1, Hr1. rewrite Ed in Hk1, Hr1.
        destruct (nt <? tcap) eqn:En; [|apply N.ltb_ge in En; lia].
        apply (IH _ _ false _ _ _ _ (dk + 1) (step_vk vk c)); try assumption; try lia.
      * destruct (c =? EQC) eqn:Ee; [|rewrite zero_write_ok by lia; discriminate].
        destruct (run_ok_step _ _ _ _ _ _ Hr (eqc_not_soh _ Ee)) as (Hk1 & Hv1 & Hr1).
        apply (IH _ _ true _ _ _ _ (step_dk dk c) (step_vk vk c)); try assumption; try lia.
        cbn in Hnv. subst nv. unfold step_vk in *. rewrite Ee in *.
        destruct vk as [k|]; cbn [vk_lt] in Hv1; apply N.ltb_lt in Hv1; eexists; repeat split; lia.
Qed.

End XeSafe.

Lemma xfw_safe tc vc tcap vcap val_sz : tc <= tcap -> val_sz < vcap -> forall from sz ii tag nt dk vk,
  run_ok tc vc dk vk from = true -> dk < tc -> nt <= dk -> sz <= ii + lenN from ->
  forall s, xfw_loop from sz ii val_sz tag nt tcap vcap <> XOOB s.
Proof.
  intros Ht Hvs. induction from as [|c rest IH]; intros sz ii tag nt dk vk Hr Hk Hnt Hsz s.
  - cbn [xfw_loop]. destruct (ii <? sz) eqn:E.
    + apply N.ltb_lt in E. cbn in Hsz. lia.
    + rewrite zero_write_ok by lia. discriminate.
  - cbn [xfw_loop]. destruct (ii <? sz) eqn:E; [|rewrite zero_write_ok by lia; discriminate].
    rewrite lenN_cons in Hsz.
    destruct (is_digit c) eqn:Ed.
    + destruct (run_ok_step _ _ _ _ _ _ Hr (digit_not_soh _ Ed)) as (Hk1 & Hv1 & Hr1).
      unfold step_dk in Hk1, Hr1. rewrite Ed in Hk1, Hr1.
      destruct (nt <? tcap) eqn:En; [|apply N.ltb_ge in En; lia].
      apply (IH _ _ _ _ (dk + 1) (step_vk vk c)); try assumption; lia.
    + destruct (negb (c =? EQC) || (sz <? ii + 1 + val_sz)) eqn:Eb; [rewrite zero_write_ok by lia; discriminate|].
      apply orb_false_iff in Eb. destruct Eb as [_ Eb]. apply N.ltb_ge in Eb.
      destruct (val_sz <? vcap) eqn:Ev; [|apply N.ltb_ge in Ev; lia]. cbn [negb].
      rewrite lenN_firstN by lia. rewrite N.ltb_irrefl. discriminate.
Qed.

Lemma xe_consumed : forall from sz ii inval tag val nt nv tcap vcap t v r,
  xe_loop from sz ii inval tag val nt nv tcap vcap = XOk t v r ->
  (if inval then ii + 1 else ii + 2) <= r /\ r <= ii + lenN from /\ r <= sz.
Proof.
  induction from as [|c rest IH]; intros sz ii inval tag val nt nv tcap vcap t v r H.
  - cbn [xe_loop] in H. destruct (ii <? sz); [discriminate|]. exfalso. exact (zero_write_not_ok _ _ _ _ _ _ _ _ _ H).
  - cbn [xe_loop] in H. destruct (ii <? sz) eqn:E; [|exfalso; exact (zero_write_not_ok _ _ _ _ _ _ _ _ _ H)].
    apply N.ltb_lt in E. rewrite lenN_cons.
    destruct inval.
    + destruct (c =? SOH).
      * apply zero_write_ok_inv in H. subst r. lia.
      * destruct (nv <? vcap); [|discriminate]. apply IH in H. cbn beta iota in H. lia.
    + destruct (is_digit c).
      * destruct (nt <? tcap); [|discriminate]. apply IH in H. cbn beta iota in H. lia.
      * destruct (c =? EQC); [|exfalso; exact (zero_write_not_ok _ _ _ _ _ _ _ _ _ H)].
        apply IH in H. cbn beta iota in H. lia.
Qed.

Lemma extract_element_ok from sz tcap vcap t v r :
  extract_element from sz tcap vcap = XOk t v r -> 2 <= r /\ r <= lenN from /\ r <= sz.
Proof. unfold extract_element. intros H. apply xe_consumed in H. cbn beta iota in H. lia. Qed.

Lemma extract_element_safe tc vc tcap vcap from sz :
  tc <= tcap -> vc <= vcap -> 0 < tc -> 0 < vc -> run_ok tc vc 0 None from = true -> sz <= lenN from ->
  forall s, extract_element from sz tcap vcap <> XOOB s.
Proof.
  intros Ht Hv H0 Hv0 Hr Hsz. unfold extract_element.
  apply (xe_safe tc vc tcap vcap Ht Hv Hv0 from sz 0 false [] [] 0 0 0 None); try assumption; try lia.
  reflexivity.
Qed.

Lemma extract_fw_safe tc vc tcap vcap from sz val_sz :
  tc <= tcap -> val_sz < vcap -> 0 < tc -> run_ok tc vc 0 None from = true -> sz <= lenN from ->
  forall s, extract_element_fixed_width from sz val_sz tcap vcap <> XOOB s.
Proof.
  intros Ht Hv H0 Hr Hsz s. unfold extract_element_fixed_width.
  destruct (0 <? tcap) eqn:E1; [|apply N.ltb_ge in E1; lia].
  destruct (0 <? vcap) eqn:E2; [|apply N.ltb_ge in E2; lia]. cbn [andb].
  apply (xfw_safe tc vc tcap vcap val_sz Ht Hv from sz 0 [] 0 0 None); try assumption; lia.
Qed.

(* ------------------------------------------------------------------ one header token *)
Lemma digit_run_spec : forall l n r, digit_run l = (n, r) -> skipN n l = r /\ lenN l = n + lenN r.
Proof.
  induction l as [|c l IH]; intros n r H.
  - cbn in H. injection H as <- <-. split; reflexivity.
  - cbn [digit_run] in H. destruct (is_digit c).
    + destruct (digit_run l) as [n' r'] eqn:E. injection H as <- <-.
      destruct (IH _ _ eq_refl) as [H1 H2]. split.
      * rewrite skipN_cons_pos by lia. replace (n' + 1 - 1) with n' by lia. exact H1.
      * rewrite lenN_cons, H2. lia.
    + injection H as <- <-. split; [apply skipN_0|lia].
Qed.

(* tag phase: digits are copied while they fit; then '=' switches to the value phase *)
Lemma xe_phase1 tcap vcap : forall l sz ii tag val nt nv n r,
  digit_run l = (n, r) -> nt + n < tcap -> nv < vcap -> sz = ii + lenN l ->
  (exists tag' r', r = EQC :: r' /\
     xe_loop l sz ii false tag val nt nv tcap vcap = xe_loop r' sz (ii + n + 1) true tag' val (nt + n) nv tcap vcap)
  \/ ((forall r', r <> EQC :: r') /\ exists t v, xe_loop l sz ii false tag val nt nv tcap vcap = XFail t v).
Proof.
  induction l as [|c l IH]; intros sz ii tag val nt nv n r Hd Hn Hv Hsz.
  - cbn in Hd. injection Hd as <- <-. right. split; [discriminate|].
    cbn [xe_loop]. cbn in Hsz. replace (ii <? sz) with false by (symmetry; apply N.ltb_ge; lia).
    rewrite zero_write_ok by lia. eauto.
  - cbn [digit_run] in Hd. rewrite lenN_cons in Hsz. cbn [xe_loop].
    replace (ii <? sz) with true by (symmetry; apply N.ltb_lt; lia).
    destruct (is_digit c) eqn:Ed.
    + destruct (digit_run l) as [n' r'] eqn:E. injection Hd as <- <-.
      destruct (nt <? tcap) eqn:En; [|apply N.ltb_ge in En; lia].
      destruct (IH sz (ii + 1) (c :: tag) val (nt + 1) nv n' r' eq_refl ltac:(lia) Hv ltac:(lia))
        as [(tag' & r2 & Hr & Hx)|(Hne & t & v & Hx)].
      * left. exists tag', r2. split; [exact Hr|]. rewrite Hx. f_equal; lia.
      * right. split; [exact Hne|]. eauto.
    + injection Hd as <- <-.
      destruct (c =? EQC) eqn:Ee.
      * left. apply N.eqb_eq in Ee. subst c. exists tag, l. split; [reflexivity|]. f_equal; lia.
      * right. split.
        { intros r' Hr. injection Hr as Hc _. subst c. rewrite N.eqb_refl in Ee. discriminate. }
        rewrite zero_write_ok by lia. eauto.
Qed.

(* value phase *)
Lemma xe_phase2 tcap vcap : forall l sz ii tag val nt nv m nx,
  upto_soh l = (m, nx) -> nt < tcap -> nv + m < vcap -> sz = ii + lenN l ->
  match nx with
  | Some rest => (exists t v, xe_loop l sz ii true tag val nt nv tcap vcap = XOk t v (ii + m + 1))
                 /\ skipN (m + 1) l = rest
  | None => exists t v, xe_loop l sz ii true tag val nt nv tcap vcap = XFail t v
  end.
Proof.
  induction l as [|c l IH]; intros sz ii tag val nt nv m nx Hu Hn Hv Hsz.
  - cbn in Hu. injection Hu as <- <-. cbn [xe_loop]. cbn in Hsz.
    replace (ii <? sz) with false by (symmetry; apply N.ltb_ge; lia).
    rewrite zero_write_ok by lia. eauto.
  - cbn [upto_soh] in Hu. rewrite lenN_cons in Hsz. cbn [xe_loop].
    replace (ii <? sz) with true by (symmetry; apply N.ltb_lt; lia).
    destruct (c =? SOH) eqn:Es.
    + injection Hu as <- <-. rewrite zero_write_ok by lia. split.
      * do 2 eexists. f_equal. lia.
      * rewrite skipN_cons_pos by lia. apply skipN_0.
    + destruct (upto_soh l) as [m' nx'] eqn:E. injection Hu as <- <-.
      destruct (nv <? vcap) eqn:En; [|apply N.ltb_ge in En; lia].
      specialize (IH sz (ii + 1) tag (c :: val) nt (nv + 1) m' nx' eq_refl Hn ltac:(lia) ltac:(lia)).
      destruct nx' as [rest|].
      * destruct IH as [(t & v & Hx) Hs]. split.
        { exists t, v. rewrite Hx. f_equal. lia. }
        { rewrite skipN_cons_pos by lia. replace (m' + 1 + 1 - 1) with (m' + 1) by lia. exact Hs. }
      * exact IH.
Qed.

Lemma xe_tok tcap vcap l : 0 < vcap -> fst (tok_bounded tcap vcap l) = true ->
  match extract_element l (lenN l) tcap vcap with
  | XOOB _ => False
  | XOk _ _ r => snd (tok_bounded tcap vcap l) = Some (skipN r l)
  | XFail _ _ => True
  end.
Proof.
  intros Hv0 Hb. unfold tok_bounded in *. destruct (digit_run l) as [n r] eqn:Ed.
  destruct (digit_run_spec _ _ _ Ed) as [Hsk Hlen].
  unfold extract_element.
  assert (Hn : n < tcap).
  { destruct r as [|c r']; [apply N.ltb_lt; exact Hb|].
    destruct (c =? EQC); [|apply N.ltb_lt; exact Hb].
    destruct (upto_soh r'). cbn [fst] in Hb. apply andb_true_iff in Hb. apply N.ltb_lt. tauto. }
  destruct (xe_phase1 tcap vcap l (lenN l) 0 [] [] 0 0 n r Ed ltac:(lia) Hv0 ltac:(lia))
    as [(tag' & r' & Hr & Hx)|(Hne & t & v & Hx)].
  - rewrite Hr in Hb, Hlen, Hsk |- *. clear Hr. rewrite Hx. rewrite N.eqb_refl in *.
    destruct (upto_soh r') as [m nx] eqn:Eu. cbn [fst snd] in *.
    apply andb_true_iff in Hb. destruct Hb as [_ Hm]. apply N.ltb_lt in Hm.
    rewrite lenN_cons in Hlen.
    pose proof (xe_phase2 tcap vcap r' (lenN l) (0 + n + 1) tag' [] (0 + n) 0 m nx Eu ltac:(lia) ltac:(lia) ltac:(lia)) as H2.
    destruct nx as [rest|].
    + destruct H2 as [(t & v & Hy) Hs]. rewrite Hy. f_equal.
      replace (0 + n + 1 + m + 1) with (n + (1 + (m + 1))) by lia.
      rewrite skipN_add, Hsk, skipN_add. rewrite skipN_cons_pos by lia. rewrite skipN_0. symmetry. exact Hs.
    + destruct H2 as (t & v & Hy). rewrite Hy. exact I.
  - rewrite Hx. exact I.
Qed.

Lemma extract_header_safe bytes : hdr_bounded bytes = true ->
  forall s, extract_header bytes (cap_htag real_caps) (cap_hval real_caps) (cap_len real_caps)
                           (cap_mtype real_caps) <> OOB s.
Proof.
  intros Hh s. unfold hdr_bounded in Hh. cbn [real_caps cap_htag cap_hval cap_len cap_mtype].
  unfold extract_header.
  destruct (tok_bounded MAX_MSGTYPE_FIELD_LEN MAX_FLD_LENGTH bytes) as [b1 n1] eqn:E1.
  apply andb_true_iff in Hh. destruct Hh as [Hb1 Hh]. subst b1.
  pose proof (xe_tok MAX_MSGTYPE_FIELD_LEN MAX_FLD_LENGTH bytes ltac:(reflexivity)) as T1.
  rewrite E1 in T1. specialize (T1 eq_refl). cbn [snd] in T1.
  destruct (extract_element bytes (lenN bytes) MAX_MSGTYPE_FIELD_LEN MAX_FLD_LENGTH) as [tag1 val1 r1| |]; [|discriminate|contradiction].
  destruct (negb (hd_is tag1 56)); [discriminate|].
  subst n1.
  destruct (tok_bounded MAX_MSGTYPE_FIELD_LEN MAX_MSGTYPE_FIELD_LEN (skipN r1 bytes)) as [b2 n2] eqn:E2.
  apply andb_true_iff in Hh. destruct Hh as [Hb2 Hh]. subst b2.
  pose proof (xe_tok MAX_MSGTYPE_FIELD_LEN MAX_MSGTYPE_FIELD_LEN (skipN r1 bytes) ltac:(reflexivity)) as T2.
  rewrite E2 in T2. specialize (T2 eq_refl). cbn [snd] in T2. rewrite lenN_skipN in T2.
  destruct (extract_element (skipN r1 bytes) (lenN bytes - r1) MAX_MSGTYPE_FIELD_LEN MAX_MSGTYPE_FIELD_LEN)
    as [tag2 val2 r2| |]; [|discriminate|contradiction].
  destruct (negb (hd_is tag2 57)); [discriminate|].
  subst n2. rewrite <- skipN_add in Hh.
  pose proof (xe_tok MAX_MSGTYPE_FIELD_LEN MAX_MSGTYPE_FIELD_LEN (skipN (r1 + r2) bytes) ltac:(reflexivity) Hh) as T3.
  rewrite lenN_skipN in T3.
  destruct (extract_element (skipN (r1 + r2) bytes) (lenN bytes - (r1 + r2)) MAX_MSGTYPE_FIELD_LEN MAX_MSGTYPE_FIELD_LEN)
    as [tag3 val3 r3| |]; [|discriminate|contradiction].
  destruct (negb (hd_is tag3 51 && hd_is (tl tag3) 53)); discriminate.
Qed.
