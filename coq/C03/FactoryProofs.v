(* C03 proofs, part 3: Message::decode and Message::factory on top of the loop lemmas, and the
   lemmas the Props file closes with. *)
From Coq Require Import NArith ZArith List Bool Lia.
From F8 Require Import Codec.Bytes Codec.Meta Codec.Extract Codec.Decode
                       C07.Chksum C07.Spec_C07 C07.ChksumProofs
                       C03.Bounds C03.ExtractProofs C03.DecodeProofs.
Import ListNotations.
Local Open Scope N_scope.

(* ------------------------------------------------------------------ construction *)

Lemma fold_init_ok : forall init m, mb_ok m = true -> mb_ok (fold_left add_init init m) = true.
Proof.
  induction init as [|[p [f v]] r IH]; intros m H; [exact H|].
  cbn [fold_left]. apply IH. unfold add_init. rewrite mb_ok_field. exact H.
Qed.

Lemma create_group_ok g deep : part_ok g = true -> mb_ok (create_group g deep) = true.
Proof. intros Hp. unfold part_ok in Hp. unfold mb_ok, create_group. cbn [mb_fp mb_subs]. exact Hp. Qed.

Lemma mk_part_ok g init deep : part_ok g = true -> mb_ok (mk_part g init deep) = true.
Proof. intros Hp. unfold mk_part. apply fold_init_ok. apply create_group_ok; assumption. Qed.

Lemma list_eqb_nil a : list_eqb a [] = true -> a = [].
Proof. destruct a; [reflexivity|discriminate]. Qed.

Lemma find_msg_in : forall ms ty md, find_msg ms ty = Some md -> In md ms /\ list_eqb (md_type md) ty = true.
Proof.
  induction ms as [|x r IH]; intros ty md H; [discriminate|].
  cbn [find_msg] in H. destruct (list_eqb (md_type x) ty) eqn:E.
  - injection H as <-. split; [left; reflexivity|exact E].
  - destruct (IH _ _ H) as [H1 H2]. split; [right; exact H1|exact H2].
Qed.

Lemma ctx_ok_parts c md : c03_wf c = true -> In md (c_msgs c) ->
  mb_ok (mk_part (c_header c) (c_hdr_init c) true) = true /\
  mb_ok (create_group (md_meta md) false) = true /\
  mb_ok (mk_part (c_trailer c) (c_trl_init c) true) = true /\
  md_type md <> [].
Proof.
  unfold c03_wf. intros Hw Hin.
  apply andb_true_iff in Hw. destruct Hw as [Hw Hm]. apply andb_true_iff in Hw. destruct Hw as [Hh Ht].
  rewrite forallb_forall in Hm. specialize (Hm _ Hin). apply andb_true_iff in Hm. destruct Hm as [Hm Hty].
  repeat split.
  - apply mk_part_ok; exact Hh.
  - apply create_group_ok; exact Hm.
  - apply mk_part_ok; exact Ht.
  - destruct (md_type md); [discriminate|discriminate].
Qed.

(* ------------------------------------------------------------------ decode *)
Section Top.
Variable bd : bool.
Variable c : ctx.
Variable from : list N.
Hypothesis Hlen : bd = true -> lenN from < 4294967296.

Lemma fsize_le ignore : bd = true -> ignore <= lenN from ->
  (lenN from + 4294967296 - ignore) mod 4294967296 <= lenN from.
Proof.
  intros Hb Hi. pose proof (Hlen Hb).
  replace (lenN from + 4294967296 - ignore) with ((lenN from - ignore) + 1 * 4294967296) by lia.
  rewrite N.mod_add by lia. rewrite N.mod_small by lia. lia.
Qed.

Lemma mbase_decode_good m off ignore pm :
  (bd = true -> ignore <= lenN from) -> mb_ok m = true ->
  rgood bd True (fun _ : mbase * N => True) (mbase_decode c real_caps from m off ignore pm).
Proof.
  intros Hi Hok. unfold mbase_decode, mb_decode.
  eapply rgood_weaken.
  - apply (dec_loop_good c real_caps from _ ltac:(apply N.le_refl) ltac:(apply N.le_refl) bd).
    + intros Hb. apply fsize_le; auto.
    + unfold dec_fuel. rewrite lenN_length. lia.
    + exact Hok.
  - intros _. unfold dec_fuel. rewrite lenN_length. lia.
  - auto.
Qed.

Lemma msg_decode_good msg off ignore pm :
  (bd = true -> ignore <= lenN from) ->
  mb_ok (m_hdr msg) = true -> mb_ok (m_body msg) = true -> mb_ok (m_trl msg) = true ->
  rgood bd True (fun _ : message * N => True) (msg_decode c real_caps from msg off ignore pm).
Proof.
  intros Hi Hh Hb Ht. unfold msg_decode.
  pose proof (mbase_decode_good (m_hdr msg) off 0 pm ltac:(intros; lia) Hh) as H1.
  destruct (mbase_decode c real_caps from (m_hdr msg) off 0 pm) as [[h hlen]| | | |]; cbn [bind]; try exact H1.
  pose proof (mbase_decode_good (m_body msg) hlen 0 pm ltac:(intros; lia) Hb) as H2.
  destruct (mbase_decode c real_caps from (m_body msg) hlen 0 pm) as [[b blen]| | | |]; cbn [bind]; try exact H2.
  pose proof (mbase_decode_good (m_trl msg) blen ignore pm Hi Ht) as H3.
  destruct (mbase_decode c real_caps from (m_trl msg) blen ignore pm) as [[t tlen]| | | |]; cbn [bind]; exact H3.
Qed.
End Top.

(* ------------------------------------------------------------------ checksum read *)
Lemma bytes_ok_map l : is_bytes l = true -> bytes_ok (map Z.of_N (l ++ [0])) = true.
Proof.
  unfold bytes_ok, is_bytes. induction l as [|x r IH]; intros H; [reflexivity|].
  cbn [forallb] in H. apply andb_true_iff in H. destruct H as [H1 H2]. apply N.ltb_lt in H1.
  cbn [app map forallb]. rewrite (IH H2). rewrite andb_true_r.
  apply andb_true_iff. split; [apply Z.leb_le|apply Z.ltb_lt]; lia.
Qed.

Lemma chksum_some bytes : is_bytes bytes = true -> 7 <= lenN bytes -> lenN bytes < 4294967296 ->
  calc_chksum (map Z.of_N (bytes ++ [0])) (Z.of_N (lenN bytes)) 0 (Z.of_N (lenN bytes) - 7) <> None.
Proof.
  intros Hb H7 H32.
  destruct (chk_run true (map Z.of_N (bytes ++ [0])) (Z.of_N (lenN bytes)) 0 (Z.of_N (lenN bytes) - 7)
                    (Z.of_N (lenN bytes) - 7)) as (h & Hr & _).
  - unfold elen_of. destruct (Z.of_N (lenN bytes) - 7 =? -1)%Z eqn:E; [apply Z.eqb_eq in E; lia|].
    apply Z.mod_small. unfold W64. lia.
  - apply bytes_ok_map. exact Hb.
  - lia.
  - lia.
  - rewrite map_length, app_length. cbn [length]. rewrite lenN_length. lia.
  - unfold calc_chksum. rewrite Hr. discriminate.
Qed.

(* ------------------------------------------------------------------ factory *)
Lemma cstr_nil_of_nil l : l = [] -> cstr l = [].
Proof. intros ->. reflexivity. Qed.

Lemma factory_good bd c bytes nc pm :
  c03_wf c = true ->
  (bd = true -> is_bytes bytes = true /\ lenN bytes < 4294967296) ->
  rgood bd True (fun _ : message => True) (factory c real_caps bytes nc pm).
Proof.
  intros Hc Hb. unfold factory.
  destruct (extract_header bytes (cap_htag real_caps) (cap_hval real_caps) (cap_len real_caps) (cap_mtype real_caps))
    as [[[hlen len] mtype]| | | |] eqn:Eh; cbn [bind].
  2:{ exact I. }
  2:{ exfalso. exact (extract_header_safe bytes _ Eh). }
  2,3: (unfold extract_header in Eh;
        repeat match type of Eh with
               | match ?x with _ => _ end = _ => destruct x; try discriminate
               | (if ?x then _ else _) = _ => destruct x; try discriminate
               end).
  destruct (hlen =? 0); [exact I|].
  destruct (find_msg (c_msgs c) (cstr mtype)) as [md|] eqn:Em; [|exact I].
  destruct (find_msg_in _ _ _ Em) as [Hin Heq].
  destruct (ctx_ok_parts c md Hc Hin) as (Hh & Hbd & Ht & Hty).
  (* the message class has a non-empty MsgType, so a third header token was seen: >= 7 bytes *)
  assert (H7 : 7 <= lenN bytes).
  { apply (extract_header_len _ _ _ _ _ _ _ _ Eh). intros ->. apply Hty. apply list_eqb_nil. exact Heq. }
  assert (Hlen : bd = true -> lenN bytes < 4294967296) by (intros E; apply (Hb E)).
  pose proof (msg_decode_good bd c bytes Hlen (mk_message c md false) hlen 7 pm (fun _ => H7) Hh Hbd Ht) as Hdec.
  destruct (msg_decode c real_caps bytes (mk_message c md false) hlen 7 pm) as [[msg1 tl]| | | |]; cbn [bind]; try exact Hdec.
  cbv zeta.
  destruct (lenN bytes <? 7) eqn:E7; [apply N.ltb_lt in E7; lia|].
  destruct (negb (nthN bytes (lenN bytes - 7) =? 49) || negb (nthN bytes (lenN bytes - 7 + 1) =? 48)); [exact I|].
  destruct nc; [exact I|].
  destruct (calc_chksum (map Z.of_N (bytes ++ [0])) (Z.of_N (lenN bytes)) 0 (Z.of_N (lenN bytes) - 7)) as [[mchk hh]|] eqn:Ec.
  - match goal with |- context [if ?b then _ else _] => destruct b end; exact I.
  - cbv beta iota delta [rgood]. destruct bd; [|reflexivity]. exfalso.
    destruct (Hb eq_refl) as [H1 H3].
    exact (chksum_some bytes H1 H7 H3 Ec).
Qed.

(* ------------------------------------------------------------------ the statements of the Props file *)
(* the property as stated: Ok or a library exception, for every byte string *)
Lemma c03_decode_safe_lemma c bytes nc pm :
  c03_wf c = true -> is_bytes bytes = true -> lenN bytes < 4294967296 ->
  safe (factory c real_caps bytes nc pm).
Proof.
  intros Hw Hb Hl.
  pose proof (factory_good true c bytes nc pm Hw (fun _ => conj Hb Hl)) as H.
  destruct (factory c real_caps bytes nc pm); cbn in H |- *; try exact I; try exact H; try discriminate.
  tauto.
Qed.

(* totality of the model for EVERY list (not even bytes): neither Fuel nor Diverge *)
Lemma c03_decode_total_lemma c bytes nc pm :
  c03_wf c = true -> factory c real_caps bytes nc pm <> Fuel /\ factory c real_caps bytes nc pm <> Diverge.
Proof.
  intros Hw.
  pose proof (factory_good false c bytes nc pm Hw ltac:(discriminate)) as H.
  split; intros E; rewrite E in H; cbn in H; tauto.
Qed.

(* ------------------------------------------------------------------ the pseudo rows of the table (old lookup) *)
Lemma c03_factory_orig_safe_lemma c bytes nc pm :
  c03_wf c = true -> is_bytes bytes = true -> lenN bytes < 4294967296 -> c03_pseudo real_caps bytes = false ->
  safe (c03_factory_orig c real_caps bytes nc pm).
Proof. intros Hw Hb Hl Hp. unfold c03_factory_orig. rewrite Hp. apply c03_decode_safe_lemma; assumption. Qed.
