(* C03 proofs, part 3: Message::decode and Message::factory on top of the loop lemmas, and the
   lemmas the Props file closes with. *)
From Coq Require Import NArith ZArith List Bool Lia.
From F8 Require Import Codec.Bytes Codec.Meta Codec.Extract Codec.Decode
                       C07.Chksum C07.Spec_C07 C07.ChksumProofs
                       C03.Bounds C03.ExtractProofs C03.DecodeProofs.
Import ListNotations.
Local Open Scope N_scope.

(* ------------------------------------------------------------------ construction *)
Definition ctx_ok (nd : bool) (c : ctx) : bool := c03_wf c && (negb nd || c03_nodata c).

Lemma fold_init_ok nd : forall init m, mb_ok nd m = true -> mb_ok nd (fold_left add_init init m) = true.
Proof.
  induction init as [|[p [f v]] r IH]; intros m H; [exact H|].
  cbn [fold_left]. apply IH. unfold add_init. rewrite mb_ok_field. exact H.
Qed.

Lemma create_group_ok nd g deep :
  part_ok g = true -> (nd = true -> nolen_b (g_traits g) = true) -> mb_ok nd (create_group g deep) = true.
Proof.
  intros Hp Hn. unfold part_ok in Hp. unfold mb_ok, create_group. cbn [mb_fp mb_subs].
  rewrite Hp. cbn [andb]. destruct nd; [|reflexivity]. cbn [negb orb]. exact (Hn eq_refl).
Qed.

Lemma mk_part_ok nd g init deep :
  part_ok g = true -> (nd = true -> nolen_b (g_traits g) = true) -> mb_ok nd (mk_part g init deep) = true.
Proof. intros Hp Hn. unfold mk_part. apply fold_init_ok. apply create_group_ok; assumption. Qed.

Lemma list_eqb_nil a : list_eqb a [] = true -> a = [].
Proof. destruct a; [reflexivity|discriminate]. Qed.

Lemma find_msg_in : forall ms ty md, find_msg ms ty = Some md -> In md ms /\ list_eqb (md_type md) ty = true.
Proof.
  induction ms as [|x r IH]; intros ty md H; [discriminate|].
  cbn [find_msg] in H. destruct (list_eqb (md_type x) ty) eqn:E.
  - injection H as <-. split; [left; reflexivity|exact E].
  - destruct (IH _ _ H) as [H1 H2]. split; [right; exact H1|exact H2].
Qed.

Lemma ctx_ok_parts nd c md : ctx_ok nd c = true -> In md (c_msgs c) ->
  mb_ok nd (mk_part (c_header c) (c_hdr_init c) true) = true /\
  mb_ok nd (create_group (md_meta md) false) = true /\
  mb_ok nd (mk_part (c_trailer c) (c_trl_init c) true) = true /\
  md_type md <> [].
Proof.
  unfold ctx_ok, c03_wf, c03_nodata. intros H Hin.
  apply andb_true_iff in H. destruct H as [Hw Hd].
  apply andb_true_iff in Hw. destruct Hw as [Hw Hm]. apply andb_true_iff in Hw. destruct Hw as [Hh Ht].
  rewrite forallb_forall in Hm. specialize (Hm _ Hin). apply andb_true_iff in Hm. destruct Hm as [Hm Hty].
  assert (Hn : nd = true -> nolen_b (g_traits (c_header c)) = true /\ nolen_b (g_traits (c_trailer c)) = true /\
                              nolen_b (g_traits (md_meta md)) = true).
  { intros ->. cbn [negb orb] in Hd. apply andb_true_iff in Hd. destruct Hd as [Hd Hx].
    apply andb_true_iff in Hd. destruct Hd as [H1 H2]. rewrite forallb_forall in Hx. specialize (Hx _ Hin). auto. }
  repeat split.
  - apply mk_part_ok; [exact Hh|]. intros E. apply (Hn E).
  - apply create_group_ok; [exact Hm|]. intros E. apply (Hn E).
  - apply mk_part_ok; [exact Ht|]. intros E. apply (Hn E).
  - destruct (md_type md); [discriminate|discriminate].
Qed.

(* ------------------------------------------------------------------ decode *)
Section Top.
Variables bd dr nd : bool.
Variable c : ctx.
Variable from : list N.
Hypothesis Hlen : bd = true -> lenN from < 4294967296.
Hypothesis Hdr : dr = true -> digit_runs_ok MAX_FLD_LENGTH 0 from = true.

Lemma fsize_le ignore : bd = true -> ignore <= lenN from ->
  (lenN from + 4294967296 - ignore) mod 4294967296 <= lenN from.
Proof.
  intros Hb Hi. pose proof (Hlen Hb).
  replace (lenN from + 4294967296 - ignore) with ((lenN from - ignore) + 1 * 4294967296) by lia.
  rewrite N.mod_add by lia. rewrite N.mod_small by lia. lia.
Qed.

Lemma mbase_decode_good m off ignore pm :
  (bd = true -> ignore <= lenN from) -> mb_ok nd m = true ->
  rgood bd dr nd True (fun _ : mbase * N => True) (mbase_decode c real_caps from m off ignore pm).
Proof.
  intros Hi Hok. unfold mbase_decode, mb_decode.
  eapply rgood_weaken.
  - apply (dec_loop_good c real_caps from _ ltac:(apply N.le_refl) ltac:(apply N.le_refl) bd).
    + intros Hb. apply fsize_le; auto.
    + exact Hdr.
    + unfold dec_fuel. rewrite lenN_length. lia.
    + exact Hok.
  - intros _. unfold dec_fuel. rewrite lenN_length. lia.
  - auto.
Qed.

Lemma msg_decode_good msg off ignore pm :
  (bd = true -> ignore <= lenN from) ->
  mb_ok nd (m_hdr msg) = true -> mb_ok nd (m_body msg) = true -> mb_ok nd (m_trl msg) = true ->
  rgood bd dr nd True (fun _ : message * N => True) (msg_decode c real_caps from msg off ignore pm).
Proof.
  intros Hi Hh Hb Ht. unfold msg_decode.
  pose proof (mbase_decode_good (m_hdr msg) off 0 pm ltac:(intros; lia) Hh) as H1.
  destruct (mbase_decode c real_caps from (m_hdr msg) off 0 pm) as [[h hlen]| | | |]; cbn [bind]; try exact H1.
  pose proof (mbase_decode_good (m_body msg) hlen 0 pm ltac:(intros; lia) Hb) as H2.
  destruct (mbase_decode c real_caps from (m_body msg) hlen 0 pm) as [[b blen]| | | |]; cbn [bind]; try exact H2.
  pose proof (mbase_decode_good (m_trl msg) blen ignore pm Hi Ht) as H3.
  destruct (mbase_decode c real_caps from (m_trl msg) blen ignore pm) as [[t tlen]| | | |]; cbn [bind]; exact H3.
Qed.
End Top.

(* ------------------------------------------------------------------ checksum read *)
Lemma bytes_ok_map l : is_bytes l = true -> bytes_ok (map Z.of_N (l ++ [0])) = true.
Proof.
  unfold bytes_ok, is_bytes. induction l as [|x r IH]; intros H; [reflexivity|].
  cbn [forallb] in H. apply andb_true_iff in H. destruct H as [H1 H2]. apply N.ltb_lt in H1.
  cbn [app map forallb]. rewrite (IH H2). rewrite andb_true_r.
  apply andb_true_iff. split; [apply Z.leb_le|apply Z.ltb_lt]; lia.
Qed.

Lemma chksum_some bytes : is_bytes bytes = true -> 7 <= lenN bytes -> lenN bytes < 4294967296 ->
  calc_chksum (map Z.of_N (bytes ++ [0])) (Z.of_N (lenN bytes)) 0 (Z.of_N (lenN bytes) - 7) <> None.
Proof.
  intros Hb H7 H32.
  destruct (chk_run true (map Z.of_N (bytes ++ [0])) (Z.of_N (lenN bytes)) 0 (Z.of_N (lenN bytes) - 7)
                    (Z.of_N (lenN bytes) - 7)) as (h & Hr & _).
  - unfold elen_of. destruct (Z.of_N (lenN bytes) - 7 =? -1)%Z eqn:E; [apply Z.eqb_eq in E; lia|].
    apply Z.mod_small. unfold W64. lia.
  - apply bytes_ok_map. exact Hb.
  - lia.
  - lia.
  - rewrite map_length, app_length. cbn [length]. rewrite lenN_length. lia.
  - unfold calc_chksum. rewrite Hr. discriminate.
Qed.

(* ------------------------------------------------------------------ factory *)
Lemma cstr_nil_of_nil l : l = [] -> cstr l = [].
Proof. intros ->. reflexivity. Qed.

Lemma factory_good bd dr nd c bytes nc pm :
  ctx_ok nd c = true ->
  (bd = true -> is_bytes bytes = true /\ lenN bytes < 4294967296) ->
  (dr = true -> digit_runs_ok MAX_FLD_LENGTH 0 bytes = true) ->
  rgood bd dr nd True (fun _ : message => True) (factory c real_caps bytes nc pm).
Proof.
  intros Hc Hb Hd. unfold factory.
  destruct (extract_header bytes (cap_htag real_caps) (cap_hval real_caps) (cap_len real_caps) (cap_mtype real_caps))
    as [[[hlen len] mtype]| | | |] eqn:Eh; cbn [bind].
  2:{ exact I. }
  2:{ exfalso. exact (extract_header_safe bytes _ Eh). }
  2,3: (unfold extract_header in Eh;
        repeat match type of Eh with
               | match ?x with _ => _ end = _ => destruct x; try discriminate
               | (if ?x then _ else _) = _ => destruct x; try discriminate
               end).
  destruct (hlen =? 0); [exact I|].
  destruct (find_msg (c_msgs c) (cstr mtype)) as [md|] eqn:Em; [|exact I].
  destruct (find_msg_in _ _ _ Em) as [Hin Heq].
  destruct (ctx_ok_parts nd c md Hc Hin) as (Hh & Hbd & Ht & Hty).
  (* the message class has a non-empty MsgType, so a third header token was seen: >= 7 bytes *)
  assert (H7 : 7 <= lenN bytes).
  { apply (extract_header_len _ _ _ _ _ _ _ _ Eh). intros ->. apply Hty. apply list_eqb_nil. exact Heq. }
  assert (Hlen : bd = true -> lenN bytes < 4294967296) by (intros E; apply (Hb E)).
  pose proof (msg_decode_good bd dr nd c bytes Hlen Hd (mk_message c md false) hlen 7 pm (fun _ => H7) Hh Hbd Ht) as Hdec.
  destruct (msg_decode c real_caps bytes (mk_message c md false) hlen 7 pm) as [[msg1 tl]| | | |]; cbn [bind]; try exact Hdec.
  cbv zeta.
  destruct (lenN bytes <? 7) eqn:E7; [apply N.ltb_lt in E7; lia|].
  destruct (negb (nthN bytes (lenN bytes - 7) =? 49) || negb (nthN bytes (lenN bytes - 7 + 1) =? 48)); [exact I|].
  destruct nc; [exact I|].
  destruct (calc_chksum (map Z.of_N (bytes ++ [0])) (Z.of_N (lenN bytes)) 0 (Z.of_N (lenN bytes) - 7)) as [[mchk hh]|] eqn:Ec.
  - match goal with |- context [if ?b then _ else _] => destruct b end; exact I.
  - cbv beta iota delta [rgood]. destruct bd; [|left; reflexivity]. exfalso.
    destruct (Hb eq_refl) as [H1 H3].
    exact (chksum_some bytes H1 H7 H3 Ec).
Qed.

(* ------------------------------------------------------------------ the statements of the Props file *)
Lemma wf_ctx_ok c : c03_wf c = true -> ctx_ok false c = true.
Proof. unfold ctx_ok. intros ->. reflexivity. Qed.

Lemma c03_decode_safe_lemma c bytes nc pm :
  c03_wf c = true -> is_bytes bytes = true -> lenN bytes < 4294967296 ->
  classified (factory c real_caps bytes nc pm).
Proof.
  intros Hw Hb Hl.
  pose proof (factory_good true false false c bytes nc pm (wf_ctx_ok c Hw) (fun _ => conj Hb Hl) ltac:(discriminate)) as H.
  destruct (factory c real_caps bytes nc pm); cbn in H |- *; try exact I; try exact H.
  - destruct H as [H|[_ [H|[H _]]]]; [discriminate|right; exact H|left; exact H].
  - tauto.
Qed.

Lemma c03_decode_digits_lemma c bytes nc pm :
  c03_wf c = true -> is_bytes bytes = true -> lenN bytes < 4294967296 ->
  digit_runs_ok MAX_FLD_LENGTH 0 bytes = true ->
  classified_uninit (factory c real_caps bytes nc pm).
Proof.
  intros Hw Hb Hl Hd.
  pose proof (factory_good true true false c bytes nc pm (wf_ctx_ok c Hw) (fun _ => conj Hb Hl) (fun _ => Hd)) as H.
  destruct (factory c real_caps bytes nc pm); cbn in H |- *; try exact I; try exact H.
  - destruct H as [H|[_ [H|[_ H]]]]; [discriminate|exact H|discriminate].
  - tauto.
Qed.

Lemma c03_decode_safe_nodata_lemma c bytes nc pm :
  c03_wf c = true -> c03_nodata c = true -> is_bytes bytes = true -> lenN bytes < 4294967296 ->
  safe (factory c real_caps bytes nc pm).
Proof.
  intros Hw Hn Hb Hl.
  assert (Hc : ctx_ok true c = true) by (unfold ctx_ok; rewrite Hw, Hn; reflexivity).
  pose proof (factory_good true false true c bytes nc pm Hc (fun _ => conj Hb Hl) ltac:(discriminate)) as H.
  destruct (factory c real_caps bytes nc pm); cbn in H |- *; try exact I; try exact H.
  - destruct H as [H|[H _]]; discriminate.
  - tauto.
Qed.

(* totality of the model for EVERY list (not even bytes): neither Fuel nor Diverge *)
Lemma c03_decode_total_lemma c bytes nc pm :
  c03_wf c = true -> factory c real_caps bytes nc pm <> Fuel /\ factory c real_caps bytes nc pm <> Diverge.
Proof.
  intros Hw.
  pose proof (factory_good false false false c bytes nc pm (wf_ctx_ok c Hw) ltac:(discriminate) ltac:(discriminate)) as H.
  split; intros E; rewrite E in H; cbn in H; tauto.
Qed.
