(* C03 proofs, part 4: Message::encode(f8String&) and the kernel-checked witnesses of the
   refutations (findings F06, F07, F08) on the example schema of Codec/Example.v. *)
From Coq Require Import NArith ZArith List Bool Lia String Ascii.
From F8 Require Import Codec.Bytes Codec.Meta Codec.Extract Codec.Decode Codec.Encode Codec.Render Codec.Example
                       C03.Bounds C03.ExtractProofs C03.FactoryProofs.
Import ListNotations.
Local Open Scope N_scope.

(* ------------------------------------------------------------------ encode within capacity *)
Lemma len_digits_pos n : 1 <= len_digits n.
Proof. unfold len_digits. repeat match goal with |- context [if ?b then _ else _] => destruct b end; lia. Qed.

Lemma parts_pre_pos c m pre body cs m' : msg_encode_parts c m = Ok (pre, body, cs, m') -> 1 <= lenN pre.
Proof.
  unfold msg_encode_parts. intros H.
  destruct (mb_encode c (set_value (m_hdr m) Common_MsgType (m_type m))) as [hb| | | |]; try discriminate.
  destruct (mb_encode c (m_body m)) as [bb| | | |]; try discriminate.
  destruct (mb_encode c (m_trl m)) as [tb| | | |]; try discriminate.
  cbn [bind] in H. cbv zeta in H.
  destruct (map_find Common_BeginString (mb_fields (set_value (m_hdr m) Common_MsgType (m_type m)))); [|discriminate].
  match type of H with match ?x with _ => _ end = _ => destruct x; [|discriminate] end.
  match type of H with (if negb (?a =? ?b) then _ else _) = _ => destruct (a =? b) eqn:E; [|discriminate] end.
  cbn [negb] in H.
  match type of H with match ?x with _ => _ end = _ => destruct x; [|discriminate] end.
  match type of H with match ?x with _ => _ end = _ => destruct x as [[ck hh]|]; [|discriminate] end.
  assert (Hp : lenN pre = preamble_sz c + len_digits (lenN (hb ++ bb ++ tb))).
  { apply N.eqb_eq in E. injection H; intros; subst pre. exact E. }
  pose proof (len_digits_pos (lenN (hb ++ bb ++ tb))). lia.
Qed.

(* if the encoded message is no longer than FIX8_MAX_MSG_LENGTH, encode(f8String&) stays inside
   output[] and returns exactly those bytes *)
Lemma c03_encode_safe_partial_lemma c m bytes m' :
  msg_encode c m = Ok (bytes, m') -> lenN bytes <= MAX_MSG_LENGTH ->
  msg_encode_str c real_caps m = Ok (bytes, m').
Proof.
  unfold msg_encode, msg_encode_str.
  destruct (msg_encode_parts c m) as [[[[pre body] cs] m'']| | | |] eqn:E; cbn [bind]; try discriminate.
  intros H Hl. injection H as <- <-.
  pose proof (parts_pre_pos _ _ _ _ _ _ E) as Hp. rewrite !lenN_app in Hl.
  cbn [real_caps cap_out]. unfold MAX_MSG_LENGTH, HEADER_CALC_OFFSET in *.
  destruct (8192 + 32 <? 32 + lenN body + lenN cs + 1) eqn:Eo; [apply N.ltb_lt in Eo; lia|reflexivity].
Qed.

(* ------------------------------------------------------------------ witnesses *)
Fixpoint bytes_of_string (s : string) : list N :=
  match s with
  | EmptyString => []
  | String a r => (let b := N_of_ascii a in if b =? 124 then SOH else b) :: bytes_of_string r
  end.
Definition xs (n : N) : list N := repeat 120 (N.to_nat n).     (* n times 'x' *)

Local Open Scope string_scope.
Definition hb_pre : list N := bytes_of_string "8=FIX.4.2|9=5|35=0|49=A|56=B|34=7|112=".
Definition tail10 : list N := bytes_of_string "|10=000|".
(* a Heartbeat whose TestReqID has n bytes *)
Definition hb_val (n : N) : list N := hb_pre ++ xs n ++ tail10.
(* a message whose MsgType has n bytes *)
Definition long_mtype (n : N) : list N :=
  bytes_of_string "8=FIX.4.2|9=5|35=" ++ xs n ++ bytes_of_string "|49=A|56=B|34=7|10=000|".
(* F08: garbage right after the count of a group whose class has no mandatory member *)
Definition hang_msg : list N :=
  bytes_of_string "8=FIX.4.2|9=5|35=E|49=A|56=B|34=7|66=L1|73=1|11=O1|78=1|A=1|10=000|".
Local Close Scope string_scope.

(* F06: a value of 2048 bytes overruns val[2048] of MessageBase::decode (2047 bytes do not), a
   MsgType of 100 bytes overruns mtype[32] of Message::factory through extract_header; both
   inputs violate only the run bound of tokens_bounded *)
Lemma c03_val_overflow_refuted_lemma :
  exists c b1 b2 b3,
    c03_wf c = true /\
    factory c real_caps b1 false false = OOB site_val_write /\ dec_class c b1 false false = DDec /\
    factory c real_caps b2 false false = OOB site_val_write /\ dec_class c b2 false false = DHdr /\
    safe (factory c real_caps b3 false false) /\ tokens_bounded b3 = true /\
    tokens_bounded b1 = false /\ tokens_bounded b2 = false.
Proof.
  exists ex_ctx, (hb_val 2048), (long_mtype 100), (hb_val 2047).
  split; [vm_compute; reflexivity|]. split; [vm_compute; reflexivity|]. split; [vm_compute; reflexivity|].
  split; [vm_compute; reflexivity|]. split; [vm_compute; reflexivity|]. split; [vm_compute; exact I|].
  split; [vm_compute; reflexivity|]. split; vm_compute; reflexivity.
Qed.

(* F08: decode_group appends empty elements for ever; the input is bounded and the schema wf *)
Lemma c03_group_hang_refuted_lemma :
  exists c bytes, c03_wf c = true /\ tokens_bounded bytes = true /\
                  factory c real_caps bytes false false = Diverge.
Proof.
  exists ex_ctx, hang_msg.
  split; [vm_compute; reflexivity|]. split; vm_compute; reflexivity.
Qed.

(* F07: a Heartbeat with a TestReqID of 9000 bytes: the unbounded encoder produces 9000+ bytes,
   encode(f8String&) writes them through output[8224] *)
Definition big_hb : message :=
  let m := mk_message ex_ctx (mkMD [48] true ex_heartbeat) true in
  mkMsg (m_type m) (ex_hdr_fields (m_hdr m)) (addf (m_body m) 112 (xs 9000)) (m_trl m).

Lemma c03_encode_overflow_refuted_lemma :
  exists c m, (exists b m', msg_encode c m = Ok (b, m') /\ MAX_MSG_LENGTH + HEADER_CALC_OFFSET <= lenN b) /\
              msg_encode_str c real_caps m = OOB site_encode_buf.
Proof.
  exists ex_ctx, big_hb. split; [|vm_compute; reflexivity].
  assert (H : match msg_encode ex_ctx big_hb with Ok (b, _) => 8224 <=? lenN b | _ => false end = true)
    by (vm_compute; reflexivity).
  destruct (msg_encode ex_ctx big_hb) as [[b m']| | | |]; try discriminate.
  exists b, m'. split; [reflexivity|]. apply N.leb_le in H. exact H.
Qed.

(* ------------------------------------------------------------------ non-vacuity *)
Definition ex_list_bytes : list N := match msg_encode ex_ctx ex_list with Ok (b, _) => b | _ => [] end.

(* a schema meeting the hypotheses of the strong theorem: ex_ctx without the Length/data pair of
   the trailer and with AllocAccount (79) mandatory in the nested group *)
Definition safe_allocs : gmeta := GM [ tr 79 15 1 true false false false; tr 80 9 2 false false false false ] [] true.
Definition safe_orders : gmeta := GM
  [ tr 11 15 1 true false false false; tr 38 9 2 false false false false; tr 78 5 3 false true false false ]
  [ (78, safe_allocs) ] true.
Definition safe_body : gmeta := GM
  [ tr 55 15 2 false false false false; tr 58 15 4 false false false false; tr 66 15 1 true false false false;
    tr 73 5 3 false true false false ]
  [ (73, safe_orders) ] true.
Definition safe_ctx : ctx := mkCtx (c_fields ex_ctx)
  [ mkMD [48] true ex_heartbeat; mkMD [69] false safe_body ]
  ex_header (GM [ tr 10 15 3 false false true true ] [] true)
  (c_hdr_init ex_ctx) (c_trl_init ex_ctx) (c_begin ex_ctx) render_default.

Lemma c03_nonvacuous_lemma :
  c03_wf ex_ctx = true /\ tokens_bounded ex_list_bytes = true /\
  (exists m, factory ex_ctx real_caps ex_list_bytes false false = Ok m) /\
  c03_nohang safe_ctx = true /\ c03_nodata safe_ctx = true /\
  (exists m, factory safe_ctx real_caps ex_list_bytes false false = Ok m) /\
  (* the hang input is rejected by the schema in which the nested group has a mandatory member *)
  (exists e, factory safe_ctx real_caps hang_msg false false = Exc e).
Proof.
  split; [vm_compute; reflexivity|]. split; [vm_compute; reflexivity|].
  split; [eexists; vm_compute; reflexivity|].
  split; [vm_compute; reflexivity|]. split; [vm_compute; reflexivity|].
  split; eexists; vm_compute; reflexivity.
Qed.

(* fast_atoi<int> (F09): the texts UBSan reports, and texts at the edge it does not *)
Lemma c03_atoi_ub_lemma :
  atoi_ub (bytes_of_string "2147483647") = true /\ atoi_ub (bytes_of_string "-") = false /\
  atoi_ub (bytes_of_string "-5") = true /\ atoi_ub (bytes_of_string "2147483599") = false /\
  atoi_ub (bytes_of_string "99999999999") = true /\ atoi_ub (bytes_of_string "0") = false.
Proof.
  split; [vm_compute; reflexivity|]. split; [vm_compute; reflexivity|]. split; [vm_compute; reflexivity|].
  split; [vm_compute; reflexivity|]. split; vm_compute; reflexivity.
Qed.

(* date/time parsers (new finding): a month 14, a char below '0', a year whose ticks leave int64;
   a canonical timestamp and the largest month the table holds are fine *)
Lemma c03_datetime_ub_lemma :
  dt_ub ft_UTCTimestamp (bytes_of_string "20231401-00:00:00") = Some true /\
  dt_ub ft_UTCTimestamp (bytes_of_string "2023-101-00:00:00.000") = Some true /\
  dt_ub ft_LocalMktDate (bytes_of_string "99990101") = Some true /\
  dt_ub ft_UTCTimestamp (bytes_of_string "20230101-00:00:00.000") = Some false /\
  dt_ub ft_UTCTimestamp (bytes_of_string "20391301-00:00:00") = Some false /\
  dt_ub ft_UTCTimestamp (bytes_of_string "2023") = None.
Proof.
  split; [vm_compute; reflexivity|]. split; [vm_compute; reflexivity|]. split; [vm_compute; reflexivity|].
  split; [vm_compute; reflexivity|]. split; vm_compute; reflexivity.
Qed.
