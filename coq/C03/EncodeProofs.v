(* C03 proofs, part 4: Message::encode(f8String&) and the kernel-checked witnesses of the
   refutations (findings F06, F07, F08) on the example schema of Codec/Example.v. *)
From Coq Require Import NArith ZArith List Bool Lia String Ascii.
From F8 Require Import Codec.Bytes Codec.Meta Codec.Extract Codec.Decode Codec.Encode Codec.Render Codec.Example
                       C03.Bounds C03.ExtractProofs C03.FactoryProofs.
Import ListNotations.
Local Open Scope N_scope.

(* ------------------------------------------------------------------ encode within capacity *)
Lemma len_digits_pos n : 1 <= len_digits n.
Proof. unfold len_digits. repeat match goal with |- context [if ?b then _ else _] => destruct b end; lia. Qed.

Lemma parts_pre_pos c m pre body cs m' : msg_encode_parts c m = Ok (pre, body, cs, m') -> 1 <= lenN pre.
Proof.
  unfold msg_encode_parts. intros H.
  destruct (mb_encode c (set_value (m_hdr m) Common_MsgType (m_type m))) as [hb| | | |]; try discriminate.
  destruct (mb_encode c (m_body m)) as [bb| | | |]; try discriminate.
  destruct (mb_encode c (m_trl m)) as [tb| | | |]; try discriminate.
  cbn [bind] in H. cbv zeta in H.
  destruct (map_find Common_BeginString (mb_fields (set_value (m_hdr m) Common_MsgType (m_type m)))); [|discriminate].
  match type of H with match ?x with _ => _ end = _ => destruct x; [|discriminate] end.
  match type of H with (if negb (?a =? ?b) then _ else _) = _ => destruct (a =? b) eqn:E; [|discriminate] end.
  cbn [negb] in H.
  match type of H with match ?x with _ => _ end = _ => destruct x; [|discriminate] end.
  match type of H with match ?x with _ => _ end = _ => destruct x as [[ck hh]|]; [|discriminate] end.
  assert (Hp : lenN pre = preamble_sz c + len_digits (lenN (hb ++ bb ++ tb))).
  { apply N.eqb_eq in E. injection H; intros; subst pre. exact E. }
  pose proof (len_digits_pos (lenN (hb ++ bb ++ tb))). lia.
Qed.

(* if the encoded message is no longer than FIX8_MAX_MSG_LENGTH, encode(f8String&) stays inside
   output[] and returns exactly those bytes *)
Lemma c03_encode_safe_partial_lemma c m bytes m' :
  msg_encode c m = Ok (bytes, m') -> lenN bytes <= MAX_MSG_LENGTH ->
  msg_encode_str c real_caps m = Ok (bytes, m').
Proof.
  unfold msg_encode, msg_encode_str.
  destruct (msg_encode_parts c m) as [[[[pre body] cs] m'']| | | |] eqn:E; cbn [bind]; try discriminate.
  intros H Hl. injection H as <- <-.
  pose proof (parts_pre_pos _ _ _ _ _ _ E) as Hp. rewrite !lenN_app in Hl.
  cbn [real_caps cap_out]. unfold MAX_MSG_LENGTH, HEADER_CALC_OFFSET in *.
  destruct (8192 + 32 <? 32 + lenN body + lenN cs + 1) eqn:Eo; [apply N.ltb_lt in Eo; lia|reflexivity].
Qed.

(* ------------------------------------------------------------------ witnesses *)
Fixpoint bytes_of_string (s : string) : list N :=
  match s with
  | EmptyString => []
  | String a r => (let b := N_of_ascii a in if b =? 124 then SOH else b) :: bytes_of_string r
  end.
Definition xs (n : N) : list N := repeat 120 (N.to_nat n).     (* n times 'x' *)

Local Open Scope string_scope.
Definition hb_pre : list N := bytes_of_string "8=FIX.4.2|9=5|35=0|49=A|56=B|34=7|112=".
Definition tail10 : list N := bytes_of_string "|10=000|".
(* a Heartbeat whose TestReqID has n bytes *)
Definition hb_val (n : N) : list N := hb_pre ++ xs n ++ tail10.
(* a message whose MsgType has n bytes *)
Definition long_mtype (n : N) : list N :=
  bytes_of_string "8=FIX.4.2|9=5|35=" ++ xs n ++ bytes_of_string "|49=A|56=B|34=7|10=000|".
(* F08: garbage right after the count of a group whose class has no mandatory member *)
Definition hang_msg : list N :=
  bytes_of_string "8=FIX.4.2|9=5|35=E|49=A|56=B|34=7|66=L1|73=1|11=O1|78=1|A=1|10=000|".
Local Close Scope string_scope.

Local Open Scope string_scope.
Definition val_token (n : N) : list N := bytes_of_string "112=" ++ xs n ++ [SOH].
Definition mtype_token (n : N) : list N := bytes_of_string "35=" ++ xs n ++ [SOH].
Definition tag_token (n : N) : list N := repeat 56 (N.to_nat n) ++ bytes_of_string "=F|".
(* a Length field (93, trailer) followed by n digits / by a tag longer than its own *)
Definition fw_digits (n : N) : list N :=
  bytes_of_string "8=FIX.4.2|9=5|35=0|49=A|56=B|34=7|93=1|" ++ repeat 57 (N.to_nat n) ++ bytes_of_string "=x|10=000|".
Definition fw_uninit : list N := bytes_of_string "8=FIX.4.2|9=5|35=0|49=A|56=B|34=7|93=1|8989=x|10=000|".
Local Close Scope string_scope.

(* F06 (repaired by d48d8ce): the ORIGINAL extract_element writes a value of 2048 bytes through
   val[2048] (2047 bytes fit); the repaired one fails the extraction, and factory answers such
   messages with an exception *)
Lemma c03_val_overflow_orig_refuted_lemma :
  extract_element_orig (val_token 2048) (lenN (val_token 2048)) MAX_FLD_LENGTH MAX_FLD_LENGTH = XOOB site_val_write /\
  (exists t v r, extract_element_orig (val_token 2047) (lenN (val_token 2047)) MAX_FLD_LENGTH MAX_FLD_LENGTH = XOk t v r) /\
  (exists t v, extract_element (val_token 2048) (lenN (val_token 2048)) MAX_FLD_LENGTH MAX_FLD_LENGTH = XFail t v) /\
  (exists t v r, extract_element (val_token 2047) (lenN (val_token 2047)) MAX_FLD_LENGTH MAX_FLD_LENGTH = XOk t v r) /\
  safe (factory ex_ctx real_caps (hb_val 2048) false false) /\ safe (factory ex_ctx real_caps (hb_val 3000) false false).
Proof.
  split; [vm_compute; reflexivity|]. split; [do 3 eexists; vm_compute; reflexivity|].
  split; [do 2 eexists; vm_compute; reflexivity|]. split; [do 3 eexists; vm_compute; reflexivity|].
  split; vm_compute; exact I.
Qed.

(* F06, header (repaired by d48d8ce): MsgType of 32 bytes through mtype[32], 32 digits through tag[32] *)
Lemma c03_header_overflow_orig_refuted_lemma :
  extract_element_orig (mtype_token 32) (lenN (mtype_token 32)) MAX_MSGTYPE_FIELD_LEN MAX_MSGTYPE_FIELD_LEN = XOOB site_val_write /\
  extract_element_orig (tag_token 32) (lenN (tag_token 32)) MAX_MSGTYPE_FIELD_LEN MAX_FLD_LENGTH = XOOB site_tag_write /\
  (exists t v, extract_element (mtype_token 32) (lenN (mtype_token 32)) MAX_MSGTYPE_FIELD_LEN MAX_MSGTYPE_FIELD_LEN = XFail t v) /\
  (exists t v, extract_element (tag_token 32) (lenN (tag_token 32)) MAX_MSGTYPE_FIELD_LEN MAX_FLD_LENGTH = XFail t v) /\
  (exists t v r, extract_element (mtype_token 31) (lenN (mtype_token 31)) MAX_MSGTYPE_FIELD_LEN MAX_MSGTYPE_FIELD_LEN = XOk t v r) /\
  safe (factory ex_ctx real_caps (long_mtype 100) false false).
Proof.
  split; [vm_compute; reflexivity|]. split; [vm_compute; reflexivity|].
  split; [do 2 eexists; vm_compute; reflexivity|]. split; [do 2 eexists; vm_compute; reflexivity|].
  split; [do 3 eexists; vm_compute; reflexivity|]. vm_compute. exact I.
Qed.

(* F08 (repaired by a0d41df): the ORIGINAL decode_group on "A=1|" in a group class without
   mandatory member appends empty elements for ever; the repaired one returns at once *)
Definition hang_tail : list N := bytes_of_string "A=1|"%string.
Lemma c03_group_hang_orig_refuted_lemma :
  c03_wf ex_ctx = true /\
  decode_group_orig ex_ctx real_caps hang_tail (lenN hang_tail) 10 (create_group ex_orders true) 78 0 = Diverge /\
  (exists m, decode_group ex_ctx real_caps hang_tail (lenN hang_tail) 10 (create_group ex_orders true) 78 0 = Ok (m, 0)) /\
  safe (factory ex_ctx real_caps hang_msg false false).
Proof.
  split; [vm_compute; reflexivity|]. split; [vm_compute; reflexivity|].
  split; [eexists; vm_compute; reflexivity|]. vm_compute. exact I.
Qed.

(* F06 residue, repaired by ce1e2cc: the ORIGINAL extract_element_fixed_width writes the 2049th digit
   of a run past tag[2048] and leaves the tag unterminated (decode then reads tag[] beyond the bytes
   written: after tag "93" the digits "8989" give an unreadable buffer); the repaired one fails the
   extraction / terminates the tag, and factory is safe on both inputs *)
Definition digits_tok (n : N) : list N := repeat 57 (N.to_nat n) ++ bytes_of_string "=x|"%string.
Lemma c03_fixed_width_orig_refuted_lemma :
  extract_element_fixed_width_orig (digits_tok 2049) (lenN (digits_tok 2049)) 1 MAX_FLD_LENGTH MAX_FLD_LENGTH = XOOB site_tag_write /\
  extract_element_fixed_width (digits_tok 2049) (lenN (digits_tok 2049)) 1 MAX_FLD_LENGTH MAX_FLD_LENGTH = XFail [] [] /\
  (exists t v r, extract_element_fixed_width (digits_tok 2047) (lenN (digits_tok 2047)) 1 MAX_FLD_LENGTH MAX_FLD_LENGTH = XOk t v r) /\
  cstr_known (tagbuf_after_fw_orig [56; 57; 56; 57] (tagbuf_after [57; 51] [])) = None /\
  cstr_known (tagbuf_after_fw [56; 57; 56; 57] (tagbuf_after [57; 51] [])) = Some [56; 57; 56; 57] /\
  safe (factory ex_ctx real_caps (fw_digits 2049) false false) /\ safe (factory ex_ctx real_caps fw_uninit false false).
Proof.
  split; [vm_compute; reflexivity|]. split; [vm_compute; reflexivity|]. split; [do 3 eexists; vm_compute; reflexivity|].
  split; [vm_compute; reflexivity|]. split; [vm_compute; reflexivity|]. split; vm_compute; exact I.
Qed.

(* F07: a Heartbeat with a TestReqID of 9000 bytes: the unbounded encoder produces 9000+ bytes,
   encode(f8String&) writes them through output[8224] *)
Definition big_hb : message :=
  let m := mk_message ex_ctx (mkMD [48] true ex_heartbeat) true in
  mkMsg (m_type m) (ex_hdr_fields (m_hdr m)) (addf (m_body m) 112 (xs 9000)) (m_trl m).

Lemma c03_encode_overflow_refuted_lemma :
  exists c m, (exists b m', msg_encode c m = Ok (b, m') /\ MAX_MSG_LENGTH + HEADER_CALC_OFFSET <= lenN b) /\
              msg_encode_str c real_caps m = OOB site_encode_buf.
Proof.
  exists ex_ctx, big_hb. split; [|vm_compute; reflexivity].
  assert (H : match msg_encode ex_ctx big_hb with Ok (b, _) => 8224 <=? lenN b | _ => false end = true)
    by (vm_compute; reflexivity).
  destruct (msg_encode ex_ctx big_hb) as [[b m']| | | |]; try discriminate.
  exists b, m'. split; [reflexivity|]. apply N.leb_le in H. exact H.
Qed.

(* ------------------------------------------------------------------ non-vacuity *)
Definition ex_list_bytes : list N := match msg_encode ex_ctx ex_list with Ok (b, _) => b | _ => [] end.

Lemma c03_nonvacuous_lemma :
  c03_wf ex_ctx = true /\ is_bytes ex_list_bytes = true /\ lenN ex_list_bytes < 4294967296 /\
  (exists m, factory ex_ctx real_caps ex_list_bytes false false = Ok m).
Proof.
  split; [vm_compute; reflexivity|]. split; [vm_compute; reflexivity|]. split; [vm_compute; reflexivity|].
  eexists; vm_compute; reflexivity.
Qed.

(* fast_atoi<int> (F09): the int accumulation of a8219b1 (atoi_*_orig) never overflowed on an
   optional '-' plus at most 9 digits, did at the first step beyond the int range; the unsigned
   accumulation of 1965750 has no UB and returns the same value wherever the old one was defined *)
Lemma atoi_digits_safe (neg : bool) : forall (l : list N) (r : Z),
  forallb is_digit l = true ->
  (0 <= (if neg then - r else r))%Z ->
  (((if neg then - r else r) + 1) * 10 ^ Z.of_nat (List.length l) <= 2147483648)%Z ->
  fst (fold_left (atoi_ub_step neg) l (false, r)) = false.
Proof.
  induction l as [|ch l IH]; intros r Hd H0 Hb; [reflexivity|].
  cbn [forallb] in Hd. apply andb_true_iff in Hd. destruct Hd as [Hc Hd].
  assert (Hdig : (0 <= schar ch - 48 <= 9)%Z).
  { unfold is_digit in Hc. apply andb_true_iff in Hc. destruct Hc as [H1 H2].
    apply N.leb_le in H1. apply N.leb_le in H2. unfold schar.
    destruct (ch <? 128) eqn:E; [lia|apply N.ltb_ge in E; lia]. }
  cbn [List.length] in Hb. rewrite Nat2Z.inj_succ, Z.pow_succ_r in Hb by lia.
  assert (Hp : (0 < 10 ^ Z.of_nat (List.length l))%Z) by (apply Z.pow_pos_nonneg; lia).
  cbn [fold_left]. unfold atoi_ub_step at 2.
  assert (Hm : in_i32 (r * 10) = true).
  { unfold in_i32. apply andb_true_iff. split; [apply Z.leb_le|apply Z.ltb_lt]; destruct neg; nia. }
  rewrite Hm. cbn [negb].
  set (d := (schar ch - 48)%Z) in *.
  assert (Hs : in_i32 (if neg then r * 10 - d else r * 10 + d) = true).
  { unfold in_i32. apply andb_true_iff. split; [apply Z.leb_le|apply Z.ltb_lt]; destruct neg; nia. }
  rewrite Hs. apply IH; [exact Hd| |]; destruct neg; nia.
Qed.

Lemma c03_fast_atoi_orig_safe_partial_lemma s : small_int_text s = true -> atoi_ub_orig s = false.
Proof.
  unfold small_int_text, atoi_ub_orig, atoi_run_orig. destruct (cstr s) as [|c rest]; [reflexivity|].
  assert (Hpow : forall l : list N, lenN l <= 9 -> (10 ^ Z.of_nat (List.length l) <= 1000000000)%Z).
  { intros l Hl. rewrite lenN_length in Hl. change 1000000000%Z with (10 ^ 9)%Z.
    apply Z.pow_le_mono_r; lia. }
  destruct (c =? 45); intros H; apply andb_true_iff in H; destruct H as [Hd Hl]; apply N.leb_le in Hl.
  - apply (atoi_digits_safe true); [exact Hd|cbn; lia|]. pose proof (Hpow _ Hl). cbn [Z.opp]. lia.
  - apply (atoi_digits_safe false); [exact Hd|lia|]. pose proof (Hpow _ Hl). lia.
Qed.

(* the repair changes no result: where the int accumulation stayed in range, the wrapped unsigned
   accumulation gives the same value *)
Lemma to_i32_mod s : in_i32 s = true -> to_i32 (s mod two32) = s.
Proof.
  unfold in_i32, to_i32, two32, two31. intros H. apply andb_true_iff in H. destruct H as [H1 H2].
  apply Z.leb_le in H1. apply Z.ltb_lt in H2. rewrite Z.mod_mod by lia.
  destruct (Z_lt_le_dec s 0) as [Hn|Hn].
  - replace (s mod 4294967296)%Z with (s + 4294967296)%Z.
    + destruct (s + 4294967296 <? 2147483648)%Z eqn:E; [apply Z.ltb_lt in E; lia|lia].
    + symmetry. replace s with ((s + 4294967296) + (-1) * 4294967296)%Z at 1 by lia.
      rewrite Z.mod_add by lia. apply Z.mod_small. lia.
  - rewrite Z.mod_small by lia. destruct (s <? 2147483648)%Z eqn:E; [reflexivity|apply Z.ltb_ge in E; lia].
Qed.

Lemma mod_step_sub a b M : ((a mod M * 10 - b) mod M = (a * 10 - b) mod M)%Z.
Proof. rewrite Zminus_mod. rewrite Zmult_mod_idemp_l. rewrite <- Zminus_mod. reflexivity. Qed.
Lemma mod_step_add a b M : ((a mod M * 10 + b) mod M = (a * 10 + b) mod M)%Z.
Proof. rewrite Zplus_mod. rewrite Zmult_mod_idemp_l. rewrite <- Zplus_mod. reflexivity. Qed.

Lemma atoi_ub_sticky (neg : bool) : forall (l : list N) (r v : Z), fold_left (atoi_ub_step neg) l (true, r) <> (false, v).
Proof.
  induction l as [|c l IH]; intros r v; [discriminate|]. cbn [fold_left atoi_ub_step]. apply IH.
Qed.

Lemma atoi_fold_agree (neg : bool) : forall (l : list N) (r v : Z),
  in_i32 r = true ->
  fold_left (atoi_ub_step neg) l (false, r) = (false, v) ->
  in_i32 v = true /\
  (fold_left (if neg then atoi_step_neg two32 else atoi_step two32) l (r mod two32) = v mod two32)%Z.
Proof.
  induction l as [|ch l IH]; intros r v Hr H.
  - cbn in H. injection H as <-. split; [exact Hr|reflexivity].
  - cbn [fold_left] in H |- *. unfold atoi_ub_step at 2 in H.
    destruct (in_i32 (r * 10)); cbn [negb] in H; [|exfalso; exact (atoi_ub_sticky _ _ _ _ H)].
    set (d := (schar ch - 48)%Z) in *.
    destruct (in_i32 (if neg then r * 10 - d else r * 10 + d)) eqn:Es; [|exfalso; exact (atoi_ub_sticky _ _ _ _ H)].
    destruct (IH _ _ Es H) as [Hv IHe]. split; [exact Hv|]. rewrite <- IHe. f_equal.
    destruct neg; unfold atoi_step_neg, atoi_step; fold d.
    + apply mod_step_sub.
    + replace (r mod two32 * 10 + schar ch - 48)%Z with (r mod two32 * 10 + d)%Z by (unfold d; lia).
      apply mod_step_add.
Qed.

Lemma c03_fast_atoi_agree_lemma s : atoi_ub_orig s = false -> atoi_val s = atoi_val_orig s.
Proof.
  unfold atoi_ub_orig, atoi_val_orig, atoi_val, atoi_run_orig, fast_atoi_i32.
  destruct (cstr s) as [|c rest]; [reflexivity|].
  destruct (c =? 45).
  - destruct (fold_left (atoi_ub_step true) rest (false, 0%Z)) as [ub v] eqn:E. cbn [fst snd]. intros ->.
    destruct (atoi_fold_agree true rest 0%Z v eq_refl E) as [Hv H]. cbn beta iota in H.
    change (0 mod two32)%Z with 0%Z in H. rewrite H. apply to_i32_mod. exact Hv.
  - destruct (fold_left (atoi_ub_step false) (c :: rest) (false, 0%Z)) as [ub v] eqn:E. cbn [fst snd]. intros ->.
    destruct (atoi_fold_agree false (c :: rest) 0%Z v eq_refl E) as [Hv H]. cbn beta iota in H.
    change (0 mod two32)%Z with 0%Z in H. rewrite H. apply to_i32_mod. exact Hv.
Qed.

Lemma c03_fast_atoi_safe_lemma : forall s, atoi_ub s = false.
Proof. reflexivity. Qed.

Lemma c03_atoi_ub_orig_lemma :
  atoi_ub_orig (bytes_of_string "2147483647") = false /\ atoi_ub_orig (bytes_of_string "-2147483648") = false /\
  atoi_ub_orig (bytes_of_string "2147483648") = true /\ atoi_ub_orig (bytes_of_string "-2147483649") = true /\
  atoi_ub_orig (bytes_of_string "99999999999") = true /\ atoi_ub_orig (bytes_of_string "1e3") = false /\
  atoi_val (bytes_of_string "-5") = (-5)%Z /\ atoi_val (bytes_of_string "1e3") = 633%Z /\
  atoi_val (bytes_of_string "2147483648") = (-2147483648)%Z /\ atoi_val (bytes_of_string "99999999999") = 1215752191%Z.
Proof.
  split; [vm_compute; reflexivity|]. split; [vm_compute; reflexivity|]. split; [vm_compute; reflexivity|].
  split; [vm_compute; reflexivity|]. split; [vm_compute; reflexivity|]. split; [vm_compute; reflexivity|].
  split; [vm_compute; reflexivity|]. split; [vm_compute; reflexivity|]. split; vm_compute; reflexivity.
Qed.

(* date/time parsers: before da4ab8c a month 14 indexed mon_days out of bounds and a char below '0'
   led to a shift of a negative value; both are gone.  What remains is the 64-bit tick product for
   years far from the epoch. *)
Lemma c03_datetime_ub_orig_lemma :
  dt_ub_orig ft_UTCTimestamp (bytes_of_string "20231401-00:00:00") = Some true /\
  dt_ub ft_UTCTimestamp (bytes_of_string "20231401-00:00:00") = Some false /\
  dt_ub_orig ft_UTCTimestamp (bytes_of_string "2023-101-00:00:00.000") = Some true /\
  dt_ub ft_UTCTimestamp (bytes_of_string "2023-101-00:00:00.000") = Some false /\
  dt_ub_orig ft_LocalMktDate (bytes_of_string "20230001") = Some true /\
  dt_ub ft_LocalMktDate (bytes_of_string "20230001") = Some false.
Proof.
  split; [vm_compute; reflexivity|]. split; [vm_compute; reflexivity|]. split; [vm_compute; reflexivity|].
  split; [vm_compute; reflexivity|]. split; vm_compute; reflexivity.
Qed.

Lemma c03_datetime_ticks_lemma :
  dt_ub ft_LocalMktDate (bytes_of_string "99990101") = Some true /\
  dt_ub ft_UTCTimestamp (bytes_of_string "00000101-00:00:00") = Some true /\
  dt_ub ft_UTCTimestamp (bytes_of_string "22620101-00:00:00") = Some false /\
  dt_ub ft_UTCTimestamp (bytes_of_string "16780101-00:00:00") = Some false /\
  dt_ub ft_UTCTimestamp (bytes_of_string "20230101-00:00:00.000") = Some false /\
  dt_ub ft_UTCTimestamp (bytes_of_string "2023") = None.
Proof.
  split; [vm_compute; reflexivity|]. split; [vm_compute; reflexivity|]. split; [vm_compute; reflexivity|].
  split; [vm_compute; reflexivity|]. split; vm_compute; reflexivity.
Qed.

(* calc_chksum: the misaligned word load (D4) is gone with 9d9ce26 *)
Lemma c03_chksum_align_orig_lemma :
  chksum_ub_orig 1 8 = true /\ chksum_ub_orig 4 64 = false /\ forall m l, chksum_ub m l = false.
Proof. split; [reflexivity|]. split; reflexivity. Qed.

(* the pseudo rows "header" / "trailer" of the message table (repaired by 408434c): with the old
   lookup a well-formed looking message whose MsgType is one of these texts made factory create and
   decode an object that is not a Message; now it is an unknown type like its near misses *)
Definition pseudo_msg (mt : string) : list N :=
  bytes_of_string ("8=FIX.4.2|9=5|35=" ++ mt ++ "|49=A|56=B|34=7|10=000|")%string.
Lemma c03_pseudo_msgtype_orig_refuted_lemma :
  is_bytes (pseudo_msg "header") = true /\
  c03_factory_orig ex_ctx real_caps (pseudo_msg "header") false false = OOB site_pseudo_entry /\
  c03_factory_orig ex_ctx real_caps (pseudo_msg "trailer") true true = OOB site_pseudo_entry /\
  c03_factory ex_ctx real_caps (pseudo_msg "header") false false = Exc EInvalidMessage /\
  c03_factory ex_ctx real_caps (pseudo_msg "trailer") true true = Exc EInvalidMessage /\
  c03_pseudo real_caps (pseudo_msg "Header") = false /\ c03_pseudo real_caps (pseudo_msg "header1") = false /\
  c03_pseudo real_caps (pseudo_msg "heade") = false /\ c03_pseudo real_caps (pseudo_msg "trailer ") = false.
Proof.
  split; [vm_compute; reflexivity|]. split; [vm_compute; reflexivity|]. split; [vm_compute; reflexivity|].
  split; [vm_compute; reflexivity|]. split; [vm_compute; reflexivity|]. split; [vm_compute; reflexivity|].
  split; [vm_compute; reflexivity|]. split; vm_compute; reflexivity.
Qed.
