(* Proofs about the model of f8c's group sharing (C14/GroupHash.v). *)
From Coq Require Import NArith List Bool Lia Btauto.
From F8 Require Import C13.SMap C13.SMapProofs C13.Schema C14.GroupHash.
Import ListNotations.
Local Open Scope N_scope.

(* ================================================================== rothash is affine over GF(2) *)
Lemma land_lxor_l : forall a b c, N.land (N.lxor a b) c = N.lxor (N.land a c) (N.land b c).
Proof.
  intros. apply N.bits_inj. intro n.
  rewrite N.land_spec, !N.lxor_spec, !N.land_spec. btauto.
Qed.

Lemma lxor_shuffle4 : forall a1 a2 a3 a4 b1 b2 b3 b4,
  N.lxor (N.lxor (N.lxor (N.lxor a1 b1) (N.lxor a2 b2)) (N.lxor a3 b3)) (N.lxor a4 b4)
  = N.lxor (N.lxor (N.lxor (N.lxor a1 a2) a3) a4) (N.lxor (N.lxor (N.lxor b1 b2) b3) b4).
Proof.
  intros. apply N.bits_inj. intro n. rewrite !N.lxor_spec. btauto.
Qed.

Lemma rot_l_lxor : forall a b, rot_l (N.lxor a b) = N.lxor (rot_l a) (rot_l b).
Proof.
  intros a b. unfold rot_l.
  rewrite N.shiftr_lxor, !N.shiftl_lxor, !land_lxor_l.
  apply lxor_shuffle4.
Qed.

Lemma rot_l_0 : rot_l 0 = 0.
Proof. reflexivity. Qed.

Lemma rothash_linear_lemma : forall r v,
  rothash r v = N.lxor (N.lxor (rot_l r) v) KROT
  /\ (forall a b, rot_l (N.lxor a b) = N.lxor (rot_l a) (rot_l b))
  /\ rot_l 0 = 0.
Proof. intros. split; [reflexivity|]. split; [exact rot_l_lxor | exact rot_l_0]. Qed.

(* 32-bit closure: the model never leaves uint32_t *)
Lemma lt_pow2_bits : forall a n, a < 2 ^ n <-> (forall m, n <= m -> N.testbit a m = false).
Proof.
  intros a n. split.
  - intros H m Hm. destruct (N.eq_dec a 0) as [->|NZ]; [apply N.bits_0|].
    apply N.bits_above_log2. apply N.log2_lt_pow2 in H; lia.
  - intro H. destruct (N.eq_dec a 0) as [->|NZ].
    + apply N.neq_0_lt_0. apply N.pow_nonzero. discriminate.
    + apply N.log2_lt_pow2; [lia|].
      destruct (N.lt_ge_cases (N.log2 a) n) as [L|G]; [assumption|].
      specialize (H _ G). rewrite N.bit_log2 in H by assumption. discriminate.
Qed.

Lemma lxor_lt_pow2 : forall a b n, a < 2 ^ n -> b < 2 ^ n -> N.lxor a b < 2 ^ n.
Proof.
  intros a b n Ha Hb. apply lt_pow2_bits. intros m Hm. rewrite N.lxor_spec.
  rewrite (proj1 (lt_pow2_bits a n) Ha m Hm), (proj1 (lt_pow2_bits b n) Hb m Hm). reflexivity.
Qed.

Lemma land_M32_lt : forall a, N.land a M32 < 2 ^ 32.
Proof.
  intro a. apply lt_pow2_bits. intros m Hm. rewrite N.land_spec.
  replace (N.testbit M32 m) with false; [apply andb_false_r|].
  symmetry. change M32 with (N.ones 32). apply N.ones_spec_high. assumption.
Qed.

Lemma shiftr_lt_pow2 : forall a n k, a < 2 ^ n -> N.shiftr a k < 2 ^ n.
Proof.
  intros a n k H. apply lt_pow2_bits. intros m Hm. rewrite N.shiftr_spec by lia.
  apply (proj1 (lt_pow2_bits a n) H). lia.
Qed.

Lemma rothash_bound_lemma : forall r v, r < W32 -> v < W32 -> rothash r v < W32.
Proof.
  intros r v Hr Hv. change W32 with (2 ^ 32) in *. unfold rothash, rot_l.
  repeat apply lxor_lt_pow2; try assumption; try apply land_M32_lt.
  - apply shiftr_lt_pow2. assumption.
  - reflexivity.
Qed.

(* a flat two-member definition {a, b} (a < b) hashes to rothash (rothash 0 a) b *)
Definition hash2 (a b : N) : N := rothash (rothash 0 a) b.

Lemma hash2_form : forall a b, hash2 a b = N.lxor (N.lxor (N.lxor (rot_l a) (rot_l KROT)) b) KROT.
Proof.
  intros a b. unfold hash2, rothash. rewrite rot_l_0, N.lxor_0_l, rot_l_lxor. reflexivity.
Qed.

Lemma pair_collision_iff_lemma : forall a b c d,
  hash2 a b = hash2 c d <-> d = N.lxor (rot_l (N.lxor a c)) b.
Proof.
  intros a b c d. rewrite !hash2_form, rot_l_lxor. split; intro H.
  - apply N.lxor_eq. apply N.lxor_eq_0_iff in H. rewrite <- H.
    apply N.bits_inj. intro n. rewrite !N.lxor_spec. btauto.
  - subst d. apply N.bits_inj. intro n. rewrite !N.lxor_spec. btauto.
Qed.

(* ================================================================== equality tests are sound *)
From F8 Require Import C13.SchemaProofs.
From Coq Require Import PeanoNat.

Lemma ritem_eqb_eq : forall a b, ritem_eqb a b = true -> a = b.
Proof.
  induction a as [n t r c|n r c sub IH] using ritem_ind2; intros [n2 t2 r2 c2|n2 r2 c2 sub2]; cbn; intro H;
    try discriminate.
  - repeat (apply andb_true_iff in H; destruct H as [H ?]).
    apply N.eqb_eq in H. apply N.eqb_eq in H2. apply eqb_prop in H1. apply key_eqb_eq in H0. subst. reflexivity.
  - apply andb_true_iff in H. destruct H as [H Hs].
    repeat (apply andb_true_iff in H; destruct H as [H ?]).
    apply N.eqb_eq in H. apply eqb_prop in H1. apply key_eqb_eq in H0. subst. f_equal.
    revert sub2 Hs. induction IH as [|x l Px _ IHl]; intros [|y l2] Hs; try discriminate; [reflexivity|].
    apply andb_true_iff in Hs. destruct Hs as [H1 H2]. f_equal; [apply Px; assumption | apply IHl; assumption].
Qed.

Lemma gdef_eqb_eq : forall l1 l2, gdef_eqb l1 l2 = true -> l1 = l2.
Proof.
  induction l1 as [|x l1 IH]; intros [|y l2] H; cbn in H; try discriminate; [reflexivity|].
  apply andb_true_iff in H. destruct H. f_equal; [apply ritem_eqb_eq; assumption | apply IH; assumption].
Qed.

(* ================================================================== the CommonGroupMap *)
Definition gm_ok (gm : gmap) : Prop :=
  ssorted (sm_keys gm) /\ forall k cg, In (k, cg) gm -> ssorted (sm_keys cg).

Lemma gm_ok_nil : gm_ok [].
Proof. split; [constructor | intros k cg []]. Qed.

Lemma gm_ins_ok : forall gm d, gm_ok gm -> gm_ok (gm_ins gm d).
Proof.
  intros gm d [S A]. unfold gm_ins. destruct (sm_find [fst d] gm) as [cg|] eqn:F.
  - split.
    + rewrite sm_set_keys. assumption.
    + intros k cg' I. apply sm_set_In in I. destruct I as [I|[E1 E2]]; [eapply A; eauto|].
      cbn in E2. subst cg'. apply sm_ins_sorted. apply sm_find_In in F. eapply A; eauto.
  - split.
    + apply sm_ins_sorted. assumption.
    + intros k cg' I. apply sm_ins_In in I. destruct I as [E|I]; [|eapply A; eauto].
      inversion E; subst. cbn. repeat constructor.
Qed.

Lemma single_neq : forall a b : N, a <> b -> [a] <> [b].
Proof. intros a b H E. inversion E. contradiction. Qed.

Lemma gm_find_ins : forall gm d n h, gm_ok gm ->
  gm_find (gm_ins gm d) n h =
  if (fst d =? n) && (group_hash (snd d) =? h)
  then match gm_find gm n h with Some x => Some x | None => Some (snd d) end
  else gm_find gm n h.
Proof.
  intros gm [n0 sub] n h [S A]. cbn [fst snd]. unfold gm_find, gm_ins. cbn [fst snd].
  set (h0 := group_hash sub).
  destruct (sm_find [n0] gm) as [cg|] eqn:F0.
  - assert (Scg : ssorted (sm_keys cg)) by (apply sm_find_In in F0; eapply A; eauto).
    destruct (N.eqb_spec n0 n) as [->|NE]; cbn [andb].
    + rewrite sm_find_set_same by (unfold sm_mem; rewrite F0; reflexivity). rewrite F0.
      destruct (N.eqb_spec h0 h) as [->|HE].
      * apply sm_find_ins_same. assumption.
      * apply sm_find_ins_other. apply single_neq. auto.
    + rewrite sm_find_set_other by (apply single_neq; auto). reflexivity.
  - destruct (N.eqb_spec n0 n) as [->|NE]; cbn [andb].
    + rewrite sm_find_ins_same by assumption. rewrite F0. cbn.
      rewrite key_eqb_single. rewrite (N.eqb_sym h h0). destruct (h0 =? h); reflexivity.
    + rewrite sm_find_ins_other by (apply single_neq; auto). reflexivity.
Qed.

Lemma gm_find_fold : forall defs gm n h, gm_ok gm ->
  gm_find (fold_left gm_ins defs gm) n h =
  match gm_find gm n h with Some x => Some x | None => first_def (keyed defs) n h end.
Proof.
  induction defs as [|d defs IH]; intros gm n h OK.
  - cbn. destruct (gm_find gm n h); reflexivity.
  - cbn [fold_left]. rewrite IH by (apply gm_ins_ok; assumption). rewrite gm_find_ins by assumption.
    change (keyed (d :: defs)) with ((fst d, group_hash (snd d), snd d) :: keyed defs).
    cbn [first_def fst snd].
    destruct ((fst d =? n) && (group_hash (snd d) =? h)); destruct (gm_find gm n h); reflexivity.
Qed.

Lemma gm_find_build : forall defs n h, gm_find (build_gm defs) n h = first_def (keyed defs) n h.
Proof. intros. unfold build_gm. rewrite gm_find_fold by apply gm_ok_nil. reflexivity. Qed.

Lemma first_def_In : forall kl n h s, first_def kl n h = Some s -> In (n, h, s) kl.
Proof.
  induction kl as [|[[n0 h0] s0] kl IH]; cbn; intros n h s H; [discriminate|].
  destruct ((n0 =? n) && (h0 =? h)) eqn:E.
  - apply andb_true_iff in E. destruct E as [E1 E2]. apply N.eqb_eq in E1. apply N.eqb_eq in E2.
    inversion H. subst. left. reflexivity.
  - right. apply IH. assumption.
Qed.

Lemma first_def_some : forall kl n h s, In (n, h, s) kl -> exists s', first_def kl n h = Some s'.
Proof.
  induction kl as [|[[n0 h0] s0] kl IH]; cbn; intros n h s H; [contradiction|].
  destruct ((n0 =? n) && (h0 =? h)) eqn:E; [eexists; reflexivity|].
  destruct H as [H|H]; [|eapply IH; eauto].
  inversion H; subst. rewrite !N.eqb_refl in E. discriminate.
Qed.

Lemma first_def_inj : forall kl n h s, kinj kl = true -> In (n, h, s) kl -> first_def kl n h = Some s.
Proof.
  intros kl n h s K I. destruct (first_def_some _ _ _ _ I) as [s' F]. rewrite F. f_equal.
  apply first_def_In in F. unfold kinj in K. rewrite forallb_forall in K.
  specialize (K _ F). rewrite forallb_forall in K. specialize (K _ I).
  unfold same_key in K. cbn in K. rewrite !N.eqb_refl in K. cbn in K. apply gdef_eqb_eq. assumption.
Qed.

(* ================================================================== soundness under injectivity *)
Lemma level_depth_In : forall its x, In x its -> (item_depth x <= level_depth its)%nat.
Proof.
  induction its as [|y its IH]; cbn; intros x H; [contradiction|].
  destruct H as [E|H]; [subst; apply Nat.le_max_l|].
  etransitivity; [apply IH; assumption | apply Nat.le_max_r].
Qed.

Lemma item_depth_group : forall n r c sub, item_depth (RGroup n r c sub) = S (level_depth sub).
Proof. reflexivity. Qed.

Definition grp_entry (x : ritem) : list (key * gdef) :=
  match x with RGroup n _ _ sub => [([n], sub)] | RField _ _ _ _ => [] end.

Lemma own_groups_eq : forall its, own_groups its = sm_of_list (flat_map grp_entry its).
Proof. reflexivity. Qed.

Lemma own_groups_In : forall its k sub, In (k, sub) (own_groups its) ->
  exists n r c, k = [n] /\ In (RGroup n r c sub) its.
Proof.
  intros its k sub H. rewrite own_groups_eq in H. apply sm_of_list_In in H.
  apply in_flat_map in H. destruct H as [x [I E]]. destruct x as [n t r c|n r c s]; cbn in E; [contradiction|].
  destruct E as [E|[]]. inversion E; subst. exists n, r, c. auto.
Qed.

Lemma subs_map_own : forall its,
  map (fun kd : key * gdef => (fst kd, own_node (snd kd))) (own_groups its) = sm_of_list (flat_map item_sub its).
Proof.
  intro its. rewrite own_groups_eq. rewrite (sm_of_list_map own_node). f_equal.
  induction its as [|x its IH]; [reflexivity|].
  cbn [flat_map]. rewrite map_app. f_equal; [destruct x; reflexivity | exact IH].
Qed.

Lemma level_defs_group : forall its n r c sub, In (RGroup n r c sub) its ->
  In (n, sub) (level_defs its) /\ incl (level_defs sub) (level_defs its).
Proof.
  intros its n r c sub I. unfold level_defs. split.
  - apply in_flat_map. exists (RGroup n r c sub). split; [assumption|]. cbn. apply in_or_app. right. left. reflexivity.
  - intros d Hd. apply in_flat_map. exists (RGroup n r c sub). split; [assumption|]. cbn. apply in_or_app. left. assumption.
Qed.

Lemma keyed_In : forall defs n sub, In (n, sub) defs -> In (n, group_hash sub, sub) (keyed defs).
Proof. intros defs n sub I. unfold keyed. apply in_map_iff. exists (n, sub). split; [reflexivity | assumption]. Qed.

Lemma f8c_node_own : forall fuel defs its,
  defs_injective defs = true -> incl (level_defs its) defs -> (level_depth its < fuel)%nat ->
  f8c_node fuel (build_gm defs) its = Some (own_node its).
Proof.
  induction fuel as [|f IH]; intros defs its INJ INC D; [lia|].
  cbn [f8c_node]. unfold own_node. rewrite <- subs_map_own.
  assert (G : forall l, (forall kd, In kd l -> In kd (own_groups its)) ->
     fold_right (fun kd acc =>
        match acc, fst kd with
        | Some l0, [n] =>
            match gm_find (build_gm defs) n (group_hash (snd kd)) with
            | Some d => match f8c_node f (build_gm defs) d with
                        | Some nd => Some ((fst kd, nd) :: l0)
                        | None => None end
            | None => None
            end
        | _, _ => None
        end) (Some []) l = Some (map (fun kd : key * gdef => (fst kd, own_node (snd kd))) l)).
  { induction l as [|[k sub] l IHl]; intro HI; [reflexivity|].
    cbn [fold_right map fst snd]. rewrite IHl by (intros; apply HI; right; assumption).
    destruct (own_groups_In its k sub (HI _ (or_introl eq_refl))) as [n [r [c [-> I]]]].
    destruct (level_defs_group its n r c sub I) as [I1 I2].
    rewrite gm_find_build. rewrite (first_def_inj _ n (group_hash sub) sub INJ) by (apply keyed_In; apply INC; assumption).
    rewrite IH; [reflexivity | assumption | intros d Hd; apply INC; apply I2; assumption|].
    pose proof (level_depth_In its _ I) as L. rewrite item_depth_group in L. lia. }
  rewrite G by auto. reflexivity.
Qed.

(* the levels of an expanded schema *)
Definition x_level (x : xschema) (its : list ritem) : Prop :=
  its = x_header x \/ its = x_trailer x \/ exists m, In (m, its) (x_msgs x).

Lemma x_level_defs : forall x its, x_level x its -> incl (level_defs its) (schema_defs x).
Proof.
  intros x its [->|[->|[m I]]] d Hd; unfold schema_defs.
  - apply in_or_app. left. assumption.
  - apply in_or_app. right. apply in_or_app. left. assumption.
  - apply in_or_app. right. apply in_or_app. right. apply in_flat_map. exists (m, its). auto.
Qed.

Lemma sound_if_injective_lemma : forall (x : xschema) (its : list ritem),
  defs_injective (schema_defs x) = true -> x_level x its -> (level_depth its < FUEL)%nat ->
  f8c_node FUEL (build_gm (schema_defs x)) its = Some (own_node its).
Proof. intros x its INJ L D. apply f8c_node_own; auto. apply x_level_defs. assumption. Qed.

(* the classifier's premise, per message: no clash -> own trees *)
Lemma f8c_node_own_noclash : forall fuel all its,
  msg_clash all its = false -> (level_depth its < fuel)%nat ->
  f8c_node fuel (build_gm all) its = Some (own_node its).
Proof.
  induction fuel as [|f IH]; intros all its NC D; [lia|].
  cbn [f8c_node]. unfold own_node. rewrite <- subs_map_own.
  assert (NC' : forall d, In d (level_defs its) ->
            exists d', first_def (keyed all) (fst d) (group_hash (snd d)) = Some d' /\ d' = snd d).
  { intros d Hd. unfold msg_clash in NC.
    destruct (first_def (keyed all) (fst d) (group_hash (snd d))) as [d'|] eqn:F.
    - exists d'. split; [reflexivity|]. apply gdef_eqb_eq.
      destruct (gdef_eqb d' (snd d)) eqn:E; [reflexivity|].
      exfalso. assert (X : existsb (fun d => match first_def (keyed all) (fst d) (group_hash (snd d)) with
                     | Some d' => negb (gdef_eqb d' (snd d)) | None => true end) (level_defs its) = true).
      { apply existsb_exists. exists d. split; [assumption|]. cbv beta. unfold gdef in *. rewrite F, E. reflexivity. }
      congruence.
    - exfalso. assert (X : existsb (fun d => match first_def (keyed all) (fst d) (group_hash (snd d)) with
                     | Some d' => negb (gdef_eqb d' (snd d)) | None => true end) (level_defs its) = true).
      { apply existsb_exists. exists d. split; [assumption|]. cbv beta. unfold gdef in *. rewrite F. reflexivity. }
      congruence. }
  assert (G : forall l, (forall kd, In kd l -> In kd (own_groups its)) ->
     fold_right (fun kd acc =>
        match acc, fst kd with
        | Some l0, [n] =>
            match gm_find (build_gm all) n (group_hash (snd kd)) with
            | Some d => match f8c_node f (build_gm all) d with
                        | Some nd => Some ((fst kd, nd) :: l0)
                        | None => None end
            | None => None
            end
        | _, _ => None
        end) (Some []) l = Some (map (fun kd : key * gdef => (fst kd, own_node (snd kd))) l)).
  { induction l as [|[k sub] l IHl]; intro HI; [reflexivity|].
    cbn [fold_right map fst snd]. rewrite IHl by (intros; apply HI; right; assumption).
    destruct (own_groups_In its k sub (HI _ (or_introl eq_refl))) as [n [r [c [-> I]]]].
    destruct (level_defs_group its n r c sub I) as [I1 I2].
    rewrite gm_find_build. destruct (NC' _ I1) as [d' [F E]]. cbn [fst snd] in F, E. rewrite F. subst d'.
    rewrite IH; [reflexivity | |].
    - unfold msg_clash. cbv zeta. match goal with |- existsb ?ff ?ll = false => destruct (existsb ff ll) eqn:X end; [|reflexivity].
      exfalso. apply existsb_exists in X. destruct X as [d [Hd Hc]].
      assert (Y : msg_clash all its = true).
      { unfold msg_clash. cbv zeta. apply existsb_exists. exists d. split; [apply I2; assumption | assumption]. }
      congruence.
    - pose proof (level_depth_In its _ I) as L. rewrite item_depth_group in L. lia. }
  rewrite G by auto. reflexivity.
Qed.

(* ================================================================== what the hash cannot see *)
Lemma sm_mem_keys : forall {V : Type} k (m : list (key * V)), sm_mem k m = true -> In k (sm_keys m).
Proof.
  intros V k m H. unfold sm_mem in H. destruct (sm_find k m) as [v|] eqn:F; [|discriminate].
  apply sm_find_In in F. change k with (fst (k, v)). apply in_map. assumption.
Qed.

Lemma level_keys_iff : forall its k, In k (sm_keys (level_traits its)) <-> exists x, In x its /\ k = [item_num x].
Proof.
  intros its k. split.
  - intro I. apply in_map_iff in I. destruct I as [[k' t] [E I]]. cbn in E. subst k'.
    apply level_traits_In in I. destruct I as [[i x] [I [E _]]]. apply number_from_In in I. exists x. tauto.
  - intros [x [I ->]]. apply sm_mem_keys. apply level_traits_mem. assumption.
Qed.

Lemma level_nums_keys : forall its, level_nums its = map (fun k => hd 0 k) (sm_keys (level_traits its)).
Proof.
  intro its. unfold level_nums, sm_keys. rewrite map_map.
  apply map_ext_in. intros [k t] I. cbn. apply level_traits_key in I. subst k. reflexivity.
Qed.

Lemma flat_item_hash : forall l, forallb (fun x => negb (is_group x)) l = true -> flat_map item_hash l = [].
Proof.
  induction l as [|x l IH]; cbn; intro H; [reflexivity|].
  apply andb_true_iff in H. destruct H as [H1 H2]. rewrite IH by assumption.
  destruct x; [reflexivity | discriminate].
Qed.

(* two flat definitions with the same SET of member numbers hash alike, whatever the order of the
   members, their required flags, their types or the component they came from *)
Lemma hash_ignores_order_flags_lemma : forall l1 l2,
  forallb (fun x => negb (is_group x)) l1 = true -> forallb (fun x => negb (is_group x)) l2 = true ->
  (forall n, In n (map item_num l1) <-> In n (map item_num l2)) ->
  group_hash l1 = group_hash l2.
Proof.
  intros l1 l2 F1 F2 E. unfold group_hash. rewrite !flat_item_hash by assumption.
  rewrite !level_nums_keys.
  assert (K : sm_keys (level_traits l1) = sm_keys (level_traits l2)); [|rewrite K; reflexivity].
  apply ssorted_ext; try apply level_traits_sorted.
  intro k. rewrite !level_keys_iff. split; intros [x [I ->]].
  - assert (I' : In (item_num x) (map item_num l2)) by (apply E; apply in_map; assumption).
    apply in_map_iff in I'. destruct I' as [y [Ey Iy]]. exists y. rewrite Ey. auto.
  - assert (I' : In (item_num x) (map item_num l1)) by (apply E; apply in_map; assumption).
    apply in_map_iff in I'. destruct I' as [y [Ey Iy]]. exists y. rewrite Ey. auto.
Qed.

(* ================================================================== refutation witnesses *)
From F8 Require Import C13.Probe.

(* message A: Text, NoThings{Account(Y), Big(N)};   message B: NoThings{AdvId(Y), BeginSeqNo(Y)}, Text *)
Definition wA : list ritem :=
  [RField 58 15 false []; RGroup 5000 false [] [RField 1 15 true []; RField 24676 15 false []]].
Definition wB : list ritem :=
  [RGroup 5000 true [] [RField 2 15 true []; RField 7 4 true []]; RField 58 15 false []].
Definition wHdr : mnode := MNode [] [].

Lemma collision_refuted_lemma :
  group_hash [RField 1 15 true []; RField 24676 15 false []] = 587425381
  /\ group_hash [RField 2 15 true []; RField 7 4 true []] = 587425381
  /\ 7 = N.lxor (rot_l (N.lxor 1 2)) 24676
  /\ (exists n, f8c_node FUEL (build_gm (level_defs wA ++ level_defs wB)) wB = Some n
                /\ node_subs n = node_subs (own_node wA)
                /\ node_subs n <> node_subs (own_node wB)
                (* B's own message {NoThings=1, AdvId, BeginSeqNo} cannot even be built *)
                /\ probe_outcome (fun _ => false) wHdr n [] [PGroup 5000 [[PField 2; PField 7]]] = 1
                /\ probe_outcome (fun _ => false) wHdr (own_node wB) [] [PGroup 5000 [[PField 2; PField 7]]] = 0).
Proof.
  split; [vm_compute; reflexivity|]. split; [vm_compute; reflexivity|]. split; [vm_compute; reflexivity|].
  eexists. split; [vm_compute; reflexivity|].
  split; [vm_compute; reflexivity|]. split; [vm_compute; discriminate|].
  split; vm_compute; reflexivity.
Qed.

(* same members, other order (C) / other required flags (D) than the first definition (A') *)
Definition wA' : list ritem :=
  [RGroup 5001 false [] [RField 11 15 true []; RField 12 1 true []; RField 13 7 false []]].
Definition wC : list ritem :=
  [RGroup 5001 false [] [RField 13 7 true []; RField 11 15 false []; RField 12 1 false []]].
Definition wD : list ritem :=
  [RGroup 5001 false [] [RField 11 15 true []; RField 12 1 false []; RField 13 7 true []]].

Lemma order_flags_refuted_lemma :
  (exists n, f8c_node FUEL (build_gm (level_defs wA' ++ level_defs wC ++ level_defs wD)) wC = Some n
             /\ node_subs n = node_subs (own_node wA') /\ node_subs n <> node_subs (own_node wC)
             (* C's element {13, 11, 12} is encoded as 11, 12, 13 *)
             /\ probe_outcome (fun _ => false) wHdr n [] [PGroup 5001 [[PField 13; PField 11; PField 12]]] = 2
             /\ probe_outcome (fun _ => false) wHdr (own_node wC) [] [PGroup 5001 [[PField 13; PField 11; PField 12]]] = 0)
  /\ (exists n, f8c_node FUEL (build_gm (level_defs wA' ++ level_defs wC ++ level_defs wD)) wD = Some n
             /\ node_subs n = node_subs (own_node wA') /\ node_subs n <> node_subs (own_node wD)
             (* D's element {11, 13} (12 is optional there) is rejected: 12 is mandatory in A' *)
             /\ probe_outcome (fun _ => false) wHdr n [] [PGroup 5001 [[PField 11; PField 13]]] = 3
             /\ probe_outcome (fun _ => false) wHdr (own_node wD) [] [PGroup 5001 [[PField 11; PField 13]]] = 0).
Proof.
  split; eexists; (split; [vm_compute; reflexivity|]);
    (split; [vm_compute; reflexivity|]); (split; [vm_compute; discriminate|]); split; vm_compute; reflexivity.
Qed.

(* ================================================================== non-vacuity *)
(* three messages: M1 and M2 use NoLegs with the same definition (nested NoSub inside), M3 uses
   NoLegs with other members (another hash) and NoSub on its own with another definition *)
Definition nvLegs : ritem :=
  RGroup 555 true [] [RField 600 15 true []; RGroup 556 false [] [RField 601 1 true []; RField 602 11 false []];
                      RField 603 10 false []].
Definition nvX : xschema :=
  mkX [] [] [RField 8 15 true []; RField 9 2 true []; RField 35 15 true []] [RField 10 15 true []]
      [ (mkMsg [77] [65] false [], [RField 58 15 false []; nvLegs]);
        (mkMsg [78] [66] false [], [nvLegs; RField 59 15 true []]);
        (mkMsg [79] [67] false [], [RGroup 555 false [] [RField 600 15 true []; RField 604 1 false []];
                                    RGroup 556 true [] [RField 602 11 true []]]) ].

Lemma nonvacuous_lemma :
  defs_injective (schema_defs nvX) = true
  /\ length (schema_defs nvX) = 6%nat
  /\ (forall m its, In (m, its) (x_msgs nvX) -> (level_depth its < FUEL)%nat)
  /\ (exists a b, In a (schema_defs nvX) /\ In b (schema_defs nvX) /\ fst a = fst b /\ snd a <> snd b).
Proof.
  split; [vm_compute; reflexivity|]. split; [vm_compute; reflexivity|]. split.
  - intros m its H. cbn in H. destruct H as [H|[H|[H|[]]]]; inversion H; subst; vm_compute; lia.
  - exists (555, [RField 600 15 true []; RGroup 556 false [] [RField 601 1 true []; RField 602 11 false []]; RField 603 10 false []]),
           (555, [RField 600 15 true []; RField 604 1 false []]).
    split; [vm_compute; tauto|]. split; [vm_compute; tauto|]. split; [reflexivity | discriminate].
Qed.

(* ================================================================== the hash recurses into nested groups *)
(* what a nested group contributes to its parent's hash is the structural hash of its own body
   (group_hash(pp.second)), not its count field number *)
Lemma item_hash_group_lemma : forall n r c sub, item_hash (RGroup n r c sub) = [([n], group_hash sub)].
Proof. reflexivity. Qed.

(* NoAllocs{79, 80, NoMiscFees{137, 138}} and NoAllocs{79, 80, NoMiscFees{137, 139}}: same direct members,
   different nested members.  The pinned f8c prints "hash: 0x7a05739b" and "hash: 0x7a05739a" for them;
   the model computes the same two values, so the definitions are kept apart and (c14_sound_if_no_clash)
   each message gets the nested classes of its own definition. *)
Definition nhA : list ritem :=
  [RField 79 15 false []; RField 80 1 false []; RGroup 136 false [] [RField 137 15 false []; RField 138 15 false []]].
Definition nhB : list ritem :=
  [RField 79 15 false []; RField 80 1 false []; RGroup 136 false [] [RField 137 15 false []; RField 139 15 false []]].
Definition nhMsgA : list ritem := [RField 70 15 true []; RGroup 78 false [] nhA].
Definition nhMsgB : list ritem := [RField 70 15 true []; RGroup 78 false [] nhB].

Lemma hash_covers_nested_lemma :
  level_nums nhA = level_nums nhB
  /\ group_hash nhA = 2047177627 /\ group_hash nhB = 2047177626
  /\ msg_clash (level_defs nhMsgA ++ level_defs nhMsgB) nhMsgB = false
  /\ f8c_node FUEL (build_gm (level_defs nhMsgA ++ level_defs nhMsgB)) nhMsgB = Some (own_node nhMsgB)
  /\ own_node nhMsgB <> own_node nhMsgA.
Proof.
  split; [vm_compute; reflexivity|]. split; [vm_compute; reflexivity|]. split; [vm_compute; reflexivity|].
  split; [vm_compute; reflexivity|]. split; [vm_compute; reflexivity | vm_compute; discriminate].
Qed.

(* the value is mixed in with all of its 32 bits: for a fixed running hash, different values (e.g.
   the hashes of two nested definitions, however little they differ) give different results *)
Lemma rothash_value_injective_lemma : forall r v1 v2, rothash r v1 = rothash r v2 -> v1 = v2.
Proof.
  intros r v1 v2 H. unfold rothash in H. apply N.lxor_eq.
  apply N.lxor_eq_0_iff in H. rewrite <- H.
  apply N.bits_inj. intro n. rewrite !N.lxor_spec. btauto.
Qed.
