(* Property C14 as an executable predicate on observables: in the compiled output of f8c every
   repeating group of a message (at every depth) carries the traits of that message's OWN
   definition of the group (Schema.own_node of the message's expanded items), and the message's
   probes are encoded and decoded according to that own definition (Probe.probe_outcome on the
   own trees).  Written from the property text; it does not mention hashes or sharing. *)
From Coq Require Import NArith List Bool.
From F8 Require Import C13.SMap C13.Schema C13.Probe C13.Spec_C13.
Import ListNotations.
Local Open Scope N_scope.

(* the message's own trees: component expansion by the uniform rule, no sharing *)
Definition own_tree_x (x : xschema) (mtype : bytes) : option mnode :=
  if key_eqb mtype HEADER then Some (own_node (x_header x))
  else if key_eqb mtype TRAILER then Some (own_node (x_trailer x))
  else match find (fun mr => key_eqb (md_type (fst mr)) mtype) (x_msgs x) with
       | Some mr => Some (own_node (snd mr))
       | None => None
       end.

Definition own_tree (s : schema) (mtype : bytes) : option mnode :=
  match expand_schema false s with
  | Some x => own_tree_x x mtype
  | None => None
  end.

Definition c14_ok_x (x : xschema) (mtype : bytes) (impl : mnode)
           (probes : list (list pnode * list pnode)) (outs : list N) : bool :=
  match own_tree_x x mtype, own_tree_x x HEADER with
  | Some n, Some h =>
      subs_eqb n impl
      && list_eqb N.eqb (map (fun p => probe_outcome (fun _ => false) h n (fst p) (snd p)) probes) outs
  | _, _ => false
  end.

Definition c14_ok (s : schema) (mtype : bytes) (impl : mnode)
           (probes : list (list pnode * list pnode)) (outs : list N) : bool :=
  match expand_schema false s with
  | Some x => c14_ok_x x mtype impl probes outs
  | None => false
  end.
