(* f8c's sharing of repeating-group metadata (compiler/f8c.cpp: parse_groups 633-708,
   group_hash 1539-1555, find_group 1558-1568, generate_group_bodies 742-850) and
   include/fix8/f8utils.hpp: rothash 230-234, transcribed with the defect: the key under which a
   group definition is stored and later looked up is (count field, hash of the member field
   NUMBERS in ascending order and of the nested groups' hashes) -- positions, required flags,
   component indices and hash collisions are invisible to it.  No proofs in this file. *)
From Coq Require Import NArith List Bool.
From F8 Require Import C13.SMap C13.Schema.
Import ListNotations.
Local Open Scope N_scope.

Definition W32 : N := 4294967296.
Definition M32 : N := 4294967295.
Definition KROT : N := 2147489793.   (* 0x80001801 *)

(* inline unsigned rothash(unsigned result, unsigned value)
   { return result ^= (result >> 2) ^ (result << 5) ^ (result << 13) ^ value ^ 0x80001801; } *)
Definition rot_l (r : N) : N :=
  N.lxor (N.lxor (N.lxor r (N.shiftr r 2)) (N.land (N.shiftl r 5) M32)) (N.land (N.shiftl r 13) M32).

Definition rothash (r v : N) : N := N.lxor (N.lxor (rot_l r) v) KROT.

(* the numbers in a group's FieldTraits (Presence is sorted by field number; the count fields
   of nested groups are members too) *)
Definition level_nums (its : list ritem) : list N :=
  map (fun kv => t_num (snd kv)) (level_traits its).

(* uint32_t group_hash(const MessageSpec& p1):
     for (pp : p1._fields.get_presence()) result = rothash(result, pp._fnum);
     for (pp : p1._groups)                result = rothash(result, group_hash(pp.second));
   p1._groups is a std::map keyed by the count field; a second group with the same count field
   in one level is refused (first wins). *)
Fixpoint item_hash (x : ritem) : list (key * N) :=
  match x with
  | RField _ _ _ _ => []
  | RGroup num _ _ sub =>
      [([num], fold_left rothash (sm_vals (sm_of_list (flat_map item_hash sub)))
                         (fold_left rothash (level_nums sub) 0))]
  end.

Definition group_hash (sub : list ritem) : N :=
  fold_left rothash (sm_vals (sm_of_list (flat_map item_hash sub))) (fold_left rothash (level_nums sub) 0).

(* ------------------------------------------------------------------ CommonGroupMap *)
Definition gdef := list ritem.                       (* the body of a <group> *)
Definition cgroups := list (key * gdef).             (* CommonGroups: hash -> first definition *)
Definition gmap := list (key * cgroups).             (* CommonGroupMap: count field -> CommonGroups *)

(* the definitions in the order parse_groups stores them: nested groups before their parent,
   siblings in document order *)
Fixpoint item_defs (x : ritem) : list (N * gdef) :=
  match x with
  | RField _ _ _ _ => []
  | RGroup num _ _ sub => flat_map item_defs sub ++ [(num, sub)]
  end.

Definition level_defs (its : list ritem) : list (N * gdef) := flat_map item_defs its.

(* load_messages walks header, trailer, then the messages in document order *)
Definition schema_defs (x : xschema) : list (N * gdef) :=
  level_defs (x_header x) ++ level_defs (x_trailer x)
  ++ flat_map (fun mr => level_defs (snd mr)) (x_msgs x).

(* cgitr->second.insert(make_pair(hv, def)) : insert if absent *)
Definition gm_ins (gm : gmap) (d : N * gdef) : gmap :=
  let h := group_hash (snd d) in
  match sm_find [fst d] gm with
  | None => sm_ins [fst d] [([h], snd d)] gm
  | Some cg => sm_set [fst d] (sm_ins [h] (snd d) cg) gm
  end.

Definition build_gm (defs : list (N * gdef)) : gmap := fold_left gm_ins defs [].

(* find_group(globmap, vers, tp, key) *)
Definition gm_find (gm : gmap) (num h : N) : option gdef :=
  match sm_find [num] gm with
  | Some cg => sm_find [h] cg
  | None => None
  end.

(* ------------------------------------------------------------------ what gets generated *)
(* generate_group_bodies(ms): for every group of ms (its own map of groups), the definition
   found under (count field, ms's hash of it) supplies the traits AND the nested groups that are
   generated below it.  Fuel bounds the nesting (a definition can only be found under its own
   key, but nothing in f8c prevents that key from being shared with an enclosing one). *)
Definition own_groups (its : list ritem) : list (key * gdef) :=
  sm_of_list (flat_map (fun x => match x with
                                 | RGroup n _ _ sub => [([n], sub)]
                                 | RField _ _ _ _ => []
                                 end) its).

Fixpoint f8c_node (fuel : nat) (gm : gmap) (its : list ritem) : option mnode :=
  match fuel with
  | O => None
  | S f =>
    match fold_right (fun kd acc =>
                        match acc, fst kd with
                        | Some l, [n] =>
                            match gm_find gm n (group_hash (snd kd)) with
                            | Some d => match f8c_node f gm d with
                                        | Some nd => Some ((fst kd, nd) :: l)
                                        | None => None end
                            | None => None              (* "<n> not found": the class is not generated *)
                            end
                        | _, _ => None
                        end) (Some []) (own_groups its) with
    | Some subs => Some (MNode (level_traits its) subs)
    | None => None
    end
  end.

(* THE MODEL of what f8c generates: component expansion with the depth-3 quirk, tables as
   specified, groups resolved through the CommonGroupMap *)
Definition f8c_meta (s : schema) : option meta :=
  match expand_schema true s with
  | Some x =>
    let gm := build_gm (schema_defs x) in
    match tables_of s x, nodes_of (f8c_node FUEL gm) x with
    | Some t, Some n => Some (mkMeta t n)
    | _, _ => None
    end
  | None => None
  end.

(* ------------------------------------------------------------------ the decidable premises *)
Fixpoint ritem_eqb (a b : ritem) : bool :=
  match a, b with
  | RField n1 t1 r1 c1, RField n2 t2 r2 c2 => (n1 =? n2) && (t1 =? t2) && Bool.eqb r1 r2 && key_eqb c1 c2
  | RGroup n1 r1 c1 s1, RGroup n2 r2 c2 s2 =>
      (n1 =? n2) && Bool.eqb r1 r2 && key_eqb c1 c2
      && (fix go (l1 l2 : list ritem) : bool :=
            match l1, l2 with
            | [], [] => true
            | x :: t1, y :: t2 => ritem_eqb x y && go t1 t2
            | _, _ => false
            end) s1 s2
  | _, _ => false
  end.

Fixpoint gdef_eqb (l1 l2 : gdef) : bool :=
  match l1, l2 with
  | [], [] => true
  | x :: t1, y :: t2 => ritem_eqb x y && gdef_eqb t1 t2
  | _, _ => false
  end.

(* every definition with its key, computed once *)
Definition keyed (defs : list (N * gdef)) : list (N * N * gdef) :=
  map (fun d => (fst d, group_hash (snd d), snd d)) defs.

Definition same_key (a b : N * N * gdef) : bool :=
  (fst (fst a) =? fst (fst b)) && (snd (fst a) =? snd (fst b)).

(* group_hash is injective on the definitions of the schema: two definitions stored under the
   same (count field, hash) are the same definition *)
Definition kinj (kl : list (N * N * gdef)) : bool :=
  forallb (fun a => forallb (fun b => negb (same_key a b) || gdef_eqb (snd a) (snd b)) kl) kl.

Definition defs_injective (defs : list (N * gdef)) : bool := kinj (keyed defs).

(* the same, restricted to the definitions that occur in one message (classifier of F18):
   some definition of the message is not the first one stored under its key *)
Fixpoint first_def (kl : list (N * N * gdef)) (n h : N) : option gdef :=
  match kl with
  | [] => None
  | d :: tl => if (fst (fst d) =? n) && (snd (fst d) =? h) then Some (snd d) else first_def tl n h
  end.

Definition msg_clash (all : list (N * gdef)) (its : list ritem) : bool :=
  let kl := keyed all in
  existsb (fun d => match first_def kl (fst d) (group_hash (snd d)) with
                    | Some d' => negb (gdef_eqb d' (snd d))
                    | None => true
                    end) (level_defs its).

(* no level uses one count field twice (then first_groups drops nothing) *)
Fixpoint groups_nodup (x : ritem) : bool :=
  match x with
  | RField _ _ _ _ => true
  | RGroup _ _ _ sub =>
      nodup_keys (map (fun y => [item_num y]) (filter is_group sub)) && forallb groups_nodup sub
  end.
Definition level_groups_nodup (its : list ritem) : bool :=
  nodup_keys (map (fun y => [item_num y]) (filter is_group its)) && forallb groups_nodup its.

Fixpoint item_depth (x : ritem) : nat :=
  match x with
  | RField _ _ _ _ => O
  | RGroup _ _ _ sub => S (fold_right (fun y m => Nat.max (item_depth y) m) O sub)
  end.
Definition level_depth (its : list ritem) : nat := fold_right (fun y m => Nat.max (item_depth y) m) O its.
