(* C15 — model of the socket reader's framing:
     include/fix8/connection.hpp   FIXReader::sockRead           (the non-buffered variant, which is
                                                                  the one compiled: FIX8_EXPERIMENTAL_BUFFERED_SOCKET_READ is off)
     runtime/connection.cpp        FIXReader::read, FIXReader::execute (threaded model, pm_thread)
     include/fix8/message.hpp      MessageBase::extract_element (the char-buffer overload)
     include/fix8/f8utils.hpp      fast_atoi<unsigned>
   transcribed statement by statement, defects included.  The stack buffers are INSTRUMENTED:
   a write at an index >= the capacity of msg_buf / tag / val yields [OOob site] (this is what
   ASan reports on the real code); nothing else about memory is modelled.
   No proofs in this file. *)
From Coq Require Import NArith List Bool Arith.
Import ListNotations.

Notation byte := N (only parsing).

Definition SOH : byte := 1%N.        (* default_field_separator *)
Definition EQS : byte := 61%N.       (* default_assignment_separator '=' *)
Definition isdigit (b : byte) : bool := (48 <=? b)%N && (b <=? 57)%N.

(* the constants of the reader: BeginString of the session's context, _max_msg_len (=
   FIX8_MAX_MSG_LENGTH, also the size of msg_buf), MAX_MSGTYPE_FIELD_LEN (char tag[..]) and
   FIX8_MAX_FLD_LENGTH (char val[..]) *)
Record params := mk_params {
  p_begin : list byte;
  p_max : nat;
  p_tagcap : nat;
  p_valcap : nat
}.

(* FIXReader::set_preamble_sz: _bg_sz = 2 + beginStr.size() + 1 + 3     "8=FIXx.x^A9=x" *)
Definition bg_sz (p : params) : nat := 2 + length (p_begin p) + 1 + 3.
Definition chksum_sz : nat := 7.

(* ------------------------------------------------------------------------------------------ *)
(* The socket: the inbound byte stream as the list of chunks still to come.  One receiveBytes(buf, n)
   call returns min(n, |head chunk|) bytes of the head chunk (harness/vsock.hpp; a TCP socket may
   return any non-empty prefix of what has arrived).  An empty chunk list = nothing more will
   arrive: receiveBytes blocks for ever (peer still connected) or returns 0 (peer closed), which
   of the two is decided by the caller ([ending_of]). *)
Definition sock := list (list byte).

(* FIXReader::sockRead(where, sz):
     remaining = sz; rddone = 0;
     while (remaining > 0) { rdSz = receiveBytes(where + rddone, remaining);
                             if (rdSz <= 0) ... throw PeerResetConnection; rddone += rdSz; remaining -= rdSz; }
     return rddone;
   Some bytes = the sz bytes read; None = the stream ended first (everything left was consumed). *)
Fixpoint sock_read (n : nat) (s : sock) {struct s} : option (list byte) * sock :=
  match n with
  | O => (Some [], s)
  | _ =>
    match s with
    | [] => (None, [])
    | c :: rest =>
      if n <? length c then (Some (firstn n c), skipn n c :: rest)
      else
        let (r, s') := sock_read (n - length c) rest in
        (match r with Some bs => Some (c ++ bs) | None => None end, s')
    end
  end.

(* ------------------------------------------------------------------------------------------ *)
Inductive site := SiteMsgBuf | SiteTag | SiteVal.

(* const char* semantics: the bytes before the first NUL *)
Fixpoint cstr (l : list byte) : list byte :=
  match l with
  | [] => []
  | b :: r => if (b =? 0)%N then [] else b :: cstr r
  end.

Fixpoint list_eqb (a b : list byte) : bool :=
  match a, b with
  | [], [] => true
  | x :: a', y :: b' => (x =? y)%N && list_eqb a' b'
  | _, _ => false
  end.

Definition head_is (l : list byte) (c : byte) : bool :=
  match l with b :: _ => (b =? c)%N | [] => false end.

(* ------------------------------------------------------------------------------------------ *)
(* MessageBase::extract_element(from, sz, tag, val) with tag and val the caller's char arrays
   (template over their sizes TagSz / ValSz = p_tagcap / p_valcap).
   rtag / rval: the bytes written so far into tag[] / val[], in reverse; a write at index
   [length r..] >= capacity is an out-of-bounds write.  Result: bytes consumed (0 = failure) and
   the contents of tag[] and val[] before their terminating NUL. *)
Inductive ee_res :=
| EEOob (s : site)
| EERet (consumed : nat) (tag val : list byte).

(* "*val = *tag = 0" : the store to *tag is sequenced first *)
Definition ee_term (p : params) (ret : nat) (rtag rval : list byte) : ee_res :=
  if p_tagcap p <=? length rtag then EEOob SiteTag
  else if p_valcap p <=? length rval then EEOob SiteVal
  else EERet ret (rev rtag) (rev rval).

(* state get_value.  Since commit d48d8ce ("extract_element never writes past the caller's tag and
   value buffers") a value byte arriving with ValSz-1 characters written ends the extraction:
   "if (vptr == vend) return *vptr = *tptr = 0;".  The writes stay instrumented. *)
Fixpoint ee_val (p : params) (from : list byte) (ii : nat) (rtag rval : list byte) : ee_res :=
  match from with
  | [] => ee_term p 0 rtag rval                         (* loop ends: return *vptr = *tptr = 0 *)
  | b :: r =>
    if (b =? SOH)%N then ee_term p (S ii) rtag rval     (* *vptr = *tptr = 0; return ++ii *)
    else if length rval =? p_valcap p - 1 then ee_term p 0 rtag rval   (* value does not fit *)
    else if p_valcap p <=? length rval then EEOob SiteVal   (* *vptr++ = from[ii] *)
    else ee_val p r (S ii) rtag (b :: rval)
  end.

(* state get_tag; "else if (tptr == tend) return *vptr = *tptr = 0;" for a tag that does not fit *)
Fixpoint ee_tag (p : params) (from : list byte) (ii : nat) (rtag : list byte) : ee_res :=
  match from with
  | [] => ee_term p 0 rtag []
  | b :: r =>
    if isdigit b then
      if length rtag =? p_tagcap p - 1 then ee_term p 0 rtag []
      else if p_tagcap p <=? length rtag then EEOob SiteTag      (* *tptr++ = from[ii] *)
      else ee_tag p r (S ii) (b :: rtag)
    else if (b =? EQS)%N then ee_val p r (S ii) rtag []
    else ee_term p 0 rtag []                                (* return *vptr = *tptr = 0 *)
  end.

(* extract_element as it was before d48d8ce (no bound on either buffer): kept only for the
   witness c15_overflow_orig_refuted *)
Fixpoint ee_val_orig (p : params) (from : list byte) (ii : nat) (rtag rval : list byte) : ee_res :=
  match from with
  | [] => ee_term p 0 rtag rval
  | b :: r =>
    if (b =? SOH)%N then ee_term p (S ii) rtag rval
    else if p_valcap p <=? length rval then EEOob SiteVal
    else ee_val_orig p r (S ii) rtag (b :: rval)
  end.

Fixpoint ee_tag_orig (p : params) (from : list byte) (ii : nat) (rtag : list byte) : ee_res :=
  match from with
  | [] => ee_term p 0 rtag []
  | b :: r =>
    if isdigit b then
      if p_tagcap p <=? length rtag then EEOob SiteTag
      else ee_tag_orig p r (S ii) (b :: rtag)
    else if (b =? EQS)%N then ee_val_orig p r (S ii) rtag []
    else ee_term p 0 rtag []
  end.

Definition extract_element_orig (p : params) (from : list byte) : ee_res := ee_tag_orig p from 0 [].

Definition extract_element (p : params) (from : list byte) : ee_res := ee_tag p from 0 [].

(* ------------------------------------------------------------------------------------------ *)
(* fast_atoi<unsigned>(str):  retval = (retval << 3) + (retval << 1) + *str - '0'   in 32-bit
   unsigned arithmetic; *str is a (signed) char converted to unsigned.  No check that the
   characters are digits, no overflow check. *)
Definition W32 : N := 4294967296%N.
Definition atoi_step (acc : N) (b : byte) : N :=
  ((acc * 10 + b + (if (b <? 128)%N then 4294967248 else 4294966992)) mod W32)%N.
     (* 2^32 - 48                      2^32 - 48 - 256 (negative char) *)
Definition atoi_u32 (l : list byte) : N := fold_left atoi_step l 0%N.

(* ------------------------------------------------------------------------------------------ *)
(* the do { } while loop of FIXReader::read after the first _bg_sz bytes:
     do { if (sockRead(&bt, 1) != 1) return false;
          if (!isdigit(bt) && bt != SOH) throw IllegalMessage(msg_buf, FILE_LINE);
          msg_buf[offs++] = bt; }
     while (bt != SOH && offs < _max_msg_len);
   racc = msg_buf[0..offs) reversed. *)
Inductive pre_res :=
| PDone (buf : list byte)
| PEos
| PIllegal (buf : list byte)
| POob
| PFuel.

Fixpoint pre_loop (fuel : nat) (p : params) (racc : list byte) (offs : nat) (s : sock) : pre_res * sock :=
  match fuel with
  | O => (PFuel, s)
  | S f =>
    match sock_read 1 s with
    | (Some [bt], s') =>
      if negb (isdigit bt) && negb (bt =? SOH)%N then (PIllegal (rev racc), s')
      else if p_max p <=? offs then (POob, s')                 (* msg_buf[offs++] = bt *)
      else
        if negb (bt =? SOH)%N && (S offs <? p_max p) then pre_loop f p (bt :: racc) (S offs) s'
        else (PDone (rev (bt :: racc)), s')
    | (_, s') => (PEos, s')
    end
  end.

(* what one call of FIXReader::read does *)
Inductive outcome :=
| OMsg (m : list byte)            (* returns true: [m] is handed to Session::process *)
| OEos                            (* sockRead met the end of the stream: blocks / PeerResetConnection *)
| OIllegal (text : list byte)     (* IllegalMessage; the text given to the exception *)
| OBadVersion (text : list byte)  (* InvalidVersion(string(val)) *)
| OBadLen (n : N)                 (* InvalidBodyLength(mlen) *)
| OOob (s : site)                 (* out-of-bounds write (ASan: stack-buffer-overflow) *)
| OFuel.                          (* never: see pre_loop_fuel_enough *)

(* mlen > _max_msg_len - _bg_sz - _chksum_sz : the right-hand side is size_t arithmetic *)
Definition W64 : N := 18446744073709551616%N.
Definition len_limit (p : params) : N :=
  ((N.of_nat (p_max p) + W64 - N.of_nat (bg_sz p) - N.of_nat chksum_sz) mod W64)%N.

(* the rest of FIXReader::read once BodyLength has been converted: bound test, body, trailer *)
Definition read_body (p : params) (to : list byte) (mlen : N) (s2 : sock) : outcome * sock :=
  if (mlen =? 0)%N || (len_limit p <? mlen)%N then (OBadLen mlen, s2)     (* throw InvalidBodyLength(mlen) *)
  else
    let n := N.to_nat mlen in
    (* sockRead(msg_buf, mlen); sockRead(msg_buf + mlen, _chksum_sz) *)
    if p_max p <? n + chksum_sz then (OOob SiteMsgBuf, s2) else
    match sock_read n s2 with
    | (None, s3) => (OEos, s3)
    | (Some body, s3) =>
      match sock_read chksum_sz s3 with
      | (None, s4) => (OEos, s4)
      | (Some chk, s4) => (OMsg (to ++ body ++ chk), s4)   (* to.append(msg_buf, mlen + 7) *)
      end
    end.

(* "*tag != c || tag[1]": tag[] holds the digits of the tag and a NUL, so the test passes exactly
   for the one-character tag c (commit cb750d0; before: only the first character was compared) *)
Definition tag_exact (tag : list byte) (c : byte) : bool :=
  match tag with [b] => (b =? c)%N | _ => false end.

(* "*val && !isdigit(*val)" (commit b287a2f): the first character of the BodyLength value came with
   the fixed-size first read and was not checked by the digit loop *)
Definition first_not_digit (val : list byte) : bool :=
  match val with b :: _ => negb (b =? 0)%N && negb (isdigit b) | [] => false end.

(* the part of FIXReader::read between the preamble loop and the body: the two extract_element
   calls into char tag[MAX_MSGTYPE_FIELD_LEN], val[FIX8_MAX_FLD_LENGTH] *)
Definition read_fields (p : params) (to : list byte) (s2 : sock) : outcome * sock :=
  match extract_element p to with
  | EEOob st => (OOob st, s2)
  | EERet r1 tag1 val1 =>
    if r1 =? 0 then (OIllegal to, s2)                  (* falls through to the final throw *)
    else if negb (tag_exact tag1 56%N) then (OIllegal to, s2)      (* *tag != '8' || tag[1] *)
    else if negb (list_eqb (cstr val1) (p_begin p)) then (OBadVersion (cstr val1), s2)
    else
      match extract_element p (skipn r1 to) with
      | EEOob st => (OOob st, s2)
      | EERet r2 tag2 val2 =>
        if r2 =? 0 then (OIllegal to, s2)
        else if negb (tag_exact tag2 57%N) then (OIllegal to, s2)  (* *tag != '9' || tag[1] *)
        else if first_not_digit val2 then (OIllegal to, s2)        (* *val && !isdigit( *val) *)
        else read_body p to (atoi_u32 (cstr val2)) s2              (* mlen = fast_atoi<unsigned>(val) *)
      end
  end.

(* FIXReader::read as it was before cb750d0 / b287a2f (first character of the tags only, first
   BodyLength character unchecked): kept only for the witnesses c15_lenient_orig_refuted *)
Definition read_fields_orig (p : params) (to : list byte) (s2 : sock) : outcome * sock :=
  match extract_element p to with
  | EEOob st => (OOob st, s2)
  | EERet r1 tag1 val1 =>
    if r1 =? 0 then (OIllegal to, s2)
    else if negb (head_is tag1 56%N) then (OIllegal to, s2)        (* *tag != '8' *)
    else if negb (list_eqb (cstr val1) (p_begin p)) then (OBadVersion (cstr val1), s2)
    else
      match extract_element p (skipn r1 to) with
      | EEOob st => (OOob st, s2)
      | EERet r2 tag2 val2 =>
        if r2 =? 0 then (OIllegal to, s2)
        else if negb (head_is tag2 57%N) then (OIllegal to, s2)    (* *tag != '9' *)
        else read_body p to (atoi_u32 (cstr val2)) s2
      end
  end.

Definition read_msg (p : params) (s : sock) : outcome * sock :=
  let bg := bg_sz p in
  (* char msg_buf[_max_msg_len] {};  sockRead(msg_buf, _bg_sz) *)
  match sock_read bg s with
  | (None, s1) => (OEos, s1)
  | (Some pre, s1) =>
    if p_max p <? bg then (OOob SiteMsgBuf, s1) else
    match pre_loop (p_max p) p (rev pre) bg s1 with
    | (PEos, s2) => (OEos, s2)
    | (PIllegal buf, s2) => (OIllegal (cstr buf), s2)      (* IllegalMessage(msg_buf): a C string *)
    | (POob, s2) => (OOob SiteMsgBuf, s2)
    | (PFuel, s2) => (OFuel, s2)
    | (PDone to, s2) => read_fields p to s2                (* to.assign(msg_buf, offs) *)
    end
  end.

(* FIXReader::execute, threaded model: while (!cancelled && !shutdown) { if (read(msg)) process(msg); }
   with every exception ending the loop.  Session::process returning false only bumps a counter.
   Result: the strings handed to Session::process in order, and what ended the loop. *)
Fixpoint read_all (fuel : nat) (p : params) (s : sock) : list (list byte) * outcome :=
  match fuel with
  | O => ([], OFuel)
  | S f =>
    match read_msg p s with
    | (OMsg m, s') => let (d, e) := read_all f p s' in (m :: d, e)
    | (o, _) => ([], o)
    end
  end.

Definition total (s : sock) : nat := length (concat s).

(* how the reader thread ends, as observed from outside *)
Inductive ending :=
| EWait                           (* blocked in receiveBytes, peer still connected *)
| EPeerReset                      (* PeerResetConnection: receiveBytes returned 0 *)
| EIllegal (text : list byte)      (* text of the exception as what() shows it *)
| EBadVersion (text : list byte)
| EBadLen (n : N)
| EOob
| EOther.

Definition ending_of (o : outcome) (closed : bool) : ending :=
  match o with
  | OEos => if closed then EPeerReset else EWait
  | OIllegal t => EIllegal (cstr t)      (* observed through what(), a C string *)
  | OBadVersion t => EBadVersion t
  | OBadLen n => EBadLen n
  | OOob _ => EOob
  | OMsg _ | OFuel => EOther
  end.

(* a whole run: [closed] = the peer closes the connection after the last chunk *)
Definition run (p : params) (chunks : sock) (closed : bool) : list (list byte) * ending :=
  let (d, o) := read_all (S (total chunks)) p chunks in (d, ending_of o closed).

(* the same reader with the old field tests (witnesses only) *)
Definition read_msg_orig (p : params) (s : sock) : outcome * sock :=
  let bg := bg_sz p in
  match sock_read bg s with
  | (None, s1) => (OEos, s1)
  | (Some pre, s1) =>
    if p_max p <? bg then (OOob SiteMsgBuf, s1) else
    match pre_loop (p_max p) p (rev pre) bg s1 with
    | (PEos, s2) => (OEos, s2)
    | (PIllegal buf, s2) => (OIllegal (cstr buf), s2)
    | (POob, s2) => (OOob SiteMsgBuf, s2)
    | (PFuel, s2) => (OFuel, s2)
    | (PDone to, s2) => read_fields_orig p to s2
    end
  end.

Fixpoint read_all_orig (fuel : nat) (p : params) (s : sock) : list (list byte) * outcome :=
  match fuel with
  | O => ([], OFuel)
  | S f =>
    match read_msg_orig p s with
    | (OMsg m, s') => let (d, e) := read_all_orig f p s' in (m :: d, e)
    | (o, _) => ([], o)
    end
  end.

Definition run_orig (p : params) (chunks : sock) (closed : bool) : list (list byte) * ending :=
  let (d, o) := read_all_orig (S (total chunks)) p chunks in (d, ending_of o closed).

(* the longest preamble field value extract_element accepts: ValSz - 1 *)
Definition max_width (p : params) : nat := p_valcap p - 1.

(* the configuration of the pinned tree with the UTEST (FIX.4.2) context *)
Definition fix42 : list byte := [70; 73; 88; 46; 52; 46; 50]%N.
Definition std_params (begin : list byte) : params :=
  mk_params begin (N.to_nat 8192) 32 (N.to_nat 2048).
